"""
Registry of the property checks: which Lean module and theorems decide the property, which harness
binary validates the model against the code and searches for a failing input.
"""

TRUSTED_BASE = [
    "Lean 4.33 kernel; axioms actually used are listed per theorem (only propext, Quot.sound, Classical.choice are accepted)",
    "the hand-written Lean model under /verif/lean/ImapVerif (nothing in /repo is verified from source; the model is tied to the code by the correspondence run of this check)",
    "the correspondence harness /verif/harness (generators, serialiser, oracles) and ./check",
    "nom 7.1.3 streaming combinators as transcribed in ImapVerif/Nom.lean (validated only by correspondence)",
    "Rust std: u32/u64::from_str on digit strings, str::from_utf8, str::chars (modelled in ImapVerif/Bytes.lean)",
]

PARSER_COMMON = {
    "crate": "vh-proto",
    "bin": "vh_parser",
    "component": "parser (imap_proto::Response::from_bytes vs Grammar.parseResponse)",
}

REGISTRY = {
    "C01": dict(PARSER_COMMON,
        module="ImapVerif.Properties.C01",
        theorems=["C01.parse_no_panic", "C01.parse_verdict", "C01.many0_fuel_irrelevant",
                  "C01.sepList_fuel_irrelevant", "C01.entryName_total", "C01.body_budget"],
        observed=["native stack bytes per recursion level and allocator aborts: observed by parsing nesting 1..20000 at every recursive position on a 2 MiB thread in a child process (exit status), not proved"],
        assumptions=["Res.panic is placed in the model at every unwrap / slice / index / panic! site of the parser sources (DESIGN.md 5.1)",
                     "buffers are shorter than usize::MAX so offset arithmetic cannot overflow"],
        explanation="parse_no_panic and parse_verdict hold for every byte string (no length bound); loops are fuel recursions with fuel-irrelevance theorems; recursion depth is bounded by the nesting budget by construction",
    ),
    "C02": dict(PARSER_COMMON,
        module="ImapVerif.Properties.C02",
        theorems=["C02.parse_stable_ok", "C02.parse_stable_err", "C02.parse_rest_is_suffix",
                  "C02.prefix_incomplete", "C02.split_irrelevant"],
        assumptions=["nom Error and Failure are one class 'reject' for the property (both become io::Error in the codec); the theorems keep them apart"],
        explanation="Stable parseResponse (suffix / ok / err / fail / nopanic) is derived compositionally from one instance per combinator; the property theorems are its fields and a corollary",
    ),
    "C13": dict(PARSER_COMMON,
        module="ImapVerif.Properties.C13",
        theorems=["C13.number_sound", "C13.number64_sound", "C13.number_complete", "C13.number64_complete",
                  "C13.number_rejects", "C13.number64_rejects", "C13.literal_length_exact",
                  "C13.literal_length_overflow"],
        partial=["response-level statement 'an out-of-range numeral inside a bracketed code leaves the code as text' is proved for the leaf (number_rejects) and checked by kernel evaluation on concrete instances (examples in C13.lean); the general response-level theorem is not stated"],
        assumptions=["u32::from_str / u64::from_str on a non-empty all-digit string = decimal value if below 2^32 / 2^64, else Err (validated by the boundary-numeral correspondence)",
                     "every numeric field of the model is produced by number / number64 (visible in Grammar/*.lean)"],
        explanation="exactness, completeness with zero padding and rejection without wrap are theorems about numberB for every digit string; the literal length goes through the same function",
    ),
    "C09": dict(PARSER_COMMON,
        module="ImapVerif.Properties.C09",
        theorems=["C09.complete_line_verdict", "C09.incomplete_is_open", "C09.ok_ends_after_seg",
                  "C09.no_literal_ends_at_first_crlf", "C09.consumed_is_seg",
                  "Line.frameEnd_none_of_segOpen"],
        assumptions=["Line.frameEnd is the IMAP framing rule (scan to CRLF; a line ending in {n} is followed by n literal bytes); the harness has an independently written framer with the same rule"],
        explanation="LineOpen parseResponse: Incomplete implies the buffer is a Seg followed by an open tail; an open buffer holds no complete frame (induction over Seg, generalised over the current line's prefix); hence a complete frame is never answered Incomplete. LineEnd: an accept is a Seg followed by CRLF.",
    ),
    "C10": dict(
        crate="vh-proto", bin="vh_builders",
        component="builders (CommandBuilder::{login,list,select,examine} vs Builders.login/list/select)",
        module="ImapVerif.Properties.C10",
        theorems=["C10.quoted_refuses_iff_crlf", "C10.quoted_never_panics", "C10.quoted_ok", "C10.unescape_quoted",
                  "C10.quoted_no_crlf", "C10.two_args_lex", "C10.login_line_lexes", "C10.list_line_lexes",
                  "C10.select_line_lexes", "C10.two_args_refused", "C10.encode_single_line",
                  "Quoted.escape_utf8"],
        assumptions=["a Rust &str is valid UTF-8 (hypothesis validUtf8 of the theorems)",
                     "NUL and 8-bit bytes inside the quotes are outside the property (it speaks about the two escapes and CR/LF)",
                     "the bytes the client writes are covered by the client-side checks (C06) through the same Builders.encode"],
        explanation="escape / quotedString are total functions on byte strings; an independent lexer of quoted strings recovers exactly the text given for every string without CR/LF, CR/LF is refused, and UTF-8 validity is preserved (so the internal unwrap cannot fire)",
    ),
    "C14": dict(
        crate="vh-proto", bin="vh_builders",
        component="builders (FetchCommand typestate chain vs Builders.fetchCommand)",
        module="ImapVerif.Properties.C14",
        theorems=["C14.fetch_grammatical", "C14.no_second_changed_since", "C14.run_reach", "C14.step_reach",
                  "C14.attrName_rfc", "C14.macroName_rfc"],
        observed=["that rustc admits exactly the transitions of Builders.step: every chain the harness enumerates is compiled Rust calling the real typestate methods (enum over FetchCommand<fetch::*>); the absent transitions are not callable"],
        assumptions=["message numbers and mod-sequence values are non-zero (quantifier of the property)",
                     "SELECT / EXAMINE / LOGIN / LIST lines are covered by C10's lexer theorems; CHECK / CLOSE are constants compared by the correspondence"],
        explanation="CmdGrammar is the fetch production of RFC 3501 / 4466 / 4551 as derivation relations; fetch_grammatical: every call sequence accepted by the typestate machine yields a derivable line whose AST is exactly the call list",
    ),
}
