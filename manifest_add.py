#!/usr/bin/env python3
"""manifest_add.py <id> <<level text>> <<level note>> <<design ref>> : add or replace a check entry in MANIFEST.json"""
import json, sys
pid, text, note, ref = sys.argv[1:5]
m = json.load(open('/verif/MANIFEST.json'))
m['checks'] = [c for c in m['checks'] if c['property_id'] != pid]
m['checks'].append({
    "property_id": pid, "quick_cmd": "./check %s --tier quick" % pid, "thorough_cmd": "./check %s --tier thorough" % pid,
    "evidence_file": "/verif/evidence/%s.json" % pid, "replay_cmd_template": "./check %s --replay {path}" % pid,
    "engine": "lean4-model+correspondence",
    "level_claimed": {"category": "proof", "text": text, "design_ref": ref},
    "level_note": note,
    "technique": "Lean 4 machine-checked proof over a hand-written executable model + differential correspondence check against the Rust implementation"})
m['checks'].sort(key=lambda c: c['property_id'])
m['not_applicable'] = [x for x in m['not_applicable'] if x['property_id'] != pid]
m['engines'][0]['serves_properties'] = sorted(c['property_id'] for c in m['checks'])
json.dump(m, open('/verif/MANIFEST.json', 'w'), indent=1)
print("manifest: claimed", [c['property_id'] for c in m['checks']])
