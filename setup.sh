#!/bin/sh
# Build the framework from files on disk only (offline): Lean library + model driver, harness binaries.
set -e
here=$(cd "$(dirname "$0")" && pwd)
cd "$here/harness"
[ -f Cargo.lock ] || cp /repo/Cargo.lock Cargo.lock
CARGO_NET_OFFLINE=true cargo build --release --offline -p vh-proto
if [ -d vh-client/src/bin ] && ls vh-client/src/bin/*.rs >/dev/null 2>&1; then
  CARGO_NET_OFFLINE=true cargo build --release --offline -p vh-client
fi
CARGO_NET_OFFLINE=true cargo build --release --offline -p vh-translate
# structural tie: regenerate the Lean definitions from /repo's parser sources, then build everything
"$here/tie/regen.sh"
cd "$here/lean"
lake build
lake build ImapVerif.Gen.Transfer ImapVerif.Gen.Robust ImapVerif.Gen.Owned
