#!/usr/bin/env python3
"""
mutation/mutate.py [--budget-min N] [--seed S] [--only REGEX] [--list]

Systematic search for blind spots of the checks: small syntactic changes ("mutants") of the anchored
source files of /repo, one at a time, in /repo's working tree (never committed, always reverted).
For each mutant:
  1. cargo build of the crate              -> does not compile: discarded
  2. the repository's own test suite       -> fails: killed by the tests (not interesting here)
  3. the quick checks of the properties anchored in that file, in order, until one reports a violation
     -> detected by <property>;  none: SURVIVOR (to be classified by hand: equivalent / outside every
        property / blind spot)
Results: mutation/results.jsonl (one line per mutant; resumable), summary with --summary.
Never run this while a `vp run` sweep or another seed test is using /repo.
"""
import json, os, random, re, subprocess, sys, time, signal

REPO = "/repo"
VERIF = os.path.dirname(os.path.dirname(os.path.abspath(__file__)))
RESULTS = os.path.join(VERIF, "mutation", "results.jsonl")

PARSER = ["C03", "C01", "C12", "C13", "C02", "C09", "C08", "C16"]
TARGETS = {
    "imap-proto/src/parser/core.rs": PARSER,
    "imap-proto/src/parser/mod.rs": PARSER,
    "imap-proto/src/parser/rfc3501/mod.rs": PARSER,
    "imap-proto/src/parser/rfc3501/body.rs": PARSER,
    "imap-proto/src/parser/rfc3501/body_structure.rs": PARSER,
    "imap-proto/src/parser/rfc2087.rs": PARSER,
    "imap-proto/src/parser/rfc2971.rs": PARSER,
    "imap-proto/src/parser/rfc4314.rs": PARSER,
    "imap-proto/src/parser/rfc4315.rs": PARSER,
    "imap-proto/src/parser/rfc4551.rs": PARSER,
    "imap-proto/src/parser/rfc5161.rs": PARSER,
    "imap-proto/src/parser/rfc5256.rs": PARSER,
    "imap-proto/src/parser/rfc5464.rs": PARSER,
    "imap-proto/src/parser/rfc7162.rs": PARSER,
    "imap-proto/src/parser/gmail.rs": PARSER,
    "imap-proto/src/parser/bodystructure.rs": ["C17"],
    "imap-proto/src/builders/command.rs": ["C14", "C10", "C16"],
    "imap-proto/src/types.rs": ["C15", "C03", "C17"],
    "imap-proto/src/types/acls.rs": ["C15", "C03"],
    "tokio-imap/src/codec.rs": ["C04", "C08", "C07", "C05", "C06"],
    "tokio-imap/src/client.rs": ["C05", "C06", "C11", "C04"],
}


def code_part(line):
    """the line without a trailing // comment (string-literal aware enough for these sources)"""
    out, i, in_s = [], 0, False
    while i < len(line):
        c = line[i]
        if in_s:
            out.append(c)
            if c == "\\":
                if i + 1 < len(line):
                    out.append(line[i + 1]); i += 1
            elif c == '"':
                in_s = False
        else:
            if c == '"':
                in_s = True
            if c == "/" and line[i:i + 2] == "//":
                break
            out.append(c)
        i += 1
    return "".join(out)


def string_spans(code):
    spans, i, start = [], 0, None
    while i < len(code):
        c = code[i]
        if start is None:
            if c == '"':
                start = i
        else:
            if c == "\\":
                i += 1
            elif c == '"':
                spans.append((start, i + 1)); start = None
        i += 1
    return spans


def in_spans(pos, spans):
    return any(a <= pos < b for a, b in spans)


SIMPLE = [
    (r"\btag_no_case\b", "tag", "case"),
    (r"<=", "<", "rel"), (r">=", ">", "rel"), (r" < ", " <= ", "rel"), (r" > ", " >= ", "rel"),
    (r"==", "!=", "rel"), (r"!=", "==", "rel"),
    (r"&&", "||", "bool"), (r"\|\|", "&&", "bool"),
    (r"\bmany0\b", "many1", "rep"), (r"\bmany1\b", "many0", "rep"),
    (r"\bseparated_list0\b", "separated_list1", "rep"), (r"\bseparated_list1\b", "separated_list0", "rep"),
    (r"\btake_while1\b", "take_while", "rep"), (r"\btake_while\b", "take_while1", "rep"),
    (r"\btrue\b", "false", "bool"), (r"\bfalse\b", "true", "bool"),
    (r"\.min\(", ".max(", "rel"), (r"\.max\(", ".min(", "rel"),
    (r"\bis_empty\(\)", "is_empty() == false", "bool"),
    (r" \+ ", " - ", "arith"), (r" - ", " + ", "arith"),
    (r"\bSome\(", "None.or(", "opt"),
]


def candidates(path, text):
    lines = text.split("\n")
    res = []
    in_use = False
    alt_depth = []          # stack of indentation levels of open `alt((`
    prev_branch = None
    for ln, line in enumerate(lines):
        if line.strip().startswith("#[cfg(test)]") and ln + 1 < len(lines) and lines[ln + 1].strip().startswith("mod "):
            break
        s = line.strip()
        if in_use:
            if ";" in s:
                in_use = False
            continue
        if s.startswith("use ") or s.startswith("pub use "):
            if ";" not in s:
                in_use = True
            continue
        if not s or s.startswith("//") or s.startswith("#["):
            continue
        code = code_part(line)
        # branches of alt((...)): removal, and swap with the previous branch
        indent = len(line) - len(line.lstrip())
        cs = code.strip()
        if alt_depth and cs.startswith("))") and indent <= alt_depth[-1]:
            alt_depth.pop()
            prev_branch = None
        elif alt_depth and indent == alt_depth[-1] + 4 and cs.endswith(",") and cs.count("(") == cs.count(")"):
            res.append((ln, "delbranch", line[:indent] + "// (alternative removed)"))
            if prev_branch is not None and prev_branch[0] == ln - 1:
                res.append((ln, "swapbranch", lines[ln - 1] + "\n" + "@@SWAP@@"))
            prev_branch = (ln, line)
        if cs.endswith("alt(("):
            alt_depth.append(indent)
            prev_branch = None
        spans = string_spans(code)
        for pat, rep, kind in SIMPLE:
            for k, m in enumerate(re.finditer(pat, code)):
                if in_spans(m.start(), spans):
                    continue
                if pat in (r" < ", r" > ") and ("->" in code[max(0, m.start() - 2):m.end() + 1]):
                    continue
                new = code[:m.start()] + rep + code[m.end():] + line[len(code):]
                res.append((ln, "%s:%s#%d" % (kind, pat, k), new))
        # integer literals outside strings
        for k, m in enumerate(re.finditer(r"(?<![\w.\"'])(\d+)(?![\w\"'])", code)):
            if in_spans(m.start(), spans):
                continue
            n = int(m.group(1))
            for d in ([1, -1] if n > 0 else [1]):
                new = code[:m.start()] + str(n + d) + code[m.end():] + line[len(code):]
                res.append((ln, "int%+d#%d" % (d, k), new))
        # keywords inside string literals: change the last letter of an upper-case word
        for (a, b) in spans:
            lit = code[a:b]
            for k, m in enumerate(re.finditer(r"[A-Z][A-Z0-9]{1,}", lit)):
                w = m.group(0)
                last = w[-1]
                repl = "Z" if last != "Z" else "Y"
                if last.isdigit():
                    repl = "9" if last != "9" else "8"
                nl = lit[:m.end() - 1] + repl + lit[m.end():]
                new = code[:a] + nl + code[b:] + line[len(code):]
                res.append((ln, "kw#%d@%d" % (k, a), new))
        # delete a plain statement (assignment or call ending in ';')
        if re.match(r"^\s*(self\.|\*?me\.|buf\.|dst\.|[a-z_]+\.)[A-Za-z_.]+(\(.*\)| = .*| \+= .*);\s*$", code) and "let " not in code:
            res.append((ln, "del", re.match(r"^\s*", line).group(0) + "// (statement removed)"))
        # state machine: another state of the same enum
        for k, m in enumerate(re.finditer(r"ResponseStreamState::(Start|Sending|Receiving|Done)\b", code)):
            if "=>" in code and code.strip().startswith("ResponseStreamState::"):
                continue  # match arm patterns: duplicates would not compile
            for other in ("Start", "Sending", "Receiving", "Done"):
                if other != m.group(1):
                    new = code[:m.start()] + "ResponseStreamState::" + other + code[m.end():] + line[len(code):]
                    res.append((ln, "state#%d>%s" % (k, other), new))
        # negation removal
        for k, m in enumerate(re.finditer(r"!(?=[A-Za-z_(])", code)):
            if in_spans(m.start(), spans) or code[m.start() - 1:m.start()].isalnum():
                continue  # macro call like vec! / matches!
            new = code[:m.start()] + code[m.end():] + line[len(code):]
            res.append((ln, "not#%d" % k, new))
    return [(path, ln, op, new) for ln, op, new in res]


def sh(cmd, cwd, timeout):
    env = dict(os.environ, CARGO_NET_OFFLINE="true", VERIF_SEED="1")
    p = subprocess.Popen(cmd, cwd=cwd, stdout=subprocess.PIPE, stderr=subprocess.STDOUT, text=True,
                         env=env, start_new_session=True)
    try:
        out, _ = p.communicate(timeout=timeout)
        return p.returncode, out
    except subprocess.TimeoutExpired:
        os.killpg(p.pid, signal.SIGKILL)
        p.communicate()
        return -9, "TIMEOUT"


def repo_clean():
    rc, out = sh(["git", "status", "--porcelain"], REPO, 60)
    return out.strip() == ""


def restore(path):
    sh(["git", "checkout", "--", path], REPO, 60)


def run_mutant(path, ln, op, new, props):
    full = os.path.join(REPO, path)
    text = open(full).read()
    lines = text.split("\n")
    old = lines[ln]
    if new.endswith("@@SWAP@@"):
        lines[ln - 1], lines[ln] = lines[ln], lines[ln - 1]
        new = "(swapped with the line above: %s)" % lines[ln].strip()
    else:
        lines[ln] = new
    rec = {"file": path, "line": ln + 1, "op": op, "old": old.strip(), "new": new.strip()}
    t0 = time.time()
    try:
        open(full, "w").write("\n".join(lines))
        crate = "imap-proto" if path.startswith("imap-proto") else "tokio-imap"
        rc, out = sh(["cargo", "build", "--offline", "-p", crate] +
                     (["--features", "djc_tokio_imap_verif"] if crate == "tokio-imap" else []), REPO, 600)
        if rc != 0:
            rec["status"] = "nocompile"
            return rec
        rc, out = sh(["cargo", "test", "--workspace", "--offline", "--no-fail-fast"], REPO, 600)
        if rc != 0:
            rec["status"] = "killed_by_tests" if rc != -9 else "tests_timeout"
            return rec
        tried = []
        for p in props:
            rc, out = sh(["./check", p, "--tier", "quick"], VERIF, 1500)
            tried.append(p)
            if "VIOLATION" in out:
                rec["status"] = "detected"
                rec["by"] = p
                m = re.search(r"^check .*$", out, flags=re.M)
                rec["detail"] = (m.group(0) if m else "")[:300]
                nf = "no-failing-input-found" in out
                rec["failing_input"] = not nf
                return rec
            if rc == -9:
                rec["status"] = "check_timeout"
                rec["by"] = p
                return rec
            if rc != 0:
                rec["status"] = "check_error"
                rec["by"] = p
                rec["detail"] = out[-500:]
                return rec
        rec["status"] = "survivor"
        rec["tried"] = tried
        return rec
    finally:
        restore(path)
        rec["secs"] = round(time.time() - t0, 1)


def main():
    args = sys.argv[1:]
    budget = 60
    seed = 1
    only = None
    if "--summary" in args:
        return summary()
    if "--budget-min" in args:
        budget = float(args[args.index("--budget-min") + 1])
    if "--seed" in args:
        seed = int(args[args.index("--seed") + 1])
    if "--only" in args:
        only = re.compile(args[args.index("--only") + 1])
    if not repo_clean():
        print("/repo working tree is not clean"); sys.exit(2)
    allc = []
    for path, props in TARGETS.items():
        text = open(os.path.join(REPO, path)).read()
        cs = candidates(path, text)
        allc.extend((c, props) for c in cs)
    print("candidates:", len(allc))
    if "--list" in args:
        from collections import Counter
        print(Counter(c[0][0] for c in allc))
        return
    done = set()
    if os.path.exists(RESULTS):
        for l in open(RESULTS):
            r = json.loads(l)
            done.add((r["file"], r["line"], r["op"]))
    rng = random.Random(seed)
    rng.shuffle(allc)
    end = time.time() + budget * 60
    n = 0
    for (path, ln, op, new), props in allc:
        if time.time() > end or os.path.exists("/tmp/mutate.stop"):
            break
        if (path, ln + 1, op) in done:
            continue
        if only and not only.search(path + ":" + op):
            continue
        rec = run_mutant(path, ln, op, new, props)
        with open(RESULTS, "a") as f:
            f.write(json.dumps(rec) + "\n")
        n += 1
        print("%4d %-12s %-6s %s:%d %s | %s -> %s" % (n, rec["status"], rec.get("by", ""), path, ln + 1, op,
                                                  rec["old"][:60], rec["new"][:60]), flush=True)
    assert repo_clean()


def summary():
    from collections import Counter
    rs = [json.loads(l) for l in open(RESULTS)]
    c = Counter(r["status"] for r in rs)
    print("mutants:", len(rs), dict(c))
    live = [r for r in rs if r["status"] in ("detected", "survivor", "check_timeout", "check_error")]
    print("passing build + test suite:", len(live))
    print("detected by:", dict(Counter(r.get("by") for r in live if r["status"] == "detected")))
    for r in rs:
        if r["status"] in ("survivor", "check_timeout", "check_error"):
            print("%-13s %s:%d %s | %s -> %s" % (r["status"], r["file"], r["line"], r["op"], r["old"][:70], r["new"][:70]))


if __name__ == "__main__":
    main()
