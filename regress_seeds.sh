#!/bin/sh
# usage: regress_seeds.sh [seed-id-prefix]   - apply every seeded change under seeded/ to /repo in turn, run the
# quick check of the property it breaks, revert; print one line per seed and a summary.  Never commits.
# Do not run while anything else builds against /repo.
cd "$(dirname "$0")" || exit 2
pat="${1:-}"
total=0; caught=0; missed=""
for d in seeded/${pat}*/; do
  id=$(basename "$d")
  prop=$(python3 -c "import json;print(json.load(open('$d/meta.json'))['breaks_property'])")
  out=$(./seedtest.sh "$(pwd)/$d/patch.diff" "$prop" 2>&1)
  total=$((total+1))
  if echo "$out" | grep -q "VIOLATION property=$prop"; then
    caught=$((caught+1)); echo "$id: caught  ($(echo "$out" | grep '^check' | sed 's/.*theorems/theorems/'))"
  else
    missed="$missed $id"; echo "$id: MISSED  $out"
  fi
done
echo "seeds=$total caught=$caught missed:[$missed ]"
git -C /repo status --short | head -3
[ -z "$missed" ]
