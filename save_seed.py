#!/usr/bin/env python3
"""save_seed.py <src_dir> <id> <property> <caught_by> <needs...>  -- copy a confirmed seeded change into /verif/seeded/<id>/"""
import sys, os, shutil, json
src, sid, prop, caught = sys.argv[1:5]
needs = " ".join(sys.argv[5:])
dst = os.path.join("/verif/seeded", sid)
os.makedirs(dst, exist_ok=True)
for f in ("patch.diff", "demo.rs", "notes.txt"):
    if os.path.exists(os.path.join(src, f)):
        shutil.copy(os.path.join(src, f), os.path.join(dst, f))
meta = {
    "id": sid, "breaks_property": prop,
    "needs_to_manifest": needs,
    "confirmed": "applied in a scratch worktree of /repo HEAD: `cargo test --workspace --offline --lib` 78 passed with the change; demo.rs (as imap-proto/tests/seed_demo.rs or tokio-imap/tests/) fails with the change and passes without it (confirm_seed.sh)",
    "checks_run": "seedtest.sh patch.diff <props> (git apply in /repo, ./check <prop> --tier quick, git checkout -- .)",
    "caught_by": caught,
}
json.dump(meta, open(os.path.join(dst, "meta.json"), "w"), indent=1)
print("saved", dst)
