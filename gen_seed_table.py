#!/usr/bin/env python3
"""Rewrite the seeded-change table of DESIGN.md (between the seed-table markers) from seeded/*/meta.json."""
import json, os, re
rows = []
n = strengthened = 0
for d in sorted(os.listdir('/verif/seeded')):
    m = json.load(open('/verif/seeded/%s/meta.json' % d))
    n += 1
    if 'after strengthening' in m['caught_by'].lower():
        strengthened += 1
    rows.append("| %s | %s | %s |" % (d, m['needs_to_manifest'].replace('|', '/')[:150], m['caught_by'].replace('|', '/')))
table = "| seed | needs to manifest | caught by |\n|---|---|---|\n" + "\n".join(rows)
p = '/verif/DESIGN.md'
s = open(p).read()
if '<!-- seed-table-begin -->' not in s:
    a = s.index("| seed | needs to manifest | caught by |")
    b = s.index("### 0.6 False alarms")
    s = s[:a] + "<!-- seed-table-begin -->\n<!-- seed-table-end -->\n\n" + s[b:]
a = s.index('<!-- seed-table-begin -->') + len('<!-- seed-table-begin -->')
b = s.index('<!-- seed-table-end -->')
s = s[:a] + "\n" + table + "\n" + s[b:]
s = re.sub(r"\d+ breaking changes were written by fresh sub-agents", "%d breaking changes were written by fresh sub-agents" % n, s)
s = re.sub(r"All \d+ are detected by the check of their property", "All %d are detected by the check of their property" % n, s)
s = re.sub(r"in the replay; \d+ of them only after the check was strengthened", "in the replay; %d of them only after the check was strengthened" % strengthened, s)
open(p, 'w').write(s)
print(n, strengthened)
