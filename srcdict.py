#!/usr/bin/env python3
"""
srcdict.py [--write-baseline] [--out FILE]

Source-derived boundary classes for the correspondence generators.

The correspondence run is differential testing, so its generators bound what it sees: a change to
/repo whose effect is confined to one size, count, value or code point is missed unless that region
has a class of its own (DESIGN.md 0.5, rounds three and four).  A change of that kind almost always
carries its trigger in its own text: the threshold it compares with, the capacity of the buffer it
introduces, the character it treats specially, the width of the integer it narrows to.  This script
reads the constants out of /repo's current non-test sources

    integer literals (decimal, hex, `1 << n`, `uN::MAX` / `iN::MAX`, integer type names -> 2^N, 2^(N-1)),
    string / byte-string / char literals, arrays of byte-sized integer literals ([0xEF, 0xBB, 0xBF])

and writes them, one per line, for the harness binaries (env VERIF_SRCDICT), which use each constant c
as a length, a count, a numeric value, a digit count, a nesting depth, a chunk size (c-1, c, c+1) and each
string as content at string positions.  Constants that are not in the committed baseline
(srcdict_baseline.json, taken from the unchanged tree) are marked `new`; the harness gives every new
constant a directed pass of its own.  The dictionary only ever ADDS inputs: it cannot raise an alarm by
itself, and replays record the input, not the dictionary.
"""
import glob, json, os, re, sys

VERIF = os.path.dirname(os.path.abspath(__file__))
ROOTS = ["/repo/imap-proto/src", "/repo/tokio-imap/src"]
BASE = os.path.join(VERIF, "srcdict_baseline.json")
INT_TYPES = {"u8": 8, "u16": 16, "u32": 32, "u64": 64, "u128": 128, "i8": 8, "i16": 16, "i32": 32, "i64": 64,
             "i128": 128}


def strip_tests(src):
    i = src.find("#[cfg(test)]\nmod ")
    return src[:i] if i > 0 else src


def unescape(s, is_bytes):
    out = bytearray()
    i = 0
    while i < len(s):
        c = s[i]
        if c != "\\":
            out += c.encode("utf-8")
            i += 1
            continue
        i += 1
        if i >= len(s):
            break
        e = s[i]
        i += 1
        if e == "n": out.append(10)
        elif e == "r": out.append(13)
        elif e == "t": out.append(9)
        elif e == "0": out.append(0)
        elif e == "\\": out.append(92)
        elif e == "'": out.append(39)
        elif e == '"': out.append(34)
        elif e == "x" and i + 2 <= len(s):
            try:
                out.append(int(s[i:i + 2], 16))
            except ValueError:
                pass
            i += 2
        elif e == "u" and i < len(s) and s[i] == "{":
            j = s.find("}", i)
            try:
                out += chr(int(s[i + 1:j].replace("_", ""), 16)).encode("utf-8")
            except Exception:
                pass
            i = j + 1
        elif e == "\n":
            while i < len(s) and s[i] in " \t\n":
                i += 1
        else:
            out += e.encode("utf-8")
    return bytes(out)


def scan(src):
    """returns (set of ints, set of byte strings)"""
    ints, strs = set(), set()
    code = strip_tests(src)
    # pull out string / char literals first (and blank them), then comments
    lits = []

    def grab(m):
        lits.append(m.group(0))
        return " \"\" "
    lit_re = re.compile(r'b?"(?:[^"\\]|\\.|\\\n)*"|b?\'(?:[^\'\\\n]|\\x[0-9a-fA-F]{2}|\\u\{[0-9a-fA-F_]+\}|\\.)\'|//[^\n]*|/\*.*?\*/', re.S)
    code2 = lit_re.sub(lambda m: (grab(m) if not m.group(0).startswith("/") else " "), code)
    for l in lits:
        is_b = l.startswith("b")
        body = l[1:] if is_b else l
        q = body[0]
        val = unescape(body[1:-1], is_b)
        if len(val) > 0:
            strs.add(val)
        if q == "'" and len(val) == 1:
            ints.add(val[0])
        if q == "'" and not is_b:
            try:
                ints.add(ord(val.decode("utf-8")))
            except Exception:
                pass
    # arrays of byte-sized integers
    for m in re.finditer(r"\[\s*((?:0x[0-9a-fA-F]{1,2}|\d{1,3})(?:u8)?\s*(?:,\s*(?:0x[0-9a-fA-F]{1,2}|\d{1,3})(?:u8)?\s*)+),?\s*\]", code2):
        try:
            vals = [int(re.sub(r"u8$", "", x.strip()), 0) for x in m.group(1).split(",") if x.strip()]
            if all(0 <= v < 256 for v in vals):
                strs.add(bytes(vals))
        except ValueError:
            pass
    # integers
    for m in re.finditer(r"(?<![\w.])(0x[0-9a-fA-F_]+|0b[01_]+|0o[0-7_]+|\d[\d_]*)(?:_?(?:u8|u16|u32|u64|u128|usize|i8|i16|i32|i64|i128|isize))?\b", code2):
        t = m.group(1).replace("_", "")
        try:
            v = int(t, 0) if not re.fullmatch(r"0\d+", t) else int(t, 10)
        except ValueError:
            continue
        if v < (1 << 70):
            ints.add(v)
    for m in re.finditer(r"\b1(?:u\d+|usize)?\s*<<\s*(\d+)", code2):
        ints.add(1 << int(m.group(1)))
    for m in re.finditer(r"\b(\d+)\s*\*\s*(\d+)\b", code2):
        ints.add(int(m.group(1)) * int(m.group(2)))
    for m in re.finditer(r"\b(u8|u16|u32|u64|i8|i16|i32|i64)::(MAX|MIN)\b", code2):
        n = INT_TYPES[m.group(1)]
        signed = m.group(1).startswith("i")
        if m.group(2) == "MAX":
            ints.add((1 << (n - 1)) - 1 if signed else (1 << n) - 1)
        else:
            ints.add((1 << (n - 1)) if signed else 0)
    # integer type names: the widths at which a value may be narrowed
    for m in re.finditer(r"\b(u8|u16|u32|u64|i8|i16|i32|i64)\b", code2):
        n = INT_TYPES[m.group(1)]
        ints.add(1 << n)
        if m.group(1).startswith("i"):
            ints.add(1 << (n - 1))
    return ints, strs


def scan_tree():
    per_file = {}
    for root in ROOTS:
        for f in sorted(glob.glob(root + "/**/*.rs", recursive=True)):
            if f.endswith("tests.rs") or "/tests/" in f:
                continue
            try:
                src = open(f, encoding="utf-8", errors="replace").read()
            except OSError:
                continue
            ints, strs = scan(src)
            per_file[os.path.relpath(f, "/repo")] = {"ints": sorted(ints), "strs": sorted(s.hex() for s in strs)}
    return per_file


def main():
    args = sys.argv[1:]
    now = scan_tree()
    if "--write-baseline" in args:
        json.dump(now, open(BASE, "w"), indent=0, sort_keys=True)
        print("baseline written:", BASE, sum(len(v["ints"]) for v in now.values()), "ints",
              sum(len(v["strs"]) for v in now.values()), "strings")
        return
    out = os.path.join(VERIF, "out", "srcdict.txt")
    if "--out" in args:
        out = args[args.index("--out") + 1]
    try:
        base = json.load(open(BASE))
    except OSError:
        base = {}
    all_base_i = set(i for v in base.values() for i in v["ints"])
    all_base_s = set(s for v in base.values() for s in v["strs"])
    ints, strs = {}, {}
    for f, v in now.items():
        b = base.get(f, {"ints": [], "strs": []})
        bi, bs = set(b["ints"]), set(b["strs"])
        for i in v["ints"]:
            # new = not in this file's baseline (a constant moved between files is rare; treating it as new only adds inputs)
            new = i not in bi
            ints[i] = ints.get(i, False) or new
        for s_ in v["strs"]:
            new = s_ not in bs
            strs[s_] = strs.get(s_, False) or new
    os.makedirs(os.path.dirname(out), exist_ok=True)
    with open(out, "w") as f:
        for i in sorted(ints):
            f.write("int %d %s\n" % (i, "new" if ints[i] else "old"))
        for s_ in sorted(strs):
            f.write("bytes %s %s\n" % (s_, "new" if strs[s_] else "old"))
    n_new = len([1 for v in ints.values() if v]) + len([1 for v in strs.values() if v])
    print(json.dumps({"ints": len(ints), "strings": len(strs), "new": n_new,
                      "new_ints": [i for i in sorted(ints) if ints[i]][:40],
                      "new_strings": [s_ for s_ in sorted(strs) if strs[s_]][:40]}))


if __name__ == "__main__":
    main()
