#!/bin/sh
# usage: sweep.sh <first_seed> <last_seed> [tier]   - quick (or given) tier of every claimed check under several seeds
cd "$(dirname "$0")" || exit 2
tier=${3:-quick}
ids=$(python3 -c "import json;print(' '.join(c['property_id'] for c in json.load(open('MANIFEST.json'))['checks']))")
bad=0
for s in $(seq $1 $2); do
  for p in $ids; do
    out=$(VERIF_SEED=$s ./check $p --tier $tier 2>&1 | grep -E "^check|VIOLATION|KNOWN")
    echo "seed=$s $out"
    echo "$out" | grep -q VIOLATION && bad=1
  done
done
exit $bad
