#!/bin/sh
# usage: seedtest.sh <patch.diff> <prop> [<prop> ...]
# Applies a seeded change to /repo, runs the quick checks of the given properties, reverts.  Never commits.
patch="$1"; shift
cd /repo || exit 2
if ! git diff --quiet; then echo "repo dirty"; exit 2; fi
git apply "$patch" || { echo "patch does not apply"; exit 2; }
for p in "$@"; do
  ( cd /verif && VERIF_SEED=${VERIF_SEED:-1} ./check "$p" --tier quick 2>&1 | grep -E "^check|VIOLATION|KNOWN" )
done
git -C /repo checkout -- . && git -C /repo clean -fdq
