#!/bin/sh
# usage: sweep_props.sh <tier> <seed> <prop> [<prop> ...]
cd "$(dirname "$0")" || exit 2
tier=$1; seed=$2; shift 2; bad=0
for p in "$@"; do
  out=$(VERIF_SEED=$seed ./check $p --tier $tier 2>&1 | grep -E "^check|VIOLATION|KNOWN")
  echo "seed=$seed $out"
  echo "$out" | grep -q VIOLATION && bad=1
done
exit $bad
