#!/bin/sh
# regenerate lean/ImapVerif/Gen/{Parser,Tie}.lean and tie/report.json from /repo's parser sources
set -e
here=$(cd "$(dirname "$0")/.." && pwd)
out=${1:-$here/lean/ImapVerif/Gen}
rep=${2:-$here/out/tie_report.json}
mkdir -p "$(dirname "$rep")" "$out"
cfg=$(mktemp)
(cat "$here/tie/translate.cfg"; grep -h -E '^def [A-Za-z_0-9]+' "$here"/lean/ImapVerif/Grammar/*.lean | awk '{print "model_def Grammar." $2}') > "$cfg"
"$here/harness/target/release/vh-translate" "${VERIF_PARSER_SRC:-/repo/imap-proto/src/parser}" "$cfg" "$out/Parser.lean" "$out/Tie.lean" "$rep"
src=${VERIF_PARSER_SRC:-/repo/imap-proto/src/parser}
"$here/harness/target/release/vh-translate" --own "$src/../types.rs" "$src/../types/acls.rs" "$cfg" "$out/Owned.lean" "$(dirname "$rep")/own_report.json"
rm -f "$cfg"
