/-
  Line-protocol driver of the executable model (imports model files only; no Mathlib, no proofs).
  One request per line on stdin, one reply per line on stdout.
-/
import ImapVerif.Frames
import ImapVerif.Grammar.Rfc3501
import ImapVerif.Show
import ImapVerif.Builders
import ImapVerif.BodyStruct
import ImapVerif.Owned
import ImapVerif.Client

open Bytes

def showParse (i : Bytes) : String :=
  match Grammar.parseResponse i with
  | .ok v r => s!"OK {i.length - r.length} {Ser.response v}"
  | .inc => "INC"
  | .err => "ERR"
  | .fail => "ERR"
  | .panic => "PANIC"

def pred (name : String) : Option (UInt8 → Bool) :=
  match name with
  | "atom_char" => some Grammar.isAtomChar
  | "astring_char" => some Grammar.isAstringChar
  | "text_char" => some Grammar.isTextChar
  | "char8" => some Grammar.isChar8
  | "atom_specials" => some Grammar.isAtomSpecials
  | "resp_specials" => some Grammar.isRespSpecials
  | "quoted_specials" => some Grammar.isQuotedSpecials
  | "list_wildcards" => some Grammar.isListWildcards
  | "char" => some Grammar.isChar
  | _ => none

def showOwned (i : Bytes) : String :=
  match Grammar.parseResponse i with
  | .ok v r => s!"OK {i.length - r.length} {Ser.response (Owned.response v)}"
  | .inc => "INC"
  | .err => "ERR"
  | .fail => "ERR"
  | .panic => "PANIC"

def showQ : Builders.QRes → String
  | .ok q => "OK " ++ toHex q
  | .refused => "REFUSED"
  | .panic => "PANIC"

/-- `-` stands for the empty byte string -/
def arg (h : String) : Bytes := if h == "-" then [] else ofHex h

def attrOf : String → Option Builders.Attribute
  | "Body" => some .body | "Envelope" => some .envelope | "Flags" => some .flags
  | "InternalDate" => some .internalDate | "ModSeq" => some .modSeq | "Rfc822" => some .rfc822
  | "Rfc822Size" => some .rfc822Size | "Rfc822Text" => some .rfc822Text | "Uid" => some .uid
  | "GmailLabels" => some .gmailLabels | "GmailMsgId" => some .gmailMsgId
  | _ => none

def macroOf : String → Option Builders.AttrMacro
  | "All" => some .all | "Fast" => some .fast | "Full" => some .full
  | _ => none

def callOf (t : String) : Option Builders.Call :=
  match t.splitOn ":" with
  | ["n", a] => a.toNat?.map .num
  | ["r", a, b] => match a.toNat?, b.toNat? with
    | some a, some b => some (.range a b)
    | _, _ => none
  | ["f", a] => a.toNat?.map .rangeFrom
  | ["a", x] => (attrOf x).map .attr
  | ["m", x] => (macroOf x).map .attrMacro
  | ["c", a] => a.toNat?.map .changedSince
  | _ => none

def showFetch (uid : String) (toks : List String) : String :=
  match toks.mapM callOf with
  | none => "bad-op"
  | some calls =>
    match Builders.fetchCommand (uid == "1") calls with
    | some args => "OK " ++ toHex args
    | none => "ILLTYPED"

def showBsp (toks : List String) : String :=
  match toks with
  | n :: rest =>
    match n.toNat?, BodyStruct.parseTrees (rest.length + 1) 1 rest with
    | some n, some ([t], []) => BodyStruct.showTable t n
    | _, _ => "bad-op"
  | _ => "bad-op"

/-! client ops -/

def revOf (t : String) : Option Client.REv :=
  if t == "p" then some .pending
  else if t == "e" then some .eof
  else if t == "x" then some .err
  else if t.startsWith "d" then some (.data (ofHex (t.drop 1).toString))
  else none

def wevOf (t : String) : Option Client.WEv :=
  if t == "p" then some .pending
  else if t == "x" then some .err
  else if t == "f" then some .flushed
  else if t.startsWith "a" then (t.drop 1).toString.toNat?.map .acc
  else none

def listOf (f : String → Option α) (s : String) : Option (List α) :=
  if s == "-" then some [] else (s.splitOn ",").mapM f

def showItem : Client.PollR → String
  | .pending => "P"
  | .done => "N"
  | .item .error => "E"
  | .item (.frame f) => s!"F{f.raw.length},{Ser.response f.value}"

/-- poll a bare `Framed` stream `n` times -/
def framesGo : Nat → Client.Rd → List Client.REv → List String → List String × Client.Rd
  | 0, s, _, acc => (acc.reverse, s)
  | n + 1, s, rs, acc =>
    match Client.pollNext s rs with
    | (r, s', rs', k) => framesGo n s' rs' (s!"{k}:{showItem r}" :: acc)

def showFrames (r n : String) : String :=
  match listOf revOf r, n.toNat? with
  | some rs, some n =>
    let (out, s) := framesGo n {} rs []
    "|".intercalate out ++ " RBUF=" ++ toHex s.rbuf
  | _, _ => "bad-op"

def pollsGo : Nat → Client.RStream → Client.Conn → List Client.REv → List Client.WEv → List String →
    List String × Client.Conn × List Client.REv × List Client.WEv
  | 0, _, c, rs, ws, acc => (acc.reverse, c, rs, ws)
  | n + 1, s, c, rs, ws, acc =>
    let st := Client.Stream.pollNext s c rs ws
    pollsGo n st.s st.c st.rs st.ws (s!"{String.ofList st.calls}:{showItem st.res}" :: acc)

def cmdsGo : List (Bytes × Nat) → Client.Conn → List Client.REv → List Client.WEv → List String →
    List String × Client.Conn
  | [], c, _, _, acc => (acc.reverse, c)
  | (args, n) :: rest, c, rs, ws, acc =>
    let (c1, s) := c.call args
    let (out, c2, rs', ws') := pollsGo n s c1 rs ws []
    cmdsGo rest c2 rs' ws' ((toHex s.tag ++ "=" ++ "|".intercalate out) :: acc)

def cmdOf (t : String) : Option (Bytes × Nat) :=
  match t.splitOn ":" with
  | [a, n] => n.toNat?.map fun n => (arg a, n)
  | _ => none

def showSession (r w c : String) : String :=
  match listOf revOf r, listOf wevOf w, listOf cmdOf c with
  | some rs, some ws, some cmds =>
    let (out, conn) := cmdsGo cmds {} rs ws []
    ";".intercalate out ++ " WIRE=" ++ toHex conn.wr.wire ++ " WBUF=" ++ toHex conn.wr.wbuf ++
      " RBUF=" ++ toHex conn.rd.rbuf
  | _, _, _ => "bad-op"

/-! ### ownership histories (C07) -/

def ownOpOf (t : String) : Option Own.Op :=
  match t.splitOn ":" with
  | ["ri", n, c] => do some (.recvInPlace (← n.toNat?) (← c.toNat?))
  | ["rs", n, o, c] => do some (.recvShift (← n.toNat?) (← o.toNat?) (← c.toNat?))
  | ["rn", n, c] => do some (.recvNew (← n.toNat?) (← c.toNat?))
  | ["d", n] => do some (.deliver (← n.toNat?))
  | ["df", h] => do some (.dropFrame (← h.toNat?))
  | ["db"] => some .dropBuf
  | _ => none

def showOwnSt (s : Own.St) (e : Own.Eff) : String :=
  let w := match s.win with
    | some w => s!"{w.a},{w.off},{w.len}"
    | none => "-"
  let fs := s.frames.reverse.map fun f => s!"{f.h},{f.a},{f.off},{f.len}"
  let fr := e.freed.map toString
  s!"W={w}/F={"+".intercalate fs}/X={"+".intercalate fr}"

def ownGo : List Own.Op → Own.St → List String → List String
  | [], _, acc => acc.reverse
  | op :: rest, s, acc =>
    match Own.step s op with
    | none => ("inadmissible" :: acc).reverse
    | some (s', e) => ownGo rest s' (showOwnSt s' e :: acc)

def showOwn (t : String) : String :=
  match listOf ownOpOf t with
  | some ops => "|".intercalate (ownGo ops {} [])
  | none => "bad-op"

def step (line : String) : String :=
  match line.trimAscii.toString.splitOn " " with
  | ["own", t] => showOwn t
  | ["frames", r, n] => showFrames r n
  | ["session", r, w, c] => showSession r w c
  | ["owned", h] => showOwned (ofHex h)
  | ["qstr", h] => showQ (Builders.quotedString (arg h))
  | ["text", "login", a, b] => showQ (Builders.login (arg a) (arg b))
  | ["text", "list", a, b] => showQ (Builders.list (arg a) (arg b))
  | ["text", "select", a] => showQ (Builders.select false false (arg a))
  | ["text", "examine", a] => showQ (Builders.select true false (arg a))
  | ["text", "select_cs", a] => showQ (Builders.select false true (arg a))
  | ["text", "examine_cs", a] => showQ (Builders.select true true (arg a))
  | ["simple", "check"] => "OK " ++ toHex Builders.check
  | ["simple", "close"] => "OK " ++ toHex Builders.close
  | "fetch" :: uid :: toks => showFetch uid toks
  | ["encode", t, a] => toHex (Builders.encode (arg t) (arg a))
  | ["tag", k] => match k.toNat? with
    | some k => toHex (Builders.tagOf k)
    | none => "bad-op"
  | "bsp" :: toks => showBsp toks
  | ["parse", h] => showParse (ofHex h)
  | ["parse"] => showParse []
  | ["pred", name, n] =>
    match pred name, n.toNat? with
    | some f, some k => if f (UInt8.ofNat k) then "1" else "0"
    | _, _ => "bad-op"
  | ["utf8", h] => if validUtf8 (ofHex h) then "1" else "0"
  | ["utf8"] => "1"
  | _ => "bad-op"

partial def loop (h : IO.FS.Stream) (out : IO.FS.Stream) : IO Unit := do
  let line ← h.getLine
  if line.isEmpty then return ()
  out.putStrLn (step line)
  out.flush
  loop h out

def main : IO Unit := do
  let out ← IO.getStdout
  loop (← IO.getStdin) out
  out.flush
