/-
  Line-protocol driver of the executable model (imports model files only; no Mathlib, no proofs).
  One request per line on stdin, one reply per line on stdout.
-/
import ImapVerif.Grammar.Rfc3501
import ImapVerif.Show

open Bytes

def showParse (i : Bytes) : String :=
  match Grammar.parseResponse i with
  | .ok v r => s!"OK {i.length - r.length} {Ser.response v}"
  | .inc => "INC"
  | .err => "ERR"
  | .fail => "ERR"
  | .panic => "PANIC"

def pred (name : String) : Option (UInt8 → Bool) :=
  match name with
  | "atom_char" => some Grammar.isAtomChar
  | "astring_char" => some Grammar.isAstringChar
  | "text_char" => some Grammar.isTextChar
  | "char8" => some Grammar.isChar8
  | "atom_specials" => some Grammar.isAtomSpecials
  | "resp_specials" => some Grammar.isRespSpecials
  | "quoted_specials" => some Grammar.isQuotedSpecials
  | "list_wildcards" => some Grammar.isListWildcards
  | "char" => some Grammar.isChar
  | _ => none

def step (line : String) : String :=
  match line.trimAscii.toString.splitOn " " with
  | ["parse", h] => showParse (ofHex h)
  | ["parse"] => showParse []
  | ["pred", name, n] =>
    match pred name, n.toNat? with
    | some f, some k => if f (UInt8.ofNat k) then "1" else "0"
    | _, _ => "bad-op"
  | ["utf8", h] => if validUtf8 (ofHex h) then "1" else "0"
  | ["utf8"] => "1"
  | _ => "bad-op"

partial def loop (h : IO.FS.Stream) (out : IO.FS.Stream) : IO Unit := do
  let line ← h.getLine
  if line.isEmpty then return ()
  out.putStrLn (step line)
  out.flush
  loop h out

def main : IO Unit := do
  let out ← IO.getStdout
  loop (← IO.getStdin) out
  out.flush
