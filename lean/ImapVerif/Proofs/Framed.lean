/-
  Lemmas about the codec and the read half of `Framed` (Client.lean):
  * `decodeC` splits the buffer exactly at the consumed length and is stable under extension
    (from `Stable parseResponse`)
  * one `pollNext` conserves bytes, delivers only what `decodeC` yields, and reports Pending only
    when nothing decodable is left in the buffer
-/
import ImapVerif.Client
import ImapVerif.Proofs.StableGrammar
import ImapVerif.Proofs.LineSafeGrammar

open Bytes Parser Grammar Client

namespace Framed

/-! ### decodeC -/

theorem decodeC_frame (b : Bytes) (f : Frame) (rest : Bytes) (h : decodeC b = .frame f rest) :
    b = f.raw ++ rest ∧ parseResponse b = .ok f.value rest := by
  unfold decodeC at h
  cases hp : parseResponse b with
  | ok v r =>
    simp only [hp, Dec.frame.injEq] at h
    obtain ⟨hf, hr⟩ := h
    subst hr
    obtain ⟨c, hc⟩ := Stable.suffix (p := parseResponse) b v r hp
    subst hf
    refine ⟨?_, rfl⟩
    subst hc
    simp
  | inc => simp [hp] at h
  | err => simp [hp] at h
  | fail => simp [hp] at h
  | panic => simp [hp] at h

theorem decodeC_stable_frame (b x : Bytes) (f : Frame) (rest : Bytes) (h : decodeC b = .frame f rest) :
    decodeC (b ++ x) = .frame f (rest ++ x) := by
  obtain ⟨hb, hp⟩ := decodeC_frame b f rest h
  have := Stable.ok (p := parseResponse) b f.value rest x hp
  unfold decodeC
  rw [this]
  simp only
  congr 1
  cases f with
  | mk raw value =>
    simp only at hb ⊢
    subst hb
    simp

theorem decodeC_stable_error (b x : Bytes) (h : decodeC b = .error) : decodeC (b ++ x) = .error := by
  unfold decodeC at h ⊢
  cases hp : parseResponse b with
  | ok v r => simp [hp] at h
  | inc => simp [hp] at h
  | err => rw [Stable.err (p := parseResponse) b x hp]
  | fail => rw [Stable.fail (p := parseResponse) b x hp]
  | panic => exact absurd hp (Stable.nopanic (p := parseResponse) b)

theorem decodeC_nil : decodeC [] = .none := by rfl

/-- a frame owns at least the two bytes of its CRLF -/
theorem frame_nonempty (b : Bytes) (f : Frame) (rest : Bytes) (h : decodeC b = .frame f rest) :
    2 ≤ f.raw.length := by
  obtain ⟨hb, hp⟩ := decodeC_frame b f rest h
  obtain ⟨c, hc, _⟩ := LineEnd.ok (p := parseResponse) b f.value rest hp
  rw [hb] at hc
  have : f.raw = c ++ [13, 10] := by
    have := List.append_cancel_right (by simpa [List.append_assoc] using hc : f.raw ++ rest = (c ++ [13, 10]) ++ rest)
    exact this
  rw [this]; simp

end Framed

namespace Framed

/-! ### one poll of the read half -/

/-- bytes delivered by a list of transport read events -/
def dataOf : List REv → Bytes
  | [] => []
  | .data bs :: r => bs ++ dataOf r
  | _ :: r => dataOf r

/-- the bytes a poll result owns -/
def rawOf : PollR → Bytes
  | .item (.frame f) => f.raw
  | _ => []

theorem dataOf_append (a b : List REv) : dataOf (a ++ b) = dataOf a ++ dataOf b := by
  induction a with
  | nil => rfl
  | cons e r ih => cases e <;> simp [dataOf, ih]

/-- whenever the stream is not about to decode, its buffer was tried and holds no complete frame -/
def Settled (s : Rd) : Prop := s.readable = false → decodeC s.rbuf = .none

theorem decodePhase_ret (s : Rd) (r : PollR) (s' : Rd) (h : decodePhase s = .ret r s') :
    s.rbuf = rawOf r ++ s'.rbuf ∧
    (r ≠ .item .error → s.errored = false → Settled s → (Settled s' ∧ s'.errored = false)) ∧
    r ≠ .pending ∧ (∀ f, r = .item (.frame f) → ∃ b, decodeC b = .frame f s'.rbuf) := by
  unfold decodePhase at h
  split at h
  · simp only [Phase.ret.injEq] at h
    obtain ⟨rfl, rfl⟩ := h
    refine ⟨by simp [rawOf], ?_, by simp, by intro f hf; cases hf⟩
    intro _ he; simp_all
  · split at h
    · split at h
      · -- decode_eof
        split at h
        · rename_i f rest hd
          simp only [Phase.ret.injEq] at h
          obtain ⟨rfl, rfl⟩ := h
          obtain ⟨hb, _⟩ := decodeC_frame _ _ _ hd
          refine ⟨by simpa [rawOf] using hb, ?_, by simp, by intro f' hf; cases hf; exact ⟨_, hd⟩⟩
          intro _ he _
          exact ⟨by intro h'; simp_all, he⟩
        · split at h
          · simp only [Phase.ret.injEq] at h
            obtain ⟨rfl, rfl⟩ := h
            rename_i hd hemp
            refine ⟨by simp [rawOf], ?_, by simp, by intro f hf; cases hf⟩
            intro _ he _
            refine ⟨?_, he⟩
            intro _
            simpa using hd
          · simp only [Phase.ret.injEq] at h
            obtain ⟨rfl, rfl⟩ := h
            exact ⟨by simp [rawOf], by intro h; exact absurd rfl h, by simp, by intro f hf; cases hf⟩
        · simp only [Phase.ret.injEq] at h
          obtain ⟨rfl, rfl⟩ := h
          exact ⟨by simp [rawOf], by intro h; exact absurd rfl h, by simp, by intro f hf; cases hf⟩
      · split at h
        · rename_i f rest hd
          simp only [Phase.ret.injEq] at h
          obtain ⟨rfl, rfl⟩ := h
          obtain ⟨hb, _⟩ := decodeC_frame _ _ _ hd
          refine ⟨by simpa [rawOf] using hb, ?_, by simp, by intro f' hf; cases hf; exact ⟨_, hd⟩⟩
          intro _ he _
          exact ⟨by intro h'; simp_all, he⟩
        · simp only [Phase.ret.injEq] at h
          obtain ⟨rfl, rfl⟩ := h
          exact ⟨by simp [rawOf], by intro h; exact absurd rfl h, by simp, by intro f hf; cases hf⟩
        · cases h
    · cases h

theorem decodePhase_cont (s s' : Rd) (h : decodePhase s = .cont s') :
    s'.rbuf = s.rbuf ∧ s'.eof = s.eof ∧ s'.errored = false ∧ s.errored = false ∧
    (Settled s → (s'.readable = false ∧ decodeC s'.rbuf = .none)) := by
  unfold decodePhase at h
  split at h
  · cases h
  · rename_i herr
    split at h
    · rename_i hr
      split at h
      · split at h
        · cases h
        · split at h <;> cases h
        · cases h
      · split at h
        · cases h
        · cases h
        · rename_i hd
          simp only [Phase.cont.injEq] at h
          subst h
          exact ⟨rfl, rfl, by simpa using herr, by simpa using herr, fun _ => ⟨rfl, hd⟩⟩
    · rename_i hr
      simp only [Phase.cont.injEq] at h
      subst h
      refine ⟨rfl, rfl, by simpa using herr, by simpa using herr, ?_⟩
      intro hs
      have : s.readable = false := by simpa using hr
      exact ⟨this, hs this⟩

/-- one poll: bytes are conserved, the result is not an error ⇒ the state stays settled and
    unerrored, and a Pending means nothing decodable is left -/
theorem pollNextGo_spec : ∀ (rs : List REv) (s : Rd) (n : Nat) (r : PollR) (s' : Rd) (rs' : List REv) (n' : Nat),
    pollNextGo rs s n = (r, s', rs', n') →
    (∃ used, rs = used ++ rs' ∧ s.rbuf ++ dataOf used = rawOf r ++ s'.rbuf ∧ n' = n + used.length) ∧
    (r ≠ .item .error → s.errored = false → Settled s → (Settled s' ∧ s'.errored = false)) ∧
    (r = .pending → s.errored = false → Settled s → decodeC s'.rbuf = .none) ∧
    (∀ f, r = .item (.frame f) → ∃ b, decodeC b = .frame f s'.rbuf) := by
  intro rs
  induction rs with
  | nil =>
    intro s n r s' rs' n' h
    unfold pollNextGo at h
    split at h
    · rename_i r0 s0 hd
      simp only [Prod.mk.injEq] at h
      obtain ⟨rfl, rfl, rfl, rfl⟩ := h
      obtain ⟨h1, h2, h3, h4⟩ := decodePhase_ret s r0 s0 hd
      exact ⟨⟨[], by simp, by simpa [dataOf] using h1, by simp⟩, h2, fun hp => absurd hp h3, h4⟩
    · rename_i s0 hd
      simp only [Prod.mk.injEq] at h
      obtain ⟨rfl, rfl, rfl, rfl⟩ := h
      obtain ⟨hb, _, he, _, hs⟩ := decodePhase_cont s s0 hd
      refine ⟨⟨[], by simp, by simp [dataOf, rawOf, hb], by simp⟩, ?_, ?_, by intro f hf; cases hf⟩
      · intro _ _ hset
        exact ⟨fun _ => (hs hset).2, he⟩
      · intro _ _ hset
        exact (hs hset).2
  | cons ev rest ih =>
    intro s n r s' rs' n' h
    unfold pollNextGo at h
    split at h
    · rename_i r0 s0 hd
      simp only [Prod.mk.injEq] at h
      obtain ⟨rfl, rfl, rfl, rfl⟩ := h
      obtain ⟨h1, h2, h3, h4⟩ := decodePhase_ret s r0 s0 hd
      exact ⟨⟨[], by simp, by simpa [dataOf] using h1, by simp⟩, h2, fun hp => absurd hp h3, h4⟩
    · rename_i s0 hd
      obtain ⟨hb, heof, he, hse, hs⟩ := decodePhase_cont s s0 hd
      cases ev with
      | pending =>
        simp only [Prod.mk.injEq] at h
        obtain ⟨rfl, rfl, rfl, rfl⟩ := h
        refine ⟨⟨[.pending], by simp, by simp [dataOf, rawOf, hb], by simp⟩, ?_, ?_, by intro f hf; cases hf⟩
        · intro _ _ hset
          exact ⟨fun _ => (hs hset).2, he⟩
        · intro _ _ hset
          exact (hs hset).2
      | err =>
        simp only [Prod.mk.injEq] at h
        obtain ⟨rfl, rfl, rfl, rfl⟩ := h
        refine ⟨⟨[.err], by simp, by simp [dataOf, rawOf, hb], by simp⟩, ?_, ?_, by intro f hf; cases hf⟩
        · intro hne; exact absurd rfl hne
        · intro hp; cases hp
      | eof =>
        simp only at h
        split at h
        · simp only [Prod.mk.injEq] at h
          obtain ⟨rfl, rfl, rfl, rfl⟩ := h
          refine ⟨⟨[.eof], by simp, by simp [dataOf, rawOf, hb], by simp⟩, ?_, ?_, by intro f hf; cases hf⟩
          · intro _ _ hset
            exact ⟨fun _ => (hs hset).2, he⟩
          · intro hp; cases hp
        · obtain ⟨⟨used, hu1, hu2, hu3⟩, hk, hp, hfr⟩ := ih _ _ _ _ _ _ h
          refine ⟨⟨.eof :: used, by simp [hu1], ?_, by simp [hu3]; omega⟩, ?_, ?_, hfr⟩
          · simpa [dataOf, hb] using hu2
          · intro hne _ _
            exact hk hne he (by intro hr; simp at hr)
          · intro hpe _ _
            exact hp hpe he (by intro hr; simp at hr)
      | data bs =>
        simp only at h
        split at h
        · rename_i hemp
          have hbs : bs = [] := by simpa using hemp
          subst hbs
          split at h
          · simp only [Prod.mk.injEq] at h
            obtain ⟨rfl, rfl, rfl, rfl⟩ := h
            refine ⟨⟨[.data []], by simp, by simp [dataOf, rawOf, hb], by simp⟩, ?_, ?_, by intro f hf; cases hf⟩
            · intro _ _ hset
              exact ⟨fun _ => (hs hset).2, he⟩
            · intro hp; cases hp
          · obtain ⟨⟨used, hu1, hu2, hu3⟩, hk, hp, hfr⟩ := ih _ _ _ _ _ _ h
            refine ⟨⟨.data [] :: used, by simp [hu1], ?_, by simp [hu3]; omega⟩, ?_, ?_, hfr⟩
            · simpa [dataOf, hb] using hu2
            · intro hne _ _
              exact hk hne he (by intro hr; simp at hr)
            · intro hpe _ _
              exact hp hpe he (by intro hr; simp at hr)
        · obtain ⟨⟨used, hu1, hu2, hu3⟩, hk, hp, hfr⟩ := ih _ _ _ _ _ _ h
          refine ⟨⟨.data bs :: used, by simp [hu1], ?_, by simp [hu3]; omega⟩, ?_, ?_, hfr⟩
          · simpa [dataOf, hb, List.append_assoc] using hu2
          · intro hne _ _
            exact hk hne he (by intro hr; simp at hr)
          · intro hpe _ _
            exact hp hpe he (by intro hr; simp at hr)

end Framed

namespace Framed

/-! ### the ideal framing of a byte stream, and whole runs -/

/-- parse the whole stream in one piece: the frames up to the first incomplete or malformed one -/
def idealGo : Nat → Bytes → List Frame
  | 0, _ => []
  | n + 1, b =>
    match decodeC b with
    | .frame f rest => f :: idealGo n rest
    | _ => []

def ideal (b : Bytes) : List Frame := idealGo (b.length + 1) b

theorem idealGo_fuel : ∀ n m b, b.length < n → b.length < m → idealGo n b = idealGo m b := by
  intro n
  induction n with
  | zero => intro m b h; omega
  | succ n ih =>
    intro m b hn hm
    cases m with
    | zero => omega
    | succ m =>
      simp only [idealGo]
      split
      · rename_i f rest hd
        obtain ⟨hb, _⟩ := decodeC_frame b f rest hd
        have hl := frame_nonempty b f rest hd
        have : rest.length < b.length := by rw [hb]; simp; omega
        rw [ih m rest (by omega) (by omega)]
      · rfl

theorem ideal_frame (b x : Bytes) (f : Frame) (rest : Bytes) (h : decodeC b = .frame f rest) :
    ideal (b ++ x) = f :: ideal (rest ++ x) := by
  unfold ideal
  have e : idealGo ((b ++ x).length + 1) (b ++ x) = f :: idealGo (b ++ x).length (rest ++ x) := by
    simp [idealGo, decodeC_stable_frame b x f rest h]
  rw [e]
  congr 1
  obtain ⟨hb, _⟩ := decodeC_frame b f rest h
  have hl := frame_nonempty b f rest h
  apply idealGo_fuel
  · rw [hb]; simp; omega
  · simp

theorem ideal_none (b : Bytes) (h : decodeC b = .none) : ideal b = [] := by
  unfold ideal; simp [idealGo, h]

/-- poll `k` times, collecting the results -/
def polls : Nat → Rd → List REv → List PollR × Rd × List REv
  | 0, s, rs => ([], s, rs)
  | k + 1, s, rs =>
    match pollNext s rs with
    | (r, s', rs', _) =>
      match polls k s' rs' with
      | (l, s'', rs'') => (r :: l, s'', rs'')

def framesOf : List PollR → List Frame
  | [] => []
  | .item (.frame f) :: l => f :: framesOf l
  | _ :: l => framesOf l

/-- **run invariant**: as long as no poll reports an error, the frames delivered so far, followed by
    the ideal framing of everything not yet delivered (buffer + bytes the transport will still
    give), are the ideal framing of the whole stream -/
theorem polls_ideal : ∀ (k : Nat) (s : Rd) (rs : List REv) (res : List PollR) (s'' : Rd) (rs'' : List REv),
    polls k s rs = (res, s'', rs'') → s.errored = false → Settled s →
    (∀ r ∈ res, r ≠ .item .error) →
    framesOf res ++ ideal (s''.rbuf ++ dataOf rs'') = ideal (s.rbuf ++ dataOf rs) ∧
    Settled s'' ∧ s''.errored = false := by
  intro k
  induction k with
  | zero =>
    intro s rs res s'' rs'' h he hs _
    simp only [polls, Prod.mk.injEq] at h
    obtain ⟨rfl, rfl, rfl⟩ := h
    exact ⟨by simp [framesOf], hs, he⟩
  | succ k ih =>
    intro s rs res s'' rs'' h he hs hne
    simp only [polls] at h
    cases hp : pollNext s rs with
    | mk r t =>
      obtain ⟨s1, rs1, n1⟩ := t
      rw [hp] at h
      simp only at h
      cases hq : polls k s1 rs1 with
      | mk l t2 =>
        obtain ⟨s2, rs2⟩ := t2
        rw [hq] at h
        simp only [Prod.mk.injEq] at h
        obtain ⟨rfl, rfl, rfl⟩ := h
        obtain ⟨⟨used, hu1, hu2, _⟩, hk, _, hfr⟩ := pollNextGo_spec rs s 0 r s1 rs1 n1 hp
        have hr : r ≠ .item .error := hne r (by simp)
        obtain ⟨hs1, he1⟩ := hk hr he hs
        obtain ⟨hi, hs2, he2⟩ := ih s1 rs1 l s2 rs2 hq he1 hs1 (fun x hx => hne x (by simp [hx]))
        refine ⟨?_, hs2, he2⟩
        -- the whole stream = rawOf r ++ (s1.rbuf ++ dataOf rs1)
        have hstream : s.rbuf ++ dataOf rs = rawOf r ++ (s1.rbuf ++ dataOf rs1) := by
          rw [hu1, dataOf_append, ← List.append_assoc, hu2, List.append_assoc]
        rw [hstream]
        cases r with
        | pending => simpa [framesOf, rawOf] using hi
        | done => simpa [framesOf, rawOf] using hi
        | item it =>
          cases it with
          | error => exact absurd rfl hr
          | frame f =>
            simp only [framesOf, rawOf, List.cons_append]
            obtain ⟨b, hd⟩ := hfr f rfl
            obtain ⟨hb, _⟩ := decodeC_frame b f s1.rbuf hd
            have := ideal_frame b (dataOf rs1) f s1.rbuf hd
            rw [hb, List.append_assoc] at this
            rw [this, hi]

end Framed
