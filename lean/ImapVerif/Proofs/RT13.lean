/-
  Round-trip, thirteenth layer: METADATA (solicited and unsolicited).
-/
import ImapVerif.Proofs.RT12

open Bytes Parser Grammar

namespace RT

/-- an entry name: an astring that passes the entry-name check of rfc5464.rs -/
def EncEntry (s e : Bytes) : Prop := EncAString s e ∧ checkEntryName s = .ok ∧ validUtf8 s = true

def entryP : Parser Bytes := mapRes entryName utf8

theorem entry_enc (s e : Bytes) (h : EncEntry s e) : Parses entryP e s (Starts notAstringChar) := by
  obtain ⟨hs, hc, hu⟩ := h
  unfold entryP entryName
  refine Parses.mapRes _ _ (v := s) ?_ (by simp [utf8, hu])
  refine Parses.bind' (e2 := []) (astring_enc s e hs) ?_ (fun _ h => h) (by simp)
  rw [hc]
  exact Parses.pure _ _

theorem astring_err_of (x : UInt8) (r : Bytes) (h1 : isAstringChar x = false) (h2 : (x == 34) = false)
    (h3 : ((123 : UInt8) == x) = false) : astring (x :: r) = .err := by
  unfold astring alt
  rw [takeWhile1_err isAstringChar x r h1, string_err x r h2 h3]

theorem entry_err_of (x : UInt8) (r : Bytes) (h1 : isAstringChar x = false) (h2 : (x == 34) = false)
    (h3 : ((123 : UInt8) == x) = false) : entryP (x :: r) = .err := by
  unfold entryP entryName
  apply mapRes_err
  show Parser.bindP astring _ _ = .err
  unfold Parser.bindP
  rw [astring_err_of x r h1 h2 h3]

theorem encEntry_head (s e : Bytes) (h : EncEntry s e) : ∃ c t, e = c :: t ∧ (c == 40) = false ∧ notSpace c = true := by
  obtain ⟨hs, -, -⟩ := h
  cases hs with
  | atom hne hall =>
    cases s with
    | nil => exact absurd rfl hne
    | cons a as =>
      have ha := hall a (by simp)
      have key : ∀ n : Fin 256, isAstringChar (UInt8.ofNat n.val) = true →
          (UInt8.ofNat n.val == 40) = false ∧ notSpace (UInt8.ofNat n.val) = true := by decide +kernel
      have := key ⟨a.toNat, a.toNat_lt⟩
      simp only [UInt8.ofNat_toNat] at this
      exact ⟨a, as, rfl, this ha⟩
  | str e hs =>
    obtain ⟨t, ht | ht⟩ := encString_head s e hs
    · exact ⟨34, t, ht, by decide, by decide⟩
    · exact ⟨123, t, ht, by decide, by decide⟩

/-- a metadata value: NIL or a string -/
inductive EncMetaValue : Option Bytes → Bytes → Prop
  | nil (m : List Bool) : EncMetaValue none (spell (b!"NIL") m)
  | str (s e : Bytes) : EncString s e → validUtf8 s = true → EncMetaValue (some s) e

theorem metaValue_enc (v : Option Bytes) (e : Bytes) (h : EncMetaValue v e) :
    Parses (alt nilValue stringValue) e v Any := by
  cases h with
  | nil m =>
    refine Parses.altL ?_
    unfold nilValue
    exact Parses.map _ (tagNoCase_spell _ m)
  | str s e hs hu =>
    refine Parses.altR ?_ ?_
    · unfold stringValue
      exact Parses.mapRes _ _ (v := s) (string_enc s e hs) (by simp [utf8, hu])
    · intro rest _
      unfold nilValue
      obtain ⟨t, ht | ht⟩ := encString_head s e hs
      · subst ht; simp [Parser.map, tagNoCase_err_first (b!"NIL") 78 34 _ rfl (by decide)]
      · subst ht; simp [Parser.map, tagNoCase_err_first (b!"NIL") 78 123 _ rfl (by decide)]

inductive EncKeyval : Metadata → Bytes → Prop
  | mk (entry ee : Bytes) (value : Option Bytes) (ev : Bytes) : EncEntry entry ee → EncMetaValue value ev →
      EncKeyval { entry := entry, value := value } (ee ++ (b!" " ++ ev))

def keyvalP : Parser Metadata := do
  let entry ← mapRes entryName utf8
  tag (b!" ")
  let value ← alt nilValue stringValue
  pure { entry, value }

theorem keyval_enc (v : Metadata) (e : Bytes) (h : EncKeyval v e) : Parses keyvalP e v (Starts spaceOrClose) := by
  cases h with
  | mk entry ee value ev he hv =>
    unfold keyvalP
    refine Parses.bind (entry_enc entry ee he) ?_ (fun r _ => ⟨32, _, rfl, by decide⟩)
    refine Parses.bind (tag_ok _) ?_ (fun _ _ => trivial)
    exact Parses.bind' ((metaValue_enc value ev hv).weaken (fun _ _ => trivial)) (Parses.pure _ _)
      (fun _ h => h) (by simp)

/-- `METADATA SP mailbox SP` -/
theorem metadataCommon_enc (m : List Bool) (name ename : Bytes) (hn : EncAString name ename)
    (hu : validUtf8 name = true) :
    Parses metadataCommon (spell (b!"METADATA ") m ++ (ename ++ b!" ")) (canonMailbox name) Any := by
  unfold metadataCommon
  refine Parses.bind (tagNoCase_spell _ m) ?_ (fun _ _ => trivial)
  refine Parses.bind (mailbox_enc name ename hn hu) ?_ (fun r _ => ⟨32, _, rfl, by decide⟩)
  exact Parses.bind' (tag_ok _) (Parses.pure _ _) (fun _ _ => trivial) (by simp)

/-- solicited: `METADATA mailbox (entry value ...)` -/
theorem metadataSolicited_enc (m : List Bool) (name ename : Bytes) (hn : EncAString name ename)
    (hu : validUtf8 name = true) (first : Bytes × Metadata) (others : List (Bytes × Metadata))
    (hall : ∀ x ∈ first :: others, EncKeyval x.2 x.1) (F : Bytes → Prop) :
    Parses metadataSolicited
      (spell (b!"METADATA ") m ++ (ename ++ b!" ") ++ ([40] ++ (first.1 ++ (others.map fun x => [32] ++ x.1).flatten) ++ [41]))
      (.mailboxData (.metadataSolicited (canonMailbox name) (first.2 :: others.map (·.2)))) F := by
  unfold metadataSolicited
  refine Parses.bind (metadataCommon_enc m name ename hn hu) ?_ (fun _ _ => trivial)
  refine Parses.bind' (e1 := [40] ++ (first.1 ++ (others.map fun x => [32] ++ x.1).flatten) ++ [41]) (e2 := []) ?_
    (Parses.pure _ _) (fun _ h => h) (by simp)
  unfold keyvalList
  exact parenthesizedNonemptyList_enc (p := keyvalP) (R := EncKeyval) keyval_enc first others hall F

/-- after the entry list: CR / LF, or spaces (left for the response wrapper) before CR / LF -/
def EndOfEntries (r : Bytes) : Prop :=
  Starts crlfStart r ∨ ∃ t, r = 32 :: t ∧ Starts (fun c => c == 32 || c == 13 || c == 10) t

/-- unsolicited: `METADATA mailbox entry *(SP entry)` -/
theorem metadataUnsolicited_enc (m : List Bool) (name ename : Bytes) (hn : EncAString name ename)
    (hu : validUtf8 name = true) (first : Bytes × Bytes) (others : List (Bytes × Bytes))
    (hall : ∀ x ∈ first :: others, EncEntry x.2 x.1) :
    Parses metadataUnsolicited
      (spell (b!"METADATA ") m ++ (ename ++ b!" ") ++ (first.1 ++ (others.map fun x => b!" " ++ x.1).flatten))
      (.mailboxData (.metadataUnsolicited (canonMailbox name) (first.2 :: others.map (·.2)))) EndOfEntries := by
  unfold metadataUnsolicited
  refine Parses.bind (metadataCommon_enc m name ename hn hu) ?_ (fun _ _ => trivial)
  refine Parses.bind' (e1 := first.1 ++ (others.map fun x => b!" " ++ x.1).flatten) (e2 := []) ?_
    (Parses.pure _ _) (fun _ h => h) (by simp)
  unfold entryList
  have key := Parses.sepList0_cons2 (sep := tag (b!" ")) (p := entryP) Any (Starts notAstringChar) EndOfEntries
    first (others.map fun x => (b!" ", x.1, x.2)) (entry_enc _ _ (hall first (by simp))) ?_ ?_ ?_ ?_ ?_ ?_
  · simpa [List.map_map, Function.comp_def, entryP] using key
  · intro y hy
    simp only [List.mem_map] at hy
    obtain ⟨x, hx, rfl⟩ := hy
    exact ⟨tag_ok _, by simp⟩
  · intro y hy
    simp only [List.mem_map] at hy
    obtain ⟨x, hx, rfl⟩ := hy
    exact entry_enc _ _ (hall x (by simp [hx]))
  · intro _ _ _; trivial
  · intro y hy r
    simp only [List.mem_map] at hy
    obtain ⟨x, hx, rfl⟩ := hy
    exact ⟨32, r, rfl, by decide⟩
  · intro r hr
    rcases hr with h | ⟨t, rfl, _⟩
    · exact crlf_notAstring r h
    · exact ⟨32, t, rfl, by decide⟩
  · intro r hr
    rcases hr with ⟨c, t, rfl, hc⟩ | ⟨t, rfl, ⟨c, t', rfl, hc⟩⟩
    · left
      have : ((32 : UInt8) == c) = false := by
        simp only [crlfStart, Bool.or_eq_true, beq_iff_eq] at hc
        rcases hc with rfl | rfl <;> decide
      exact tag_err_first _ 32 c t rfl this
    · right
      refine ⟨c :: t', by simp [tag, tagGo], by simp, ?_⟩
      simp only [Bool.or_eq_true, beq_iff_eq] at hc
      apply entry_err_of <;> rcases hc with (rfl | rfl) | rfl <;> decide

theorem responseDataAlt_metaS (m : List Bool) (tail : Bytes) (v : Response) (F : Bytes → Prop)
    (h : Parses metadataSolicited (spell (b!"METADATA ") m ++ tail) v F) :
    Parses responseDataAlt (spell (b!"METADATA ") m ++ tail) v F := by
  unfold responseDataAlt
  walk_resp
  exact Parses.altL h

/-- the solicited form rejects an entry list (no parenthesis after the mailbox) -/
theorem metadataSolicited_err_entries (m : List Bool) (name ename : Bytes) (hn : EncAString name ename)
    (hu : validUtf8 name = true) (c : UInt8) (t : Bytes) (hc : (c == 40) = false) :
    metadataSolicited (spell (b!"METADATA ") m ++ (ename ++ b!" ") ++ (c :: t)) = .err := by
  unfold metadataSolicited
  show Parser.bindP metadataCommon _ _ = .err
  unfold Parser.bindP
  rw [metadataCommon_enc m name ename hn hu (c :: t) trivial]
  simp [keyvalList, parenthesizedNonemptyList, Bind.bind, Parser.bindP, char, hc]

theorem responseDataAlt_metaU (m : List Bool) (name ename : Bytes) (hn : EncAString name ename)
    (hu : validUtf8 name = true) (first : Bytes × Bytes) (others : List (Bytes × Bytes))
    (hall : ∀ x ∈ first :: others, EncEntry x.2 x.1) :
    Parses responseDataAlt
      (spell (b!"METADATA ") m ++ (ename ++ b!" ") ++ (first.1 ++ (others.map fun x => b!" " ++ x.1).flatten))
      (.mailboxData (.metadataUnsolicited (canonMailbox name) (first.2 :: others.map (·.2)))) EndOfEntries := by
  have hp := metadataUnsolicited_enc m name ename hn hu first others hall
  obtain ⟨c, t, hct, hc40, _⟩ := encEntry_head _ _ (hall first (by simp))
  unfold responseDataAlt
  refine Parses.altR (Parses.altR (Parses.altR (Parses.altR (Parses.altR (Parses.altR (Parses.altR (Parses.altL hp)
    ?_) ?_) ?_) ?_) ?_) ?_) ?_
  · intro rest _
    have : spell (b!"METADATA ") m ++ (ename ++ b!" ") ++ (first.1 ++ (others.map fun x => b!" " ++ x.1).flatten) ++ rest
        = spell (b!"METADATA ") m ++ (ename ++ b!" ") ++ (c :: (t ++ (others.map fun x => b!" " ++ x.1).flatten ++ rest)) := by
      simp [hct]
    rw [this]
    exact metadataSolicited_err_entries m name ename hn hu c _ hc40
  all_goals
    intro rest _
    simp only [List.append_assoc]
    first
      | exact respCond_err_kw _ _ _ (by decide)
      | exact resp_mailbox_err_kw _ _ _ _ (by decide) (by decide)
      | exact resp_expunge_err_kw _ _ _ _ (by decide)
      | exact resp_fetch_err_kw _ _ _ _ (by decide)
      | exact resp_caps_err _ _ _ (by decide)
      | exact resp_enabled_err _ _ _ (by decide)

end RT
