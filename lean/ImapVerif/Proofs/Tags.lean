/-
  The tag generator: `tagOf k = "A" ++ four decimal digits of k % 10000`.
-/
import ImapVerif.Builders
import ImapVerif.Grammar.Rfc3501

open Bytes Builders

namespace Tags

theorem digitOf_inj (a b : Nat) (ha : a < 10) (hb : b < 10) (h : digitOf a = digitOf b) : a = b := by
  unfold digitOf at h
  have h1 : (UInt8.ofNat (48 + a)).toNat = 48 + a := by simp [UInt8.toNat_ofNat]; omega
  have h2 : (UInt8.ofNat (48 + b)).toNat = 48 + b := by simp [UInt8.toNat_ofNat]; omega
  have := congrArg UInt8.toNat h
  omega

theorem pad4_inj (a b : Nat) (ha : a < 10000) (hb : b < 10000) (h : pad4 a = pad4 b) : a = b := by
  unfold pad4 at h
  simp only [List.cons.injEq, and_true] at h
  obtain ⟨h1, h2, h3, h4⟩ := h
  have e1 := digitOf_inj _ _ (Nat.mod_lt _ (by omega)) (Nat.mod_lt _ (by omega)) h1
  have e2 := digitOf_inj _ _ (Nat.mod_lt _ (by omega)) (Nat.mod_lt _ (by omega)) h2
  have e3 := digitOf_inj _ _ (Nat.mod_lt _ (by omega)) (Nat.mod_lt _ (by omega)) h3
  have e4 := digitOf_inj _ _ (Nat.mod_lt _ (by omega)) (Nat.mod_lt _ (by omega)) h4
  omega

theorem tagOf_inj_mod (i j : Nat) (h : tagOf i = tagOf j) : i % 10000 = j % 10000 := by
  unfold tagOf at h
  simp only [List.cons.injEq, true_and] at h
  exact pad4_inj _ _ (Nat.mod_lt _ (by omega)) (Nat.mod_lt _ (by omega)) h

theorem digitOf_tagChar (k : Nat) (h : k < 10) : Grammar.isTagChar (digitOf k) = true := by
  have hh : ∀ k : Fin 10, Grammar.isTagChar (digitOf k.val) = true := by decide
  exact hh ⟨k, h⟩

end Tags
