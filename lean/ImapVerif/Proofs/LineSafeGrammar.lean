/-
  `LineSafe` for every function of the grammar model below the response level, `LineOpen` for the
  three response forms.  By hand: `escaped`, `literal` (the only construct that spans CRLF),
  `entryName`.
-/
import ImapVerif.Proofs.LineSafe
import ImapVerif.Proofs.Stable
import ImapVerif.Proofs.Num
import ImapVerif.Proofs.EntryName
import ImapVerif.Grammar.Rfc3501

open Bytes Parser Grammar Line

set_option synthInstance.maxSize 100000
set_option synthInstance.maxHeartbeats 400000
set_option maxRecDepth 4000

namespace LineSafe

/-! ### byte classes exclude CR and LF -/

theorem stop_of_table (f : UInt8 → Bool)
    (key : ∀ n : Fin 256, f (UInt8.ofNat n.val) = true → isCRLFByte (UInt8.ofNat n.val) = false) :
    CRLFStop f := ⟨by
  intro c
  have := key ⟨c.toNat, c.toNat_lt⟩
  simpa using this⟩

instance : CRLFStop isAtomChar := stop_of_table _ (by decide +kernel)
instance : CRLFStop isAstringChar := stop_of_table _ (by decide +kernel)
instance : CRLFStop isTextChar := stop_of_table _ (by decide +kernel)
instance : CRLFStop isTagChar := stop_of_table _ (by decide +kernel)
instance : CRLFStop isQuotedNormal := stop_of_table _ (by decide +kernel)

/-! ### escaped -/

theorem escapedGo_line (normal : UInt8 → Bool) [hn : CRLFStop normal] :
    ∀ n i, i.length ≤ n → ∀ acc,
      (∀ v r, escapedGo normal acc i = .ok v r → ∃ c, i = c ++ r ∧ Free c) ∧
      (escapedGo normal acc i = .inc → Free i) := by
  intro n
  induction n with
  | zero =>
    intro i hi acc
    have : i = [] := List.eq_nil_of_length_eq_zero (by omega)
    subst this
    simp [escapedGo, Free.nil]
  | succ n ih =>
    intro i hi acc
    cases i with
    | nil => simp [escapedGo, Free.nil]
    | cons c r =>
      simp only [List.length_cons] at hi
      simp only [Stable.escapedGo_cons]
      by_cases hnc : normal c = true
      · simp only [hnc, if_true]
        have := ih r (by omega) (c :: acc)
        constructor
        · intro v r' h
          obtain ⟨c', hc', hf⟩ := this.1 v r' h
          exact ⟨c :: c', by simp [hc'], Free.cons (hn.out c hnc) hf⟩
        · intro h
          exact Free.cons (hn.out c hnc) (this.2 h)
      · simp only [hnc]
        by_cases h92 : (c == 92) = true
        · simp only [h92, if_true]
          have hc92 : c = 92 := by simpa using h92
          cases r with
          | nil =>
            simp
            subst hc92
            exact Free.cons (by decide) Free.nil
          | cons d r' =>
            by_cases hd : (d == 92 || d == 34) = true
            · simp only [hd, if_true]
              simp only [List.length_cons] at hi
              have := ih r' (by omega) (d :: c :: acc)
              have hdf : isCRLFByte d = false := by
                simp only [Bool.or_eq_true, beq_iff_eq] at hd
                rcases hd with rfl | rfl <;> decide
              have hcf : isCRLFByte c = false := by subst hc92; decide
              constructor
              · intro v r'' h
                obtain ⟨c', hc', hf⟩ := this.1 v r'' h
                exact ⟨c :: d :: c', by simp [hc'], Free.cons hcf (Free.cons hdf hf)⟩
              · intro h
                exact Free.cons hcf (Free.cons hdf (this.2 h))
            · simp [hd]
        · rw [if_neg h92]
          constructor
          · intro v r' h; cases h; exact ⟨[], rfl, Free.nil⟩
          · intro h; cases h

instance instEscaped (normal : UInt8 → Bool) [CRLFStop normal] : LineSafe (escaped normal) where
  ok := fun b v r h => by
    obtain ⟨c, hc, hf⟩ := (escapedGo_line normal b.length b (Nat.le_refl _) []).1 v r h
    exact ⟨c, hc, Seg.of_free c hf⟩
  inc := fun b h => SegOpen.of_free b ((escapedGo_line normal b.length b (Nat.le_refl _) []).2 h)

/-! ### literal -/

theorem number_inc_free (b : Bytes) (h : number b = .inc) : Free b := by
  unfold number numberB mapRes takeWhile1 at h
  split at h <;> try cases h
  · split at h <;> cases h
  · rename_i h1
    split at h1
    · rename_i heq
      intro c hc
      exact (inferInstance : CRLFStop isDigit).out c (dropWhile_nil_all isDigit b heq c hc)
    · split at h1 <;> cases h1

theorem literal_line (b : Bytes) :
    (∀ v r, literal b = .ok v r →
        ∃ ds, ds ≠ [] ∧ (∀ d ∈ ds, isDigit d = true) ∧ v.length = decVal ds ∧
          b = [123] ++ ds ++ [125, 13, 10] ++ v ++ r) ∧
    (literal b = .inc → SegOpen b) := by
  unfold literal
  simp only [Bind.bind, Parser.bindP, tag]
  cases b with
  | nil => simp [tagGo]; exact SegOpen.of_free [] Free.nil
  | cons x b1 =>
    simp only [tagGo]
    by_cases hx : (123 == x) = true
    · have hx' : x = 123 := (by simpa using hx : (123 : UInt8) = x).symm
      subst hx'
      simp only [beq_self_eq_true, if_true]
      cases hnum : number b1 with
      | inc =>
        simp
        exact SegOpen.of_free _ (Free.cons (by decide) (number_inc_free b1 hnum))
      | err => simp
      | fail => simp
      | panic => simp
      | ok n r1 =>
        obtain ⟨ds, hb1, hne, hall, hval, _, _, hr1⟩ := Num.numberB_sound (2 ^ 32) b1 n r1 hnum
        simp only
        cases r1 with
        | nil => exact absurd rfl hr1
        | cons y r2 =>
          simp only [tagGo]
          by_cases hy : (125 == y) = true
          · have hy' : y = 125 := (by simpa using hy : (125 : UInt8) = y).symm
            subst hy'
            simp only [beq_self_eq_true, if_true]
            have hfr : Free ([123] ++ ds ++ [125]) := by
              refine Free.append (Free.append ?_ (digits_free ds hall)) ?_
              · intro c hc; simp at hc; subst hc; decide
              · intro c hc; simp at hc; subst hc; decide
            match r2 with
            | [] =>
              simp [tagGo]
              have : (123 : UInt8) :: b1 = [123] ++ ds ++ [125] := by simp [hb1]
              rw [this]; exact SegOpen.of_free _ hfr
            | [z] =>
              simp only [tagGo]
              by_cases hz : (13 == z) = true
              · have hz' : z = 13 := (by simpa using hz : (13 : UInt8) = z).symm
                subst hz'
                simp
                have : (123 : UInt8) :: b1 = ([123] ++ ds ++ [125]) ++ [13] := by simp [hb1]
                rw [this]
                exact ⟨[], _, by simp, Seg.nil, OpenTail.cr _ hfr⟩
              · simp [hz]
            | z :: w :: r3 =>
              simp only [tagGo]
              by_cases hz : (13 == z) = true
              · have hz' : z = 13 := (by simpa using hz : (13 : UInt8) = z).symm
                subst hz'
                simp only [beq_self_eq_true, if_true]
                by_cases hw : (10 == w) = true
                · have hw' : w = 10 := (by simpa using hw : (10 : UInt8) = w).symm
                  subst hw'
                  simp only [beq_self_eq_true, if_true, take]
                  by_cases hlen : r3.length < n
                  · simp only [hlen, if_true]
                    simp
                    have : (123 : UInt8) :: b1 = [] ++ [123] ++ ds ++ [125, 13, 10] ++ r3 := by simp [hb1]
                    rw [this]
                    exact ⟨[], _, by simp, Seg.nil,
                      OpenTail.lit [] ds r3 Free.nil hne hall (by rw [hval]; exact hlen)⟩
                  · simp only [hlen, if_false]
                    split
                    · simp [Pure.pure, Parser.pureP]
                      exact ⟨ds, hne, hall, by rw [hval]; omega, hb1⟩
                    · simp [errP]
                · simp [hw]
              · simp [hz]
          · simp [hy]
    · simp [hx]

instance : LineSafe literal where
  ok := fun b v r h => by
    obtain ⟨ds, hne, hall, hlen, hb⟩ := (literal_line b).1 v r h
    refine ⟨[123] ++ ds ++ [125, 13, 10] ++ v, by simp [hb], ?_⟩
    have := Seg.lit ds v [] hne hall hlen Seg.nil
    simpa using this
  inc := fun b h => (literal_line b).2 h

/-! ### core.rs -/

instance : LineSafe (numberB n) := by unfold numberB; infer_instance
instance : LineSafe number := by unfold number; infer_instance
instance : LineSafe number64 := by unfold number64; infer_instance
instance : LineSafe sequenceRange := by unfold sequenceRange; infer_instance
instance : LineSafe sequenceSet := by unfold sequenceSet; infer_instance
instance : LineSafe quoted := by unfold quoted; infer_instance
instance : LineSafe quotedUtf8 := by unfold quotedUtf8; infer_instance
instance : LineSafe string := by unfold string; infer_instance
instance : LineSafe stringUtf8 := by unfold stringUtf8; infer_instance
instance : LineSafe astring := by unfold astring; infer_instance
instance : LineSafe astringUtf8 := by unfold astringUtf8; infer_instance
instance : LineSafe atom := by unfold atom; infer_instance
instance : LineSafe nil := by unfold nil; infer_instance
instance : LineSafe nstring := by unfold nstring; infer_instance
instance : LineSafe nstringUtf8 := by unfold nstringUtf8; infer_instance
instance : LineSafe text := by unfold text; infer_instance
instance (p : Parser α) [LineSafe p] : LineSafe (parenDelimited p) := by unfold parenDelimited; infer_instance
instance (p : Parser α) [LineSafe p] : LineSafe (parenthesizedNonemptyList p) := by
  unfold parenthesizedNonemptyList; infer_instance
instance (p : Parser α) [LineSafe p] : LineSafe (parenthesizedList p) := by
  unfold parenthesizedList; infer_instance
instance : LineSafe mailbox := by unfold mailbox; infer_instance
instance : LineSafe flagExtension := by unfold flagExtension; infer_instance
instance : LineSafe flag := by unfold flag; infer_instance

/-! ### extensions -/

instance : LineSafe quotaResourceName := by unfold quotaResourceName; infer_instance
instance : LineSafe quotaResource := by unfold quotaResource; infer_instance
instance : LineSafe quotaList := by unfold quotaList; infer_instance
instance : LineSafe quota := by unfold quota; infer_instance
instance : LineSafe quotaRoot := by unfold quotaRoot; infer_instance
instance : LineSafe idParam := by unfold idParam; infer_instance
instance : LineSafe idParamListNotNil := by unfold idParamListNotNil; infer_instance
instance : LineSafe idParamList := by unfold idParamList; infer_instance
instance : LineSafe respId := by unfold respId; infer_instance
instance : LineSafe aclEntry := by unfold aclEntry; infer_instance
instance : LineSafe aclList := by unfold aclList; infer_instance
instance : LineSafe acl := by unfold acl; infer_instance
instance : LineSafe listRightsOptional := by unfold listRightsOptional; infer_instance
instance : LineSafe listRights := by unfold listRights; infer_instance
instance : LineSafe myRights := by unfold myRights; infer_instance
instance : LineSafe uidRange := by unfold uidRange; infer_instance
instance : LineSafe uidSet := by unfold uidSet; infer_instance
instance : LineSafe respTextCodeAppendUid := by unfold respTextCodeAppendUid; infer_instance
instance : LineSafe respTextCodeCopyUid := by unfold respTextCodeCopyUid; infer_instance
instance : LineSafe respTextCodeUidNotSticky := by unfold respTextCodeUidNotSticky; infer_instance
instance : LineSafe respTextCodeHighestModSeq := by unfold respTextCodeHighestModSeq; infer_instance
instance : LineSafe statusAttValHighestModSeq := by unfold statusAttValHighestModSeq; infer_instance
instance : LineSafe msgAttModSeq := by unfold msgAttModSeq; infer_instance
instance : LineSafe enabledData := by unfold enabledData; infer_instance
instance : LineSafe respEnabled := by unfold respEnabled; infer_instance
instance : LineSafe mailboxDataSort := by unfold mailboxDataSort; infer_instance

/-- `entry_name`: the check runs on the finished token and can only turn an accept into an error -/
instance : LineSafe entryName := by
  unfold entryName
  refine @instBind _ _ _ _ inferInstance (fun s => ?_)
  rcases EntryName.checkEntryName_total s with h | h <;> simp only [h] <;> infer_instance

instance : LineSafe nilValue := by unfold nilValue; infer_instance
instance : LineSafe stringValue := by unfold stringValue; infer_instance
instance : LineSafe keyvalList := by unfold keyvalList; infer_instance
instance : LineSafe entryList := by unfold entryList; infer_instance
instance : LineSafe metadataCommon := by unfold metadataCommon; infer_instance
instance : LineSafe metadataSolicited := by unfold metadataSolicited; infer_instance
instance : LineSafe metadataUnsolicited := by unfold metadataUnsolicited; infer_instance
instance : LineSafe respTextCodeMetadataLongEntries := by unfold respTextCodeMetadataLongEntries; infer_instance
instance : LineSafe respTextCodeMetadataMaxSize := by unfold respTextCodeMetadataMaxSize; infer_instance
instance : LineSafe respTextCodeMetadataTooMany := by unfold respTextCodeMetadataTooMany; infer_instance
instance : LineSafe respTextCodeMetadataNoPrivate := by unfold respTextCodeMetadataNoPrivate; infer_instance
instance : LineSafe respVanished := by unfold respVanished; infer_instance
instance : LineSafe gmailLabelList := by unfold gmailLabelList; infer_instance
instance : LineSafe msgAttGmailLabels := by unfold msgAttGmailLabels; infer_instance
instance : LineSafe mailboxDataGmailLabels := by unfold mailboxDataGmailLabels; infer_instance
instance : LineSafe gmailMsgId := by unfold gmailMsgId; infer_instance
instance : LineSafe msgAttGmailMsgId := by unfold msgAttGmailMsgId; infer_instance
instance : LineSafe mailboxDataGmailMsgId := by unfold mailboxDataGmailMsgId; infer_instance

/-! ### envelope, body.rs, body_structure.rs -/

instance : LineSafe address := by unfold address; infer_instance
instance : LineSafe optAddresses := by unfold optAddresses; infer_instance
instance : LineSafe envelope := by unfold envelope; infer_instance
instance : LineSafe sectionPart := by unfold sectionPart; infer_instance
instance : LineSafe sectionMsgtext := by unfold sectionMsgtext; infer_instance
instance : LineSafe sectionText := by unfold sectionText; infer_instance
instance : LineSafe sectionSpec := by unfold sectionSpec; infer_instance
instance : LineSafe section_ := by unfold section_; infer_instance
instance : LineSafe msgAttBodySection := by unfold msgAttBodySection; infer_instance
instance : LineSafe bodyParam := by unfold bodyParam; infer_instance
instance : LineSafe bodyEncoding := by unfold bodyEncoding; infer_instance
instance : LineSafe bodyLang := by unfold bodyLang; infer_instance
instance : LineSafe bodyDisposition := by unfold bodyDisposition; infer_instance
instance : LineSafe bodyFields := by unfold bodyFields; infer_instance

instance instBodyExtension : ∀ n, LineSafe (bodyExtension n)
  | 0 => by unfold bodyExtension; infer_instance
  | n + 1 => by
    have := instBodyExtension n
    unfold bodyExtension; infer_instance

instance : LineSafe (bodyExt1Part n) := by unfold bodyExt1Part; infer_instance
instance : LineSafe (bodyExtMPart n) := by unfold bodyExtMPart; infer_instance
instance : LineSafe (bodyTypeBasic n) := by unfold bodyTypeBasic; infer_instance
instance : LineSafe (bodyTypeText n) := by unfold bodyTypeText; infer_instance
instance (child : Parser BodyStructure) [LineSafe child] : LineSafe (bodyTypeMessage child n) := by
  unfold bodyTypeMessage; infer_instance
instance (child : Parser BodyStructure) [LineSafe child] : LineSafe (bodyTypeMultipart child n) := by
  unfold bodyTypeMultipart; infer_instance

instance instBodyNested : ∀ n, LineSafe (bodyNested n)
  | 0 => by unfold bodyNested; infer_instance
  | n + 1 => by
    have := instBodyNested n
    unfold bodyNested; infer_instance

instance : LineSafe body := by unfold body; infer_instance
instance : LineSafe msgAttBodyStructure := by unfold msgAttBodyStructure; infer_instance
instance : LineSafe msgAttBody := by unfold msgAttBody; infer_instance

/-! ### rfc3501/mod.rs -/

instance : LineSafe statusP := by unfold statusP; infer_instance
instance : LineSafe flagPerm := by unfold flagPerm; infer_instance
instance : LineSafe flagList := by unfold flagList; infer_instance
instance : LineSafe capability := by unfold capability; infer_instance
instance : LineSafe capabilityData := by unfold capabilityData; infer_instance
instance : LineSafe respTextCodeBadCharset := by unfold respTextCodeBadCharset; infer_instance
instance : LineSafe respTextCodePermanentFlags := by unfold respTextCodePermanentFlags; infer_instance
instance : LineSafe respTextCodeUidValidity := by unfold respTextCodeUidValidity; infer_instance
instance : LineSafe respTextCodeUidNext := by unfold respTextCodeUidNext; infer_instance
instance : LineSafe respTextCodeUnseen := by unfold respTextCodeUnseen; infer_instance
instance : LineSafe respTextCodeAlt := by unfold respTextCodeAlt; infer_instance
instance : LineSafe respTextCode := by unfold respTextCode; infer_instance
instance : LineSafe mailboxDataSearch := by unfold mailboxDataSearch; infer_instance
instance : LineSafe mailboxDataFlags := by unfold mailboxDataFlags; infer_instance
instance : LineSafe mailboxDataExists := by unfold mailboxDataExists; infer_instance
instance : LineSafe nameAttributeExt := by unfold nameAttributeExt; infer_instance
instance : LineSafe nameAttribute := by unfold nameAttribute; infer_instance
instance : LineSafe mailboxList := by unfold mailboxList; infer_instance
instance : LineSafe mailboxDataList := by unfold mailboxDataList; infer_instance
instance : LineSafe mailboxDataLsub := by unfold mailboxDataLsub; infer_instance
instance : LineSafe statusAtt := by unfold statusAtt; infer_instance
instance : LineSafe statusAttList := by unfold statusAttList; infer_instance
instance : LineSafe mailboxDataStatus := by unfold mailboxDataStatus; infer_instance
instance : LineSafe mailboxDataRecent := by unfold mailboxDataRecent; infer_instance
instance : LineSafe mailboxData := by unfold mailboxData; infer_instance
instance : LineSafe msgAttEnvelope := by unfold msgAttEnvelope; infer_instance
instance : LineSafe msgAttInternalDate := by unfold msgAttInternalDate; infer_instance
instance : LineSafe msgAttFlags := by unfold msgAttFlags; infer_instance
instance : LineSafe msgAttRfc822 := by unfold msgAttRfc822; infer_instance
instance : LineSafe msgAttRfc822Header := by unfold msgAttRfc822Header; infer_instance
instance : LineSafe msgAttRfc822Size := by unfold msgAttRfc822Size; infer_instance
instance : LineSafe msgAttRfc822Text := by unfold msgAttRfc822Text; infer_instance
instance : LineSafe msgAttUid := by unfold msgAttUid; infer_instance
instance : LineSafe msgAtt := by unfold msgAtt; infer_instance
instance : LineSafe msgAttList := by unfold msgAttList; infer_instance
instance : LineSafe messageDataFetch := by unfold messageDataFetch; infer_instance
instance : LineSafe messageDataExpunge := by unfold messageDataExpunge; infer_instance
instance : LineSafe imapTag := by unfold imapTag; infer_instance
instance : LineSafe respText := by unfold respText; infer_instance
instance : LineSafe trailingRespText := by unfold trailingRespText; infer_instance
instance : LineSafe respCond := by unfold respCond; infer_instance
instance : LineSafe responseDataAlt := by unfold responseDataAlt; infer_instance

/-! ### the response level: everything up to the terminator is `LineSafe`, then `tag CRLF` -/

instance instCRLFThenPure (v : β) :
    LineOpen (tag [13, 10] >>= fun (_ : Unit) => (Pure.pure v : Parser β)) where
  inc := fun b h => by
    cases h1 : tag [13, 10] b with
    | inc => exact instCRLFOpen.inc _ h1
    | ok u r => simp [Bind.bind, Parser.bindP, h1, Pure.pure, Parser.pureP] at h
    | err => simp [Bind.bind, Parser.bindP, h1] at h
    | fail => simp [Bind.bind, Parser.bindP, h1] at h
    | panic => simp [Bind.bind, Parser.bindP, h1] at h

instance : LineOpen continueReq := by unfold continueReq; infer_instance
instance : LineOpen responseTagged := by unfold responseTagged; infer_instance
instance : LineOpen responseData := by unfold responseData; infer_instance
instance : LineOpen parseResponse := by unfold parseResponse; infer_instance

end LineSafe

/-! ### accepted responses end in CRLF after a `Seg` -/

/-- an accept consumed a `Seg` followed by exactly one CRLF -/
class LineEnd (p : Parser α) : Prop where
  ok : ∀ b v r, p b = .ok v r → ∃ c, b = c ++ [13, 10] ++ r ∧ Seg c

namespace LineEnd

instance instCRLFThenPure (v : β) :
    LineEnd (tag [13, 10] >>= fun (_ : Unit) => (Pure.pure v : Parser β)) where
  ok := fun b w r h => by
    simp only [Bind.bind, Parser.bindP] at h
    split at h <;> try cases h
    rename_i u h1
    match b, h1 with
    | x :: y :: r', h1 =>
      simp only [tag, tagGo] at h1
      split at h1 <;> try cases h1
      rename_i hx
      split at h1 <;> try cases h1
      rename_i hy
      have hx' : x = 13 := (by simpa using hx : (13 : UInt8) = x).symm
      have hy' : y = 10 := (by simpa using hy : (10 : UInt8) = y).symm
      subst hx' hy'
      exact ⟨[], rfl, Seg.nil⟩
    | [x], h1 =>
      simp only [tag, tagGo] at h1
      split at h1 <;> cases h1
    | [], h1 => simp [tag, tagGo] at h1

instance instBind (p : Parser α) (f : α → Parser β) [hp : LineSafe p] [hf : ∀ a, LineEnd (f a)] :
    LineEnd (p >>= f) where
  ok := fun b v r h => by
    simp only [Bind.bind, Parser.bindP] at h
    split at h <;> try cases h
    rename_i v1 r1 h1
    obtain ⟨c1, rfl, s1⟩ := hp.ok _ _ _ h1
    obtain ⟨c2, rfl, s2⟩ := (hf v1).ok _ _ _ h
    exact ⟨c1 ++ c2, by simp, s1.append s2⟩

instance instAlt (p q : Parser α) [hp : LineEnd p] [hq : LineEnd q] : LineEnd (alt p q) where
  ok := fun b v r h => by
    simp only [alt] at h
    split at h
    · exact hq.ok _ _ _ h
    · exact hp.ok _ _ _ h

instance : LineEnd continueReq := by unfold continueReq; infer_instance
instance : LineEnd responseTagged := by unfold responseTagged; infer_instance
instance : LineEnd responseData := by unfold responseData; infer_instance
instance : LineEnd parseResponse := by unfold parseResponse; infer_instance

end LineEnd
