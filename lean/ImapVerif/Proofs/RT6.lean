/-
  Round-trip, sixth layer: mailbox data (EXISTS, RECENT, FLAGS, SEARCH, SORT, LIST, LSUB, STATUS) and
  EXPUNGE, with the rejection of the alternatives tried before each.
-/
import ImapVerif.Proofs.RT5

open Bytes Parser Grammar

namespace RT

/-! ### helpers: a keyword alternative on another keyword -/

/-- none of the five status keywords can start this keyword -/
def notStatusKw (u : Bytes) : Bool :=
  mismatch (b!"OK") u && mismatch (b!"NO") u && mismatch (b!"BAD") u && mismatch (b!"PREAUTH") u &&
    mismatch (b!"BYE") u

theorem statusP_err_kw (u : Bytes) (m : List Bool) (r : Bytes) (h : notStatusKw u = true) :
    statusP (spell u m ++ r) = .err := by
  simp only [notStatusKw, Bool.and_eq_true] at h
  obtain ⟨⟨⟨⟨h1, h2⟩, h3⟩, h4⟩, h5⟩ := h
  unfold statusP
  simp only [alt, Parser.map]
  rw [tagNoCase_mismatch _ u m r h1, tagNoCase_mismatch _ u m r h2, tagNoCase_mismatch _ u m r h3,
    tagNoCase_mismatch _ u m r h4, tagNoCase_mismatch _ u m r h5]

theorem respCond_err_kw (u : Bytes) (m : List Bool) (r : Bytes) (h : notStatusKw u = true) :
    respCond (spell u m ++ r) = .err := by
  unfold respCond
  show Parser.bindP statusP _ _ = .err
  unfold Parser.bindP
  rw [statusP_err_kw u m r h]

/-- `number` fails on a keyword that does not start with a digit -/
theorem number_err_kw (c : UInt8) (u : Bytes) (m : List Bool) (r : Bytes)
    (hc : isDigit c = false ∧ isDigit (flipCase c) = false) : number (spell (c :: u) m ++ r) = .err := by
  obtain ⟨c', hc', hcc⟩ := spell_cons c u m
  rw [hc', List.cons_append]
  unfold number
  apply numberB_err
  rcases hcc with rfl | rfl
  · exact hc.1
  · exact hc.2

theorem numBind_err_kw {β : Type} (f : Nat → Parser β) (c : UInt8) (u : Bytes) (m : List Bool) (r : Bytes)
    (hc : isDigit c = false ∧ isDigit (flipCase c) = false) : (number >>= f) (spell (c :: u) m ++ r) = .err := by
  show Parser.bindP number f _ = .err
  unfold Parser.bindP
  rw [number_err_kw c u m r hc]

/-! ### EXISTS, RECENT, EXPUNGE -/

theorem mailboxDataExists_enc (n : Nat) (hn : n < 2 ^ 32) (e : Bytes) (he : EncNumber n e) (m : List Bool) :
    Parses mailboxData (e ++ spell (b!" EXISTS") m) (.exists_ n) Any := by
  unfold mailboxData
  refine Parses.altR (Parses.altL ?_) ?_
  · unfold mailboxDataExists
    refine Parses.bind (number_enc (2 ^ 32) n e he hn) ?_ (fun r _ => spell_space_head _ m r)
    exact Parses.bind' (tagNoCase_spell _ m) (Parses.pure _ _) (fun _ _ => trivial) (by simp)
  · intro rest _
    rw [List.append_assoc]
    unfold mailboxDataFlags
    exact kwBind_err_num _ _ _ n e _ he rfl (by decide)

theorem mailboxDataRecent_enc (n : Nat) (hn : n < 2 ^ 32) (e : Bytes) (he : EncNumber n e) (m : List Bool) :
    Parses mailboxData (e ++ spell (b!" RECENT") m) (.recent n) Any := by
  unfold mailboxData
  refine Parses.altR (Parses.altR (Parses.altR (Parses.altR (Parses.altR (Parses.altL ?_) ?_) ?_) ?_) ?_) ?_
  · unfold mailboxDataRecent
    refine Parses.bind (number_enc (2 ^ 32) n e he hn) ?_ (fun r _ => spell_space_head _ m r)
    exact Parses.bind' (tagNoCase_spell _ m) (Parses.pure _ _) (fun _ _ => trivial) (by simp)
  · intro rest _; rw [List.append_assoc]
    unfold mailboxDataStatus; exact kwBind_err_num _ _ _ n e _ he rfl (by decide)
  · intro rest _; rw [List.append_assoc]
    unfold mailboxDataLsub; exact kwBind_err_num _ _ _ n e _ he rfl (by decide)
  · intro rest _; rw [List.append_assoc]
    unfold mailboxDataList; exact kwBind_err_num _ _ _ n e _ he rfl (by decide)
  · intro rest _; rw [List.append_assoc]
    unfold mailboxDataExists; exact numKw_err _ _ n e _ m rest he hn (by decide)
  · intro rest _; rw [List.append_assoc]
    unfold mailboxDataFlags; exact kwBind_err_num _ _ _ n e _ he rfl (by decide)

/-- the simple numeric untagged responses -/
inductive EncNumeric : Response → Bytes → Prop
  | exists_ (n : Nat) (e : Bytes) (m : List Bool) : n < 2 ^ 32 → EncNumber n e →
      EncNumeric (.mailboxData (.exists_ n)) (e ++ spell (b!" EXISTS") m)
  | recent (n : Nat) (e : Bytes) (m : List Bool) : n < 2 ^ 32 → EncNumber n e →
      EncNumeric (.mailboxData (.recent n)) (e ++ spell (b!" RECENT") m)
  | expunge (n : Nat) (e : Bytes) (m : List Bool) : n < 2 ^ 32 → EncNumber n e →
      EncNumeric (.expunge n) (e ++ spell (b!" EXPUNGE") m)

theorem responseDataAlt_numeric (r : Response) (e : Bytes) (h : EncNumeric r e) :
    Parses responseDataAlt e r Any := by
  unfold responseDataAlt
  cases h with
  | exists_ n e m hn he =>
    refine Parses.altR (Parses.altL (Parses.map _ (mailboxDataExists_enc n hn e he m))) ?_
    intro rest _; rw [List.append_assoc]; exact respCond_err_num n e _ he
  | recent n e m hn he =>
    refine Parses.altR (Parses.altL (Parses.map _ (mailboxDataRecent_enc n hn e he m))) ?_
    intro rest _; rw [List.append_assoc]; exact respCond_err_num n e _ he
  | expunge n e m hn he =>
    refine Parses.altR (Parses.altR (Parses.altL (Parses.map _ ?_)) ?_) ?_
    · unfold messageDataExpunge
      refine Parses.bind (number_enc (2 ^ 32) n e he hn) ?_ (fun r _ => spell_space_head _ m r)
      exact Parses.bind' (tagNoCase_spell _ m) (Parses.pure _ _) (fun _ _ => trivial) (by simp)
    · intro rest _; rw [List.append_assoc]
      exact map_err _ _ _ (mailboxData_err_num n e _ m _ he hn (by decide) (by decide))
    · intro rest _; rw [List.append_assoc]; exact respCond_err_num n e _ he

/-! ### FLAGS -/

theorem mailboxDataFlags_enc (vs : List Bytes) (e : Bytes) (he : EncList EncFlagPerm vs e) (m : List Bool) :
    Parses mailboxData (spell (b!"FLAGS ") m ++ e) (.flags vs) Any := by
  unfold mailboxData
  refine Parses.altL ?_
  unfold mailboxDataFlags
  refine Parses.bind (tagNoCase_spell _ m) ?_ (fun _ _ => trivial)
  exact Parses.bind' (flagList_enc vs e he Any) (Parses.pure _ _) (fun _ _ => trivial) (by simp)

/-! ### SEARCH, SORT -/

/-- `SP number` items -/
def spNumber : Parser Nat := do tag (b!" "); number

theorem spNumber_enc (n : Nat) (hn : n < 2 ^ 32) (e : Bytes) (he : EncNumber n e) :
    Parses spNumber (b!" " ++ e) n (Starts notDigit) := by
  unfold spNumber
  exact Parses.bind (tag_ok _) (number_enc (2 ^ 32) n e he hn) (fun _ _ => trivial)

theorem spNumber_err_nonspace (x : UInt8) (r : Bytes) (h : ((32 : UInt8) == x) = false) :
    spNumber (x :: r) = .err := by
  unfold spNumber
  show Parser.bindP (tag (b!" ")) _ _ = .err
  unfold Parser.bindP
  rw [tag_err_first (b!" ") 32 x r rfl h]

theorem spNumber_err_space_nondigit (x : UInt8) (r : Bytes) (h : isDigit x = false) :
    spNumber (32 :: x :: r) = .err := by
  unfold spNumber
  show Parser.bindP (tag (b!" ")) _ _ = .err
  unfold Parser.bindP
  simp [tag, tagGo, number, numberB_err (2 ^ 32) x r h]

/-- what may follow the number list: CR, or a space that is not followed by a digit -/
def EndOfNumbers (r : Bytes) : Prop :=
  (∃ t, r = 13 :: t) ∨ (∃ x t, r = 32 :: x :: t ∧ isDigit x = false)

theorem numbers_many0 (items : List (Bytes × Nat)) (hall : ∀ x ∈ items, x.2 < 2 ^ 32 ∧ EncNumber x.2 x.1) :
    Parses (many0 spNumber) (items.map fun x => b!" " ++ x.1).flatten (items.map (·.2)) EndOfNumbers := by
  have key := Parses.many0 (p := spNumber) (Starts notDigit) EndOfNumbers
    (items.map fun x => (b!" " ++ x.1, x.2)) ?_ ?_ ?_ ?_ ?_
  · simpa [List.map_map, Function.comp_def] using key
  · intro y hy
    simp only [List.mem_map] at hy
    obtain ⟨x, hx, rfl⟩ := hy
    exact spNumber_enc x.2 (hall x hx).1 x.1 (hall x hx).2
  · intro y hy
    simp only [List.mem_map] at hy
    obtain ⟨x, hx, rfl⟩ := hy
    simp
  · intro y hy r
    simp only [List.mem_map] at hy
    obtain ⟨x, hx, rfl⟩ := hy
    exact ⟨32, x.1 ++ r, by simp, by decide⟩
  · intro r hr
    rcases hr with ⟨t, rfl⟩ | ⟨x, t, rfl, _⟩
    · exact ⟨13, t, rfl, by decide⟩
    · exact ⟨32, x :: t, rfl, by decide⟩
  · intro r hr
    rcases hr with ⟨t, rfl⟩ | ⟨x, t, rfl, hx⟩
    · exact spNumber_err_nonspace 13 t (by decide)
    · exact spNumber_err_space_nondigit x t hx

/-- SEARCH / SORT: the keyword, the numbers, and the tolerated trailing space -/
inductive EncNumList : Bytes → List Nat → Bool → Bytes → Prop
  | mk (kw : Bytes) (m : List Bool) (items : List (Bytes × Nat)) (sp : Bool) :
      (∀ x ∈ items, x.2 < 2 ^ 32 ∧ EncNumber x.2 x.1) →
      EncNumList kw (items.map (·.2)) sp
        (spell kw m ++ ((items.map fun x => b!" " ++ x.1).flatten ++ (if sp then b!" " else [])))

/-- after the list: with the trailing space anything that is not a digit may follow (in a response:
    further spaces or CR); without it, CR -/
def AfterNumList (sp : Bool) (r : Bytes) : Prop :=
  if sp then Starts notDigit r else ∃ t, r = 13 :: t

theorem numList_tail (v : List Nat) (sp : Bool) (g : List Nat → MailboxDatum) :
    Parses (do let _ ← opt (tag (b!" ")); pure (g v) : Parser MailboxDatum) (if sp then b!" " else []) (g v)
      (AfterNumList sp) := by
  cases sp with
  | true => exact Parses.bind' (Parses.optSome (tag_ok _)) (Parses.pure _ _) (fun _ _ => trivial) (by simp)
  | false =>
    refine Parses.bind' (Parses.optNone ?_) (Parses.pure _ _) (fun _ h => h) (by simp)
    intro rest hr
    simp only [AfterNumList] at hr
    obtain ⟨t, rfl⟩ := hr
    exact tag_err_first _ 32 13 t rfl (by decide)

theorem mailboxDataSearch_enc (v : List Nat) (sp : Bool) (e : Bytes) (h : EncNumList (b!"SEARCH") v sp e) :
    Parses mailboxDataSearch e (.search v) (AfterNumList sp) := by
  cases h with
  | mk m items sp hall =>
    unfold mailboxDataSearch
    refine Parses.bind (tagNoCase_spell _ m) ?_ (fun _ _ => trivial)
    refine Parses.bind (numbers_many0 items hall) (numList_tail _ sp MailboxDatum.search) ?_
    intro r hr
    cases sp with
    | true =>
      obtain ⟨c, t, rfl, hc⟩ := hr
      exact Or.inr ⟨c, t, rfl, by simpa [notDigit] using hc⟩
    | false =>
      simp only [AfterNumList] at hr
      obtain ⟨t, rfl⟩ := hr
      exact Or.inl ⟨t, rfl⟩

theorem mailboxDataSort_enc (v : List Nat) (sp : Bool) (e : Bytes) (h : EncNumList (b!"SORT") v sp e) :
    Parses mailboxDataSort e (.sort v) (AfterNumList sp) := by
  cases h with
  | mk m items sp hall =>
    unfold mailboxDataSort
    refine Parses.bind (tagNoCase_spell _ m) ?_ (fun _ _ => trivial)
    refine Parses.bind (numbers_many0 items hall) (numList_tail _ sp MailboxDatum.sort) ?_
    intro r hr
    cases sp with
    | true =>
      obtain ⟨c, t, rfl, hc⟩ := hr
      exact Or.inr ⟨c, t, rfl, by simpa [notDigit] using hc⟩
    | false =>
      simp only [AfterNumList] at hr
      obtain ⟨t, rfl⟩ := hr
      exact Or.inl ⟨t, rfl⟩

/-- alternatives of `mailbox_data` before a keyword-introduced datum reject it -/
theorem mailboxData_skip_to_search (m : List Bool) (r : Bytes) :
    mailboxDataFlags (spell (b!"SEARCH") m ++ r) = .err ∧ mailboxDataExists (spell (b!"SEARCH") m ++ r) = .err ∧
    mailboxDataList (spell (b!"SEARCH") m ++ r) = .err ∧ mailboxDataLsub (spell (b!"SEARCH") m ++ r) = .err ∧
    mailboxDataStatus (spell (b!"SEARCH") m ++ r) = .err ∧ mailboxDataRecent (spell (b!"SEARCH") m ++ r) = .err := by
  refine ⟨?_, ?_, ?_, ?_, ?_, ?_⟩
  · unfold mailboxDataFlags; exact kwBind_err _ _ _ m r (by decide)
  · unfold mailboxDataExists; exact numBind_err_kw _ 83 _ m r (by decide)
  · unfold mailboxDataList; exact kwBind_err _ _ _ m r (by decide)
  · unfold mailboxDataLsub; exact kwBind_err _ _ _ m r (by decide)
  · unfold mailboxDataStatus; exact kwBind_err _ _ _ m r (by decide)
  · unfold mailboxDataRecent; exact numBind_err_kw _ 83 _ m r (by decide)

theorem mailboxData_search (v : List Nat) (sp : Bool) (e : Bytes) (h : EncNumList (b!"SEARCH") v sp e) :
    Parses mailboxData e (.search v) (AfterNumList sp) := by
  have hp := mailboxDataSearch_enc v sp e h
  cases h with
  | mk m items sp hall =>
    unfold mailboxData
    refine Parses.altR (Parses.altR (Parses.altR (Parses.altR (Parses.altR (Parses.altR (Parses.altL hp) ?_) ?_) ?_) ?_) ?_) ?_
    all_goals (intro rest _; rw [List.append_assoc])
    · exact (mailboxData_skip_to_search m _).2.2.2.2.2
    · exact (mailboxData_skip_to_search m _).2.2.2.2.1
    · exact (mailboxData_skip_to_search m _).2.2.2.1
    · exact (mailboxData_skip_to_search m _).2.2.1
    · exact (mailboxData_skip_to_search m _).2.1
    · exact (mailboxData_skip_to_search m _).1

theorem mailboxData_sort (v : List Nat) (sp : Bool) (e : Bytes) (h : EncNumList (b!"SORT") v sp e) :
    Parses mailboxData e (.sort v) (AfterNumList sp) := by
  have hp := mailboxDataSort_enc v sp e h
  cases h with
  | mk m items sp hall =>
    unfold mailboxData
    refine Parses.altR (Parses.altR (Parses.altR (Parses.altR (Parses.altR (Parses.altR (Parses.altR (Parses.altR
      (Parses.altR hp ?_) ?_) ?_) ?_) ?_) ?_) ?_) ?_) ?_
    all_goals (intro rest _; rw [List.append_assoc])
    · unfold mailboxDataGmailMsgId gmailMsgId; exact map_err _ _ _ (kwBind_err _ _ _ m _ (by decide))
    · unfold mailboxDataGmailLabels gmailLabelList; exact map_err _ _ _ (kwBind_err _ _ _ m _ (by decide))
    · unfold mailboxDataSearch; exact kwBind_err _ _ _ m _ (by decide)
    · unfold mailboxDataRecent; exact numBind_err_kw _ 83 _ m _ (by decide)
    · unfold mailboxDataStatus; exact kwBind_err _ _ _ m _ (by decide)
    · unfold mailboxDataLsub; exact kwBind_err _ _ _ m _ (by decide)
    · unfold mailboxDataList; exact kwBind_err _ _ _ m _ (by decide)
    · unfold mailboxDataExists; exact numBind_err_kw _ 83 _ m _ (by decide)
    · unfold mailboxDataFlags; exact kwBind_err _ _ _ m _ (by decide)

end RT
