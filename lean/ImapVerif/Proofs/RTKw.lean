/-
  Round-trip helpers: rejecting a keyword alternative.
-/
import ImapVerif.Proofs.RTFlags

open Bytes Parser Grammar

namespace RT

/-! ### rejecting a keyword alternative -/

theorem kwBind_err {β : Type} (t : Bytes) (f : Unit → Parser β) (u : Bytes) (m : List Bool) (r : Bytes)
    (h : mismatch t u = true) : (tagNoCase t >>= f) (spell u m ++ r) = .err := by
  show Parser.bindP (tagNoCase t) f (spell u m ++ r) = .err
  unfold Parser.bindP
  rw [tagNoCase_mismatch t u m r h]

theorem map_err {α β : Type} (p : Parser α) (g : α → β) (i : Bytes) (h : p i = .err) : Parser.map p g i = .err := by
  unfold Parser.map; rw [h]

theorem mapRes_err {α β : Type} (p : Parser α) (g : α → Option β) (i : Bytes) (h : p i = .err) :
    Parser.mapRes p g i = .err := by
  unfold Parser.mapRes; rw [h]

theorem spell_nil' (u : Bytes) : spell u [] = u := by cases u <;> rfl

theorem spell_append (a b : Bytes) (m : List Bool) :
    spell (a ++ b) m = spell a m ++ spell b (m.drop a.length) := by
  induction a generalizing m with
  | nil => cases m <;> simp [spell]
  | cons c cs ih =>
    cases m with
    | nil => simp [spell, spell_nil']
    | cons k ks => simp [spell, ih]

theorem spell_cons (c : UInt8) (t : Bytes) (m : List Bool) :
    ∃ c', spell (c :: t) m = c' :: spell t m.tail ∧ (c' = c ∨ c' = flipCase c) := by
  cases m with
  | nil => exact ⟨c, by simp [spell, spell_nil'], Or.inl rfl⟩
  | cons k ks => cases k <;> simp [spell]

end RT
