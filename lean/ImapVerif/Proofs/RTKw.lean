/-
  Round-trip helpers: rejecting a keyword alternative.
-/
import ImapVerif.Proofs.RTFlags

open Bytes Parser Grammar

namespace RT

/-! ### rejecting a keyword alternative -/

theorem kwBind_err {β : Type} (t : Bytes) (f : Unit → Parser β) (u : Bytes) (m : List Bool) (r : Bytes)
    (h : mismatch t u = true) : (tagNoCase t >>= f) (spell u m ++ r) = .err := by
  show Parser.bindP (tagNoCase t) f (spell u m ++ r) = .err
  unfold Parser.bindP
  rw [tagNoCase_mismatch t u m r h]

theorem map_err {α β : Type} (p : Parser α) (g : α → β) (i : Bytes) (h : p i = .err) : Parser.map p g i = .err := by
  unfold Parser.map; rw [h]

theorem mapRes_err {α β : Type} (p : Parser α) (g : α → Option β) (i : Bytes) (h : p i = .err) :
    Parser.mapRes p g i = .err := by
  unfold Parser.mapRes; rw [h]

end RT
