/-
  `Stable p`: the verdict of a streaming parser is final.
    suffix  : what is returned as rest is a suffix of the input
    ok      : an accept persists (same value, rest extended) when bytes are appended
    err     : `Err::Error` persists
    fail    : `Err::Failure` persists
    nopanic : the parser never panics
  One instance per combinator; every grammar function then gets its instance by
  `unfold f; infer_instance`.
-/
import ImapVerif.Nom

open Bytes Parser

class Stable (p : Parser α) : Prop where
  suffix : ∀ b v r, p b = .ok v r → ∃ c, b = c ++ r
  ok : ∀ b v r x, p b = .ok v r → p (b ++ x) = .ok v (r ++ x)
  err : ∀ b x, p b = .err → p (b ++ x) = .err
  fail : ∀ b x, p b = .fail → p (b ++ x) = .fail
  nopanic : ∀ b, p b ≠ .panic

namespace Stable

/-! ### leaves -/

theorem tagGo_suffix (eq) : ∀ t b r, tagGo eq t b = .ok () r → ∃ c, b = c ++ r := by
  intro t
  induction t with
  | nil => intro b r h; simp [tagGo] at h; exact ⟨[], by simp [h]⟩
  | cons x xs ih =>
    intro b r h
    cases b with
    | nil => simp [tagGo] at h
    | cons c cs =>
      simp only [tagGo] at h
      split at h
      · obtain ⟨d, hd⟩ := ih cs r h
        exact ⟨c :: d, by simp [hd]⟩
      · cases h

theorem tagGo_ok (eq) : ∀ t b r x, tagGo eq t b = .ok () r → tagGo eq t (b ++ x) = .ok () (r ++ x) := by
  intro t
  induction t with
  | nil => intro b r x h; simp [tagGo] at h; simp [tagGo, h]
  | cons y ys ih =>
    intro b r x h
    cases b with
    | nil => simp [tagGo] at h
    | cons c cs =>
      simp only [tagGo, List.cons_append] at h ⊢
      split at h
      · rename_i hc; simp [hc]; exact ih cs r x h
      · cases h

theorem tagGo_err (eq) : ∀ t b x, tagGo eq t b = .err → tagGo eq t (b ++ x) = .err := by
  intro t
  induction t with
  | nil => intro b x h; simp [tagGo] at h
  | cons y ys ih =>
    intro b x h
    cases b with
    | nil => simp [tagGo] at h
    | cons c cs =>
      simp only [tagGo, List.cons_append] at h ⊢
      split at h
      · rename_i hc; simp [hc]; exact ih cs x h
      · rename_i hc; simp [hc]

theorem tagGo_nofail (eq) : ∀ t b, tagGo eq t b ≠ .fail ∧ tagGo eq t b ≠ .panic := by
  intro t
  induction t with
  | nil => intro b; simp [tagGo]
  | cons y ys ih =>
    intro b
    cases b with
    | nil => simp [tagGo]
    | cons c cs =>
      simp only [tagGo]
      split
      · exact ih cs
      · simp

instance instTag (t : Bytes) : Stable (tag t) where
  suffix := fun b _ r h => tagGo_suffix _ t b r h
  ok := fun b _ r x h => tagGo_ok _ t b r x h
  err := fun b x h => tagGo_err _ t b x h
  fail := fun b _ h => absurd h (tagGo_nofail _ t b).1
  nopanic := fun b => (tagGo_nofail _ t b).2

instance instTagNoCase (t : Bytes) : Stable (tagNoCase t) where
  suffix := fun b _ r h => tagGo_suffix _ t b r h
  ok := fun b _ r x h => tagGo_ok _ t b r x h
  err := fun b x h => tagGo_err _ t b x h
  fail := fun b _ h => absurd h (tagGo_nofail _ t b).1
  nopanic := fun b => (tagGo_nofail _ t b).2

instance instPure (a : α) : Stable (Pure.pure a : Parser α) where
  suffix := fun b v r h => by
    simp [Pure.pure, Parser.pureP] at h; exact ⟨[], by simp [h.2]⟩
  ok := fun b v r x h => by
    simp [Pure.pure, Parser.pureP] at h ⊢; simp [h]
  err := fun b x h => by simp [Pure.pure, Parser.pureP] at h
  fail := fun b x h => by simp [Pure.pure, Parser.pureP] at h
  nopanic := fun b => by simp [Pure.pure, Parser.pureP]

instance instErrP : Stable (errP : Parser α) where
  suffix := fun b v r h => by simp [errP] at h
  ok := fun b v r x h => by simp [errP] at h
  err := fun b x _ => rfl
  fail := fun b x h => by simp [errP] at h
  nopanic := fun b => by simp [errP]

instance instFailP : Stable (failP : Parser α) where
  suffix := fun b v r h => by simp [failP] at h
  ok := fun b v r x h => by simp [failP] at h
  err := fun b x h => by simp [failP] at h
  fail := fun b x _ => rfl
  nopanic := fun b => by simp [failP]

theorem dropWhile_append_stop (f : UInt8 → Bool) (i x : Bytes) (c : UInt8) (r : Bytes)
    (h : i.dropWhile f = c :: r) :
    (i ++ x).dropWhile f = c :: r ++ x ∧ (i ++ x).takeWhile f = i.takeWhile f := by
  induction i with
  | nil => simp at h
  | cons y ys ih =>
    simp only [List.dropWhile_cons, List.cons_append, List.takeWhile_cons] at h ⊢
    split at h <;> rename_i hy
    · simp only [hy, if_true]
      have := ih h
      exact ⟨this.1, by rw [this.2]⟩
    · simp only [hy]
      simp at h ⊢
      simp [h.1, h.2]

instance instTakeWhile (f : UInt8 → Bool) : Stable (takeWhile f) where
  suffix := fun b v r h => by
    simp only [takeWhile] at h
    split at h <;> try cases h
    rename_i heq
    exact ⟨_, by rw [← heq]; exact (List.takeWhile_append_dropWhile (p := f) (l := b)).symm⟩
  ok := fun b v r x h => by
    simp only [takeWhile] at h ⊢
    split at h <;> try cases h
    rename_i c r' heq
    have := dropWhile_append_stop f b x c r' heq
    rw [this.1, this.2]
    simp
  err := fun b x h => by
    simp only [takeWhile] at h
    split at h <;> cases h
  fail := fun b x h => by
    simp only [takeWhile] at h
    split at h <;> cases h
  nopanic := fun b h => by
    simp only [takeWhile] at h
    split at h <;> cases h

instance instTakeWhile1 (f : UInt8 → Bool) : Stable (takeWhile1 f) where
  suffix := fun b v r h => by
    simp only [takeWhile1] at h
    split at h <;> try cases h
    rename_i c r' heq
    split at h <;> try cases h
    exact ⟨b.takeWhile f, by rw [← heq]; exact (List.takeWhile_append_dropWhile (p := f) (l := b)).symm⟩
  ok := fun b v r x h => by
    simp only [takeWhile1] at h ⊢
    split at h <;> try cases h
    rename_i c r' heq
    have := dropWhile_append_stop f b x c r' heq
    rw [this.1, this.2]
    split at h <;> try cases h
    rename_i a as htw
    simp [htw]
  err := fun b x h => by
    simp only [takeWhile1] at h ⊢
    split at h <;> try cases h
    rename_i c r' heq
    have := dropWhile_append_stop f b x c r' heq
    rw [this.1, this.2]
    split at h <;> try cases h
    rename_i htw
    simp [htw]
  fail := fun b x h => by
    simp only [takeWhile1] at h
    split at h <;> try cases h
    split at h <;> cases h
  nopanic := fun b h => by
    simp only [takeWhile1] at h
    split at h <;> try cases h
    split at h <;> cases h

instance instTake (n : Nat) : Stable (take n) where
  suffix := fun b v r h => by
    simp only [take] at h
    split at h <;> try cases h
    exact ⟨_, (List.take_append_drop n b).symm⟩
  ok := fun b v r x h => by
    simp only [take] at h ⊢
    split at h <;> try cases h
    rename_i hlen
    have h1 : ¬ (b ++ x).length < n := by simp; omega
    have h2 : n ≤ b.length := by omega
    simp only [h1, if_false, List.take_append_of_le_length h2, List.drop_append_of_le_length h2]
  err := fun b x h => by
    simp only [take] at h
    split at h <;> cases h
  fail := fun b x h => by
    simp only [take] at h
    split at h <;> cases h
  nopanic := fun b h => by
    simp only [take] at h
    split at h <;> cases h

instance instChar (c : UInt8) : Stable (char c) where
  suffix := fun b v r h => by
    cases b with
    | nil => simp [char] at h
    | cons y ys =>
      simp only [char] at h
      split at h <;> try cases h
      exact ⟨[y], rfl⟩
  ok := fun b v r x h => by
    cases b with
    | nil => simp [char] at h
    | cons y ys =>
      simp only [char, List.cons_append] at h ⊢
      split at h <;> try cases h
      rename_i hy
      simp [hy]
  err := fun b x h => by
    cases b with
    | nil => simp [char] at h
    | cons y ys =>
      simp only [char, List.cons_append] at h ⊢
      split at h <;> try cases h
      rename_i hy
      simp [hy]
  fail := fun b x h => by
    cases b with
    | nil => simp [char] at h
    | cons y ys =>
      simp only [char] at h
      split at h <;> cases h
  nopanic := fun b h => by
    cases b with
    | nil => simp [char] at h
    | cons y ys =>
      simp only [char] at h
      split at h <;> cases h

/-! ### unary wrappers -/

instance instMap (p : Parser α) (f : α → β) [hp : Stable p] : Stable (map p f) where
  suffix := fun b v r h => by
    simp only [map] at h
    split at h <;> try cases h
    rename_i h1; exact hp.suffix _ _ _ h1
  ok := fun b v r x h => by
    simp only [map] at h ⊢
    split at h <;> try cases h
    rename_i h1; rw [hp.ok _ _ _ x h1]
  err := fun b x h => by
    simp only [map] at h ⊢
    split at h <;> try cases h
    rename_i h1; rw [hp.err _ x h1]
  fail := fun b x h => by
    simp only [map] at h ⊢
    split at h <;> try cases h
    rename_i h1; rw [hp.fail _ x h1]
  nopanic := fun b h => by
    simp only [map] at h
    split at h <;> try cases h
    rename_i h1; exact hp.nopanic _ h1

instance instSpace0 : Stable space0 where
  suffix := fun b v r h => by
    simp only [space0] at h
    split at h <;> try cases h
    rename_i h1; exact (instTakeWhile isSpace).suffix _ _ _ h1
  ok := fun b v r x h => by
    simp only [space0] at h ⊢
    split at h <;> try cases h
    rename_i h1; rw [(instTakeWhile isSpace).ok _ _ _ x h1]
  err := fun b x h => by
    simp only [space0] at h ⊢
    split at h <;> try cases h
    rename_i h1; rw [(instTakeWhile isSpace).err _ x h1]
  fail := fun b x h => by
    simp only [space0] at h ⊢
    split at h <;> try cases h
    rename_i h1; rw [(instTakeWhile isSpace).fail _ x h1]
  nopanic := fun b h => by
    simp only [space0] at h
    split at h <;> try cases h
    rename_i h1; exact (instTakeWhile isSpace).nopanic _ h1

instance instSpace1 : Stable space1 where
  suffix := fun b v r h => by
    simp only [space1] at h
    split at h <;> try cases h
    rename_i h1; exact (instTakeWhile1 isSpace).suffix _ _ _ h1
  ok := fun b v r x h => by
    simp only [space1] at h ⊢
    split at h <;> try cases h
    rename_i h1; rw [(instTakeWhile1 isSpace).ok _ _ _ x h1]
  err := fun b x h => by
    simp only [space1] at h ⊢
    split at h <;> try cases h
    rename_i h1; rw [(instTakeWhile1 isSpace).err _ x h1]
  fail := fun b x h => by
    simp only [space1] at h ⊢
    split at h <;> try cases h
    rename_i h1; rw [(instTakeWhile1 isSpace).fail _ x h1]
  nopanic := fun b h => by
    simp only [space1] at h
    split at h <;> try cases h
    rename_i h1; exact (instTakeWhile1 isSpace).nopanic _ h1

instance instMapRes (p : Parser α) (f : α → Option β) [hp : Stable p] : Stable (mapRes p f) where
  suffix := fun b v r h => by
    simp only [mapRes] at h
    split at h <;> try cases h
    rename_i v1 r1 h1
    split at h <;> try cases h
    exact hp.suffix _ _ _ h1
  ok := fun b v r x h => by
    simp only [mapRes] at h ⊢
    split at h <;> try cases h
    rename_i v1 r1 h1
    rw [hp.ok _ _ _ x h1]
    split at h <;> try cases h
    rename_i hf
    simp [hf]
  err := fun b x h => by
    simp only [mapRes] at h ⊢
    split at h <;> try cases h
    · rename_i v1 r1 h1
      rw [hp.ok _ _ _ x h1]
      split at h <;> try cases h
      rename_i hf
      simp [hf]
    · rename_i h1; rw [hp.err _ x h1]
  fail := fun b x h => by
    simp only [mapRes] at h ⊢
    split at h <;> try cases h
    · split at h <;> cases h
    · rename_i h1; rw [hp.fail _ x h1]
  nopanic := fun b h => by
    simp only [mapRes] at h
    split at h <;> try cases h
    · split at h <;> cases h
    · rename_i h1; exact hp.nopanic _ h1

instance instOpt (p : Parser α) [hp : Stable p] : Stable (opt p) where
  suffix := fun b v r h => by
    simp only [opt] at h
    split at h <;> try cases h
    · rename_i h1; exact hp.suffix _ _ _ h1
    · exact ⟨[], rfl⟩
  ok := fun b v r x h => by
    simp only [opt] at h ⊢
    split at h <;> try cases h
    · rename_i h1; rw [hp.ok _ _ _ x h1]
    · rename_i h1; rw [hp.err _ x h1]
  err := fun b x h => by
    simp only [opt] at h
    split at h <;> cases h
  fail := fun b x h => by
    simp only [opt] at h ⊢
    split at h <;> try cases h
    rename_i h1; rw [hp.fail _ x h1]
  nopanic := fun b h => by
    simp only [opt] at h
    split at h <;> try cases h
    rename_i h1; exact hp.nopanic _ h1

instance instOptOpt (p : Parser (Option α)) [hp : Stable p] : Stable (optOpt p) where
  suffix := fun b v r h => by
    simp only [optOpt] at h
    split at h <;> try cases h
    · rename_i h1; exact hp.suffix _ _ _ h1
    · exact ⟨[], rfl⟩
  ok := fun b v r x h => by
    simp only [optOpt] at h ⊢
    split at h <;> try cases h
    · rename_i h1; rw [hp.ok _ _ _ x h1]
    · rename_i h1; rw [hp.err _ x h1]
  err := fun b x h => by
    simp only [optOpt] at h
    split at h <;> cases h
  fail := fun b x h => by
    simp only [optOpt] at h ⊢
    split at h <;> try cases h
    rename_i h1; rw [hp.fail _ x h1]
  nopanic := fun b h => by
    simp only [optOpt] at h
    split at h <;> try cases h
    rename_i h1; exact hp.nopanic _ h1

/-! ### sequencing, alternatives, conditionals -/

instance instBind (p : Parser α) (f : α → Parser β) [hp : Stable p] [hf : ∀ a, Stable (f a)] :
    Stable (p >>= f) where
  suffix := fun b v r h => by
    simp only [Bind.bind, Parser.bindP] at h
    split at h <;> try cases h
    rename_i v1 r1 h1
    obtain ⟨c1, hc1⟩ := hp.suffix _ _ _ h1
    obtain ⟨c2, hc2⟩ := (hf v1).suffix _ _ _ h
    exact ⟨c1 ++ c2, by simp [hc1, hc2]⟩
  ok := fun b v r x h => by
    simp only [Bind.bind, Parser.bindP] at h ⊢
    split at h <;> try cases h
    rename_i v1 r1 h1
    rw [hp.ok _ _ _ x h1]
    exact (hf v1).ok _ _ _ x h
  err := fun b x h => by
    simp only [Bind.bind, Parser.bindP] at h ⊢
    split at h <;> try cases h
    · rename_i v1 r1 h1
      rw [hp.ok _ _ _ x h1]
      exact (hf v1).err _ x h
    · rename_i h1; rw [hp.err _ x h1]
  fail := fun b x h => by
    simp only [Bind.bind, Parser.bindP] at h ⊢
    split at h <;> try cases h
    · rename_i v1 r1 h1
      rw [hp.ok _ _ _ x h1]
      exact (hf v1).fail _ x h
    · rename_i h1; rw [hp.fail _ x h1]
  nopanic := fun b h => by
    simp only [Bind.bind, Parser.bindP] at h
    split at h <;> try cases h
    · rename_i v1 r1 h1; exact (hf v1).nopanic _ h
    · rename_i h1; exact hp.nopanic _ h1

instance instAlt (p q : Parser α) [hp : Stable p] [hq : Stable q] : Stable (alt p q) where
  suffix := fun b v r h => by
    simp only [alt] at h
    split at h
    · exact hq.suffix _ _ _ h
    · exact hp.suffix _ _ _ h
  ok := fun b v r x h => by
    simp only [alt] at h ⊢
    split at h
    · rename_i h1; rw [hp.err _ x h1]; exact hq.ok _ _ _ x h
    · rw [hp.ok _ _ _ x h]
  err := fun b x h => by
    simp only [alt] at h ⊢
    split at h
    · rename_i h1; rw [hp.err _ x h1]; exact hq.err _ x h
    · rename_i h1; exact absurd h (h1 ·)
  fail := fun b x h => by
    simp only [alt] at h ⊢
    split at h
    · rename_i h1; rw [hp.err _ x h1]; exact hq.fail _ x h
    · rw [hp.fail _ x h]
  nopanic := fun b h => by
    simp only [alt] at h
    split at h
    · exact hq.nopanic _ h
    · exact hp.nopanic _ h

instance instIte (c : Prop) [Decidable c] (p q : Parser α) [hp : Stable p] [hq : Stable q] :
    Stable (if c then p else q) := by
  split <;> assumption

/-! ### loops -/

theorem many0Go_stable (p : Parser α) [hp : Stable p] (x : Bytes) :
    ∀ n i acc, i.length < n →
      (∀ vs r, many0Go p n i acc = .ok vs r → many0Go p (n + x.length) (i ++ x) acc = .ok vs (r ++ x)) ∧
      (many0Go p n i acc = .err → many0Go p (n + x.length) (i ++ x) acc = .err) ∧
      (many0Go p n i acc = .fail → many0Go p (n + x.length) (i ++ x) acc = .fail) ∧
      (many0Go p n i acc ≠ .panic) ∧
      (∀ vs r, many0Go p n i acc = .ok vs r → ∃ c, i = c ++ r) := by
  intro n
  induction n with
  | zero => intro i acc h; omega
  | succ n ih =>
    intro i acc hn
    have e : n + 1 + x.length = (n + x.length) + 1 := by omega
    rw [e]
    simp only [many0Go]
    cases hpi : p i with
    | err =>
      rw [hp.err i x hpi]
      simp
    | inc => simp
    | fail => rw [hp.fail i x hpi]; simp
    | panic => exact absurd hpi (hp.nopanic i)
    | ok v r =>
      rw [hp.ok i v r x hpi]
      obtain ⟨c, hc⟩ := hp.suffix i v r hpi
      by_cases hlt : r.length < i.length
      · have hlt' : (r ++ x).length < (i ++ x).length := by simp; omega
        simp only [hlt, hlt', if_true]
        have := ih r (v :: acc) (by omega)
        refine ⟨this.1, this.2.1, this.2.2.1, this.2.2.2.1, ?_⟩
        intro vs r' h'
        obtain ⟨c', hc'⟩ := this.2.2.2.2 vs r' h'
        exact ⟨c ++ c', by rw [hc, hc']; simp⟩
      · have hlt' : ¬ (r ++ x).length < (i ++ x).length := by simp; omega
        simp [hlt, hlt']

/-- fuel is irrelevant once it exceeds the input length: no `many0` loop runs out of fuel -/
theorem many0Go_fuel (p : Parser α) [hp : Stable p] :
    ∀ n m i acc, i.length < n → i.length < m → many0Go p n i acc = many0Go p m i acc := by
  intro n
  induction n with
  | zero => intro m i acc h; omega
  | succ n ih =>
    intro m i acc hn hm
    cases m with
    | zero => omega
    | succ m =>
      simp only [many0Go]
      split <;> try rfl
      rename_i v r hpr
      split
      · rename_i hlt
        exact ih m r (v :: acc) (by omega) (by omega)
      · rfl

instance instMany0 (p : Parser α) [hp : Stable p] : Stable (many0 p) where
  suffix := fun b v r h => by
    simp only [many0] at h
    exact (many0Go_stable p [] (b.length + 1) b [] (by omega)).2.2.2.2 v r h
  ok := fun b v r x h => by
    simp only [many0] at h ⊢
    have := (many0Go_stable p x (b.length + 1) b [] (by omega)).1 v r h
    rw [← this]
    apply many0Go_fuel <;> simp <;> omega
  err := fun b x h => by
    simp only [many0] at h ⊢
    have := (many0Go_stable p x (b.length + 1) b [] (by omega)).2.1 h
    rw [← this]
    apply many0Go_fuel <;> simp <;> omega
  fail := fun b x h => by
    simp only [many0] at h ⊢
    have := (many0Go_stable p x (b.length + 1) b [] (by omega)).2.2.1 h
    rw [← this]
    apply many0Go_fuel <;> simp <;> omega
  nopanic := fun b h => by
    simp only [many0] at h
    exact (many0Go_stable p [] (b.length + 1) b [] (by omega)).2.2.2.1 h

instance instMany1 (p : Parser α) [hp : Stable p] : Stable (many1 p) where
  suffix := fun b v r h => by
    simp only [many1] at h
    split at h <;> try cases h
    rename_i v1 r1 h1
    obtain ⟨c1, hc1⟩ := hp.suffix _ _ _ h1
    obtain ⟨c2, hc2⟩ := (many0Go_stable p [] (r1.length + 1) r1 [v1] (by omega)).2.2.2.2 v r h
    exact ⟨c1 ++ c2, by rw [hc1, hc2]; simp⟩
  ok := fun b v r x h => by
    simp only [many1] at h ⊢
    split at h <;> try cases h
    rename_i v1 r1 h1
    rw [hp.ok _ _ _ x h1]
    simp only
    have := (many0Go_stable p x (r1.length + 1) r1 [v1] (by omega)).1 v r h
    rw [← this]
    apply many0Go_fuel <;> simp <;> omega
  err := fun b x h => by
    simp only [many1] at h ⊢
    split at h <;> try cases h
    · rename_i v1 r1 h1
      rw [hp.ok _ _ _ x h1]
      simp only
      have := (many0Go_stable p x (r1.length + 1) r1 [v1] (by omega)).2.1 h
      rw [← this]
      apply many0Go_fuel <;> simp <;> omega
    · rename_i h1; rw [hp.err _ x h1]
  fail := fun b x h => by
    simp only [many1] at h ⊢
    split at h <;> try cases h
    · rename_i v1 r1 h1
      rw [hp.ok _ _ _ x h1]
      simp only
      have := (many0Go_stable p x (r1.length + 1) r1 [v1] (by omega)).2.2.1 h
      rw [← this]
      apply many0Go_fuel <;> simp <;> omega
    · rename_i h1; rw [hp.fail _ x h1]
  nopanic := fun b h => by
    simp only [many1] at h
    split at h <;> try cases h
    · rename_i v1 r1 h1
      exact (many0Go_stable p [] (r1.length + 1) r1 [v1] (by omega)).2.2.2.1 h
    · rename_i h1; exact hp.nopanic _ h1

theorem sepGo_stable (sep : Parser Unit) (p : Parser α) [hs : Stable sep] [hp : Stable p] (x : Bytes) :
    ∀ n i acc, i.length < n →
      (∀ vs r, sepGo sep p n i acc = .ok vs r → sepGo sep p (n + x.length) (i ++ x) acc = .ok vs (r ++ x)) ∧
      (sepGo sep p n i acc = .err → sepGo sep p (n + x.length) (i ++ x) acc = .err) ∧
      (sepGo sep p n i acc = .fail → sepGo sep p (n + x.length) (i ++ x) acc = .fail) ∧
      (sepGo sep p n i acc ≠ .panic) ∧
      (∀ vs r, sepGo sep p n i acc = .ok vs r → ∃ c, i = c ++ r) := by
  intro n
  induction n with
  | zero => intro i acc h; omega
  | succ n ih =>
    intro i acc hn
    have e : n + 1 + x.length = (n + x.length) + 1 := by omega
    rw [e]
    simp only [sepGo]
    cases hsi : sep i with
    | err =>
      rw [hs.err i x hsi]
      simp
    | inc => simp
    | fail => rw [hs.fail i x hsi]; simp
    | panic => exact absurd hsi (hs.nopanic i)
    | ok u i1 =>
      rw [hs.ok i u i1 x hsi]
      obtain ⟨c, hc⟩ := hs.suffix i u i1 hsi
      by_cases hlt : i1.length < i.length
      · have hlt' : (i1 ++ x).length < (i ++ x).length := by simp; omega
        simp only [hlt, hlt', if_true]
        cases hpi : p i1 with
        | err =>
          rw [hp.err i1 x hpi]
          simp
        | inc => simp
        | fail => rw [hp.fail i1 x hpi]; simp
        | panic => exact absurd hpi (hp.nopanic i1)
        | ok v i2 =>
          rw [hp.ok i1 v i2 x hpi]
          obtain ⟨c2, hc2⟩ := hp.suffix i1 v i2 hpi
          simp only
          have hlen : i2.length < n := by
            have : i1.length = c2.length + i2.length := by rw [hc2]; simp
            omega
          have := ih i2 (v :: acc) hlen
          refine ⟨this.1, this.2.1, this.2.2.1, this.2.2.2.1, ?_⟩
          intro vs r' h'
          obtain ⟨c', hc'⟩ := this.2.2.2.2 vs r' h'
          exact ⟨c ++ c2 ++ c', by rw [hc, hc2, hc']; simp⟩
      · have hlt' : ¬ (i1 ++ x).length < (i ++ x).length := by simp; omega
        simp [hlt, hlt']

theorem sepGo_fuel (sep : Parser Unit) (p : Parser α) [hs : Stable sep] [hp : Stable p] :
    ∀ n m i acc, i.length < n → i.length < m → sepGo sep p n i acc = sepGo sep p m i acc := by
  intro n
  induction n with
  | zero => intro m i acc h; omega
  | succ n ih =>
    intro m i acc hn hm
    cases m with
    | zero => omega
    | succ m =>
      simp only [sepGo]
      split <;> try rfl
      rename_i u i1 hsi
      split
      · rename_i hlt
        split <;> try rfl
        rename_i v i2 hpi
        obtain ⟨c2, hc2⟩ := hp.suffix i1 v i2 hpi
        have : i1.length = c2.length + i2.length := by rw [hc2]; simp
        exact ih m i2 (v :: acc) (by omega) (by omega)
      · rfl

instance instSepList1 (sep : Parser Unit) (p : Parser α) [hs : Stable sep] [hp : Stable p] :
    Stable (sepList1 sep p) where
  suffix := fun b v r h => by
    simp only [sepList1] at h
    split at h <;> try cases h
    rename_i v1 r1 h1
    obtain ⟨c1, hc1⟩ := hp.suffix _ _ _ h1
    obtain ⟨c2, hc2⟩ := (sepGo_stable sep p [] (r1.length + 1) r1 [v1] (by omega)).2.2.2.2 v r h
    exact ⟨c1 ++ c2, by rw [hc1, hc2]; simp⟩
  ok := fun b v r x h => by
    simp only [sepList1] at h ⊢
    split at h <;> try cases h
    rename_i v1 r1 h1
    rw [hp.ok _ _ _ x h1]
    simp only
    have := (sepGo_stable sep p x (r1.length + 1) r1 [v1] (by omega)).1 v r h
    rw [← this]
    apply sepGo_fuel <;> simp <;> omega
  err := fun b x h => by
    simp only [sepList1] at h ⊢
    split at h <;> try cases h
    · rename_i v1 r1 h1
      rw [hp.ok _ _ _ x h1]
      simp only
      have := (sepGo_stable sep p x (r1.length + 1) r1 [v1] (by omega)).2.1 h
      rw [← this]
      apply sepGo_fuel <;> simp <;> omega
    · rename_i h1; rw [hp.err _ x h1]
  fail := fun b x h => by
    simp only [sepList1] at h ⊢
    split at h <;> try cases h
    · rename_i v1 r1 h1
      rw [hp.ok _ _ _ x h1]
      simp only
      have := (sepGo_stable sep p x (r1.length + 1) r1 [v1] (by omega)).2.2.1 h
      rw [← this]
      apply sepGo_fuel <;> simp <;> omega
    · rename_i h1; rw [hp.fail _ x h1]
  nopanic := fun b h => by
    simp only [sepList1] at h
    split at h <;> try cases h
    · rename_i v1 r1 h1
      exact (sepGo_stable sep p [] (r1.length + 1) r1 [v1] (by omega)).2.2.2.1 h
    · rename_i h1; exact hp.nopanic _ h1

instance instSepList0 (sep : Parser Unit) (p : Parser α) [hs : Stable sep] [hp : Stable p] :
    Stable (sepList0 sep p) where
  suffix := fun b v r h => by
    simp only [sepList0] at h
    split at h <;> try cases h
    · exact ⟨[], rfl⟩
    · rename_i v1 r1 h1
      obtain ⟨c1, hc1⟩ := hp.suffix _ _ _ h1
      obtain ⟨c2, hc2⟩ := (sepGo_stable sep p [] (r1.length + 1) r1 [v1] (by omega)).2.2.2.2 v r h
      exact ⟨c1 ++ c2, by rw [hc1, hc2]; simp⟩
  ok := fun b v r x h => by
    simp only [sepList0] at h ⊢
    split at h <;> try cases h
    · rename_i h1; rw [hp.err _ x h1]
    · rename_i v1 r1 h1
      rw [hp.ok _ _ _ x h1]
      simp only
      have := (sepGo_stable sep p x (r1.length + 1) r1 [v1] (by omega)).1 v r h
      rw [← this]
      apply sepGo_fuel <;> simp <;> omega
  err := fun b x h => by
    simp only [sepList0] at h ⊢
    split at h <;> try cases h
    rename_i v1 r1 h1
    rw [hp.ok _ _ _ x h1]
    simp only
    have := (sepGo_stable sep p x (r1.length + 1) r1 [v1] (by omega)).2.1 h
    rw [← this]
    apply sepGo_fuel <;> simp <;> omega
  fail := fun b x h => by
    simp only [sepList0] at h ⊢
    split at h <;> try cases h
    · rename_i v1 r1 h1
      rw [hp.ok _ _ _ x h1]
      simp only
      have := (sepGo_stable sep p x (r1.length + 1) r1 [v1] (by omega)).2.2.1 h
      rw [← this]
      apply sepGo_fuel <;> simp <;> omega
    · rename_i h1; rw [hp.fail _ x h1]
  nopanic := fun b h => by
    simp only [sepList0] at h
    split at h <;> try cases h
    · rename_i v1 r1 h1
      exact (sepGo_stable sep p [] (r1.length + 1) r1 [v1] (by omega)).2.2.2.1 h
    · rename_i h1; exact hp.nopanic _ h1

/-! ### escaped -/

theorem escapedGo_cons (normal : UInt8 → Bool) (acc : Bytes) (c : UInt8) (r : Bytes) :
    escapedGo normal acc (c :: r) =
      if normal c = true then escapedGo normal (c :: acc) r
      else if (c == 92) = true then
        match r with
        | [] => Res.inc
        | d :: r' => if (d == 92 || d == 34) = true then escapedGo normal (d :: c :: acc) r' else Res.err
      else Res.ok (List.reverse acc) (c :: r) := by
  rw [escapedGo.eq_def]
  rfl

theorem escapedGo_props (normal : UInt8 → Bool) (x : Bytes) :
    ∀ n i, i.length ≤ n → ∀ acc,
      (∀ v r, escapedGo normal acc i = .ok v r →
          escapedGo normal acc (i ++ x) = .ok v (r ++ x) ∧ ∃ c, i = c ++ r) ∧
      (escapedGo normal acc i = .err → escapedGo normal acc (i ++ x) = .err) ∧
      escapedGo normal acc i ≠ .fail ∧ escapedGo normal acc i ≠ .panic := by
  intro n
  induction n with
  | zero =>
    intro i hi acc
    have : i = [] := List.eq_nil_of_length_eq_zero (by omega)
    subst this
    simp [escapedGo]
  | succ n ih =>
    intro i hi acc
    cases i with
    | nil => simp [escapedGo]
    | cons c r =>
      simp only [List.length_cons] at hi
      simp only [List.cons_append, escapedGo_cons]
      by_cases hn : normal c = true
      · simp only [hn, if_true]
        have := ih r (by omega) (c :: acc)
        refine ⟨?_, this.2.1, this.2.2.1, this.2.2.2⟩
        intro v r' h
        obtain ⟨h1, c', hc'⟩ := this.1 v r' h
        exact ⟨h1, c :: c', by simp [hc']⟩
      · simp only [hn]
        by_cases h92 : (c == 92) = true
        · simp only [h92, if_true]
          cases r with
          | nil => simp
          | cons d r' =>
            simp only [List.cons_append]
            by_cases hd : (d == 92 || d == 34) = true
            · simp only [hd, if_true]
              simp only [List.length_cons] at hi
              have := ih r' (by omega) (d :: c :: acc)
              refine ⟨?_, this.2.1, this.2.2.1, this.2.2.2⟩
              intro v r'' h
              obtain ⟨h1, c', hc'⟩ := this.1 v r'' h
              exact ⟨h1, c :: d :: c', by simp [hc']⟩
            · simp [hd]
        · simp only [h92]
          simp

instance instEscaped (normal : UInt8 → Bool) : Stable (escaped normal) where
  suffix := fun b v r h => ((escapedGo_props normal [] b.length b (Nat.le_refl _) []).1 v r h).2
  ok := fun b v r x h => ((escapedGo_props normal x b.length b (Nat.le_refl _) []).1 v r h).1
  err := fun b x h => (escapedGo_props normal x b.length b (Nat.le_refl _) []).2.1 h
  fail := fun b _ h => absurd h (escapedGo_props normal [] b.length b (Nat.le_refl _) []).2.2.1
  nopanic := fun b => (escapedGo_props normal [] b.length b (Nat.le_refl _) []).2.2.2

end Stable
