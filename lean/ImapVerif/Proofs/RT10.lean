/-
  Round-trip, tenth layer: extension responses - ENABLED, VANISHED, QUOTA, QUOTAROOT, ID, ACL,
  LISTRIGHTS, MYRIGHTS, and the Gmail mailbox data.
-/
import ImapVerif.Proofs.RT9
import ImapVerif.Proofs.RTSep

open Bytes Parser Grammar

namespace RT

/-! ### each alternative of `response_data` rejects the keyword of a later one -/

theorem resp_caps_err (u m r) (h : mismatch (b!"CAPABILITY") u = true) :
    (Parser.map capabilityData Response.capabilities) (spell u m ++ r) = .err := by
  unfold capabilityData; exact map_err _ _ _ (mapRes_err _ _ _ (kwBind_err _ _ u m r h))
theorem resp_enabled_err (u m r) (h : mismatch (b!"ENABLED") u = true) : respEnabled (spell u m ++ r) = .err := by
  unfold respEnabled enabledData; exact map_err _ _ _ (kwBind_err _ _ u m r h)
theorem metadataCommon_err (u m r) (h : mismatch (b!"METADATA ") u = true) :
    metadataCommon (spell u m ++ r) = .err := by unfold metadataCommon; exact kwBind_err _ _ u m r h
theorem resp_metaS_err (u m r) (h : mismatch (b!"METADATA ") u = true) : metadataSolicited (spell u m ++ r) = .err := by
  unfold metadataSolicited
  show Parser.bindP metadataCommon _ _ = .err
  unfold Parser.bindP; rw [metadataCommon_err u m r h]
theorem resp_metaU_err (u m r) (h : mismatch (b!"METADATA ") u = true) : metadataUnsolicited (spell u m ++ r) = .err := by
  unfold metadataUnsolicited
  show Parser.bindP metadataCommon _ _ = .err
  unfold Parser.bindP; rw [metadataCommon_err u m r h]
theorem resp_vanished_err (u m r) (h : mismatch (b!"VANISHED") u = true) : respVanished (spell u m ++ r) = .err := by
  unfold respVanished; exact kwBind_err _ _ u m r h
theorem resp_quota_err (u m r) (h : mismatch (b!"QUOTA") u = true) : quota (spell u m ++ r) = .err := by
  unfold quota; exact kwBind_err _ _ u m r h
theorem resp_quotaRoot_err (u m r) (h : mismatch (b!"QUOTAROOT") u = true) : quotaRoot (spell u m ++ r) = .err := by
  unfold quotaRoot; exact kwBind_err _ _ u m r h
theorem resp_id_err (u m r) (h : mismatch (b!"ID") u = true) : respId (spell u m ++ r) = .err := by
  unfold respId; exact kwBind_err _ _ u m r h
theorem resp_acl_err (u m r) (h : mismatch (b!"ACL") u = true) : acl (spell u m ++ r) = .err := by
  unfold acl; exact kwBind_err _ _ u m r h
theorem resp_listRights_err (u m r) (h : mismatch (b!"LISTRIGHTS") u = true) : listRights (spell u m ++ r) = .err := by
  unfold listRights; exact kwBind_err _ _ u m r h

theorem resp_fetch_err_kw (c : UInt8) (u : Bytes) (m : List Bool) (r : Bytes)
    (hc : isDigit c = false ∧ isDigit (flipCase c) = false) : messageDataFetch (spell (c :: u) m ++ r) = .err := by
  unfold messageDataFetch; exact numBind_err_kw _ c u m r hc
theorem resp_expunge_err_kw (c : UInt8) (u : Bytes) (m : List Bool) (r : Bytes)
    (hc : isDigit c = false ∧ isDigit (flipCase c) = false) :
    (Parser.map messageDataExpunge Response.expunge) (spell (c :: u) m ++ r) = .err := by
  unfold messageDataExpunge; exact map_err _ _ _ (numBind_err_kw _ c u m r hc)
theorem resp_mailbox_err_kw (c : UInt8) (u : Bytes) (m : List Bool) (r : Bytes)
    (hc : isDigit c = false ∧ isDigit (flipCase c) = false) (h : notMailboxKw (c :: u) = true) :
    (Parser.map mailboxData Response.mailboxData) (spell (c :: u) m ++ r) = .err :=
  map_err _ _ _ (mailboxData_err_kw c u m r hc h)

/-- `QUOTA` is a prefix of `QUOTAROOT`: the QUOTA alternative rejects it at the missing space -/
theorem quota_err_root (m : List Bool) (r : Bytes) : quota (spell (b!"QUOTAROOT") m ++ r) = .err := by
  have hsp : spell (b!"QUOTAROOT") m = spell (b!"QUOTA") m ++ spell (b!"ROOT") (m.drop 5) :=
    spell_append (b!"QUOTA") (b!"ROOT") m
  obtain ⟨c', hc', hcc⟩ := spell_cons 82 (b!"OOT") (m.drop 5)
  unfold quota
  show Parser.bindP (tagNoCase (b!"QUOTA")) _ _ = .err
  unfold Parser.bindP
  rw [hsp, List.append_assoc, tagNoCase_spell (b!"QUOTA") m _ trivial]
  show Parser.bindP space1 _ _ = .err
  unfold Parser.bindP
  have : spell (b!"ROOT") (m.drop 5) = c' :: spell (b!"OOT") (m.drop 5).tail := hc'
  rw [this, List.cons_append, space1_err c' _ (by rcases hcc with rfl | rfl <;> decide)]

/-- discharge "the earlier alternative of response_data rejects this keyword" -/
macro "skip_resp" : tactic => `(tactic|
  (intro rest _
   rw [List.append_assoc]
   first
     | exact respCond_err_kw _ _ _ (by decide)
     | exact resp_mailbox_err_kw _ _ _ _ (by decide) (by decide)
     | exact resp_expunge_err_kw _ _ _ _ (by decide)
     | exact resp_fetch_err_kw _ _ _ _ (by decide)
     | exact resp_caps_err _ _ _ (by decide)
     | exact resp_enabled_err _ _ _ (by decide)
     | exact resp_metaS_err _ _ _ (by decide)
     | exact resp_metaU_err _ _ _ (by decide)
     | exact resp_vanished_err _ _ _ (by decide)
     | exact quota_err_root _ _
     | exact resp_quota_err _ _ _ (by decide)
     | exact resp_quotaRoot_err _ _ _ (by decide)
     | exact resp_id_err _ _ _ (by decide)
     | exact resp_acl_err _ _ _ (by decide)
     | exact resp_listRights_err _ _ _ (by decide)))

macro "walk_resp" : tactic => `(tactic| (repeat (refine Parses.altR ?_ (by skip_resp))))

/-! ### helpers about astrings and white space -/

theorem astringChar_notSpace (c : UInt8) (h : isAstringChar c = true) : notSpace c = true := by
  have key : ∀ n : Fin 256, isAstringChar (UInt8.ofNat n.val) = true → notSpace (UInt8.ofNat n.val) = true := by
    decide +kernel
  have := key ⟨c.toNat, c.toNat_lt⟩
  simp only [UInt8.ofNat_toNat] at this
  exact this h

theorem encAString_notSpace (s e : Bytes) (h : EncAString s e) (r : Bytes) : Starts notSpace (e ++ r) := by
  cases h with
  | atom hne hall =>
    cases s with
    | nil => exact absurd rfl hne
    | cons a as => exact ⟨a, as ++ r, rfl, astringChar_notSpace a (hall a (by simp))⟩
  | str e hs =>
    obtain ⟨t, ht | ht⟩ := encString_head s e hs
    · exact ⟨34, t ++ r, by simp [ht], by decide⟩
    · exact ⟨123, t ++ r, by simp [ht], by decide⟩

theorem spaces_notAstring (ws : Bytes) (h : IsSpaces ws) (r : Bytes) : Starts notAstringChar (ws ++ r) := by
  obtain ⟨hne, hall⟩ := h
  cases ws with
  | nil => exact absurd rfl hne
  | cons a as =>
    refine ⟨a, as ++ r, rfl, ?_⟩
    have key : ∀ n : Fin 256, isSpace (UInt8.ofNat n.val) = true → notAstringChar (UInt8.ofNat n.val) = true := by
      decide +kernel
    have := key ⟨a.toNat, a.toNat_lt⟩
    simp only [UInt8.ofNat_toNat] at this
    exact this (hall a (by simp))

theorem spaces_notDigit (ws : Bytes) (h : IsSpaces ws) (r : Bytes) : Starts notDigit (ws ++ r) := by
  obtain ⟨hne, hall⟩ := h
  cases ws with
  | nil => exact absurd rfl hne
  | cons a as =>
    refine ⟨a, as ++ r, rfl, ?_⟩
    have key : ∀ n : Fin 256, isSpace (UInt8.ofNat n.val) = true → notDigit (UInt8.ofNat n.val) = true := by
      decide +kernel
    have := key ⟨a.toNat, a.toNat_lt⟩
    simp only [UInt8.ofNat_toNat] at this
    exact this (hall a (by simp))

/-- end of an untagged line for the purposes of an astring: CR or LF -/
theorem crlf_notAstring (r : Bytes) (h : Starts crlfStart r) : Starts notAstringChar r := by
  obtain ⟨c, t, hr, hc⟩ := h
  refine ⟨c, t, hr, ?_⟩
  simp only [crlfStart, Bool.or_eq_true, beq_iff_eq] at hc
  rcases hc with rfl | rfl <;> decide

/-- a rights string: the value is the list of its characters as rights -/
inductive EncRights : List AclRight → Bytes → Prop
  | mk (s e : Bytes) : EncAString s e → validUtf8 s = true → EncRights (textToRights s) e

theorem rights_enc (v : List AclRight) (e : Bytes) (h : EncRights v e) :
    Parses (map astringUtf8 textToRights) e v (Starts notAstringChar) := by
  cases h with
  | mk s e hs hu => exact Parses.map _ (astringUtf8_enc s e hs hu)

theorem encRights_notSpace (v : List AclRight) (e : Bytes) (h : EncRights v e) (r : Bytes) :
    Starts notSpace (e ++ r) := by
  cases h with
  | mk s e hs hu => exact encAString_notSpace s e hs r

/-! ### MYRIGHTS -/

theorem myRights_enc (m : List Bool) (w1 w2 : Bytes) (hw1 : IsSpaces w1) (hw2 : IsSpaces w2)
    (name ename : Bytes) (hn : EncAString name ename) (hu : validUtf8 name = true)
    (rights : List AclRight) (er : Bytes) (hr : EncRights rights er) :
    Parses myRights (spell (b!"MYRIGHTS") m ++ (w1 ++ (ename ++ (w2 ++ er))))
      (.myRights { mailbox := canonMailbox name, rights := rights }) (Starts notAstringChar) := by
  unfold myRights
  refine Parses.bind (tagNoCase_spell _ m) ?_ (fun _ _ => trivial)
  refine Parses.bind (space1_enc w1 hw1) ?_ (fun r _ => by rw [List.append_assoc]; exact encAString_notSpace _ _ hn _)
  refine Parses.bind (mailbox_enc name ename hn hu) ?_ (fun r _ => by rw [List.append_assoc]; exact spaces_notAstring w2 hw2 _)
  refine Parses.bind (space1_enc w2 hw2) ?_ (fun r _ => encRights_notSpace _ _ hr _)
  exact Parses.bind' (rights_enc rights er hr) (Parses.pure _ _) (fun _ h => h) (by simp)

theorem responseDataAlt_myRights (m : List Bool) (tail : Bytes) (v : Response) (F : Bytes → Prop)
    (h : Parses myRights (spell (b!"MYRIGHTS") m ++ tail) v F) :
    Parses responseDataAlt (spell (b!"MYRIGHTS") m ++ tail) v F := by
  unfold responseDataAlt
  walk_resp
  exact h

/-! ### LISTRIGHTS -/

/-- the optional rights: further astrings separated by white space; their characters are
    concatenated.  The flag says whether any word is present (it decides what may follow). -/
inductive EncOptRights : Bool → List AclRight → Bytes → Prop
  /-- no optional rights: any white space here is consumed by the parser -/
  | none (w0 : Bytes) : (∀ c ∈ w0, isSpace c = true) → EncOptRights false [] w0
  | some (w0 : Bytes) (first : Bytes × Bytes) (items : List (Bytes × Bytes × Bytes)) :
      IsSpaces w0 →
      (EncAString first.2 first.1 ∧ validUtf8 first.2 = true) →
      (∀ x ∈ items, IsSpaces x.1 ∧ EncAString x.2.2 x.2.1 ∧ validUtf8 x.2.2 = true) →
      EncOptRights true ((first.2 :: items.map (·.2.2)).flatMap textToRights)
        (w0 ++ (first.1 ++ (items.map fun x => x.1 ++ x.2.1).flatten))

/-- end of a white-space separated list at the end of a line: CR / LF directly, or spaces and then
    CR / LF (the spaces are left for the response wrapper) -/
def EndOfWords (r : Bytes) : Prop :=
  Starts crlfStart r ∨ ∃ ws t, IsSpaces ws ∧ r = ws ++ t ∧ Starts crlfStart t

theorem endOfWords_notAstring (r : Bytes) (h : EndOfWords r) : Starts notAstringChar r := by
  rcases h with h | ⟨ws, t, hws, rfl, _⟩
  · exact crlf_notAstring r h
  · exact spaces_notAstring ws hws t

theorem astringUtf8_err_crlf (r : Bytes) (h : Starts crlfStart r) : astringUtf8 r = .err := by
  obtain ⟨c, t, hr, hc⟩ := h
  subst hr
  have h1 : isAstringChar c = false := by
    simp only [crlfStart, Bool.or_eq_true, beq_iff_eq] at hc
    rcases hc with rfl | rfl <;> decide
  have h2 : (c == 34) = false ∧ ((123 : UInt8) == c) = false := by
    simp only [crlfStart, Bool.or_eq_true, beq_iff_eq] at hc
    rcases hc with rfl | rfl <;> decide
  simp [astringUtf8, Parser.mapRes, astring, alt, takeWhile1_err isAstringChar c t h1, string_err c t h2.1 h2.2]

/-- at the end of the words, `space1` either fails or is followed by something that is not a word -/
theorem words_stop (r : Bytes) (h : EndOfWords r) :
    space1 r = .err ∨ ∃ r', space1 r = .ok () r' ∧ r'.length < r.length ∧ astringUtf8 r' = .err := by
  rcases h with h | ⟨ws, t, hws, rfl, ht⟩
  · left
    obtain ⟨c, t, hr, hc⟩ := h
    subst hr
    apply space1_err
    simp only [crlfStart, Bool.or_eq_true, beq_iff_eq] at hc
    rcases hc with rfl | rfl <;> decide
  · right
    refine ⟨t, ?_, ?_, astringUtf8_err_crlf t ht⟩
    · apply space1_enc ws hws t
      obtain ⟨c, t', hr, hc⟩ := ht
      refine ⟨c, t', hr, ?_⟩
      simp only [crlfStart, Bool.or_eq_true, beq_iff_eq] at hc
      rcases hc with rfl | rfl <;> decide
    · have : 1 ≤ ws.length := by
        cases hw : ws with
        | nil => exact absurd hw hws.1
        | cons a as => simp
      rw [List.length_append]; omega

theorem crlf_notSpace (r : Bytes) (h : Starts crlfStart r) : Starts notSpace r := by
  obtain ⟨c, t, hr, hc⟩ := h
  refine ⟨c, t, hr, ?_⟩
  simp only [crlfStart, Bool.or_eq_true, beq_iff_eq] at hc
  rcases hc with rfl | rfl <;> decide

/-- what may follow a white-space separated word list: with words, `EndOfWords`; without, CR / LF -/
def AfterWords (ne : Bool) (r : Bytes) : Prop := if ne then EndOfWords r else Starts crlfStart r

/-- words separated by white space, as `separated_list0(space1, astring_utf8)` reads them -/
theorem words_enc (first : Bytes × Bytes) (items : List (Bytes × Bytes × Bytes))
    (hfirst : EncAString first.2 first.1 ∧ validUtf8 first.2 = true)
    (hitems : ∀ x ∈ items, IsSpaces x.1 ∧ EncAString x.2.2 x.2.1 ∧ validUtf8 x.2.2 = true) :
    Parses (Parser.sepList0 space1 astringUtf8) (first.1 ++ (items.map fun x => x.1 ++ x.2.1).flatten)
      (first.2 :: items.map (·.2.2)) EndOfWords :=
  Parses.sepList0_cons2 (Starts notSpace) (Starts notAstringChar) EndOfWords first items
    (astringUtf8_enc _ _ hfirst.1 hfirst.2)
    (fun x hx => ⟨space1_enc x.1 (hitems x hx).1, (hitems x hx).1.1⟩)
    (fun x hx => astringUtf8_enc _ _ (hitems x hx).2.1 (hitems x hx).2.2)
    (fun x hx r => encAString_notSpace _ _ (hitems x hx).2.1 r)
    (fun x hx r => spaces_notAstring x.1 (hitems x hx).1 r)
    endOfWords_notAstring words_stop

theorem listRightsOptional_enc (ne : Bool) (v : List AclRight) (e : Bytes) (h : EncOptRights ne v e) :
    Parses listRightsOptional e v (AfterWords ne) := by
  unfold listRightsOptional
  cases h with
  | none _ hw0 =>
    refine Parses.bind' (e2 := []) ((space0_enc e hw0).weaken crlf_notSpace) ?_ (fun _ h => h) (by simp)
    refine Parses.bind' (e1 := []) (e2 := []) (Parses.sepList0_nil ?_) (Parses.pure _ _) (fun _ h => h) rfl
    intro r hr
    exact astringUtf8_err_crlf r hr
  | some w0 first items hw0 hfirst hitems =>
    refine Parses.bind (space0_enc w0 hw0.2) ?_ (fun r _ => by
      rw [List.append_assoc]; exact encAString_notSpace _ _ hfirst.1 _)
    exact Parses.bind' (e2 := []) (words_enc first items hfirst hitems) (Parses.pure _ _) (fun _ h => h) (by simp)

/-- `LISTRIGHTS mailbox identifier required *(SP optional)` -/
theorem listRights_enc (m : List Bool) (w1 w2 w3 : Bytes) (hw1 : IsSpaces w1) (hw2 : IsSpaces w2) (hw3 : IsSpaces w3)
    (name ename : Bytes) (hn : EncAString name ename) (hu : validUtf8 name = true)
    (ident eident : Bytes) (hi : EncAString ident eident) (hui : validUtf8 ident = true)
    (required : List AclRight) (er : Bytes) (hr : EncRights required er)
    (ne : Bool) (optional : List AclRight) (eo : Bytes) (ho : EncOptRights ne optional eo) :
    Parses listRights (spell (b!"LISTRIGHTS") m ++ (w1 ++ (ename ++ (w2 ++ (eident ++ (w3 ++ (er ++ eo)))))))
      (.listRights { mailbox := canonMailbox name, identifier := ident, required := required, optional := optional })
      (AfterWords ne) := by
  unfold listRights
  refine Parses.bind (tagNoCase_spell _ m) ?_ (fun _ _ => trivial)
  refine Parses.bind (space1_enc w1 hw1) ?_ (fun r _ => by rw [List.append_assoc]; exact encAString_notSpace _ _ hn _)
  refine Parses.bind (mailbox_enc name ename hn hu) ?_ (fun r _ => by rw [List.append_assoc]; exact spaces_notAstring w2 hw2 _)
  refine Parses.bind (space1_enc w2 hw2) ?_ (fun r _ => by rw [List.append_assoc]; exact encAString_notSpace _ _ hi _)
  refine Parses.bind (astringUtf8_enc ident eident hi hui) ?_ (fun r _ => by rw [List.append_assoc]; exact spaces_notAstring w3 hw3 _)
  refine Parses.bind (space1_enc w3 hw3) ?_ (fun r _ => by rw [List.append_assoc]; exact encRights_notSpace _ _ hr _)
  refine Parses.bind (rights_enc required er hr) ?_ ?_
  · exact Parses.bind' (e2 := []) (listRightsOptional_enc ne optional eo ho) (Parses.pure _ _) (fun _ h => h) (by simp)
  · intro r hr'
    cases ho with
    | none _ hw0 =>
      -- white space, then CR / LF
      cases eo with
      | nil => simpa using crlf_notAstring r hr'
      | cons a as => exact spaces_notAstring (a :: as) ⟨by simp, hw0⟩ r
    | some w0 first items hw0 hfirst hitems =>
      rw [List.append_assoc]
      exact spaces_notAstring w0 hw0 _

theorem responseDataAlt_listRights (m : List Bool) (tail : Bytes) (v : Response) (F : Bytes → Prop)
    (h : Parses listRights (spell (b!"LISTRIGHTS") m ++ tail) v F) :
    Parses responseDataAlt (spell (b!"LISTRIGHTS") m ++ tail) v F := by
  unfold responseDataAlt
  walk_resp
  exact Parses.altL h

end RT
