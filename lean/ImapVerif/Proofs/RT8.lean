/-
  Round-trip, eighth layer: response codes, response text, status responses (untagged, tagged) and
  continuation requests.
-/
import ImapVerif.Proofs.RTCap

open Bytes Parser Grammar

namespace RT

/-! ### each alternative of `resp_text_code` rejects the spelling of another code -/

theorem kwMap_err {β : Type} (t : Bytes) (g : Unit → β) (u : Bytes) (m : List Bool) (r : Bytes)
    (h : mismatch t u = true) : (Parser.map (tagNoCase t) g) (spell u m ++ r) = .err := by
  unfold Parser.map; rw [tagNoCase_mismatch t u m r h]

theorem code_badCharset_err (u m r) (h : mismatch (b!"BADCHARSET") u = true) :
    respTextCodeBadCharset (spell u m ++ r) = .err := by unfold respTextCodeBadCharset; exact kwBind_err _ _ u m r h
theorem code_capability_err (u m r) (h : mismatch (b!"CAPABILITY") u = true) :
    (Parser.map capabilityData ResponseCode.capabilities) (spell u m ++ r) = .err := by
  unfold capabilityData; exact map_err _ _ _ (mapRes_err _ _ _ (kwBind_err _ _ u m r h))
theorem code_permanentFlags_err (u m r) (h : mismatch (b!"PERMANENTFLAGS ") u = true) :
    respTextCodePermanentFlags (spell u m ++ r) = .err := by
  unfold respTextCodePermanentFlags; exact kwBind_err _ _ u m r h
theorem code_uidValidity_err (u m r) (h : mismatch (b!"UIDVALIDITY ") u = true) :
    respTextCodeUidValidity (spell u m ++ r) = .err := by unfold respTextCodeUidValidity; exact kwBind_err _ _ u m r h
theorem code_uidNext_err (u m r) (h : mismatch (b!"UIDNEXT ") u = true) :
    respTextCodeUidNext (spell u m ++ r) = .err := by unfold respTextCodeUidNext; exact kwBind_err _ _ u m r h
theorem code_unseen_err (u m r) (h : mismatch (b!"UNSEEN ") u = true) :
    respTextCodeUnseen (spell u m ++ r) = .err := by unfold respTextCodeUnseen; exact kwBind_err _ _ u m r h
theorem code_highestModSeq_err (u m r) (h : mismatch (b!"HIGHESTMODSEQ ") u = true) :
    respTextCodeHighestModSeq (spell u m ++ r) = .err := by
  unfold respTextCodeHighestModSeq; exact kwBind_err _ _ u m r h
theorem code_appendUid_err (u m r) (h : mismatch (b!"APPENDUID ") u = true) :
    respTextCodeAppendUid (spell u m ++ r) = .err := by unfold respTextCodeAppendUid; exact kwBind_err _ _ u m r h
theorem code_copyUid_err (u m r) (h : mismatch (b!"COPYUID ") u = true) :
    respTextCodeCopyUid (spell u m ++ r) = .err := by unfold respTextCodeCopyUid; exact kwBind_err _ _ u m r h
theorem code_uidNotSticky_err (u m r) (h : mismatch (b!"UIDNOTSTICKY") u = true) :
    respTextCodeUidNotSticky (spell u m ++ r) = .err := by unfold respTextCodeUidNotSticky; exact kwMap_err _ _ u m r h
theorem code_longEntries_err (u m r) (h : mismatch (b!"METADATA LONGENTRIES ") u = true) :
    respTextCodeMetadataLongEntries (spell u m ++ r) = .err := by
  unfold respTextCodeMetadataLongEntries; exact kwBind_err _ _ u m r h
theorem code_maxSize_err (u m r) (h : mismatch (b!"METADATA MAXSIZE ") u = true) :
    respTextCodeMetadataMaxSize (spell u m ++ r) = .err := by
  unfold respTextCodeMetadataMaxSize; exact kwBind_err _ _ u m r h
theorem code_tooMany_err (u m r) (h : mismatch (b!"METADATA TOOMANY") u = true) :
    respTextCodeMetadataTooMany (spell u m ++ r) = .err := by
  unfold respTextCodeMetadataTooMany; exact kwMap_err _ _ u m r h

/-- discharge "the earlier alternative rejects this keyword" -/
macro "skip_code" : tactic => `(tactic|
  (intro rest _
   rw [List.append_assoc]
   first
     | exact kwMap_err _ _ _ _ _ (by decide)
     | exact code_badCharset_err _ _ _ (by decide)
     | exact code_capability_err _ _ _ (by decide)
     | exact code_permanentFlags_err _ _ _ (by decide)
     | exact code_uidValidity_err _ _ _ (by decide)
     | exact code_uidNext_err _ _ _ (by decide)
     | exact code_unseen_err _ _ _ (by decide)
     | exact code_highestModSeq_err _ _ _ (by decide)
     | exact code_appendUid_err _ _ _ (by decide)
     | exact code_copyUid_err _ _ _ (by decide)
     | exact code_uidNotSticky_err _ _ _ (by decide)
     | exact code_longEntries_err _ _ _ (by decide)
     | exact code_maxSize_err _ _ _ (by decide)
     | exact code_tooMany_err _ _ _ (by decide)))

/-- walk down the alternative list as long as the first alternative rejects the keyword -/
macro "walk_alts" : tactic =>
  `(tactic| (repeat (refine Parses.altR ?_ (by skip_code))))

/-! ### UID sets (APPENDUID / COPYUID) and charset lists (BADCHARSET) -/

/-- what may follow a member of a uid set: `,` (next member), space (next set) or `]` -/
def uidEnd (c : UInt8) : Bool := c == 44 || c == 32 || c == 93

theorem uidEnd_notDigit (r : Bytes) (h : Starts uidEnd r) : Starts notDigit r := by
  obtain ⟨c, t, hr, hc⟩ := h
  refine ⟨c, t, hr, ?_⟩
  simp only [uidEnd, Bool.or_eq_true, beq_iff_eq] at hc
  rcases hc with (rfl | rfl) | rfl <;> decide

inductive EncUidMember : UidSetMember → Bytes → Prop
  | uid (n : Nat) (e : Bytes) : n < 2 ^ 32 → EncNumber n e → EncUidMember (.uid n) e
  /-- a range may be written in either order -/
  | range (a b : Nat) (ea eb : Bytes) : a < 2 ^ 32 → b < 2 ^ 32 → EncNumber a ea → EncNumber b eb →
      EncUidMember (if a ≤ b then .uidRange a b else .uidRange b a) (ea ++ (b!":" ++ eb))

def uidMemberP : Parser UidSetMember := alt uidRange (map number UidSetMember.uid)

theorem uidMember_enc (v : UidSetMember) (e : Bytes) (h : EncUidMember v e) :
    Parses uidMemberP e v (Starts uidEnd) := by
  unfold uidMemberP
  cases h with
  | uid n e hn he =>
    refine Parses.altR (Parses.map _ ((number_enc (2 ^ 32) n e he hn).weaken uidEnd_notDigit)) ?_
    intro rest hr
    unfold uidRange
    show Parser.bindP number _ _ = .err
    unfold Parser.bindP number
    rw [number_enc (2 ^ 32) n e he hn rest (uidEnd_notDigit rest hr)]
    obtain ⟨c, t, hr', hc⟩ := hr
    subst hr'
    show Parser.bindP (tag (b!":")) _ _ = .err
    unfold Parser.bindP
    have : ((58 : UInt8) == c) = false := by
      simp only [uidEnd, Bool.or_eq_true, beq_iff_eq] at hc
      rcases hc with (rfl | rfl) | rfl <;> decide
    rw [tag_err_first (b!":") 58 c t rfl this]
  | range a b ea eb ha hb hea heb =>
    refine Parses.altL ?_
    unfold uidRange
    refine Parses.bind (number_enc (2 ^ 32) a ea hea ha) ?_ (fun r _ => ⟨58, _, rfl, by decide⟩)
    refine Parses.bind (tag_ok _) ?_ (fun _ _ => trivial)
    exact Parses.bind' ((number_enc (2 ^ 32) b eb heb hb).weaken uidEnd_notDigit) (Parses.pure _ _)
      (fun _ h => h) (by simp)

/-- member *("," member) -/
inductive EncUidSet : List UidSetMember → Bytes → Prop
  | mk (first : Bytes × UidSetMember) (others : List (Bytes × UidSetMember)) :
      (∀ x ∈ first :: others, EncUidMember x.2 x.1) →
      EncUidSet (first.2 :: others.map (·.2)) (first.1 ++ (others.map fun x => b!"," ++ x.1).flatten)

def spaceOrBracket (c : UInt8) : Bool := c == 32 || c == 93

theorem uidSet_enc (v : List UidSetMember) (e : Bytes) (h : EncUidSet v e) :
    Parses uidSet e v (Starts spaceOrBracket) := by
  cases h with
  | mk first others hall =>
    have key := Parses.sepList1 (sep := tag (b!",")) (p := uidMemberP) (b!",") (by simp) (Starts uidEnd)
      (Starts spaceOrBracket) first others (tag_ok _) (fun y hy => uidMember_enc y.2 y.1 (hall y hy))
      (fun r => ⟨44, r, rfl, by decide⟩)
      (fun r ⟨c, t, hr, hc⟩ => ⟨c, t, hr, by
        simp only [spaceOrBracket, Bool.or_eq_true, beq_iff_eq] at hc
        rcases hc with rfl | rfl <;> decide⟩)
      (fun r ⟨c, t, hr, hc⟩ => by
        subst hr
        have : ((44 : UInt8) == c) = false := by
          simp only [spaceOrBracket, Bool.or_eq_true, beq_iff_eq] at hc
          rcases hc with rfl | rfl <;> decide
        exact tag_err_first _ 44 c t rfl this)
    exact key

/-- BADCHARSET's optional charset list -/
inductive EncCharsets : Option (List Bytes) → Bytes → Prop
  | none : EncCharsets none []
  | some (first : Bytes × Bytes) (others : List (Bytes × Bytes)) :
      (∀ x ∈ first :: others, EncAString x.2 x.1 ∧ validUtf8 x.2 = true) →
      EncCharsets (some (first.2 :: others.map (·.2)))
        (b!" " ++ ([40] ++ (first.1 ++ (others.map fun x => [32] ++ x.1).flatten) ++ [41]))

/-! ### response codes -/

def closeBracket (c : UInt8) : Bool := c == 93

theorem closeBracket_notDigit (r : Bytes) (h : Starts closeBracket r) : Starts notDigit r := by
  obtain ⟨c, t, hr, hc⟩ := h
  have : c = 93 := by simpa [closeBracket] using hc
  exact ⟨c, t, hr, by subst this; decide⟩

/-- the content of `[...]` for the codes covered -/
inductive EncCode : ResponseCode → Bytes → Prop
  | alert (m : List Bool) : EncCode .alert (spell (b!"ALERT") m)
  | parse (m : List Bool) : EncCode .parse (spell (b!"PARSE") m)
  | readOnly (m : List Bool) : EncCode .readOnly (spell (b!"READ-ONLY") m)
  | readWrite (m : List Bool) : EncCode .readWrite (spell (b!"READ-WRITE") m)
  | tryCreate (m : List Bool) : EncCode .tryCreate (spell (b!"TRYCREATE") m)
  | uidNotSticky (m : List Bool) : EncCode .uidNotSticky (spell (b!"UIDNOTSTICKY") m)
  | metadataTooMany (m : List Bool) : EncCode .metadataTooMany (spell (b!"METADATA TOOMANY") m)
  | metadataNoPrivate (m : List Bool) : EncCode .metadataNoPrivate (spell (b!"METADATA NOPRIVATE") m)
  | uidValidity (m : List Bool) (n : Nat) (e : Bytes) : n < 2 ^ 32 → EncNumber n e →
      EncCode (.uidValidity n) (spell (b!"UIDVALIDITY ") m ++ e)
  | uidNext (m : List Bool) (n : Nat) (e : Bytes) : n < 2 ^ 32 → EncNumber n e →
      EncCode (.uidNext n) (spell (b!"UIDNEXT ") m ++ e)
  | unseen (m : List Bool) (n : Nat) (e : Bytes) : n < 2 ^ 32 → EncNumber n e →
      EncCode (.unseen n) (spell (b!"UNSEEN ") m ++ e)
  | highestModSeq (m : List Bool) (n : Nat) (e : Bytes) : n < 2 ^ 64 → EncNumber n e →
      EncCode (.highestModSeq n) (spell (b!"HIGHESTMODSEQ ") m ++ e)
  | metadataLongEntries (m : List Bool) (n : Nat) (e : Bytes) : n < 2 ^ 64 → EncNumber n e →
      EncCode (.metadataLongEntries n) (spell (b!"METADATA LONGENTRIES ") m ++ e)
  | metadataMaxSize (m : List Bool) (n : Nat) (e : Bytes) : n < 2 ^ 64 → EncNumber n e →
      EncCode (.metadataMaxSize n) (spell (b!"METADATA MAXSIZE ") m ++ e)
  | permanentFlags (m : List Bool) (vs : List Bytes) (e : Bytes) : EncList EncFlagPerm vs e →
      EncCode (.permanentFlags vs) (spell (b!"PERMANENTFLAGS ") m ++ e)
  | capabilities (v : List Capability) (e : Bytes) : EncCaps v e → EncCode (.capabilities v) e
  | badCharset (m : List Bool) (v : Option (List Bytes)) (e : Bytes) : EncCharsets v e →
      EncCode (.badCharset v) (spell (b!"BADCHARSET") m ++ e)
  | appendUid (m : List Bool) (n : Nat) (en : Bytes) (uids : List UidSetMember) (eu : Bytes) :
      n < 2 ^ 32 → EncNumber n en → EncUidSet uids eu →
      EncCode (.appendUid n uids) (spell (b!"APPENDUID ") m ++ (en ++ (b!" " ++ eu)))
  | copyUid (m : List Bool) (n : Nat) (en : Bytes) (src : List UidSetMember) (es : Bytes)
      (dst : List UidSetMember) (ed : Bytes) :
      n < 2 ^ 32 → EncNumber n en → EncUidSet src es → EncUidSet dst ed →
      EncCode (.copyUid n src dst) (spell (b!"COPYUID ") m ++ (en ++ (b!" " ++ (es ++ (b!" " ++ ed)))))

theorem kwOnly_enc {β : Type} (kw : Bytes) (v : β) (m : List Bool) (F : Bytes → Prop) :
    Parses (Parser.map (tagNoCase kw) fun _ => v) (spell kw m) v F :=
  Parses.map _ ((tagNoCase_spell kw m).weaken (fun _ _ => trivial))

theorem kwNum_enc {β : Type} (kw : Bytes) (g : Nat → β) (bound : Nat) (m : List Bool) (n : Nat) (e : Bytes)
    (hn : n < bound) (he : EncNumber n e) :
    Parses (do tagNoCase kw; let n ← numberB bound; pure (g n) : Parser β) (spell kw m ++ e) (g n)
      (Starts closeBracket) := by
  refine Parses.bind (tagNoCase_spell _ m) ?_ (fun _ _ => trivial)
  exact Parses.bind' ((number_enc bound n e he hn).weaken closeBracket_notDigit) (Parses.pure _ _)
    (fun _ h => h) (by simp)

set_option maxHeartbeats 1000000 in
theorem respTextCodeAlt_enc (c : ResponseCode) (e : Bytes) (h : EncCode c e) :
    Parses respTextCodeAlt e c (Starts closeBracket) := by
  unfold respTextCodeAlt
  cases h with
  | alert m => exact Parses.altL (kwOnly_enc _ _ m _)
  | parse m =>
    have : spell (b!"PARSE") m = spell (b!"PARSE") m ++ [] := by simp
    rw [this]; walk_alts
    rw [← this]; exact Parses.altL (kwOnly_enc _ _ m _)
  | readOnly m =>
    have : spell (b!"READ-ONLY") m = spell (b!"READ-ONLY") m ++ [] := by simp
    rw [this]; walk_alts
    rw [← this]; exact Parses.altL (kwOnly_enc _ _ m _)
  | readWrite m =>
    have : spell (b!"READ-WRITE") m = spell (b!"READ-WRITE") m ++ [] := by simp
    rw [this]; walk_alts
    rw [← this]; exact Parses.altL (kwOnly_enc _ _ m _)
  | tryCreate m =>
    have : spell (b!"TRYCREATE") m = spell (b!"TRYCREATE") m ++ [] := by simp
    rw [this]; walk_alts
    rw [← this]; exact Parses.altL (kwOnly_enc _ _ m _)
  | uidNotSticky m =>
    have : spell (b!"UIDNOTSTICKY") m = spell (b!"UIDNOTSTICKY") m ++ [] := by simp
    rw [this]; walk_alts
    rw [← this]; unfold respTextCodeUidNotSticky; exact Parses.altL (kwOnly_enc _ _ m _)
  | metadataTooMany m =>
    have : spell (b!"METADATA TOOMANY") m = spell (b!"METADATA TOOMANY") m ++ [] := by simp
    rw [this]; walk_alts
    rw [← this]; unfold respTextCodeMetadataTooMany; exact Parses.altL (kwOnly_enc _ _ m _)
  | metadataNoPrivate m =>
    have : spell (b!"METADATA NOPRIVATE") m = spell (b!"METADATA NOPRIVATE") m ++ [] := by simp
    rw [this]; walk_alts
    rw [← this]; unfold respTextCodeMetadataNoPrivate; exact kwOnly_enc _ _ m _
  | uidValidity m n e hn he =>
    walk_alts
    unfold respTextCodeUidValidity
    exact Parses.altL (kwNum_enc _ ResponseCode.uidValidity (2 ^ 32) m n e hn he)
  | uidNext m n e hn he =>
    walk_alts
    unfold respTextCodeUidNext
    exact Parses.altL (kwNum_enc _ ResponseCode.uidNext (2 ^ 32) m n e hn he)
  | unseen m n e hn he =>
    walk_alts
    unfold respTextCodeUnseen
    exact Parses.altL (kwNum_enc _ ResponseCode.unseen (2 ^ 32) m n e hn he)
  | highestModSeq m n e hn he =>
    walk_alts
    unfold respTextCodeHighestModSeq
    exact Parses.altL (kwNum_enc _ ResponseCode.highestModSeq (2 ^ 64) m n e hn he)
  | metadataLongEntries m n e hn he =>
    walk_alts
    unfold respTextCodeMetadataLongEntries
    exact Parses.altL (kwNum_enc _ ResponseCode.metadataLongEntries (2 ^ 64) m n e hn he)
  | metadataMaxSize m n e hn he =>
    walk_alts
    unfold respTextCodeMetadataMaxSize
    exact Parses.altL (kwNum_enc _ ResponseCode.metadataMaxSize (2 ^ 64) m n e hn he)
  | permanentFlags m vs e he =>
    walk_alts
    refine Parses.altL ?_
    unfold respTextCodePermanentFlags
    refine Parses.bind (tagNoCase_spell _ m) ?_ (fun _ _ => trivial)
    exact Parses.bind' (parenthesizedList_enc flagPerm_enc flagPerm_err_close vs e he _) (Parses.pure _ _)
      (fun _ h => h) (by simp)
  | badCharset m v e he =>
    refine Parses.altR (Parses.altL ?_) (by skip_code)
    unfold respTextCodeBadCharset
    refine Parses.bind (tagNoCase_spell _ m) ?_ (fun _ _ => trivial)
    cases he with
    | none =>
      refine Parses.bind' (e1 := []) (e2 := []) (Parses.optNone ?_) (Parses.pure _ _) (fun _ h => h) rfl
      intro rest ⟨c, t, hr, hc⟩
      subst hr
      have : c = 93 := by simpa [closeBracket] using hc
      subst this
      show Parser.bindP (tag (b!" ")) _ _ = .err
      unfold Parser.bindP
      rw [tag_err_first (b!" ") 32 93 t rfl (by decide)]
    | some first others hall =>
      refine Parses.bind' (e1 := b!" " ++ ([40] ++ (first.1 ++ (others.map fun x => [32] ++ x.1).flatten) ++ [41]))
        (e2 := []) (Parses.optSome ?_) (Parses.pure _ _) (fun _ h => h) (by simp)
      refine Parses.bind (tag_ok _) ?_ (fun _ _ => trivial)
      exact parenthesizedNonemptyList_enc (p := astringUtf8)
        (R := fun v e => EncAString v e ∧ validUtf8 v = true)
        (fun v e hv => (astringUtf8_enc v e hv.1 hv.2).weaken spaceOrClose_notAstring) first others hall _
  | appendUid m n en uids eu hn hen hu =>
    walk_alts
    refine Parses.altL ?_
    unfold respTextCodeAppendUid
    refine Parses.bind (tagNoCase_spell _ m) ?_ (fun _ _ => trivial)
    refine Parses.bind (number_enc (2 ^ 32) n en hen hn) ?_ (fun r _ => ⟨32, _, rfl, by decide⟩)
    refine Parses.bind (tag_ok _) ?_ (fun _ _ => trivial)
    refine Parses.bind' ((uidSet_enc uids eu hu).weaken ?_) (Parses.pure _ _) (fun _ h => h) (by simp)
    intro r ⟨c, t, hr, hc⟩
    exact ⟨c, t, hr, by
      have : c = 93 := by simpa [closeBracket] using hc
      subst this; decide⟩
  | copyUid m n en src es dst ed hn hen hs hd =>
    walk_alts
    refine Parses.altL ?_
    unfold respTextCodeCopyUid
    refine Parses.bind (tagNoCase_spell _ m) ?_ (fun _ _ => trivial)
    refine Parses.bind (number_enc (2 ^ 32) n en hen hn) ?_ (fun r _ => ⟨32, _, rfl, by decide⟩)
    refine Parses.bind (tag_ok _) ?_ (fun _ _ => trivial)
    refine Parses.bind (uidSet_enc src es hs) ?_ (fun r _ => ⟨32, _, rfl, by decide⟩)
    refine Parses.bind (tag_ok _) ?_ (fun _ _ => trivial)
    refine Parses.bind' ((uidSet_enc dst ed hd).weaken ?_) (Parses.pure _ _) (fun _ h => h) (by simp)
    intro r ⟨c, t, hr, hc⟩
    exact ⟨c, t, hr, by
      have : c = 93 := by simpa [closeBracket] using hc
      subst this; decide⟩
  | capabilities v e he =>
    have hp := capabilityData_enc v e he
    cases he with
    | mk m items hall hc =>
      refine Parses.altR (Parses.altR (Parses.altL (Parses.map _ (hp.weaken ?_))) ?_) ?_
      · intro r ⟨c, t, hr, hcb⟩
        have : c = 93 := by simpa [closeBracket] using hcb
        exact Or.inl ⟨c, t, hr, Or.inr this⟩
      · skip_code
      · skip_code

theorem respTextCode_enc (c : ResponseCode) (e : Bytes) (h : EncCode c e) (F : Bytes → Prop) :
    Parses respTextCode (b!"[" ++ e ++ b!"]") c F := by
  unfold respTextCode
  rw [List.append_assoc]
  refine Parses.bind (tag_ok _) ?_ (fun _ _ => trivial)
  refine Parses.bind (respTextCodeAlt_enc c e h) ?_ (fun r _ => ⟨93, r, rfl, by decide⟩)
  exact Parses.bind' (tag_ok _) (Parses.pure _ _) (fun _ _ => trivial) (by simp)

theorem respTextCode_err (x : UInt8) (r : Bytes) (h : ((91 : UInt8) == x) = false) : respTextCode (x :: r) = .err := by
  unfold respTextCode
  show Parser.bindP (tag (b!"[")) _ _ = .err
  unfold Parser.bindP
  rw [tag_err_first (b!"[") 91 x r rfl h]

/-! ### response text -/

/-- human-readable text: TEXT-CHARs (ASCII), possibly empty -/
def IsText (t : Bytes) : Prop := ∀ c ∈ t, isTextChar c = true

theorem text_utf8 (t : Bytes) (h : IsText t) : validUtf8 t = true :=
  ascii_utf8 t (fun c hc => textChar_ascii c (h c hc))

def crlfStart (c : UInt8) : Bool := c == 13 || c == 10

theorem crlf_notText (r : Bytes) (h : Starts crlfStart r) : Starts notTextChar r := by
  obtain ⟨c, t, hr, hc⟩ := h
  refine ⟨c, t, hr, ?_⟩
  simp only [crlfStart, Bool.or_eq_true, beq_iff_eq] at hc
  rcases hc with rfl | rfl <;> decide

/-- `[code] SP text`, `[code]`, `text` (not starting with `[`), or nothing -/
inductive EncRespText : Option ResponseCode × Option Bytes → Bytes → Prop
  | empty : EncRespText (none, none) []
  | text (t : Bytes) (x : UInt8) (t' : Bytes) : t = x :: t' → ((91 : UInt8) == x) = false → IsText t →
      EncRespText (none, some t) t
  | code (c : ResponseCode) (e : Bytes) : EncCode c e → EncRespText (some c, none) (b!"[" ++ e ++ b!"]")
  | codeText (c : ResponseCode) (e t : Bytes) : EncCode c e → IsText t →
      EncRespText (some c, some t) (b!"[" ++ e ++ b!"]" ++ (b!" " ++ t))

theorem respText_enc (v : Option ResponseCode × Option Bytes) (e : Bytes) (h : EncRespText v e) :
    Parses respText e v (Starts crlfStart) := by
  intro rest hr
  have hnt := crlf_notText rest hr
  obtain ⟨c0, t0, hr0, hc0⟩ := hr
  have hc091 : ((91 : UInt8) == c0) = false := by
    simp only [crlfStart, Bool.or_eq_true, beq_iff_eq] at hc0
    rcases hc0 with rfl | rfl <;> decide
  unfold respText mapPanic
  cases h with
  | empty =>
    have h1 : Parses (do let code ← opt respTextCode; let t ← text; pure (code, t)) [] (none, ([] : Bytes))
        (Starts crlfStart) := by
      refine Parses.bind' (e1 := []) (e2 := []) (Parses.optNone (F := Starts crlfStart) ?_) ?_ (fun _ h => h) rfl
      · intro r ⟨c, t, hr, hc⟩
        subst hr
        apply respTextCode_err
        simp only [crlfStart, Bool.or_eq_true, beq_iff_eq] at hc
        rcases hc with rfl | rfl <;> decide
      · exact Parses.bind' (e1 := []) (e2 := []) ((text_enc [] (by intro c hc; cases hc) (by decide)).weaken crlf_notText)
          (Parses.pure _ _) (fun _ h => h) rfl
    have := h1 rest ⟨c0, t0, hr0, hc0⟩
    simp only [List.nil_append] at this ⊢
    rw [this]
    simp [respTextFinish]
  | text _ x t' ht hx htext =>
    have h1 : Parses (do let code ← opt respTextCode; let t ← text; pure (code, t)) e (none, e)
        (Starts crlfStart) := by
      refine Parses.bind' (e1 := []) (e2 := e) (Parses.optNone (F := fun r => ∃ r', r = x :: r') ?_) ?_
        (fun r _ => ⟨t' ++ r, by simp [ht]⟩) rfl
      · intro r ⟨r', hr'⟩
        subst hr'
        exact respTextCode_err x r' hx
      · exact Parses.bind' (e2 := []) ((text_enc e htext (text_utf8 e htext)).weaken crlf_notText)
          (Parses.pure _ _) (fun _ h => h) (by simp)
    rw [h1 rest ⟨c0, t0, hr0, hc0⟩]
    simp [respTextFinish, ht]
  | code c e hc =>
    have h1 : Parses (do let code ← opt respTextCode; let t ← text; pure (code, t)) (b!"[" ++ e ++ b!"]")
        (some c, ([] : Bytes)) (Starts crlfStart) := by
      refine Parses.bind' (e2 := []) (Parses.optSome (respTextCode_enc c e hc (Starts crlfStart))) ?_
        (fun _ h => h) (by simp)
      exact Parses.bind' (e1 := []) (e2 := []) ((text_enc [] (by intro c hc; cases hc) (by decide)).weaken crlf_notText)
        (Parses.pure _ _) (fun _ h => h) rfl
    rw [h1 rest ⟨c0, t0, hr0, hc0⟩]
    simp [respTextFinish]
  | codeText c e t hc htext =>
    have hsp : IsText (32 :: t) := by
      intro x hx
      simp only [List.mem_cons] at hx
      rcases hx with rfl | hx
      · decide
      · exact htext x hx
    have h1 : Parses (do let code ← opt respTextCode; let t ← text; pure (code, t))
        (b!"[" ++ e ++ b!"]" ++ (b!" " ++ t)) (some c, 32 :: t) (Starts crlfStart) := by
      refine Parses.bind (Parses.optSome (respTextCode_enc c e hc Any)) ?_ (fun _ _ => trivial)
      exact Parses.bind' (e2 := []) ((text_enc (32 :: t) hsp (text_utf8 _ hsp)).weaken crlf_notText)
        (Parses.pure _ _) (fun _ h => h) (by simp)
    rw [h1 rest ⟨c0, t0, hr0, hc0⟩]
    cases t with
    | nil => simp [respTextFinish, strFrom1]
    | cons y ys =>
      have hy : isCont y = false := by
        have hlt := textChar_ascii y (htext y (by simp))
        have key : ∀ n : Fin 256, (UInt8.ofNat n.val) < 0x80 → isCont (UInt8.ofNat n.val) = false := by
          decide +kernel
        have := key ⟨y.toNat, y.toNat_lt⟩
        simp only [UInt8.ofNat_toNat] at this
        exact this hlt
      simp [respTextFinish, strFrom1, hy]

/-- after a status keyword: nothing, a lone space, or `SP resp-text` -/
inductive EncTrailing : Option ResponseCode × Option Bytes → Bytes → Prop
  | none : EncTrailing (none, none) []
  | some (v : Option ResponseCode × Option Bytes) (e : Bytes) : EncRespText v e → EncTrailing v (b!" " ++ e)

theorem trailingRespText_enc (v : Option ResponseCode × Option Bytes) (e : Bytes) (h : EncTrailing v e) :
    Parses trailingRespText e v (Starts crlfStart) := by
  unfold trailingRespText
  cases h with
  | none =>
    refine Parses.map _ (v := (none : Option (Option ResponseCode × Option Bytes))) (Parses.optNone ?_)
    intro rest ⟨c, t, hr, hc⟩
    subst hr
    show Parser.bindP (tag (b!" ")) _ _ = .err
    unfold Parser.bindP
    have : ((32 : UInt8) == c) = false := by
      simp only [crlfStart, Bool.or_eq_true, beq_iff_eq] at hc
      rcases hc with rfl | rfl <;> decide
    rw [tag_err_first (b!" ") 32 c t rfl this]
  | some v e he =>
    exact Parses.map _ (v := some v) (Parses.optSome (Parses.bind (tag_ok _) (respText_enc v e he) (fun _ _ => trivial)))

/-! ### status responses -/

def statusKw : Status → Bytes
  | .ok => b!"OK" | .no => b!"NO" | .bad => b!"BAD" | .preAuth => b!"PREAUTH" | .bye => b!"BYE"

theorem statusP_enc (s : Status) (m : List Bool) : Parses statusP (spell (statusKw s) m) s Any := by
  unfold statusP
  cases s with
  | ok => exact Parses.altL (kwOnly_enc _ _ m _)
  | no =>
    refine Parses.altR (Parses.altL (kwOnly_enc _ _ m _)) ?_
    intro rest _; exact kwMap_err _ _ _ m rest (by decide)
  | bad =>
    refine Parses.altR (Parses.altR (Parses.altL (kwOnly_enc _ _ m _)) ?_) ?_
    · intro rest _; exact kwMap_err _ _ _ m rest (by decide)
    · intro rest _; exact kwMap_err _ _ _ m rest (by decide)
  | preAuth =>
    refine Parses.altR (Parses.altR (Parses.altR (Parses.altL (kwOnly_enc _ _ m _)) ?_) ?_) ?_
    · intro rest _; exact kwMap_err _ _ _ m rest (by decide)
    · intro rest _; exact kwMap_err _ _ _ m rest (by decide)
    · intro rest _; exact kwMap_err _ _ _ m rest (by decide)
  | bye =>
    refine Parses.altR (Parses.altR (Parses.altR (Parses.altR (kwOnly_enc _ _ m _) ?_) ?_) ?_) ?_
    · intro rest _; exact kwMap_err _ _ _ m rest (by decide)
    · intro rest _; exact kwMap_err _ _ _ m rest (by decide)
    · intro rest _; exact kwMap_err _ _ _ m rest (by decide)
    · intro rest _; exact kwMap_err _ _ _ m rest (by decide)

/-- an untagged status response without the `"* "` prefix and the line end -/
theorem respCond_enc (s : Status) (m : List Bool) (v : Option ResponseCode × Option Bytes) (e : Bytes)
    (h : EncTrailing v e) :
    Parses respCond (spell (statusKw s) m ++ e) (.data s v.1 v.2) (Starts crlfStart) := by
  unfold respCond
  refine Parses.bind (statusP_enc s m) ?_ (fun _ _ => trivial)
  exact Parses.bind' (trailingRespText_enc v e h) (Parses.pure _ _) (fun _ h => h) (by simp)

/-- a command tag on the wire -/
def IsTag (t : Bytes) : Prop := t ≠ [] ∧ ∀ c ∈ t, isTagChar c = true

theorem tagChar_ascii (c : UInt8) (h : isTagChar c = true) : c < 0x80 := by
  have key : ∀ n : Fin 256, isTagChar (UInt8.ofNat n.val) = true → (UInt8.ofNat n.val) < 0x80 := by
    decide +kernel
  have := key ⟨c.toNat, c.toNat_lt⟩
  simp only [UInt8.ofNat_toNat] at this
  exact this h

/-- **tagged completion**: `tag SP status [SP resp-text] CRLF` -/
theorem responseTagged_enc (t : Bytes) (ht : IsTag t) (s : Status) (m : List Bool)
    (v : Option ResponseCode × Option Bytes) (e : Bytes) (h : EncTrailing v e) :
    Parses responseTagged (t ++ (b!" " ++ (spell (statusKw s) m ++ (e ++ b!"\r\n")))) (.done t s v.1 v.2) Any := by
  unfold responseTagged imapTag
  have htag : Parses (mapRes (takeWhile1 isTagChar) utf8) t t (Starts fun c => c == 32) := by
    refine Parses.mapRes _ _ ((takeWhile1_ok isTagChar t ht.1 ht.2).weaken ?_)
      (by simp [utf8, ascii_utf8 t (fun c hc => tagChar_ascii c (ht.2 c hc))])
    intro r ⟨c, tl, hr, hc⟩
    have : c = 32 := by simpa using hc
    exact ⟨c, tl, hr, by subst this; decide⟩
  refine Parses.bind htag ?_ (fun r _ => ⟨32, _, rfl, by decide⟩)
  refine Parses.bind (tag_ok _) ?_ (fun _ _ => trivial)
  refine Parses.bind (statusP_enc s m) ?_ (fun _ _ => trivial)
  refine Parses.bind (trailingRespText_enc v e h) ?_ (fun r _ => ⟨13, 10 :: r, rfl, by decide⟩)
  exact Parses.bind' (tag_ok _) (Parses.pure _ _) (fun _ _ => trivial) (by simp)

/-- **continuation request**: `+ [SP] resp-text CRLF` (the space after `+` is optional) -/
theorem continueReq_enc (sp : Bool) (v : Option ResponseCode × Option Bytes) (e : Bytes) (h : EncRespText v e)
    (hsp : sp = false → ∀ x t, e = x :: t → ((32 : UInt8) == x) = false) :
    Parses continueReq (b!"+" ++ ((if sp then b!" " else []) ++ (e ++ b!"\r\n"))) (.continue_ v.1 v.2) Any := by
  unfold continueReq
  refine Parses.bind (tag_ok _) ?_ (fun _ _ => trivial)
  have hopt : Parses (opt (tag (b!" "))) (if sp then b!" " else []) (if sp then some () else none)
      (fun r => ∃ x t, r = x :: t ∧ (sp = false → ((32 : UInt8) == x) = false)) := by
    cases sp with
    | true => exact Parses.optSome ((tag_ok _).weaken (fun _ _ => trivial))
    | false =>
      apply Parses.optNone
      intro rest ⟨x, t, hr, hx⟩
      subst hr
      exact tag_err_first _ 32 x t rfl (hx rfl)
  refine Parses.bind hopt ?_ ?_
  · refine Parses.bind (respText_enc v e h) ?_ (fun r _ => ⟨13, 10 :: r, rfl, by decide⟩)
    exact Parses.bind' (tag_ok _) (Parses.pure _ _) (fun _ _ => trivial) (by simp)
  · intro r _
    cases e with
    | nil => exact ⟨13, 10 :: r, by simp, fun _ => by decide⟩
    | cons y ys => exact ⟨y, ys ++ (b!"\r\n" ++ r), by simp, fun hsf => hsp hsf y ys rfl⟩

end RT
