/-
  Round-trip, ninth layer: CAPABILITY (response and response code).
-/
import ImapVerif.Proofs.RT8

open Bytes Parser Grammar

namespace RT

/-- none of the keyword-introduced mailbox data can start this keyword -/
def notMailboxKw (u : Bytes) : Bool :=
  mismatch (b!"FLAGS ") u && mismatch (b!"LIST ") u && mismatch (b!"LSUB ") u && mismatch (b!"STATUS ") u &&
    mismatch (b!"SEARCH") u && mismatch (b!"X-GM-LABELS ") u && mismatch (b!"X-GM-MSGID ") u &&
    mismatch (b!"SORT") u

theorem mailboxData_err_kw (c : UInt8) (u : Bytes) (m : List Bool) (r : Bytes)
    (hc : isDigit c = false ∧ isDigit (flipCase c) = false) (h : notMailboxKw (c :: u) = true) :
    mailboxData (spell (c :: u) m ++ r) = .err := by
  simp only [notMailboxKw, Bool.and_eq_true] at h
  obtain ⟨⟨⟨⟨⟨⟨⟨h1, h2⟩, h3⟩, h4⟩, h5⟩, h6⟩, h7⟩, h8⟩ := h
  have e1 : mailboxDataFlags (spell (c :: u) m ++ r) = .err := by
    unfold mailboxDataFlags; exact kwBind_err _ _ _ m r h1
  have e2 : mailboxDataExists (spell (c :: u) m ++ r) = .err := by
    unfold mailboxDataExists; exact numBind_err_kw _ c u m r hc
  have e3 : mailboxDataList (spell (c :: u) m ++ r) = .err := by
    unfold mailboxDataList; exact kwBind_err _ _ _ m r h2
  have e4 : mailboxDataLsub (spell (c :: u) m ++ r) = .err := by
    unfold mailboxDataLsub; exact kwBind_err _ _ _ m r h3
  have e5 : mailboxDataStatus (spell (c :: u) m ++ r) = .err := by
    unfold mailboxDataStatus; exact kwBind_err _ _ _ m r h4
  have e6 : mailboxDataRecent (spell (c :: u) m ++ r) = .err := by
    unfold mailboxDataRecent; exact numBind_err_kw _ c u m r hc
  have e7 : mailboxDataSearch (spell (c :: u) m ++ r) = .err := by
    unfold mailboxDataSearch; exact kwBind_err _ _ _ m r h5
  have e8 : mailboxDataGmailLabels (spell (c :: u) m ++ r) = .err := by
    unfold mailboxDataGmailLabels gmailLabelList; exact map_err _ _ _ (kwBind_err _ _ _ m r h6)
  have e9 : mailboxDataGmailMsgId (spell (c :: u) m ++ r) = .err := by
    unfold mailboxDataGmailMsgId gmailMsgId; exact map_err _ _ _ (kwBind_err _ _ _ m r h7)
  have e10 : mailboxDataSort (spell (c :: u) m ++ r) = .err := by
    unfold mailboxDataSort; exact kwBind_err _ _ _ m r h8
  unfold mailboxData
  simp only [alt]
  rw [e1, e2, e3, e4, e5, e6, e7, e8, e9, e10]

/-- as a response: tried after status responses, mailbox data, EXPUNGE and FETCH -/
theorem responseDataAlt_caps (v : List Capability) (e : Bytes) (h : EncCaps v e) :
    Parses responseDataAlt e (.capabilities v) EndOfCaps := by
  have hp := capabilityData_enc v e h
  cases h with
  | mk m items hall hc =>
    unfold responseDataAlt
    refine Parses.altR (Parses.altR (Parses.altR (Parses.altR (Parses.altL (Parses.map _ hp)) ?_) ?_) ?_) ?_
    all_goals (intro rest _; rw [List.append_assoc])
    · unfold messageDataFetch; exact numBind_err_kw _ 67 _ m _ (by decide)
    · unfold messageDataExpunge; exact map_err _ _ _ (numBind_err_kw _ 67 _ m _ (by decide))
    · exact map_err _ _ _ (mailboxData_err_kw 67 _ m _ (by decide) (by decide))
    · exact respCond_err_kw _ m _ (by decide)

end RT
