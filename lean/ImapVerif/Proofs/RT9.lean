/-
  Round-trip, ninth layer: CAPABILITY (response and response code).
-/
import ImapVerif.Proofs.RT8

open Bytes Parser Grammar

namespace RT

/-- a capability on the wire is an atom; its value is the classification of the complete atom -/
inductive EncCap : Capability → Bytes → Prop
  | mk (a : Bytes) : a ≠ [] → (∀ c ∈ a, isAtomChar c = true) → validUtf8 a = true →
      EncCap (classifyCapability a) a

theorem capability_enc (v : Capability) (e : Bytes) (h : EncCap v e) : Parses capability e v (Starts notAtomChar) := by
  cases h with
  | mk _ hne hall hu =>
    unfold capability
    exact Parses.map _ (atom_enc e hne hall hu)

def spCap : Parser Capability := do char 32; capability

/-- what may follow the capability list: CR, `]`, or a space not followed by an atom character -/
def EndOfCaps (r : Bytes) : Prop :=
  (∃ c t, r = c :: t ∧ (c = 13 ∨ c = 93)) ∨ (∃ x t, r = 32 :: x :: t ∧ isAtomChar x = false)

theorem spCap_stop (r : Bytes) (h : EndOfCaps r) : spCap r = .err := by
  unfold spCap
  show Parser.bindP (char 32) _ _ = .err
  unfold Parser.bindP
  rcases h with ⟨c, t, rfl, hc⟩ | ⟨x, t, rfl, hx⟩
  · have : (c == 32) = false := by rcases hc with rfl | rfl <;> decide
    simp [char, this]
  · simp [char, capability, Parser.map, atom, Parser.mapRes, takeWhile1_err isAtomChar x t hx]

theorem caps_many0 (items : List (Bytes × Capability)) (hall : ∀ x ∈ items, EncCap x.2 x.1) :
    Parses (many0 spCap) (items.map fun x => b!" " ++ x.1).flatten (items.map (·.2)) EndOfCaps := by
  have key := Parses.many0 (p := spCap) (Starts notAtomChar) EndOfCaps
    (items.map fun x => (b!" " ++ x.1, x.2)) ?_ ?_ ?_ ?_ ?_
  · simpa [List.map_map, Function.comp_def] using key
  · intro y hy
    simp only [List.mem_map] at hy
    obtain ⟨x, hx, rfl⟩ := hy
    unfold spCap
    exact Parses.bind (char_ok 32) (capability_enc x.2 x.1 (hall x hx)) (fun _ _ => trivial)
  · intro y hy
    simp only [List.mem_map] at hy
    obtain ⟨x, hx, rfl⟩ := hy
    simp
  · intro y hy r
    simp only [List.mem_map] at hy
    obtain ⟨x, hx, rfl⟩ := hy
    exact ⟨32, x.1 ++ r, by simp, by decide⟩
  · intro r hr
    rcases hr with ⟨c, t, rfl, hc⟩ | ⟨x, t, rfl, _⟩
    · exact ⟨c, t, rfl, by rcases hc with rfl | rfl <;> decide⟩
    · exact ⟨32, x :: t, rfl, by decide⟩
  · intro r hr
    exact spCap_stop r hr

/-- `CAPABILITY SP atom ...`; the list must name IMAP4rev1 -/
inductive EncCaps : List Capability → Bytes → Prop
  | mk (m : List Bool) (items : List (Bytes × Capability)) :
      (∀ x ∈ items, EncCap x.2 x.1) → (items.map (·.2)).contains Capability.imap4rev1 = true →
      EncCaps (items.map (·.2)) (spell (b!"CAPABILITY") m ++ (items.map fun x => b!" " ++ x.1).flatten)

theorem capabilityData_enc (v : List Capability) (e : Bytes) (h : EncCaps v e) :
    Parses capabilityData e v EndOfCaps := by
  cases h with
  | mk m items hall hc =>
    unfold capabilityData
    refine Parses.mapRes _ _ (v := items.map (·.2)) ?_ (by unfold ensureCapabilitiesContainsImap4rev; rw [if_pos hc])
    exact Parses.bind (tagNoCase_spell _ m) (caps_many0 items hall) (fun _ _ => trivial)

/-- as a response code: `[CAPABILITY ...]` -/
theorem respTextCodeAlt_caps (v : List Capability) (e : Bytes) (h : EncCaps v e) :
    Parses respTextCodeAlt e (.capabilities v) (Starts closeBracket) := by
  have hp := capabilityData_enc v e h
  cases h with
  | mk m items hall hc =>
    unfold respTextCodeAlt
    refine Parses.altR (Parses.altR (Parses.altL (Parses.map _ (hp.weaken ?_))) ?_) ?_
    · intro r ⟨c, t, hr, hcb⟩
      have : c = 93 := by simpa [closeBracket] using hcb
      exact Or.inl ⟨c, t, hr, Or.inr this⟩
    · skip_code
    · skip_code

/-- none of the keyword-introduced mailbox data can start this keyword -/
def notMailboxKw (u : Bytes) : Bool :=
  mismatch (b!"FLAGS ") u && mismatch (b!"LIST ") u && mismatch (b!"LSUB ") u && mismatch (b!"STATUS ") u &&
    mismatch (b!"SEARCH") u && mismatch (b!"X-GM-LABELS ") u && mismatch (b!"X-GM-MSGID ") u &&
    mismatch (b!"SORT") u

theorem mailboxData_err_kw (c : UInt8) (u : Bytes) (m : List Bool) (r : Bytes)
    (hc : isDigit c = false ∧ isDigit (flipCase c) = false) (h : notMailboxKw (c :: u) = true) :
    mailboxData (spell (c :: u) m ++ r) = .err := by
  simp only [notMailboxKw, Bool.and_eq_true] at h
  obtain ⟨⟨⟨⟨⟨⟨⟨h1, h2⟩, h3⟩, h4⟩, h5⟩, h6⟩, h7⟩, h8⟩ := h
  have e1 : mailboxDataFlags (spell (c :: u) m ++ r) = .err := by
    unfold mailboxDataFlags; exact kwBind_err _ _ _ m r h1
  have e2 : mailboxDataExists (spell (c :: u) m ++ r) = .err := by
    unfold mailboxDataExists; exact numBind_err_kw _ c u m r hc
  have e3 : mailboxDataList (spell (c :: u) m ++ r) = .err := by
    unfold mailboxDataList; exact kwBind_err _ _ _ m r h2
  have e4 : mailboxDataLsub (spell (c :: u) m ++ r) = .err := by
    unfold mailboxDataLsub; exact kwBind_err _ _ _ m r h3
  have e5 : mailboxDataStatus (spell (c :: u) m ++ r) = .err := by
    unfold mailboxDataStatus; exact kwBind_err _ _ _ m r h4
  have e6 : mailboxDataRecent (spell (c :: u) m ++ r) = .err := by
    unfold mailboxDataRecent; exact numBind_err_kw _ c u m r hc
  have e7 : mailboxDataSearch (spell (c :: u) m ++ r) = .err := by
    unfold mailboxDataSearch; exact kwBind_err _ _ _ m r h5
  have e8 : mailboxDataGmailLabels (spell (c :: u) m ++ r) = .err := by
    unfold mailboxDataGmailLabels gmailLabelList; exact map_err _ _ _ (kwBind_err _ _ _ m r h6)
  have e9 : mailboxDataGmailMsgId (spell (c :: u) m ++ r) = .err := by
    unfold mailboxDataGmailMsgId gmailMsgId; exact map_err _ _ _ (kwBind_err _ _ _ m r h7)
  have e10 : mailboxDataSort (spell (c :: u) m ++ r) = .err := by
    unfold mailboxDataSort; exact kwBind_err _ _ _ m r h8
  unfold mailboxData
  simp only [alt]
  rw [e1, e2, e3, e4, e5, e6, e7, e8, e9, e10]

/-- as a response: tried after status responses, mailbox data, EXPUNGE and FETCH -/
theorem responseDataAlt_caps (v : List Capability) (e : Bytes) (h : EncCaps v e) :
    Parses responseDataAlt e (.capabilities v) EndOfCaps := by
  have hp := capabilityData_enc v e h
  cases h with
  | mk m items hall hc =>
    unfold responseDataAlt
    refine Parses.altR (Parses.altR (Parses.altR (Parses.altR (Parses.altL (Parses.map _ hp)) ?_) ?_) ?_) ?_
    all_goals (intro rest _; rw [List.append_assoc])
    · unfold messageDataFetch; exact numBind_err_kw _ 67 _ m _ (by decide)
    · unfold messageDataExpunge; exact map_err _ _ _ (numBind_err_kw _ 67 _ m _ (by decide))
    · exact map_err _ _ _ (mailboxData_err_kw 67 _ m _ (by decide) (by decide))
    · exact respCond_err_kw _ m _ (by decide)

end RT
