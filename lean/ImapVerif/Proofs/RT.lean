/-
  Round-trip framework: "the parser reads what an RFC printer writes".

  `Parses p e v F` : on every input `e ++ rest` whose continuation `rest` satisfies the follow
  predicate `F`, the parser `p` accepts exactly `e` and returns `v`.
  Rules for sequencing, alternatives, mapping, options and repetition, and the leaf productions of
  core.rs (number, NIL, quoted, literal, string, nstring, astring, atom, mailbox, text).
-/
import ImapVerif.Grammar.Rfc3501
import ImapVerif.Proofs.Num
import ImapVerif.Proofs.Stable

open Bytes Parser Grammar

namespace RT

def Parses (p : Parser α) (e : Bytes) (v : α) (F : Bytes → Prop) : Prop :=
  ∀ rest, F rest → p (e ++ rest) = .ok v rest

/-- no constraint on what follows -/
def Any : Bytes → Prop := fun _ => True

/-- what follows is non-empty and starts with a byte in the class `P` -/
def Starts (P : UInt8 → Bool) : Bytes → Prop := fun r => ∃ c t, r = c :: t ∧ P c = true

theorem Parses.weaken {p : Parser α} {F G : Bytes → Prop} (h : Parses p e v F) (hg : ∀ r, G r → F r) :
    Parses p e v G := fun r hr => h r (hg r hr)

theorem Parses.pure (v : α) (F) : Parses (Pure.pure v : Parser α) [] v F := by
  intro rest _; rfl

theorem Parses.bind {p : Parser α} {f : α → Parser β} {F1 F : Bytes → Prop}
    (hp : Parses p e1 v1 F1) (hf : Parses (f v1) e2 v2 F) (hfollow : ∀ r, F r → F1 (e2 ++ r)) :
    Parses (p >>= f) (e1 ++ e2) v2 F := by
  intro rest hr
  show Parser.bindP p f (e1 ++ e2 ++ rest) = _
  unfold Parser.bindP
  rw [List.append_assoc, hp (e2 ++ rest) (hfollow rest hr)]
  exact hf rest hr

/-- sequencing where the encoding is given as a whole -/
theorem Parses.bind' {p : Parser α} {f : α → Parser β} {F1 F : Bytes → Prop}
    (hp : Parses p e1 v1 F1) (hf : Parses (f v1) e2 v2 F) (hfollow : ∀ r, F r → F1 (e2 ++ r))
    (he : e = e1 ++ e2) : Parses (p >>= f) e v2 F := he ▸ Parses.bind hp hf hfollow

theorem Parses.altL {p q : Parser α} (hp : Parses p e v F) : Parses (alt p q) e v F := by
  intro rest hr; unfold alt; rw [hp rest hr]

theorem Parses.altR {p q : Parser α} (hq : Parses q e v F) (hp : ∀ rest, F rest → p (e ++ rest) = .err) :
    Parses (alt p q) e v F := by
  intro rest hr; unfold alt; rw [hp rest hr]; exact hq rest hr

theorem Parses.map {p : Parser α} (g : α → β) (hp : Parses p e v F) : Parses (map p g) e (g v) F := by
  intro rest hr; unfold Parser.map; rw [hp rest hr]

theorem Parses.mapRes {p : Parser α} (g : α → Option β) (w : β) (hp : Parses p e v F) (hg : g v = some w) :
    Parses (mapRes p g) e w F := by
  intro rest hr; unfold Parser.mapRes; rw [hp rest hr]; simp [hg]

theorem Parses.optSome {p : Parser α} (hp : Parses p e v F) : Parses (opt p) e (some v) F := by
  intro rest hr; unfold Parser.opt; rw [hp rest hr]

theorem Parses.optNone {p : Parser α} {F : Bytes → Prop} (hp : ∀ rest, F rest → p rest = .err) :
    Parses (opt p) [] none F := by
  intro rest hr; unfold Parser.opt; simp [hp rest hr]

theorem Parses.optOptSome {p : Parser (Option α)} (hp : Parses p e v F) : Parses (optOpt p) e v F := by
  intro rest hr; unfold Parser.optOpt; rw [hp rest hr]

theorem Parses.optOptNone {p : Parser (Option α)} {F : Bytes → Prop} (hp : ∀ rest, F rest → p rest = .err) :
    Parses (optOpt p) [] none F := by
  intro rest hr; unfold Parser.optOpt; simp [hp rest hr]

/-! ### keyword spelling -/

def flipCase (c : UInt8) : UInt8 :=
  if 65 ≤ c ∧ c ≤ 90 then c + 32 else if 97 ≤ c ∧ c ≤ 122 then c - 32 else c

/-- a spelling of a keyword: each letter in either case (mask), non-letters unchanged -/
def spell : Bytes → List Bool → Bytes
  | [], _ => []
  | c :: cs, [] => c :: cs
  | c :: cs, m :: ms => (if m then flipCase c else c) :: spell cs ms

theorem lower_flip (c : UInt8) : lower (flipCase c) = lower c := by
  have h : ∀ n : Fin 256, lower (flipCase (UInt8.ofNat n.val)) = lower (UInt8.ofNat n.val) := by decide +kernel
  have := h ⟨c.toNat, c.toNat_lt⟩
  simpa using this

theorem spell_length (t : Bytes) (m : List Bool) : (spell t m).length = t.length := by
  induction t generalizing m with
  | nil => cases m <;> rfl
  | cons c cs ih => cases m <;> simp [spell, ih]

theorem tagNoCase_spell (t : Bytes) (m : List Bool) : Parses (tagNoCase t) (spell t m) () Any := by
  intro rest _
  unfold tagNoCase
  induction t generalizing m with
  | nil => cases m <;> simp [spell, tagGo]
  | cons c cs ih =>
    cases m with
    | nil =>
      have := ih []
      simp only [spell, List.cons_append, tagGo, beq_self_eq_true, if_true]
      cases cs <;> simpa [spell] using this
    | cons b bs =>
      have hb : (lower c == lower (if b then flipCase c else c)) = true := by
        cases b <;> simp [lower_flip]
      simp only [spell, List.cons_append, tagGo, hb, if_true]
      exact ih bs

/-- the case-insensitive keywords `t` and `u` differ at some position both have -/
def mismatch : Bytes → Bytes → Bool
  | [], _ => false
  | _, [] => false
  | a :: as, b :: bs => if lower a == lower b then mismatch as bs else true

/-- a keyword parser rejects (Error, not Incomplete) any spelling of a different keyword -/
theorem tagNoCase_mismatch (t u : Bytes) (m : List Bool) (rest : Bytes) (h : mismatch t u = true) :
    tagNoCase t (spell u m ++ rest) = .err := by
  unfold tagNoCase
  induction t generalizing u m with
  | nil => simp [mismatch] at h
  | cons a as ih =>
    cases u with
    | nil => simp [mismatch] at h
    | cons b bs =>
      simp only [mismatch] at h
      have hsp : ∀ m, ∃ x ms, spell (b :: bs) m = x :: spell bs ms ∧ lower x = lower b := by
        intro m
        cases m with
        | nil => exact ⟨b, [], by cases bs <;> simp [spell], rfl⟩
        | cons k ks => exact ⟨_, ks, rfl, by cases k <;> simp [lower_flip]⟩
      obtain ⟨x, ms, hx, hl⟩ := hsp m
      rw [hx]
      simp only [List.cons_append, tagGo, hl]
      split at h
      · rename_i heq
        simp only [heq, if_true]
        exact ih bs ms h
      · rename_i hne
        simp [hne]

/-- a keyword parser rejects an input whose first byte cannot start the keyword -/
theorem tagNoCase_err_first (t : Bytes) (c x : UInt8) (r : Bytes) (ht : t.head? = some c)
    (h : (lower c == lower x) = false) : tagNoCase t (x :: r) = .err := by
  cases t with
  | nil => simp at ht
  | cons a as =>
    simp at ht; subst ht
    simp [tagNoCase, tagGo, h]

theorem tag_err_first (t : Bytes) (c x : UInt8) (r : Bytes) (ht : t.head? = some c)
    (h : (c == x) = false) : tag t (x :: r) = .err := by
  cases t with
  | nil => simp at ht
  | cons a as =>
    simp at ht; subst ht
    simp [tag, tagGo, h]

theorem char_ok (c : UInt8) : Parses (char c) [c] () Any := by
  intro rest _; simp [char]

theorem char_err (c x : UInt8) (r : Bytes) (h : (x == c) = false) : char c (x :: r) = .err := by
  simp [char, h]

theorem tag_ok (t : Bytes) : Parses (tag t) t () Any := by
  intro rest _
  unfold tag
  induction t with
  | nil => simp [tagGo]
  | cons c cs ih => simp [tagGo, ih]

/-! ### runs of a byte class (take_while / take_while1) -/

theorem takeWhile_stop (f : UInt8 → Bool) (s : Bytes) (c : UInt8) (r : Bytes)
    (hs : ∀ x ∈ s, f x = true) (hc : f c = false) :
    (s ++ c :: r).takeWhile f = s ∧ (s ++ c :: r).dropWhile f = c :: r := by
  induction s with
  | nil => simp [List.takeWhile_cons, List.dropWhile_cons, hc]
  | cons d ds ih =>
    have hd := hs d (by simp)
    have := ih (fun x hx => hs x (by simp [hx]))
    simp [List.takeWhile_cons, List.dropWhile_cons, hd, this.1, this.2]

theorem takeWhile_ok (f : UInt8 → Bool) (s : Bytes) (hs : ∀ x ∈ s, f x = true) :
    Parses (takeWhile f) s s (Starts fun c => !f c) := by
  intro rest ⟨c, t, hr, hc⟩
  subst hr
  have := takeWhile_stop f s c t hs (by simpa using hc)
  simp [takeWhile, this.1, this.2]

theorem takeWhile1_ok (f : UInt8 → Bool) (s : Bytes) (hne : s ≠ []) (hs : ∀ x ∈ s, f x = true) :
    Parses (takeWhile1 f) s s (Starts fun c => !f c) := by
  intro rest ⟨c, t, hr, hc⟩
  subst hr
  have := takeWhile_stop f s c t hs (by simpa using hc)
  cases s with
  | nil => exact absurd rfl hne
  | cons a as =>
    unfold takeWhile1
    rw [this.2, this.1]

theorem takeWhile1_err (f : UInt8 → Bool) (x : UInt8) (r : Bytes) (h : f x = false) :
    takeWhile1 f (x :: r) = .err := by
  simp [takeWhile1, List.dropWhile_cons, List.takeWhile_cons, h]

/-! ### number -/

/-- a numeral: canonical digits with any number of leading zeros -/
inductive EncNumber (n : Nat) : Bytes → Prop
  | mk (z : Nat) : EncNumber n (List.replicate z 48 ++ decDigits n)

def notDigit (c : UInt8) : Bool := !isDigit c

theorem number_enc (bound n : Nat) (e : Bytes) (h : EncNumber n e) (hn : n < bound) :
    Parses (numberB bound) e n (Starts notDigit) := by
  cases h with
  | mk z =>
    intro rest ⟨c, t, hr, hc⟩
    subst hr
    exact Num.numberB_complete bound n z hn c t (by simpa [notDigit] using hc)

theorem numberB_err (bound : Nat) (x : UInt8) (r : Bytes) (h : isDigit x = false) :
    numberB bound (x :: r) = .err := by
  simp [numberB, mapRes, takeWhile1_err isDigit x r h]

/-! ### NIL -/

theorem nil_enc (m : List Bool) : Parses nil (spell (b!"NIL") m) () Any := tagNoCase_spell _ m

theorem nil_err (x : UInt8) (r : Bytes) (h : (lower 78 == lower x) = false) : nil (x :: r) = .err :=
  tagNoCase_err_first _ 78 x r rfl h

/-! ### quoted -/

/-- the bytes a quoted string can carry without escapes -/
def Quotable (s : Bytes) : Prop := ∀ c ∈ s, isQuotedNormal c = true

theorem escapedGo_plain (s : Bytes) (acc rest : Bytes) (hs : Quotable s) :
    escapedGo isQuotedNormal acc (s ++ 34 :: rest) = .ok (acc.reverse ++ s) (34 :: rest) := by
  induction s generalizing acc with
  | nil => simp [Stable.escapedGo_cons, isQuotedNormal, isQuotedSpecials]
  | cons c cs ih =>
    have hc := hs c (by simp)
    have := ih (c :: acc) (fun x hx => hs x (by simp [hx]))
    simp only [List.cons_append, Stable.escapedGo_cons, hc, if_true]
    rw [this]; simp

theorem quoted_enc (s : Bytes) (hs : Quotable s) : Parses quoted ([34] ++ s ++ [34]) s Any := by
  intro rest _
  simp only [quoted, Bind.bind, Parser.bindP, char, List.cons_append, List.nil_append, List.append_assoc,
    beq_self_eq_true, if_true, escaped]
  rw [escapedGo_plain s [] rest hs]
  simp [Pure.pure, Parser.pureP]

theorem quoted_err (x : UInt8) (r : Bytes) (h : (x == 34) = false) : quoted (x :: r) = .err := by
  simp [quoted, Bind.bind, Parser.bindP, char, h]

/-! ### literal -/

/-- what a literal can carry: any bytes but NUL, fewer than 2^32 of them -/
def LiteralOk (s : Bytes) : Prop := (∀ c ∈ s, c ≠ 0) ∧ s.length < 2 ^ 32

/-- `{n}CRLF` + n bytes, the length with any number of leading zeros -/
inductive EncLiteral (s : Bytes) : Bytes → Prop
  | mk (z : Nat) : EncLiteral s (b!"{" ++ (List.replicate z 48 ++ decDigits s.length) ++ b!"}\r\n" ++ s)

theorem take_exact (s rest : Bytes) : take s.length (s ++ rest) = .ok s rest := by
  simp [take]

theorem literal_enc (s e : Bytes) (h : EncLiteral s e) (hs : LiteralOk s) : Parses literal e s Any := by
  cases h with
  | mk z =>
    intro rest _
    have hnum := Num.numberB_complete (2 ^ 32) s.length z hs.2 125 (b!"\r\n" ++ s ++ rest) (by decide)
    have hall : s.all isChar8 = true := by
      simp only [List.all_eq_true, isChar8, bne_iff_ne]; exact hs.1
    simp only [literal, number, Bind.bind, Parser.bindP, tag, tagGo, List.cons_append, List.nil_append,
      List.append_assoc, beq_self_eq_true, if_true] at hnum ⊢
    rw [hnum]
    simp only [tagGo, beq_self_eq_true, if_true, take_exact]
    simp only [hall, if_true]; rfl

theorem literal_err (x : UInt8) (r : Bytes) (h : ((123 : UInt8) == x) = false) : literal (x :: r) = .err := by
  simp [literal, Bind.bind, Parser.bindP, tag, tagGo, h]

/-! ### string / nstring / astring -/

/-- string = quoted / literal -/
inductive EncString (s : Bytes) : Bytes → Prop
  | quoted : Quotable s → EncString s ([34] ++ s ++ [34])
  | literal (e : Bytes) : EncLiteral s e → LiteralOk s → EncString s e

theorem string_enc (s e : Bytes) (h : EncString s e) : Parses string e s Any := by
  cases h with
  | quoted hq => exact Parses.altL (quoted_enc s hq)
  | literal e hl hok =>
    refine Parses.altR (literal_enc s e hl hok) ?_
    intro rest _
    cases hl with
    | mk z => exact quoted_err _ _ (by decide)

theorem string_err (x : UInt8) (r : Bytes) (h1 : (x == 34) = false) (h2 : ((123 : UInt8) == x) = false) :
    string (x :: r) = .err := by
  simp [string, alt, quoted_err x r h1, literal_err x r h2]

theorem stringUtf8_enc (s e : Bytes) (h : EncString s e) (hu : validUtf8 s = true) :
    Parses stringUtf8 e s Any :=
  Parses.mapRes _ s (string_enc s e h) (by simp [utf8, hu])

/-- nstring = string / nil -/
inductive EncNString : Option Bytes → Bytes → Prop
  | nil (m : List Bool) : EncNString none (spell (b!"NIL") m)
  | some (s e : Bytes) : EncString s e → EncNString (some s) e

theorem encString_head (s e : Bytes) (h : EncString s e) : ∃ t, e = 34 :: t ∨ e = 123 :: t := by
  cases h with
  | quoted _ => exact ⟨s ++ [34], Or.inl (by simp)⟩
  | literal e hl _ =>
    cases hl with
    | mk z => exact ⟨List.replicate z 48 ++ decDigits s.length ++ b!"}\r\n" ++ s, Or.inr (by simp)⟩

theorem nstring_enc (v : Option Bytes) (e : Bytes) (h : EncNString v e) : Parses nstring e v Any := by
  cases h with
  | nil m => exact Parses.altL (Parses.map _ (nil_enc m))
  | some s e hs =>
    refine Parses.altR (Parses.map some (string_enc s e hs)) ?_
    intro rest _
    obtain ⟨t, ht | ht⟩ := encString_head s e hs
    · subst ht; simp [Parser.map, nil_err 34 (t ++ rest) (by decide)]
    · subst ht; simp [Parser.map, nil_err 123 (t ++ rest) (by decide)]

theorem nstringUtf8_enc (v : Option Bytes) (e : Bytes) (h : EncNString v e)
    (hu : ∀ s, v = some s → validUtf8 s = true) : Parses nstringUtf8 e v Any := by
  cases h with
  | nil m => exact Parses.altL (Parses.map _ (nil_enc m))
  | some s e hs =>
    refine Parses.altR (Parses.map some (stringUtf8_enc s e hs (hu s rfl))) ?_
    intro rest _
    obtain ⟨t, ht | ht⟩ := encString_head s e hs
    · subst ht; simp [Parser.map, nil_err 34 (t ++ rest) (by decide)]
    · subst ht; simp [Parser.map, nil_err 123 (t ++ rest) (by decide)]

end RT
