/-
  Round-trip for body structures, part 3: the four body types, nesting under the depth budget,
  and the BODYSTRUCTURE / BODY fetch items.
-/
import ImapVerif.Proofs.RTBody2
import ImapVerif.Proofs.RTKw

open Bytes Parser Grammar

namespace RT

theorem spell_nil (u : Bytes) : spell u [] = u := by cases u <;> rfl

theorem kwBind_err_plain {β : Type} (t : Bytes) (f : Unit → Parser β) (u r : Bytes)
    (h : mismatch t u = true) : (tagNoCase t >>= f) (u ++ r) = .err := by
  have := kwBind_err t f u [] r h
  rwa [spell_nil] at this

theorem kwBind_err_first {β : Type} (t : Bytes) (f : Unit → Parser β) (c x : UInt8) (r : Bytes)
    (ht : t.head? = some c) (h : (lower c == lower x) = false) : (tagNoCase t >>= f) (x :: r) = .err := by
  show Parser.bindP (tagNoCase t) f (x :: r) = .err
  unfold Parser.bindP
  rw [tagNoCase_err_first t c x r ht h]

/-- a body structure nested at most `n` levels deep (the budget of `bodyNested`), with its wire form -/
inductive EncBody : Nat → BodyStructure → Bytes → Prop
  | text (n : Nat) (m : List Bool) (sub esub : Bytes) (f : BodyFields) (ef : Bytes) (lines : Nat) (el : Bytes)
      (x : BodyExt1Part) (ex : Bytes) :
      EncString sub esub → validUtf8 sub = true → EncFields f ef → lines < 2 ^ 32 → EncNumber lines el →
      EncExt1 (n + 1) x ex →
      EncBody (n + 1)
        (.text (mkCommon (b!"TEXT") sub f.param x.disposition x.language x.location) (mkOther f x.md5) lines
          x.extension)
        ([40] ++ (spell (b!"\"TEXT\"") m ++ (b!" " ++ (esub ++ (b!" " ++ (ef ++ (b!" " ++ (el ++ ex))))))) ++ [41])
  | message (n : Nat) (m : List Bool) (f : BodyFields) (ef : Bytes) (env : Envelope) (eenv : Bytes)
      (body : BodyStructure) (ebody : Bytes) (lines : Nat) (el : Bytes) (x : BodyExt1Part) (ex : Bytes) :
      EncFields f ef → EncEnvelope env eenv → EncBody n body ebody → lines < 2 ^ 32 → EncNumber lines el →
      EncExt1 (n + 1) x ex →
      EncBody (n + 1)
        (.message (mkCommon (b!"MESSAGE") (b!"RFC822") f.param x.disposition x.language x.location)
          (mkOther f x.md5) env body lines x.extension)
        ([40] ++ (spell (b!"\"MESSAGE\" \"RFC822\"") m ++ (b!" " ++ (ef ++ (b!" " ++ (eenv ++ (b!" " ++ (ebody ++
          (b!" " ++ (el ++ ex))))))))) ++ [41])
  | basic (n : Nat) (ty ety sub esub : Bytes) (f : BodyFields) (ef : Bytes) (x : BodyExt1Part) (ex : Bytes) :
      EncString ty ety → validUtf8 ty = true → EncString sub esub → validUtf8 sub = true → EncFields f ef →
      EncExt1 (n + 1) x ex →
      -- the media type, as spelled, is neither "TEXT" nor "MESSAGE" "RFC822" (those have their own forms)
      mismatch (b!"\"TEXT\"") (ety ++ b!" ") = true →
      mismatch (b!"\"MESSAGE\" \"RFC822\"") (ety ++ b!" " ++ esub ++ b!" ") = true →
      EncBody (n + 1)
        (.basic (mkCommon ty sub f.param x.disposition x.language x.location) (mkOther f x.md5) x.extension)
        ([40] ++ (ety ++ (b!" " ++ (esub ++ (b!" " ++ (ef ++ ex))))) ++ [41])
  | multipart (n : Nat) (first : Bytes × BodyStructure) (others : List (Bytes × BodyStructure))
      (sub esub : Bytes) (x : BodyExtMPart) (ex : Bytes) :
      (∀ c ∈ first :: others, EncBody n c.2 c.1) → EncString sub esub → validUtf8 sub = true →
      EncExtM (n + 1) x ex →
      EncBody (n + 1)
        (.multipart (mkCommon (b!"MULTIPART") sub x.param x.disposition x.language x.location)
          (first.2 :: others.map (·.2)) x.extension)
        ([40] ++ ((first.1 ++ (others.map (·.1)).flatten) ++ (b!" " ++ (esub ++ ex))) ++ [41])

theorem encBody_head (n : Nat) (v : BodyStructure) (e : Bytes) (h : EncBody n v e) : ∃ t, e = 40 :: t := by
  cases h <;> exact ⟨_, rfl⟩

theorem encBody_budget (n : Nat) (v : BodyStructure) (e : Bytes) (h : EncBody n v e) : ∃ k, n = k + 1 := by
  cases h <;> exact ⟨_, rfl⟩

/-- what follows the optional extension chain is the closing parenthesis; what follows a number
    before the chain is therefore not a digit -/
theorem notDigit_before_ext (ex rest : Bytes) (hh : ex = [] ∨ ∃ t, ex = 32 :: t) (hr : closeP rest) :
    Starts notDigit (ex ++ rest) := by
  rcases hh with rfl | ⟨t, rfl⟩
  · obtain ⟨t, rfl⟩ := closeF rest hr
    exact ⟨41, t, rfl, by decide⟩
  · exact ⟨32, t ++ rest, rfl, by decide⟩

def parenOrSpace (c : UInt8) : Bool := c == 40 || c == 32

theorem bodyNested_err_space (k : Nat) (r : Bytes) : bodyNested (k + 1) (32 :: r) = .err := by
  simp [bodyNested, parenDelimited, Bind.bind, Parser.bindP, char]

set_option maxHeartbeats 1000000 in
/-- **body structures**: every encoding of a body structure within the nesting budget is read back
    exactly - every field of every part in its own slot, children in order -/
theorem bodyNested_enc (n : Nat) (v : BodyStructure) (e : Bytes) (h : EncBody n v e) :
    ∀ F : Bytes → Prop, Parses (bodyNested n) e v F := by
  induction h with
  | text n m sub esub f ef lines el x ex hsub husub hf hl hel hx =>
    intro F
    unfold bodyNested
    apply parenDelimited_enc
    refine Parses.altL ?_
    unfold bodyTypeText
    refine Parses.bind (tagNoCase_spell _ m) ?_ (fun _ _ => trivial)
    refine Parses.bind (tag_ok _) ?_ (fun _ _ => trivial)
    refine Parses.bind (stringUtf8_enc _ _ hsub husub) ?_ (fun _ _ => trivial)
    refine Parses.bind (tag_ok _) ?_ (fun _ _ => trivial)
    refine Parses.bind (bodyFields_enc _ _ hf) ?_ (fun r _ => ⟨32, _, rfl, by decide⟩)
    refine Parses.bind (tag_ok _) ?_ (fun _ _ => trivial)
    refine Parses.bind (number_enc (2 ^ 32) _ _ hel hl) ?_
      (fun r hr => notDigit_before_ext ex r (encExt1_head _ _ _ hx) hr)
    exact Parses.bind' (bodyExt1Part_enc _ _ _ hx) (Parses.pure _ _) (fun _ h => h) (by simp)
  | message n m f ef env eenv body ebody lines el x ex hf henv hbody hl hel hx ih =>
    intro F
    unfold bodyNested
    apply parenDelimited_enc
    refine Parses.altR (Parses.altL ?_) ?_
    · unfold bodyTypeMessage
      refine Parses.bind (tagNoCase_spell _ m) ?_ (fun _ _ => trivial)
      refine Parses.bind (tag_ok _) ?_ (fun _ _ => trivial)
      refine Parses.bind (bodyFields_enc _ _ hf) ?_ (fun r _ => ⟨32, _, rfl, by decide⟩)
      refine Parses.bind (tag_ok _) ?_ (fun _ _ => trivial)
      refine Parses.bind (envelope_enc _ _ henv Any) ?_ (fun _ _ => trivial)
      refine Parses.bind (tag_ok _) ?_ (fun _ _ => trivial)
      refine Parses.bind (ih Any) ?_ (fun _ _ => trivial)
      refine Parses.bind (tag_ok _) ?_ (fun _ _ => trivial)
      refine Parses.bind (number_enc (2 ^ 32) _ _ hel hl) ?_
        (fun r hr => notDigit_before_ext ex r (encExt1_head _ _ _ hx) hr)
      exact Parses.bind' (bodyExt1Part_enc _ _ _ hx) (Parses.pure _ _) (fun _ h => h) (by simp)
    · intro rest _
      unfold bodyTypeText
      rw [List.append_assoc]
      exact kwBind_err _ _ _ m _ (by decide)
  | basic n ty ety sub esub f ef x ex hty huty hsub husub hf hx hnt hnm =>
    intro F
    unfold bodyNested
    apply parenDelimited_enc
    refine Parses.altR (Parses.altR (Parses.altL ?_) ?_) ?_
    · unfold bodyTypeBasic
      refine Parses.bind (stringUtf8_enc _ _ hty huty) ?_ (fun _ _ => trivial)
      refine Parses.bind (tag_ok _) ?_ (fun _ _ => trivial)
      refine Parses.bind (stringUtf8_enc _ _ hsub husub) ?_ (fun _ _ => trivial)
      refine Parses.bind (tag_ok _) ?_ (fun _ _ => trivial)
      refine Parses.bind (bodyFields_enc _ _ hf) ?_
        (fun r hr => notDigit_before_ext ex r (encExt1_head _ _ _ hx) hr)
      exact Parses.bind' (bodyExt1Part_enc _ _ _ hx) (Parses.pure _ _) (fun _ h => h) (by simp)
    · intro rest _
      unfold bodyTypeMessage
      have : ety ++ (b!" " ++ (esub ++ (b!" " ++ (ef ++ ex)))) ++ rest =
          (ety ++ b!" " ++ esub ++ b!" ") ++ (ef ++ ex ++ rest) := by simp
      rw [this]
      exact kwBind_err_plain _ _ _ _ hnm
    · intro rest _
      unfold bodyTypeText
      have : ety ++ (b!" " ++ (esub ++ (b!" " ++ (ef ++ ex)))) ++ rest =
          (ety ++ b!" ") ++ (esub ++ (b!" " ++ (ef ++ ex)) ++ rest) := by simp
      rw [this]
      exact kwBind_err_plain _ _ _ _ hnt
  | multipart n first others sub esub x ex hall hsub husub hx ih =>
    intro F
    obtain ⟨k, rfl⟩ := encBody_budget _ _ _ (hall first (by simp))
    obtain ⟨t0, ht0⟩ := encBody_head _ _ _ (hall first (by simp))
    unfold bodyNested
    apply parenDelimited_enc
    refine Parses.altR (Parses.altR (Parses.altR ?_ ?_) ?_) ?_
    · unfold bodyTypeMultipart
      have key := Parses.many1 (p := bodyNested (k + 1)) (Starts parenOrSpace) (Starts fun c => c == 32)
        first others (fun y hy => ih y hy _) ?_ ?_ ?_ ?_
      · refine Parses.bind key ?_ (fun r _ => ⟨32, _, rfl, by decide⟩)
        refine Parses.bind (tag_ok _) ?_ (fun _ _ => trivial)
        refine Parses.bind (stringUtf8_enc _ _ hsub husub) ?_ (fun _ _ => trivial)
        exact Parses.bind' (bodyExtMPart_enc _ _ _ hx) (Parses.pure _ _) (fun _ h => h) (by simp)
      · intro y hy
        obtain ⟨t, ht⟩ := encBody_head _ _ _ (hall y (by simp [hy]))
        simp [ht]
      · intro y hy r
        obtain ⟨t, ht⟩ := encBody_head _ _ _ (hall y (by simp [hy]))
        exact ⟨40, t ++ r, by simp [ht], by decide⟩
      · intro r ⟨c, t, hr, hc⟩
        exact ⟨c, t, hr, by simp only [parenOrSpace, Bool.or_eq_true]; exact Or.inr hc⟩
      · intro r ⟨c, t, hr, hc⟩
        subst hr
        have : c = 32 := by simpa using hc
        subst this
        exact bodyNested_err_space k t
    · intro rest _
      unfold bodyTypeBasic
      show Parser.bindP stringUtf8 _ _ = .err
      unfold Parser.bindP
      simp [ht0, stringUtf8, Parser.mapRes, string_err 40 _ (by decide) (by decide)]
    · intro rest _
      unfold bodyTypeMessage
      simp only [ht0, List.cons_append]
      exact kwBind_err_first _ _ 34 40 _ rfl (by decide)
    · intro rest _
      unfold bodyTypeText
      simp only [ht0, List.cons_append]
      exact kwBind_err_first _ _ 34 40 _ rfl (by decide)

/-- `body` = `bodyNested 33` (MAX_NESTING = 32 levels below the outermost) -/
theorem body_enc (v : BodyStructure) (e : Bytes) (h : EncBody 33 v e) (F : Bytes → Prop) : Parses body e v F := by
  unfold body MAX_NESTING
  exact bodyNested_enc 33 v e h F

/-- the budget is monotone: a structure that fits `n` levels fits `n + 1` -/
theorem encExt_mono (n : Nat) (v : BodyExtension) (e : Bytes) (h : EncExt n v e) : EncExt (n + 1) v e := by
  induction h with
  | num n k e hk he => exact .num _ k e hk he
  | str n v e he hu => exact .str _ v e he hu
  | list n first others _ ih => exact .list _ first others ih

end RT
