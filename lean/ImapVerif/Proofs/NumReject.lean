/-
  Response-level rejection of out-of-range numerals (C13): an untagged response that begins with a
  numeral beyond 32 bits (`* 4294967296 EXISTS`, `* 99999999999 FETCH (...)`, ...) is a parse error
  of `parseResponse` as a whole - no alternative of `response_data`, and neither of the two other
  top-level forms, gives it a value.
-/
import ImapVerif.Proofs.RT13
import ImapVerif.Proofs.Num

open Bytes Parser Grammar

namespace RT

/-- a keyword whose first byte is not a digit rejects input that starts with a digit -/
theorem kwBind_err_digit {β : Type} (t : Bytes) (f : Unit → Parser β) (k d : UInt8) (r : Bytes)
    (ht : t.head? = some k) (hk : isDigit (lower k) = false) (hd : isDigit d = true) :
    (tagNoCase t >>= f) (d :: r) = .err :=
  kwBind_err_first t f k d r ht (lower_digit_ne k d hk hd)

theorem tagNoCase_err_digit (t : Bytes) (k d : UInt8) (r : Bytes)
    (ht : t.head? = some k) (hk : isDigit (lower k) = false) (hd : isDigit d = true) :
    tagNoCase t (d :: r) = .err :=
  tagNoCase_err_first t k d r ht (lower_digit_ne k d hk hd)

/-- the shape of an over-long numeral in front of a non-digit -/
structure BigNum (i : Bytes) : Prop where
  ex : ∃ ds c r, i = ds ++ c :: r ∧ ds ≠ [] ∧ (∀ d ∈ ds, isDigit d = true) ∧ 2 ^ 32 ≤ decVal ds ∧ isDigit c = false

theorem BigNum.number_err {i : Bytes} (h : BigNum i) : number i = .err := by
  obtain ⟨ds, c, r, rfl, hne, hall, hbig, hc⟩ := h.ex
  exact Num.numberB_rejects (2 ^ 32) ds hne hall hbig c r hc

theorem BigNum.head {i : Bytes} (h : BigNum i) : ∃ d t, i = d :: t ∧ isDigit d = true := by
  obtain ⟨ds, c, r, rfl, hne, hall, _, _⟩ := h.ex
  cases ds with
  | nil => exact absurd rfl hne
  | cons d ds' => exact ⟨d, ds' ++ c :: r, by simp, hall d (by simp)⟩

theorem BigNum.numBind_err {β : Type} {i : Bytes} (h : BigNum i) (f : Nat → Parser β) : (number >>= f) i = .err := by
  show Parser.bindP number f i = .err
  unfold Parser.bindP
  rw [h.number_err]

theorem statusP_err_digit (d : UInt8) (r : Bytes) (hd : isDigit d = true) : statusP (d :: r) = .err := by
  unfold statusP
  simp only [alt]
  rw [map_err _ _ _ (tagNoCase_err_digit (b!"OK") _ d r rfl (by decide) hd),
      map_err _ _ _ (tagNoCase_err_digit (b!"NO") _ d r rfl (by decide) hd),
      map_err _ _ _ (tagNoCase_err_digit (b!"BAD") _ d r rfl (by decide) hd),
      map_err _ _ _ (tagNoCase_err_digit (b!"PREAUTH") _ d r rfl (by decide) hd),
      map_err _ _ _ (tagNoCase_err_digit (b!"BYE") _ d r rfl (by decide) hd)]

theorem respCond_err_digit (d : UInt8) (r : Bytes) (hd : isDigit d = true) : respCond (d :: r) = .err := by
  unfold respCond
  show Parser.bindP statusP _ _ = .err
  unfold Parser.bindP
  rw [statusP_err_digit d r hd]

theorem mailboxData_err_big {i : Bytes} (h : BigNum i) : mailboxData i = .err := by
  obtain ⟨d, t, rfl, hd⟩ := h.head
  have e1 : mailboxDataFlags (d :: t) = .err := by
    unfold mailboxDataFlags; exact kwBind_err_digit _ _ _ d t rfl (by decide) hd
  have e2 : mailboxDataExists (d :: t) = .err := by
    unfold mailboxDataExists; exact h.numBind_err _
  have e3 : mailboxDataList (d :: t) = .err := by
    unfold mailboxDataList; exact kwBind_err_digit _ _ _ d t rfl (by decide) hd
  have e4 : mailboxDataLsub (d :: t) = .err := by
    unfold mailboxDataLsub; exact kwBind_err_digit _ _ _ d t rfl (by decide) hd
  have e5 : mailboxDataStatus (d :: t) = .err := by
    unfold mailboxDataStatus; exact kwBind_err_digit _ _ _ d t rfl (by decide) hd
  have e6 : mailboxDataRecent (d :: t) = .err := by
    unfold mailboxDataRecent; exact h.numBind_err _
  have e7 : mailboxDataSearch (d :: t) = .err := by
    unfold mailboxDataSearch; exact kwBind_err_digit _ _ _ d t rfl (by decide) hd
  have e8 : mailboxDataGmailLabels (d :: t) = .err := by
    unfold mailboxDataGmailLabels gmailLabelList
    exact map_err _ _ _ (kwBind_err_digit _ _ _ d t rfl (by decide) hd)
  have e9 : mailboxDataGmailMsgId (d :: t) = .err := by
    unfold mailboxDataGmailMsgId gmailMsgId
    exact map_err _ _ _ (kwBind_err_digit _ _ _ d t rfl (by decide) hd)
  have e10 : mailboxDataSort (d :: t) = .err := by
    unfold mailboxDataSort; exact kwBind_err_digit _ _ _ d t rfl (by decide) hd
  unfold mailboxData
  simp only [alt]
  rw [e1, e2, e3, e4, e5, e6, e7, e8, e9, e10]

/-- the alternatives of `response_data` after FETCH all begin with a keyword: none accepts a digit -/
theorem laterAlts_err_digit (d : UInt8) (t : Bytes) (hd : isDigit d = true) :
    (Parser.map capabilityData Response.capabilities) (d :: t) = .err ∧ respEnabled (d :: t) = .err ∧
    metadataSolicited (d :: t) = .err ∧ metadataUnsolicited (d :: t) = .err ∧ respVanished (d :: t) = .err ∧
    quota (d :: t) = .err ∧ quotaRoot (d :: t) = .err ∧ respId (d :: t) = .err ∧ acl (d :: t) = .err ∧
    listRights (d :: t) = .err ∧ myRights (d :: t) = .err := by
  have emc : metadataCommon (d :: t) = .err := by
    unfold metadataCommon; exact kwBind_err_digit _ _ _ d t rfl (by decide) hd
  refine ⟨?_, ?_, ?_, ?_, ?_, ?_, ?_, ?_, ?_, ?_, ?_⟩
  · unfold capabilityData
    exact map_err _ _ _ (mapRes_err _ _ _ (kwBind_err_digit _ _ _ d t rfl (by decide) hd))
  · unfold respEnabled enabledData; exact map_err _ _ _ (kwBind_err_digit _ _ _ d t rfl (by decide) hd)
  · unfold metadataSolicited
    show Parser.bindP metadataCommon _ _ = .err
    unfold Parser.bindP; rw [emc]
  · unfold metadataUnsolicited
    show Parser.bindP metadataCommon _ _ = .err
    unfold Parser.bindP; rw [emc]
  · unfold respVanished; exact kwBind_err_digit _ _ _ d t rfl (by decide) hd
  · unfold quota; exact kwBind_err_digit _ _ _ d t rfl (by decide) hd
  · unfold quotaRoot; exact kwBind_err_digit _ _ _ d t rfl (by decide) hd
  · unfold respId; exact kwBind_err_digit _ _ _ d t rfl (by decide) hd
  · unfold acl; exact kwBind_err_digit _ _ _ d t rfl (by decide) hd
  · unfold listRights; exact kwBind_err_digit _ _ _ d t rfl (by decide) hd
  · unfold myRights; exact kwBind_err_digit _ _ _ d t rfl (by decide) hd

/-- `response_data` as a whole, given the verdicts of its four number-or-status alternatives on an
    input that begins with a digit -/
theorem responseDataAlt_err_of {d : UInt8} {t : Bytes} (hd : isDigit d = true)
    (hmb : (Parser.map mailboxData Response.mailboxData) (d :: t) = .err)
    (hex : (Parser.map messageDataExpunge Response.expunge) (d :: t) = .err)
    (hfe : messageDataFetch (d :: t) = .err) : responseDataAlt (d :: t) = .err := by
  have e1 := respCond_err_digit d t hd
  obtain ⟨e5, e6, e7, e8, e9, e10, e11, e12, e13, e14, e15⟩ := laterAlts_err_digit d t hd
  unfold responseDataAlt
  simp only [alt]
  rw [e1, hmb, hex, hfe, e5, e6, e7, e8, e9, e10, e11, e12, e13, e14, e15]

/-- no alternative of `response_data` accepts a payload that begins with an over-long numeral -/
theorem responseDataAlt_err_big {i : Bytes} (h : BigNum i) : responseDataAlt i = .err := by
  have hmb : (Parser.map mailboxData Response.mailboxData) i = .err := map_err _ _ _ (mailboxData_err_big h)
  have hex : (Parser.map messageDataExpunge Response.expunge) i = .err := by
    unfold messageDataExpunge; exact map_err _ _ _ (h.numBind_err _)
  have hfe : messageDataFetch i = .err := by
    unfold messageDataFetch; exact h.numBind_err _
  obtain ⟨d, t, rfl, hd⟩ := h.head
  exact responseDataAlt_err_of hd hmb hex hfe

/-- `"* " payload` is a parse error as soon as `response_data` rejects the payload -/
theorem parseResponse_err_of_payload {i : Bytes} (h : responseDataAlt i = .err) :
    parseResponse (b!"* " ++ i) = .err := by
  have hc : continueReq (b!"* " ++ i) = .err := by
    unfold continueReq
    show Parser.bindP (tag (b!"+")) _ _ = .err
    unfold Parser.bindP
    rw [show (b!"* " ++ i) = 42 :: (32 :: i) from rfl, tag_err_first (b!"+") 43 42 _ rfl (by decide)]
  have hd : responseData (b!"* " ++ i) = .err := by
    unfold responseData
    show Parser.bindP (tag (b!"* ")) _ _ = .err
    unfold Parser.bindP
    have : tag (b!"* ") (b!"* " ++ i) = .ok () i := by simp [tag, tagGo]
    rw [this]
    show Parser.bindP responseDataAlt _ _ = .err
    unfold Parser.bindP
    rw [h]
  have ht : responseTagged (b!"* " ++ i) = .err := by
    unfold responseTagged
    show Parser.bindP imapTag _ _ = .err
    unfold Parser.bindP
    have : imapTag (b!"* " ++ i) = .err := by
      unfold imapTag
      exact mapRes_err _ _ _ (takeWhile1_err isTagChar 42 _ (by decide))
    rw [this]
  unfold parseResponse
  simp only [alt]
  rw [hc, hd, ht]

/-- `* <numeral beyond 32 bits> ...` is a parse error of the whole response parser -/
theorem parseResponse_err_big {i : Bytes} (h : BigNum i) : parseResponse (b!"* " ++ i) = .err :=
  parseResponse_err_of_payload (responseDataAlt_err_big h)

/-! ### FETCH: an over-long numeral in the first attribute -/

/-- an over-long 64-bit numeral in front of a non-digit -/
structure BigNum64 (i : Bytes) : Prop where
  ex : ∃ ds c r, i = ds ++ c :: r ∧ ds ≠ [] ∧ (∀ d ∈ ds, isDigit d = true) ∧ 2 ^ 64 ≤ decVal ds ∧ isDigit c = false

theorem BigNum64.number_err {i : Bytes} (h : BigNum64 i) : number64 i = .err := by
  obtain ⟨ds, c, r, rfl, hne, hall, hbig, hc⟩ := h.ex
  exact Num.numberB_rejects (2 ^ 64) ds hne hall hbig c r hc

/-- the numeric attributes of a FETCH item -/
inductive NumAttr | uid | size | modseq | msgid

def NumAttr.kw : NumAttr → Bytes
  | .uid => b!"UID "
  | .size => b!"RFC822.SIZE "
  | .modseq => b!"MODSEQ ("
  | .msgid => b!"X-GM-MSGID "

def NumAttr.Big : NumAttr → Bytes → Prop
  | .uid, i => BigNum i
  | .size, i => BigNum i
  | .modseq, i => BigNum64 i
  | .msgid, i => BigNum64 i

theorem msgAttGmailMsgId_err (u m r) (h : mismatch (b!"X-GM-MSGID ") u = true) :
    msgAttGmailMsgId (spell u m ++ r) = .err := by
  unfold msgAttGmailMsgId gmailMsgId; exact map_err _ _ _ (kwBind_err _ _ u m r h)

/-- `msg_att` rejects `UID <too big>`, `RFC822.SIZE <too big>`, `MODSEQ (<too big>`, `X-GM-MSGID <too big>`
    in every spelling of the keyword -/
theorem msgAtt_err_big (a : NumAttr) (m : List Bool) (i : Bytes) (h : a.Big i) :
    msgAtt (spell a.kw m ++ i) = .err := by
  cases a with
  | uid =>
    have hn : number i = .err := BigNum.number_err h
    have e : msgAttUid (spell (b!"UID ") m ++ i) = .err := by
      unfold msgAttUid
      show Parser.bindP (tagNoCase (b!"UID ")) _ _ = .err
      unfold Parser.bindP
      rw [tagNoCase_spell (b!"UID ") m i trivial]
      show Parser.bindP number _ _ = .err
      unfold Parser.bindP; rw [hn]
    unfold msgAtt
    simp only [alt, NumAttr.kw]
    rw [msgAttBodySection_err _ m i (by decide), msgAttBodyStructure_err _ m i (by decide),
      msgAttBody_err _ m i (by decide), msgAttEnvelope_err _ m i (by decide),
      msgAttInternalDate_err _ m i (by decide), msgAttFlags_err _ m i (by decide),
      msgAttModSeq_err _ m i (by decide), msgAttRfc822_err _ m i (by decide),
      msgAttRfc822Header_err _ m i (by decide), msgAttRfc822Size_err _ m i (by decide),
      msgAttRfc822Text_err _ m i (by decide), e, msgAttGmailLabels_err _ m i (by decide),
      msgAttGmailMsgId_err _ m i (by decide)]
  | size =>
    have hn : number i = .err := BigNum.number_err h
    have e : msgAttRfc822Size (spell (b!"RFC822.SIZE ") m ++ i) = .err := by
      unfold msgAttRfc822Size
      show Parser.bindP (tagNoCase (b!"RFC822.SIZE ")) _ _ = .err
      unfold Parser.bindP
      rw [tagNoCase_spell (b!"RFC822.SIZE ") m i trivial]
      show Parser.bindP number _ _ = .err
      unfold Parser.bindP; rw [hn]
    unfold msgAtt
    simp only [alt, NumAttr.kw]
    rw [msgAttBodySection_err _ m i (by decide), msgAttBodyStructure_err _ m i (by decide),
      msgAttBody_err _ m i (by decide), msgAttEnvelope_err _ m i (by decide),
      msgAttInternalDate_err _ m i (by decide), msgAttFlags_err _ m i (by decide),
      msgAttModSeq_err _ m i (by decide), msgAttRfc822_err _ m i (by decide),
      msgAttRfc822Header_err _ m i (by decide), e,
      msgAttRfc822Text_err _ m i (by decide), msgAttUid_err _ m i (by decide),
      msgAttGmailLabels_err _ m i (by decide), msgAttGmailMsgId_err _ m i (by decide)]
  | modseq =>
    have hn : number64 i = .err := BigNum64.number_err h
    have hsp : spell (b!"MODSEQ (") m = spell (b!"MODSEQ ") m ++ [40] := by
      have := spell_snoc (b!"MODSEQ ") m 40 (by decide) ([] : Bytes)
      simpa using this.symm
    have e : msgAttModSeq (spell (b!"MODSEQ (") m ++ i) = .err := by
      unfold msgAttModSeq
      show Parser.bindP (tagNoCase (b!"MODSEQ ")) _ _ = .err
      unfold Parser.bindP
      rw [hsp, List.append_assoc, tagNoCase_spell (b!"MODSEQ ") m _ trivial]
      show Parser.bindP (parenDelimited number64) _ _ = .err
      unfold Parser.bindP
      have : parenDelimited number64 ([40] ++ i) = .err := by
        unfold parenDelimited
        show Parser.bindP (char 40) _ _ = .err
        unfold Parser.bindP
        simp only [List.singleton_append, char, beq_self_eq_true, ↓reduceIte]
        show Parser.bindP number64 _ _ = .err
        unfold Parser.bindP; rw [hn]
      rw [this]
    unfold msgAtt
    simp only [alt, NumAttr.kw]
    rw [msgAttBodySection_err _ m i (by decide), msgAttBodyStructure_err _ m i (by decide),
      msgAttBody_err _ m i (by decide), msgAttEnvelope_err _ m i (by decide),
      msgAttInternalDate_err _ m i (by decide), msgAttFlags_err _ m i (by decide),
      e, msgAttRfc822_err _ m i (by decide),
      msgAttRfc822Header_err _ m i (by decide), msgAttRfc822Size_err _ m i (by decide),
      msgAttRfc822Text_err _ m i (by decide), msgAttUid_err _ m i (by decide),
      msgAttGmailLabels_err _ m i (by decide)]
    unfold msgAttGmailMsgId gmailMsgId
    exact map_err _ _ _ (kwBind_err _ _ _ m i (by decide))
  | msgid =>
    have hn : number64 i = .err := BigNum64.number_err h
    have e : msgAttGmailMsgId (spell (b!"X-GM-MSGID ") m ++ i) = .err := by
      unfold msgAttGmailMsgId gmailMsgId
      refine map_err _ _ _ ?_
      show Parser.bindP (tagNoCase (b!"X-GM-MSGID ")) _ _ = .err
      unfold Parser.bindP
      rw [tagNoCase_spell (b!"X-GM-MSGID ") m i trivial]
      exact hn
    unfold msgAtt
    simp only [alt, NumAttr.kw]
    rw [msgAttBodySection_err _ m i (by decide), msgAttBodyStructure_err _ m i (by decide),
      msgAttBody_err _ m i (by decide), msgAttEnvelope_err _ m i (by decide),
      msgAttInternalDate_err _ m i (by decide), msgAttFlags_err _ m i (by decide),
      msgAttModSeq_err _ m i (by decide), msgAttRfc822_err _ m i (by decide),
      msgAttRfc822Header_err _ m i (by decide), msgAttRfc822Size_err _ m i (by decide),
      msgAttRfc822Text_err _ m i (by decide), msgAttUid_err _ m i (by decide),
      msgAttGmailLabels_err _ m i (by decide), e]

/-- a FETCH response whose first attribute is rejected is a parse error of the whole response parser:
    FETCH rejects it and no other alternative takes `numeral SP FETCH ...` -/
theorem parseResponse_fetch_err (n : Nat) (hn : n < 2 ^ 32) (en : Bytes) (hen : EncNumber n en) (m : List Bool)
    (a : Bytes) (ha : msgAtt a = .err) :
    parseResponse (b!"* " ++ (en ++ (spell (b!" FETCH ") m ++ 40 :: a))) = .err := by
  refine parseResponse_err_of_payload ?_
  have hfe : messageDataFetch (en ++ (spell (b!" FETCH ") m ++ 40 :: a)) = .err := by
    unfold messageDataFetch
    show Parser.bindP number _ _ = .err
    unfold Parser.bindP
    have := number_enc (2 ^ 32) n en hen hn (spell (b!" FETCH ") m ++ 40 :: a) (spell_space_head _ m _)
    unfold number
    rw [this]
    show Parser.bindP (tagNoCase (b!" FETCH ")) _ _ = .err
    unfold Parser.bindP
    rw [tagNoCase_spell (b!" FETCH ") m _ trivial]
    show Parser.bindP msgAttList _ _ = .err
    unfold Parser.bindP
    have : msgAttList (40 :: a) = .err := by
      unfold msgAttList parenthesizedNonemptyList
      show Parser.bindP (char 40) _ _ = .err
      unfold Parser.bindP
      simp only [char, beq_self_eq_true, ↓reduceIte]
      show Parser.bindP (sepList1 (char 32) msgAtt) _ _ = .err
      unfold Parser.bindP
      have : sepList1 (char 32) msgAtt a = .err := by unfold sepList1; rw [ha]
      rw [this]
    rw [this]
  have hex := map_err _ Response.expunge _ (expunge_err_num n en (b!"FETCH ") m (40 :: a) hen hn (by decide))
  have hmb := map_err _ Response.mailboxData _
    (mailboxData_err_num n en (b!"FETCH ") m (40 :: a) hen hn (by decide) (by decide))
  obtain ⟨d, t, he, hd⟩ := encNumber_head n en hen
  subst he
  exact responseDataAlt_err_of hd hmb hex hfe

/-! ### FETCH: a rejected attribute after any number of well-formed ones -/

/-- the attribute list `( a1 SP a2 ... SP ak SP <rejected attribute>`: the list ends in front of the
    separator and the closing parenthesis is missing -/
theorem msgAttList_err_later (first : Bytes × AttributeValue) (others : List (Bytes × AttributeValue))
    (hall : ∀ x ∈ first :: others, EncAttr x.2 x.1) (bad : Bytes) (hbad : msgAtt bad = .err) :
    msgAttList ([40] ++ ((first.1 ++ (others.map fun x => [32] ++ x.1).flatten) ++ 32 :: bad)) = .err := by
  let F : Bytes → Prop := fun r => ∃ b, r = 32 :: b ∧ msgAtt b = .err
  have key := Parses.sepList1_2 (sep := char 32) (p := msgAtt) Any (Starts spaceOrClose) F
    first (others.map fun x => ([32], x.1, x.2))
    (msgAtt_enc first.2 first.1 (hall first (by simp)))
    (fun x hx => by
      obtain ⟨y, _, rfl⟩ := List.mem_map.1 hx
      exact ⟨char_ok 32, by simp⟩)
    (fun x hx => by
      obtain ⟨y, hy, rfl⟩ := List.mem_map.1 hx
      exact msgAtt_enc y.2 y.1 (hall y (by simp [hy])))
    (fun _ _ _ => trivial)
    (fun x hx r => by
      obtain ⟨y, _, rfl⟩ := List.mem_map.1 hx
      exact ⟨32, r, by simp, by decide⟩)
    (fun r ⟨b, hr, _⟩ => ⟨32, b, hr, by decide⟩)
    (fun r ⟨b, hr, hb⟩ => Or.inr ⟨b, by subst hr; simp [char], by subst hr; simp, hb⟩)
  have hlist := key (32 :: bad) ⟨bad, rfl, hbad⟩
  have hmap : ((others.map fun x => ([32], x.1, x.2)).map fun x => x.1 ++ x.2.1) = others.map fun x => [32] ++ x.1 := by
    simp [List.map_map, Function.comp_def]
  rw [hmap] at hlist
  unfold msgAttList parenthesizedNonemptyList
  show Parser.bindP (char 40) _ _ = .err
  unfold Parser.bindP
  simp only [List.singleton_append] at hlist ⊢
  simp only [char, beq_self_eq_true, ↓reduceIte]
  show Parser.bindP (sepList1 (char 32) msgAtt) _ _ = .err
  unfold Parser.bindP
  rw [hlist]
  show Parser.bindP (char 41) _ _ = .err
  unfold Parser.bindP
  rw [char_err 41 32 bad (by decide)]

/-- a FETCH response in which some attribute after the first is rejected -/
theorem parseResponse_fetch_err_later (n : Nat) (hn : n < 2 ^ 32) (en : Bytes) (hen : EncNumber n en) (m : List Bool)
    (first : Bytes × AttributeValue) (others : List (Bytes × AttributeValue))
    (hall : ∀ x ∈ first :: others, EncAttr x.2 x.1) (bad : Bytes) (hbad : msgAtt bad = .err) :
    parseResponse (b!"* " ++ (en ++ (spell (b!" FETCH ") m ++
      ([40] ++ ((first.1 ++ (others.map fun x => [32] ++ x.1).flatten) ++ 32 :: bad))))) = .err := by
  refine parseResponse_err_of_payload ?_
  have hfe : messageDataFetch (en ++ (spell (b!" FETCH ") m ++
      ([40] ++ ((first.1 ++ (others.map fun x => [32] ++ x.1).flatten) ++ 32 :: bad)))) = .err := by
    unfold messageDataFetch
    show Parser.bindP number _ _ = .err
    unfold Parser.bindP
    have := number_enc (2 ^ 32) n en hen hn (spell (b!" FETCH ") m ++
      ([40] ++ ((first.1 ++ (others.map fun x => [32] ++ x.1).flatten) ++ 32 :: bad))) (spell_space_head _ m _)
    unfold number
    rw [this]
    show Parser.bindP (tagNoCase (b!" FETCH ")) _ _ = .err
    unfold Parser.bindP
    rw [tagNoCase_spell (b!" FETCH ") m _ trivial]
    show Parser.bindP msgAttList _ _ = .err
    unfold Parser.bindP
    rw [msgAttList_err_later first others hall bad hbad]
  have hex := map_err _ Response.expunge _ (expunge_err_num n en (b!"FETCH ") m
    ([40] ++ ((first.1 ++ (others.map fun x => [32] ++ x.1).flatten) ++ 32 :: bad)) hen hn (by decide))
  have hmb := map_err _ Response.mailboxData _
    (mailboxData_err_num n en (b!"FETCH ") m
      ([40] ++ ((first.1 ++ (others.map fun x => [32] ++ x.1).flatten) ++ 32 :: bad)) hen hn (by decide) (by decide))
  obtain ⟨d, t, he, hd⟩ := encNumber_head n en hen
  subst he
  exact responseDataAlt_err_of hd hmb hex hfe


end RT
