/-
  Round-trip: flags, flag lists (FLAGS, PERMANENTFLAGS) and Gmail label lists.
-/
import ImapVerif.Proofs.RT3

open Bytes Parser Grammar

namespace RT

/-- what may follow an element of a parenthesised list: a space or the closing parenthesis -/
def spaceOrClose (c : UInt8) : Bool := c == 32 || c == 41

theorem spaceOrClose_notAtom (r : Bytes) (h : Starts spaceOrClose r) : Starts (fun c => !isAtomChar c) r := by
  obtain ⟨c, t, hr, hc⟩ := h
  refine ⟨c, t, hr, ?_⟩
  simp only [spaceOrClose, Bool.or_eq_true, beq_iff_eq] at hc
  rcases hc with rfl | rfl <;> decide

theorem spaceOrClose_notAstring (r : Bytes) (h : Starts spaceOrClose r) : Starts (fun c => !isAstringChar c) r := by
  obtain ⟨c, t, hr, hc⟩ := h
  refine ⟨c, t, hr, ?_⟩
  simp only [spaceOrClose, Bool.or_eq_true, beq_iff_eq] at hc
  rcases hc with rfl | rfl <;> decide

theorem spaceOrClose_notDigit (r : Bytes) (h : Starts spaceOrClose r) : Starts notDigit r := by
  obtain ⟨c, t, hr, hc⟩ := h
  refine ⟨c, t, hr, ?_⟩
  simp only [spaceOrClose, Bool.or_eq_true, beq_iff_eq] at hc
  rcases hc with rfl | rfl <;> decide

/-- a flag: `\` followed by atom characters (possibly none: the parser accepts a bare backslash),
    or a keyword of astring characters not starting with a backslash -/
inductive EncFlag : Bytes → Bytes → Prop
  | ext (s : Bytes) : (∀ c ∈ s, isAtomChar c = true) → validUtf8 (92 :: s) = true → EncFlag (92 :: s) (92 :: s)
  | kw (s : Bytes) : s ≠ [] → (∀ c ∈ s, isAstringChar c = true) → validUtf8 s = true → EncFlag s s

theorem flagExtension_err (x : UInt8) (r : Bytes) (h : ((92 : UInt8) == x) = false) : flagExtension (x :: r) = .err := by
  unfold flagExtension
  apply mapRes_err'
  show Parser.bindP (tag (b!"\\")) _ _ = .err
  unfold Parser.bindP
  rw [tag_err_first (b!"\\") 92 x r rfl h]
where
  mapRes_err' {α β : Type} {p : Parser α} {g : α → Option β} {i : Bytes} (h : p i = .err) :
      Parser.mapRes p g i = .err := by unfold Parser.mapRes; rw [h]

theorem flag_enc (v e : Bytes) (h : EncFlag v e) : Parses flag e v (Starts spaceOrClose) := by
  cases h with
  | ext s hall hu =>
    refine Parses.altL ?_
    unfold flagExtension
    refine Parses.mapRes _ _ (v := 92 :: s) ?_ (by simp [utf8, hu])
    show Parses _ ([92] ++ s) _ _
    refine Parses.bind (tag_ok (b!"\\")) ?_ (fun _ _ => trivial)
    exact Parses.bind' ((takeWhile_ok isAtomChar s hall).weaken spaceOrClose_notAtom) (Parses.pure _ _)
      (fun _ h => h) (by simp)
  | kw _ hne hall hu =>
    refine Parses.altR ?_ ?_
    · exact Parses.mapRes _ _ ((takeWhile1_ok isAstringChar v hne hall).weaken spaceOrClose_notAstring)
        (by simp [utf8, hu])
    · intro rest _
      cases v with
      | nil => exact absurd rfl hne
      | cons a as =>
        have ha := hall a (by simp)
        apply flagExtension_err
        have key : ∀ n : Fin 256, isAstringChar (UInt8.ofNat n.val) = true →
            ((92 : UInt8) == UInt8.ofNat n.val) = false := by decide +kernel
        have := key ⟨a.toNat, a.toNat_lt⟩
        simp only [UInt8.ofNat_toNat] at this
        exact this ha

theorem flag_err_close (r : Bytes) : flag (41 :: r) = .err := by
  unfold flag alt
  rw [flagExtension_err 41 r (by decide)]
  simp [Parser.mapRes, takeWhile1_err isAstringChar 41 r (by decide)]

/-- flag-perm = flag / `\*` -/
inductive EncFlagPerm : Bytes → Bytes → Prop
  | star : EncFlagPerm (b!"\\*") (b!"\\*")
  | flag (v e : Bytes) : EncFlag v e → EncFlagPerm v e

theorem starTag_err_flag (v e : Bytes) (h : EncFlag v e) (rest : Bytes) (hr : Starts spaceOrClose rest) :
    tag (b!"\\*") (e ++ rest) = .err := by
  have notStar : ∀ c : UInt8, (isAtomChar c = true ∨ spaceOrClose c = true) → ((42 : UInt8) == c) = false := by
    intro c hc
    have key : ∀ n : Fin 256, (isAtomChar (UInt8.ofNat n.val) = true ∨ spaceOrClose (UInt8.ofNat n.val) = true) →
        ((42 : UInt8) == UInt8.ofNat n.val) = false := by decide +kernel
    have := key ⟨c.toNat, c.toNat_lt⟩
    simp only [UInt8.ofNat_toNat] at this
    exact this hc
  cases h with
  | ext s hall hu =>
    cases s with
    | nil =>
      obtain ⟨c, t, hrr, hc⟩ := hr
      subst hrr
      simp [tag, tagGo, notStar c (Or.inr hc)]
    | cons a as =>
      simp [tag, tagGo, notStar a (Or.inl (hall a (by simp)))]
  | kw _ hne hall hu =>
    cases v with
    | nil => exact absurd rfl hne
    | cons a as =>
      have key : ∀ n : Fin 256, isAstringChar (UInt8.ofNat n.val) = true →
          ((92 : UInt8) == UInt8.ofNat n.val) = false := by decide +kernel
      have := key ⟨a.toNat, a.toNat_lt⟩
      simp only [UInt8.ofNat_toNat] at this
      exact tag_err_first _ 92 a _ rfl (this (hall a (by simp)))

theorem flagPerm_enc (v e : Bytes) (h : EncFlagPerm v e) : Parses flagPerm e v (Starts spaceOrClose) := by
  cases h with
  | star =>
    refine Parses.altL ?_
    refine Parses.mapRes _ _ (v := b!"\\*") ?_ (by decide)
    exact Parses.map _ ((tag_ok _).weaken (fun _ _ => trivial))
  | flag v e hf =>
    refine Parses.altR (flag_enc v e hf) ?_
    intro rest hr
    simp [Parser.mapRes, Parser.map, starTag_err_flag v e hf rest hr]

theorem flagPerm_err_close (r : Bytes) : flagPerm (41 :: r) = .err := by
  unfold flagPerm alt
  simp [Parser.mapRes, Parser.map, tag_err_first (b!"\\*") 92 41 r rfl (by decide), flag_err_close]

/-- a parenthesised, space-separated list whose items are encoded by `R` -/
inductive EncList {α : Type} (R : α → Bytes → Prop) : List α → Bytes → Prop
  | nil : EncList R [] (b!"()")
  | cons (first : Bytes × α) (others : List (Bytes × α)) :
      (∀ x ∈ first :: others, R x.2 x.1) →
      EncList R (first.2 :: others.map (·.2))
        ([40] ++ (first.1 ++ (others.map fun x => [32] ++ x.1).flatten) ++ [41])

/-- `parenthesized_list(p)`: zero or more items -/
theorem parenthesizedList_enc {α : Type} {p : Parser α} {R : α → Bytes → Prop}
    (hp : ∀ v e, R v e → Parses p e v (Starts spaceOrClose))
    (hclose : ∀ r, p (41 :: r) = .err)
    (vs : List α) (e : Bytes) (h : EncList R vs e) (F : Bytes → Prop) :
    Parses (parenthesizedList p) e vs F := by
  unfold parenthesizedList
  cases h with
  | nil =>
    show Parses _ ([40] ++ [41]) _ _
    refine Parses.bind (char_ok 40) ?_ (fun _ _ => trivial)
    have h0 : Parses (Parser.sepList0 (char 32) p) [] ([] : List α) (Starts fun c => c == 41) := by
      apply Parses.sepList0_nil
      intro r ⟨c, t, hr, hc⟩
      subst hr
      have : c = 41 := by simpa using hc
      subst this
      exact hclose t
    refine Parses.bind' h0 ?_ (fun r _ => ⟨41, r, by simp, by simp⟩) (e2 := [41]) (by simp)
    exact Parses.bind' (char_ok 41) (Parses.pure _ _) (fun _ _ => trivial) (by simp)
  | cons first others hall =>
    rw [List.append_assoc]
    refine Parses.bind (char_ok 40) ?_ (fun _ _ => trivial)
    have key := Parses.sepList0_cons (sep := char 32) (p := p) [32] (by simp) (Starts spaceOrClose)
      (Starts fun c => c == 41) first others (char_ok 32)
      (fun y hy => hp y.2 y.1 (hall y hy))
      (fun r => ⟨32, r, by simp, by decide⟩)
      (fun r ⟨c, t, hr, hc⟩ => ⟨c, t, hr, by simp only [spaceOrClose, Bool.or_eq_true]; exact Or.inr hc⟩)
      (fun r ⟨c, t, hr, hc⟩ => by
        subst hr
        have : c = 41 := by simpa using hc
        subst this
        exact char_err 32 41 t (by decide))
    refine Parses.bind key ?_ (fun r _ => ⟨41, r, by simp, by simp⟩)
    exact Parses.bind' (char_ok 41) (Parses.pure _ _) (fun _ _ => trivial) (by simp)

/-- `parenthesized_nonempty_list(p)` -/
theorem parenthesizedNonemptyList_enc {α : Type} {p : Parser α} {R : α → Bytes → Prop}
    (hp : ∀ v e, R v e → Parses p e v (Starts spaceOrClose))
    (first : Bytes × α) (others : List (Bytes × α)) (hall : ∀ x ∈ first :: others, R x.2 x.1)
    (F : Bytes → Prop) :
    Parses (parenthesizedNonemptyList p)
      ([40] ++ (first.1 ++ (others.map fun x => [32] ++ x.1).flatten) ++ [41])
      (first.2 :: others.map (·.2)) F := by
  unfold parenthesizedNonemptyList
  rw [List.append_assoc]
  refine Parses.bind (char_ok 40) ?_ (fun _ _ => trivial)
  have key := Parses.sepList1 (sep := char 32) (p := p) [32] (by simp) (Starts spaceOrClose)
    (Starts fun c => c == 41) first others (char_ok 32)
    (fun y hy => hp y.2 y.1 (hall y hy))
    (fun r => ⟨32, r, by simp, by decide⟩)
    (fun r ⟨c, t, hr, hc⟩ => ⟨c, t, hr, by simp only [spaceOrClose, Bool.or_eq_true]; exact Or.inr hc⟩)
    (fun r ⟨c, t, hr, hc⟩ => by
      subst hr
      have : c = 41 := by simpa using hc
      subst this
      exact char_err 32 41 t (by decide))
  refine Parses.bind key ?_ (fun r _ => ⟨41, r, by simp, by simp⟩)
  exact Parses.bind' (char_ok 41) (Parses.pure _ _) (fun _ _ => trivial) (by simp)

theorem flagList_enc (vs : List Bytes) (e : Bytes) (h : EncList EncFlagPerm vs e) (F : Bytes → Prop) :
    Parses flagList e vs F :=
  parenthesizedList_enc flagPerm_enc flagPerm_err_close vs e h F

/-- a Gmail label: a flag or a quoted string -/
inductive EncLabel : Bytes → Bytes → Prop
  | flag (v e : Bytes) : EncFlag v e → EncLabel v e
  | quoted (s : Bytes) : Quotable s → validUtf8 s = true → EncLabel s ([34] ++ s ++ [34])

theorem flag_err_quote (r : Bytes) : flag (34 :: r) = .err := by
  unfold flag alt
  rw [flagExtension_err 34 r (by decide)]
  simp [Parser.mapRes, takeWhile1_err isAstringChar 34 r (by decide)]

theorem label_enc (v e : Bytes) (h : EncLabel v e) : Parses (alt flag quotedUtf8) e v (Starts spaceOrClose) := by
  cases h with
  | flag _ hf => exact Parses.altL (flag_enc _ _ hf)
  | quoted hq hu =>
    refine Parses.altR ?_ ?_
    · exact Parses.mapRes _ _ ((quoted_enc _ hq).weaken (fun _ _ => trivial)) (by simp [utf8, hu])
    · intro rest _
      exact flag_err_quote _

theorem label_err_close (r : Bytes) : (alt flag quotedUtf8) (41 :: r) = .err := by
  unfold alt
  rw [flag_err_close]
  simp [quotedUtf8, Parser.mapRes, quoted_err 41 r (by decide)]

end RT
