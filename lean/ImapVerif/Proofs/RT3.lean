/-
  Round-trip, third layer: address, address lists, envelope (the 19-tuple of rfc3501/mod.rs).
-/
import ImapVerif.Proofs.RT2

open Bytes Parser Grammar

namespace RT

theorem parenDelimited_enc {p : Parser α} {e : Bytes} {v : α} {F : Bytes → Prop}
    (hp : Parses p e v (Starts fun c => c == 41)) :
    Parses (parenDelimited p) ([40] ++ e ++ [41]) v F := by
  unfold parenDelimited
  rw [List.append_assoc]
  refine Parses.bind (char_ok 40) ?_ (fun _ _ => trivial)
  refine Parses.bind hp ?_ (fun r _ => ⟨41, r, by simp, by simp⟩)
  exact Parses.bind' (char_ok 41) (Parses.pure _ _) (fun _ _ => trivial) (by simp)

/-- an address structure: four nstrings in parentheses -/
inductive EncAddress : Address → Bytes → Prop
  | mk (a : Address) (e1 e2 e3 e4 : Bytes) :
      EncNString a.name e1 → EncNString a.adl e2 → EncNString a.mailbox e3 → EncNString a.host e4 →
      EncAddress a ([40] ++ (e1 ++ b!" " ++ e2 ++ b!" " ++ e3 ++ b!" " ++ e4) ++ [41])

theorem address_enc (a : Address) (e : Bytes) (h : EncAddress a e) (F : Bytes → Prop) :
    Parses address e a F := by
  cases h with
  | mk e1 e2 e3 e4 h1 h2 h3 h4 =>
    unfold address
    apply parenDelimited_enc
    simp only [List.append_assoc]
    refine Parses.bind (nstring_enc _ _ h1) ?_ (fun _ _ => trivial)
    refine Parses.bind (tag_ok _) ?_ (fun _ _ => trivial)
    refine Parses.bind (nstring_enc _ _ h2) ?_ (fun _ _ => trivial)
    refine Parses.bind (tag_ok _) ?_ (fun _ _ => trivial)
    refine Parses.bind (nstring_enc _ _ h3) ?_ (fun _ _ => trivial)
    refine Parses.bind (tag_ok _) ?_ (fun _ _ => trivial)
    refine Parses.bind' (nstring_enc _ _ h4) (Parses.pure _ _) (fun _ _ => trivial) (by simp)

theorem address_err (x : UInt8) (r : Bytes) (h : (x == 40) = false) : address (x :: r) = .err := by
  simp [address, parenDelimited, Bind.bind, Parser.bindP, char, h]

/-- one element of an address list: the address, optionally followed by one space -/
def addrItem : Parser Address := do let a ← address; let _ ← opt (char 32); pure a

def parenOrClose (c : UInt8) : Bool := c == 40 || c == 41

theorem addrItem_enc (a : Address) (e : Bytes) (h : EncAddress a e) (sp : Bool) :
    Parses addrItem (e ++ (if sp then [32] else [])) a (Starts parenOrClose) := by
  unfold addrItem
  refine Parses.bind (address_enc a e h Any) ?_ (fun _ _ => trivial)
  cases sp with
  | true =>
    refine Parses.bind' (Parses.optSome (char_ok 32)) (Parses.pure _ _) (fun _ _ => trivial) (by simp)
  | false =>
    refine Parses.bind' (Parses.optNone ?_) (Parses.pure _ _) (fun r hr => hr) (by simp)
    intro rest ⟨c, t, hr, hc⟩
    subst hr
    apply char_err
    simp only [parenOrClose, Bool.or_eq_true, beq_iff_eq] at hc
    rcases hc with rfl | rfl <;> decide

theorem addrItem_err (r : Bytes) : addrItem (41 :: r) = .err := by
  simp [addrItem, Bind.bind, Parser.bindP, address_err 41 r (by decide)]

/-- "(" 1*address ")" / nil, with the tolerated optional space after each address -/
inductive EncAddresses : Option (List Address) → Bytes → Prop
  | nil (m : List Bool) : EncAddresses none (spell (b!"NIL") m)
  | some (first : Address × Bytes × Bool) (others : List (Address × Bytes × Bool)) :
      (∀ x ∈ first :: others, EncAddress x.1 x.2.1) →
      EncAddresses (some (first.1 :: others.map (·.1)))
        ([40] ++ ((first.2.1 ++ (if first.2.2 then [32] else [])) ++
          (others.map fun x => x.2.1 ++ (if x.2.2 then [32] else [])).flatten) ++ [41])

theorem encAddress_head (a : Address) (e : Bytes) (h : EncAddress a e) : ∃ t, e = 40 :: t := by
  cases h with
  | mk e1 e2 e3 e4 _ _ _ _ =>
    exact ⟨(e1 ++ b!" " ++ e2 ++ b!" " ++ e3 ++ b!" " ++ e4) ++ [41], by simp⟩

theorem optAddresses_enc (v : Option (List Address)) (e : Bytes) (h : EncAddresses v e) (F : Bytes → Prop) :
    Parses optAddresses e v F := by
  cases h with
  | nil m => exact Parses.altL (Parses.map _ ((nil_enc m).weaken (fun _ _ => trivial)))
  | some first others hall =>
    unfold optAddresses
    refine Parses.altR (Parses.map some ?_) ?_
    · apply parenDelimited_enc
      have key := Parses.many1 (p := addrItem) (Starts parenOrClose) (Starts fun c => c == 41)
        (first.2.1 ++ (if first.2.2 then [32] else []), first.1)
        (others.map fun x => (x.2.1 ++ (if x.2.2 then [32] else []), x.1))
        ?_ ?_ ?_ ?_ ?_
      · simpa [addrItem, List.map_map, Function.comp_def] using key
      · intro y hy
        simp only [List.mem_cons, List.mem_map] at hy
        rcases hy with rfl | ⟨x, hx, rfl⟩
        · exact addrItem_enc _ _ (hall first (by simp)) _
        · exact addrItem_enc _ _ (hall x (by simp [hx])) _
      · intro y hy
        simp only [List.mem_map] at hy
        obtain ⟨x, hx, rfl⟩ := hy
        obtain ⟨t, ht⟩ := encAddress_head _ _ (hall x (by simp [hx]))
        simp [ht]
      · intro y hy r
        simp only [List.mem_map] at hy
        obtain ⟨x, hx, rfl⟩ := hy
        obtain ⟨t, ht⟩ := encAddress_head _ _ (hall x (by simp [hx]))
        exact ⟨40, t ++ ((if x.2.2 then [32] else []) ++ r), by simp [ht], by decide⟩
      · intro r ⟨c, t, hr, hc⟩
        exact ⟨c, t, hr, by simp only [parenOrClose, Bool.or_eq_true]; exact Or.inr hc⟩
      · intro r ⟨c, t, hr, hc⟩
        subst hr
        have : c = 41 := by simpa using hc
        subst this
        exact addrItem_err t
    · intro rest _
      simp [Parser.map, nil_err 40 _ (by decide)]

/-- the envelope: ten fields in fixed positions -/
inductive EncEnvelope : Envelope → Bytes → Prop
  | mk (v : Envelope) (e1 e2 e3 e4 e5 e6 e7 e8 e9 e10 : Bytes) :
      EncNString v.date e1 → EncNString v.subject e2 → EncAddresses v.from_ e3 →
      EncAddresses v.sender e4 → EncAddresses v.replyTo e5 → EncAddresses v.to e6 →
      EncAddresses v.cc e7 → EncAddresses v.bcc e8 → EncNString v.inReplyTo e9 →
      EncNString v.messageId e10 →
      EncEnvelope v ([40] ++ (e1 ++ b!" " ++ e2 ++ b!" " ++ e3 ++ b!" " ++ e4 ++ b!" " ++ e5 ++ b!" " ++ e6 ++
        b!" " ++ e7 ++ b!" " ++ e8 ++ b!" " ++ e9 ++ b!" " ++ e10) ++ [41])

/-- **envelope fidelity**: every field lands in its own slot, whatever the spelling of each -/
theorem envelope_enc (v : Envelope) (e : Bytes) (h : EncEnvelope v e) (F : Bytes → Prop) :
    Parses envelope e v F := by
  cases h with
  | mk e1 e2 e3 e4 e5 e6 e7 e8 e9 e10 h1 h2 h3 h4 h5 h6 h7 h8 h9 h10 =>
    unfold envelope
    apply parenDelimited_enc
    simp only [List.append_assoc]
    refine Parses.bind (nstring_enc _ _ h1) ?_ (fun _ _ => trivial)
    refine Parses.bind (tag_ok _) ?_ (fun _ _ => trivial)
    refine Parses.bind (nstring_enc _ _ h2) ?_ (fun _ _ => trivial)
    refine Parses.bind (tag_ok _) ?_ (fun _ _ => trivial)
    refine Parses.bind (optAddresses_enc _ _ h3 Any) ?_ (fun _ _ => trivial)
    refine Parses.bind (tag_ok _) ?_ (fun _ _ => trivial)
    refine Parses.bind (optAddresses_enc _ _ h4 Any) ?_ (fun _ _ => trivial)
    refine Parses.bind (tag_ok _) ?_ (fun _ _ => trivial)
    refine Parses.bind (optAddresses_enc _ _ h5 Any) ?_ (fun _ _ => trivial)
    refine Parses.bind (tag_ok _) ?_ (fun _ _ => trivial)
    refine Parses.bind (optAddresses_enc _ _ h6 Any) ?_ (fun _ _ => trivial)
    refine Parses.bind (tag_ok _) ?_ (fun _ _ => trivial)
    refine Parses.bind (optAddresses_enc _ _ h7 Any) ?_ (fun _ _ => trivial)
    refine Parses.bind (tag_ok _) ?_ (fun _ _ => trivial)
    refine Parses.bind (optAddresses_enc _ _ h8 Any) ?_ (fun _ _ => trivial)
    refine Parses.bind (tag_ok _) ?_ (fun _ _ => trivial)
    refine Parses.bind (nstring_enc _ _ h9) ?_ (fun _ _ => trivial)
    refine Parses.bind (tag_ok _) ?_ (fun _ _ => trivial)
    refine Parses.bind' (nstring_enc _ _ h10) (Parses.pure _ _) (fun _ _ => trivial) (by simp)

end RT
