/-
  Round-trip rules for lists whose separator is not a fixed string (`space1`: one or more spaces
  or tabs), and for `space0` / `space1` themselves.
-/
import ImapVerif.Proofs.RT2

open Bytes Parser

namespace RT

def notSpace (c : UInt8) : Bool := !isSpace c

/-- white space: one or more SP / HTAB -/
def IsSpaces (ws : Bytes) : Prop := ws ≠ [] ∧ ∀ c ∈ ws, isSpace c = true

theorem space1_enc (ws : Bytes) (h : IsSpaces ws) : Parses space1 ws () (Starts notSpace) := by
  intro rest hr
  have := takeWhile1_ok isSpace ws h.1 h.2 rest (by
    obtain ⟨c, t, hr', hc⟩ := hr
    exact ⟨c, t, hr', by simpa [notSpace] using hc⟩)
  unfold space1
  rw [this]

theorem space1_err (x : UInt8) (r : Bytes) (h : isSpace x = false) : space1 (x :: r) = .err := by
  unfold space1
  rw [takeWhile1_err isSpace x r h]

/-- `space0` over possibly no white space -/
theorem space0_enc (ws : Bytes) (h : ∀ c ∈ ws, isSpace c = true) : Parses space0 ws () (Starts notSpace) := by
  intro rest hr
  have := takeWhile_ok isSpace ws h rest (by
    obtain ⟨c, t, hr', hc⟩ := hr
    exact ⟨c, t, hr', by simpa [notSpace] using hc⟩)
  unfold space0
  rw [this]

/-- the loop of a separated list with per-item separators: `items` are (separator, encoding, value).
    The list ends where the separator fails, or where the separator succeeds but no item follows. -/
theorem sepGo_items2 {α : Type} {sep : Parser Unit} {p : Parser α} (S G F : Bytes → Prop)
    (hG_F : ∀ r, F r → G r)
    (hstop : ∀ r, F r → sep r = .err ∨ ∃ r', sep r = .ok () r' ∧ r'.length < r.length ∧ p r' = .err) :
    ∀ (items : List (Bytes × Bytes × α)),
      (∀ x ∈ items, Parses sep x.1 () S ∧ x.1 ≠ []) → (∀ x ∈ items, Parses p x.2.1 x.2.2 G) →
      (∀ x ∈ items, ∀ r, S (x.2.1 ++ r)) → (∀ x ∈ items, ∀ r, G (x.1 ++ r)) →
      ∀ (fuel : Nat) (acc : List α) (rest : Bytes), F rest →
        ((items.map (fun x => x.1 ++ x.2.1)).flatten ++ rest).length < fuel →
        sepGo sep p fuel ((items.map (fun x => x.1 ++ x.2.1)).flatten ++ rest) acc
          = .ok (acc.reverse ++ items.map (·.2.2)) rest := by
  intro items
  induction items with
  | nil =>
    intro _ _ _ _ fuel acc rest hF hfuel
    cases fuel with
    | zero => simp at hfuel
    | succ n =>
      rcases hstop rest hF with h | ⟨r', h1, h2, h3⟩
      · simp [sepGo, h]
      · simp [sepGo, h1, h2, h3]
  | cons x xs ih =>
    intro hsep hp hS hGs fuel acc rest hF hfuel
    cases fuel with
    | zero => simp at hfuel
    | succ n =>
      have hx := hp x (by simp)
      have hsx := hsep x (by simp)
      have hfollow : G ((xs.map (fun y => y.1 ++ y.2.1)).flatten ++ rest) := by
        cases xs with
        | nil => simpa using hG_F rest hF
        | cons y ys =>
          have := hGs y (by simp) (y.2.1 ++ ((ys.map (fun y => y.1 ++ y.2.1)).flatten ++ rest))
          simpa [List.append_assoc] using this
      simp only [List.map_cons, List.flatten_cons, List.append_assoc] at hfuel ⊢
      simp only [sepGo]
      rw [hsx.1 _ (hS x (by simp) _)]
      have h1 : 1 ≤ x.1.length := by
        cases hs : x.1 with
        | nil => exact absurd hs hsx.2
        | cons a as => simp
      have hlen : (x.2.1 ++ ((xs.map (fun y => y.1 ++ y.2.1)).flatten ++ rest)).length
          < (x.1 ++ (x.2.1 ++ ((xs.map (fun y => y.1 ++ y.2.1)).flatten ++ rest))).length := by
        rw [List.length_append (as := x.1)]; omega
      simp only [hlen, if_true]
      rw [hx _ hfollow]
      simp only
      have := ih (fun y hy => hsep y (by simp [hy])) (fun y hy => hp y (by simp [hy]))
        (fun y hy => hS y (by simp [hy])) (fun y hy => hGs y (by simp [hy])) n (x.2.2 :: acc) rest hF
        (by rw [List.length_append, List.length_append] at hfuel; omega)
      rw [this]; simp

/-- `separated_list0(sep, p)` with per-item separators, non-empty case -/
theorem Parses.sepList0_cons2 {α : Type} {sep : Parser Unit} {p : Parser α} (S G F : Bytes → Prop)
    (first : Bytes × α) (items : List (Bytes × Bytes × α))
    (hfirst : Parses p first.1 first.2 G)
    (hsep : ∀ x ∈ items, Parses sep x.1 () S ∧ x.1 ≠ []) (hp : ∀ x ∈ items, Parses p x.2.1 x.2.2 G)
    (hS : ∀ x ∈ items, ∀ r, S (x.2.1 ++ r)) (hGs : ∀ x ∈ items, ∀ r, G (x.1 ++ r))
    (hG_F : ∀ r, F r → G r)
    (hstop : ∀ r, F r → sep r = .err ∨ ∃ r', sep r = .ok () r' ∧ r'.length < r.length ∧ p r' = .err) :
    Parses (Parser.sepList0 sep p) (first.1 ++ (items.map (fun x => x.1 ++ x.2.1)).flatten)
      (first.2 :: items.map (·.2.2)) F := by
  intro rest hF
  unfold Parser.sepList0
  have hfollow : G ((items.map (fun y => y.1 ++ y.2.1)).flatten ++ rest) := by
    cases items with
    | nil => simpa using hG_F rest hF
    | cons y ys =>
      have := hGs y (by simp) (y.2.1 ++ ((ys.map (fun y => y.1 ++ y.2.1)).flatten ++ rest))
      simpa [List.append_assoc] using this
  rw [List.append_assoc, hfirst _ hfollow]
  have := sepGo_items2 S G F hG_F hstop items hsep hp hS hGs
    (((items.map (fun y => y.1 ++ y.2.1)).flatten ++ rest).length + 1) [first.2] rest hF (by omega)
  simpa using this

/-- `separated_list1(sep, p)` with per-item separators -/
theorem Parses.sepList1_2 {α : Type} {sep : Parser Unit} {p : Parser α} (S G F : Bytes → Prop)
    (first : Bytes × α) (items : List (Bytes × Bytes × α))
    (hfirst : Parses p first.1 first.2 G)
    (hsep : ∀ x ∈ items, Parses sep x.1 () S ∧ x.1 ≠ []) (hp : ∀ x ∈ items, Parses p x.2.1 x.2.2 G)
    (hS : ∀ x ∈ items, ∀ r, S (x.2.1 ++ r)) (hGs : ∀ x ∈ items, ∀ r, G (x.1 ++ r))
    (hG_F : ∀ r, F r → G r)
    (hstop : ∀ r, F r → sep r = .err ∨ ∃ r', sep r = .ok () r' ∧ r'.length < r.length ∧ p r' = .err) :
    Parses (Parser.sepList1 sep p) (first.1 ++ (items.map (fun x => x.1 ++ x.2.1)).flatten)
      (first.2 :: items.map (·.2.2)) F := by
  intro rest hF
  unfold Parser.sepList1
  have hfollow : G ((items.map (fun y => y.1 ++ y.2.1)).flatten ++ rest) := by
    cases items with
    | nil => simpa using hG_F rest hF
    | cons y ys =>
      have := hGs y (by simp) (y.2.1 ++ ((ys.map (fun y => y.1 ++ y.2.1)).flatten ++ rest))
      simpa [List.append_assoc] using this
  rw [List.append_assoc, hfirst _ hfollow]
  have := sepGo_items2 S G F hG_F hstop items hsep hp hS hGs
    (((items.map (fun y => y.1 ++ y.2.1)).flatten ++ rest).length + 1) [first.2] rest hF (by omega)
  simpa using this

/-- `many0 (sep; p)` with per-item separators -/
theorem Parses.many0_sep {α : Type} {sep : Parser Unit} {p : Parser α} (S G F : Bytes → Prop)
    (items : List (Bytes × Bytes × α))
    (hsep : ∀ x ∈ items, Parses sep x.1 () S ∧ x.1 ≠ []) (hp : ∀ x ∈ items, Parses p x.2.1 x.2.2 G)
    (hS : ∀ x ∈ items, ∀ r, S (x.2.1 ++ r)) (hGs : ∀ x ∈ items, ∀ r, G (x.1 ++ r))
    (hG_F : ∀ r, F r → G r) (hstop : ∀ r, F r → (do sep; p : Parser α) r = .err) :
    Parses (Parser.many0 (do sep; p)) (items.map (fun x => x.1 ++ x.2.1)).flatten (items.map (·.2.2)) F := by
  have key := Parses.many0 (p := (do sep; p : Parser α)) G F (items.map fun x => (x.1 ++ x.2.1, x.2.2))
    ?_ ?_ ?_ hG_F hstop
  · simpa [List.map_map, Function.comp_def] using key
  · intro y hy
    simp only [List.mem_map] at hy
    obtain ⟨x, hx, rfl⟩ := hy
    exact Parses.bind (hsep x hx).1 (hp x hx) (fun r _ => hS x hx r)
  · intro y hy
    simp only [List.mem_map] at hy
    obtain ⟨x, hx, rfl⟩ := hy
    intro h
    have := (hsep x hx).2
    simp at h
    exact this h.1
  · intro y hy r
    simp only [List.mem_map] at hy
    obtain ⟨x, hx, rfl⟩ := hy
    simpa [List.append_assoc] using hGs x hx (x.2.1 ++ r)

end RT
