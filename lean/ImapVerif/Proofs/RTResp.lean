/-
  Round-trip, top level: the relation "`e` is a wire encoding of the response `r`" for all the
  response kinds covered so far, and the theorem that `parseResponse` inverts it.
-/
import ImapVerif.Proofs.RT5

open Bytes Parser Grammar

namespace RT

/-- `EncResponse r e`: the complete line(s) `e` is one of the spellings of `r` that an RFC 3501
    server may send (keyword case, string forms, zero padding, tolerated deviations are all
    parameters of the constructors underneath) -/
inductive EncResponse : Response → Bytes → Prop
  | fetch (r : Response) (e : Bytes) (k : Nat) : EncFetch r e →
      EncResponse r (b!"* " ++ (e ++ (List.replicate k 32 ++ b!"\r\n")))

/-- **the parser inverts the printer relation**: exactly the value, exactly the bytes -/
theorem parseResponse_enc (r : Response) (e : Bytes) (h : EncResponse r e) (rest : Bytes) :
    parseResponse (e ++ rest) = .ok r rest := by
  cases h with
  | fetch e k hf => exact parseResponse_fetch r e k hf rest

end RT
