/-
  Round-trip, top level: the relation "`e` is a wire encoding of the response `r`" for all the
  response kinds covered so far, and the theorem that `parseResponse` inverts it.
-/
import ImapVerif.Proofs.RT13

open Bytes Parser Grammar

namespace RT

/-- the untagged wrapper with an arbitrary follow condition on the payload: `k` trailing spaces are
    allowed whenever the payload's parser tolerates `SP* CRLF` after it -/
theorem responseData_encF (r : Response) (e : Bytes) (k : Nat) (F : Bytes → Prop)
    (h : Parses responseDataAlt e r F) (hF : ∀ rest, F (List.replicate k 32 ++ (b!"\r\n" ++ rest))) :
    Parses responseData (b!"* " ++ (e ++ (List.replicate k 32 ++ b!"\r\n"))) r Any := by
  unfold responseData
  refine Parses.bind (tag_ok _) ?_ (fun _ _ => trivial)
  refine Parses.bind h ?_ (fun rest _ => by rw [List.append_assoc]; exact hF rest)
  refine Parses.bind (spaces_many0 k) ?_ (fun rest _ => ⟨13, 10 :: rest, by simp, by decide⟩)
  exact Parses.bind' (tag_ok _) (Parses.pure _ _) (fun _ _ => trivial) (by simp)

theorem parseResponse_untaggedF (r : Response) (e : Bytes) (k : Nat) (F : Bytes → Prop)
    (h : Parses responseDataAlt e r F) (hF : ∀ rest, F (List.replicate k 32 ++ (b!"\r\n" ++ rest))) (rest : Bytes) :
    parseResponse (b!"* " ++ (e ++ (List.replicate k 32 ++ b!"\r\n")) ++ rest) = .ok r rest := by
  have : Parses parseResponse (b!"* " ++ (e ++ (List.replicate k 32 ++ b!"\r\n"))) r Any := by
    unfold parseResponse
    refine Parses.altR (Parses.altL (responseData_encF r e k F h hF)) ?_
    intro rest _
    exact continueReq_err_star _
  exact this rest trivial

theorem spaces_head (k : Nat) (rest : Bytes) :
    ∃ c t, List.replicate k 32 ++ (b!"\r\n" ++ rest) = c :: t ∧ (c = 32 ∨ c = 13) := by
  cases k with
  | zero => exact ⟨13, 10 :: rest, by simp, Or.inr rfl⟩
  | succ k => exact ⟨32, List.replicate k 32 ++ (b!"\r\n" ++ rest), by simp [List.replicate_succ], Or.inl rfl⟩

/-- a payload introduced by a keyword (mailbox data) at the level of `response_data` -/
theorem responseDataAlt_mailbox (d : MailboxDatum) (c : UInt8) (u : Bytes) (m : List Bool) (tail : Bytes)
    (F : Bytes → Prop) (h : Parses mailboxData (spell (c :: u) m ++ tail) d F) (hs : notStatusKw (c :: u) = true) :
    Parses responseDataAlt (spell (c :: u) m ++ tail) (.mailboxData d) F := by
  unfold responseDataAlt
  refine Parses.altR (Parses.altL (Parses.map _ h)) ?_
  intro rest _
  rw [List.append_assoc]
  exact respCond_err_kw _ m _ hs

theorem tagChar_first (c : UInt8) (h : isTagChar c = true) : ((43 : UInt8) == c) = false ∧ ((42 : UInt8) == c) = false := by
  have key : ∀ n : Fin 256, isTagChar (UInt8.ofNat n.val) = true →
      ((43 : UInt8) == UInt8.ofNat n.val) = false ∧ ((42 : UInt8) == UInt8.ofNat n.val) = false := by
    decide +kernel
  have := key ⟨c.toNat, c.toNat_lt⟩
  simp only [UInt8.ofNat_toNat] at this
  exact this h

/-- `EncResponse r e`: the complete line(s) `e` is one of the spellings of `r` that an RFC 3501
    server may send (keyword case, string forms, zero padding, tolerated deviations are all
    parameters of the constructors underneath) -/
inductive EncResponse : Response → Bytes → Prop
  | fetch (r : Response) (e : Bytes) (k : Nat) : EncFetch r e →
      EncResponse r (b!"* " ++ (e ++ (List.replicate k 32 ++ b!"\r\n")))
  /-- `* n EXISTS`, `* n RECENT`, `* n EXPUNGE` -/
  | numeric (r : Response) (e : Bytes) (k : Nat) : EncNumeric r e →
      EncResponse r (b!"* " ++ (e ++ (List.replicate k 32 ++ b!"\r\n")))
  | flags (m : List Bool) (vs : List Bytes) (e : Bytes) (k : Nat) : EncList EncFlagPerm vs e →
      EncResponse (.mailboxData (.flags vs))
        (b!"* " ++ ((spell (b!"FLAGS ") m ++ e) ++ (List.replicate k 32 ++ b!"\r\n")))
  /-- `* SEARCH n n ...`: with the tolerated trailing space any number of further spaces may follow -/
  | search (v : List Nat) (sp : Bool) (e : Bytes) (k : Nat) : EncNumList (b!"SEARCH") v sp e → (sp = false → k = 0) →
      EncResponse (.mailboxData (.search v)) (b!"* " ++ (e ++ (List.replicate k 32 ++ b!"\r\n")))
  | sort (v : List Nat) (sp : Bool) (e : Bytes) (k : Nat) : EncNumList (b!"SORT") v sp e → (sp = false → k = 0) →
      EncResponse (.mailboxData (.sort v)) (b!"* " ++ (e ++ (List.replicate k 32 ++ b!"\r\n")))
  /-- `* LIST (attrs) delim name` and `* LSUB ...` (both are `MailboxDatum.list`) -/
  | list (lsub : Bool) (m : List Bool) (attrs : List NameAttribute) (d : Option Bytes) (name e : Bytes) (k : Nat) :
      EncMailboxList attrs d name e →
      EncResponse (.mailboxData (.list attrs d name))
        (b!"* " ++ ((spell (if lsub then b!"LSUB " else b!"LIST ") m ++ e) ++ (List.replicate k 32 ++ b!"\r\n")))
  | status (m : List Bool) (name ename : Bytes) (items : List StatusAttribute) (ei : Bytes) (k : Nat) :
      EncAString name ename → validUtf8 name = true → EncList EncStatusAtt items ei →
      EncResponse (.mailboxData (.status (canonMailbox name) items))
        (b!"* " ++ ((spell (b!"STATUS ") m ++ (ename ++ (b!" " ++ ei))) ++ (List.replicate k 32 ++ b!"\r\n")))
  | capabilities (v : List Capability) (e : Bytes) (k : Nat) : EncCaps v e →
      EncResponse (.capabilities v) (b!"* " ++ (e ++ (List.replicate k 32 ++ b!"\r\n")))
  | gmailLabels (m : List Bool) (vs : List Bytes) (e : Bytes) (k : Nat) : EncList EncLabel vs e →
      EncResponse (.mailboxData (.gmailLabels vs))
        (b!"* " ++ ((spell (b!"X-GM-LABELS ") m ++ e) ++ (List.replicate k 32 ++ b!"\r\n")))
  | gmailMsgId (m : List Bool) (n : Nat) (e : Bytes) (k : Nat) : n < 2 ^ 64 → EncNumber n e →
      EncResponse (.mailboxData (.gmailMsgId n))
        (b!"* " ++ ((spell (b!"X-GM-MSGID ") m ++ e) ++ (List.replicate k 32 ++ b!"\r\n")))
  /-- `* ENABLED atom ...` (reported as capabilities) -/
  | enabled (m : List Bool) (items : List (Bytes × Bytes)) (k : Nat) :
      (∀ x ∈ items, x.1 ≠ [] ∧ (∀ c ∈ x.1, isAtomChar c = true) ∧ validUtf8 x.1 = true ∧ x.2 = x.1) →
      EncResponse (.capabilities (items.map fun x => Capability.atom x.2))
        (b!"* " ++ ((spell (b!"ENABLED") m ++ (items.map fun x => b!" " ++ x.1).flatten) ++
          (List.replicate k 32 ++ b!"\r\n")))
  /-- `* VANISHED [(EARLIER)] uid-set` -/
  | vanished (m : List Bool) (earlier : Option (Bytes × List Bool)) (w1 : Bytes) (uids : List (Nat × Nat))
      (eu : Bytes) (k : Nat) :
      (∀ x, earlier = some x → IsSpaces x.1) → IsSpaces w1 → EncSeqSet uids eu →
      EncResponse (.vanished earlier.isSome uids)
        (b!"* " ++ ((spell (b!"VANISHED") m ++ (earlierEnc earlier ++ (w1 ++ eu))) ++
          (List.replicate k 32 ++ b!"\r\n")))
  | quota (m : List Bool) (w1 w2 root eroot : Bytes) (res : List QuotaResource) (el : Bytes) (k : Nat) :
      IsSpaces w1 → IsSpaces w2 → EncAString root eroot → validUtf8 root = true → EncQuotaList res el →
      EncResponse (.quota { rootName := root, resources := res })
        (b!"* " ++ ((spell (b!"QUOTA") m ++ (w1 ++ (eroot ++ (w2 ++ el)))) ++ (List.replicate k 32 ++ b!"\r\n")))
  | quotaRoot (m : List Bool) (w1 name ename : Bytes) (items : List (Bytes × Bytes × Bytes)) (k : Nat) :
      IsSpaces w1 → EncAString name ename → validUtf8 name = true →
      (∀ x ∈ items, IsSpaces x.1 ∧ EncAString x.2.2 x.2.1 ∧ validUtf8 x.2.2 = true) →
      EncResponse (.quotaRoot { mailboxName := name, quotaRootNames := items.map (·.2.2) })
        (b!"* " ++ ((spell (b!"QUOTAROOT") m ++ (w1 ++ (ename ++ (items.map fun x => x.1 ++ x.2.1).flatten))) ++
          (List.replicate k 32 ++ b!"\r\n")))
  | id (m : List Bool) (w : Bytes) (v : Option (List (Bytes × Bytes))) (e : Bytes) (k : Nat) :
      IsSpaces w → EncIdParams v e →
      EncResponse (.id v) (b!"* " ++ ((spell (b!"ID") m ++ (w ++ e)) ++ (List.replicate k 32 ++ b!"\r\n")))
  | acl (m : List Bool) (w1 name ename : Bytes) (ne : Bool) (entries : List AclEntry) (el : Bytes) (k : Nat) :
      IsSpaces w1 → EncAString name ename → validUtf8 name = true → EncAclList ne entries el → (ne = false → k = 0) →
      EncResponse (.acl { mailbox := canonMailbox name, acls := entries })
        (b!"* " ++ ((spell (b!"ACL") m ++ (w1 ++ (ename ++ el))) ++ (List.replicate k 32 ++ b!"\r\n")))
  | listRights (m : List Bool) (w1 w2 w3 name ename ident eident : Bytes) (req : List AclRight) (er : Bytes)
      (ne : Bool) (opt : List AclRight) (eo : Bytes) (k : Nat) :
      IsSpaces w1 → IsSpaces w2 → IsSpaces w3 → EncAString name ename → validUtf8 name = true →
      EncAString ident eident → validUtf8 ident = true → EncRights req er → EncOptRights ne opt eo →
      (ne = false → k = 0) →
      EncResponse (.listRights ⟨canonMailbox name, ident, req, opt⟩)
        (b!"* " ++ ((spell (b!"LISTRIGHTS") m ++ (w1 ++ (ename ++ (w2 ++ (eident ++ (w3 ++ (er ++ eo))))))) ++
          (List.replicate k 32 ++ b!"\r\n")))
  | myRights (m : List Bool) (w1 w2 name ename : Bytes) (rights : List AclRight) (er : Bytes) (k : Nat) :
      IsSpaces w1 → IsSpaces w2 → EncAString name ename → validUtf8 name = true → EncRights rights er →
      EncResponse (.myRights { mailbox := canonMailbox name, rights := rights })
        (b!"* " ++ ((spell (b!"MYRIGHTS") m ++ (w1 ++ (ename ++ (w2 ++ er)))) ++ (List.replicate k 32 ++ b!"\r\n")))
  /-- `* METADATA mailbox (entry value ...)` -/
  | metadataSolicited (m : List Bool) (name ename : Bytes) (first : Bytes × Metadata) (others : List (Bytes × Metadata))
      (k : Nat) : EncAString name ename → validUtf8 name = true → (∀ x ∈ first :: others, EncKeyval x.2 x.1) →
      EncResponse (.mailboxData (.metadataSolicited (canonMailbox name) (first.2 :: others.map (·.2))))
        (b!"* " ++ ((spell (b!"METADATA ") m ++ (ename ++ b!" ") ++
          ([40] ++ (first.1 ++ (others.map fun x => [32] ++ x.1).flatten) ++ [41])) ++ (List.replicate k 32 ++ b!"\r\n")))
  /-- `* METADATA mailbox entry entry ...` -/
  | metadataUnsolicited (m : List Bool) (name ename : Bytes) (first : Bytes × Bytes) (others : List (Bytes × Bytes))
      (k : Nat) : EncAString name ename → validUtf8 name = true → (∀ x ∈ first :: others, EncEntry x.2 x.1) →
      EncResponse (.mailboxData (.metadataUnsolicited (canonMailbox name) (first.2 :: others.map (·.2))))
        (b!"* " ++ ((spell (b!"METADATA ") m ++ (ename ++ b!" ") ++
          (first.1 ++ (others.map fun x => b!" " ++ x.1).flatten)) ++ (List.replicate k 32 ++ b!"\r\n")))
  /-- untagged status response `* OK [code] text` -/
  | data (s : Status) (m : List Bool) (v : Option ResponseCode × Option Bytes) (e : Bytes) : EncTrailing v e →
      EncResponse (.data s v.1 v.2) (b!"* " ++ ((spell (statusKw s) m ++ e) ++ b!"\r\n"))
  /-- tagged completion `A0001 OK [code] text` -/
  | done (t : Bytes) (s : Status) (m : List Bool) (v : Option ResponseCode × Option Bytes) (e : Bytes) :
      IsTag t → EncTrailing v e →
      EncResponse (.done t s v.1 v.2) (t ++ (b!" " ++ (spell (statusKw s) m ++ (e ++ b!"\r\n"))))
  /-- continuation request `+ text` / `+text` -/
  | continue_ (sp : Bool) (v : Option ResponseCode × Option Bytes) (e : Bytes) : EncRespText v e →
      (sp = false → ∀ x t, e = x :: t → ((32 : UInt8) == x) = false) →
      EncResponse (.continue_ v.1 v.2) (b!"+" ++ ((if sp then b!" " else []) ++ (e ++ b!"\r\n")))

/-- **the parser inverts the printer relation**: exactly the value, exactly the bytes -/
theorem parseResponse_enc (r : Response) (e : Bytes) (h : EncResponse r e) (rest : Bytes) :
    parseResponse (e ++ rest) = .ok r rest := by
  cases h with
  | fetch =>
    rename_i e k hf
    exact parseResponse_fetch r e k hf rest
  | numeric =>
    rename_i e k hn
    exact parseResponse_untaggedF r e k Any (responseDataAlt_numeric r e hn) (fun _ => trivial) rest
  | flags m vs e k he =>
    refine parseResponse_untaggedF _ _ k Any ?_ (fun _ => trivial) rest
    exact responseDataAlt_mailbox _ 70 _ m e Any (mailboxDataFlags_enc vs e he m) (by decide)
  | search v sp e k he hk =>
    have hp := mailboxData_search v sp e he
    cases he with
    | mk m items sp hall =>
      refine parseResponse_untaggedF _ _ k (AfterNumList sp) ?_ ?_ rest
      · exact responseDataAlt_mailbox _ 83 _ m _ _ hp (by decide)
      · intro rest'
        cases sp with
        | true =>
          obtain ⟨c, t, hct, hc⟩ := spaces_head k rest'
          exact ⟨c, t, hct, by rcases hc with rfl | rfl <;> decide⟩
        | false =>
          have := hk rfl; subst this
          exact ⟨10 :: rest', by simp⟩
  | sort v sp e k he hk =>
    have hp := mailboxData_sort v sp e he
    cases he with
    | mk m items sp hall =>
      refine parseResponse_untaggedF _ _ k (AfterNumList sp) ?_ ?_ rest
      · exact responseDataAlt_mailbox _ 83 _ m _ _ hp (by decide)
      · intro rest'
        cases sp with
        | true =>
          obtain ⟨c, t, hct, hc⟩ := spaces_head k rest'
          exact ⟨c, t, hct, by rcases hc with rfl | rfl <;> decide⟩
        | false =>
          have := hk rfl; subst this
          exact ⟨10 :: rest', by simp⟩
  | list lsub m attrs d name e k he =>
    refine parseResponse_untaggedF _ _ k (Starts notAstringChar) ?_ ?_ rest
    · cases lsub with
      | false => exact responseDataAlt_mailbox _ 76 _ m e _ (mailboxData_list false m attrs d name e he) (by decide)
      | true => exact responseDataAlt_mailbox _ 76 _ m e _ (mailboxData_list true m attrs d name e he) (by decide)
    · intro rest'
      obtain ⟨c, t, hct, hc⟩ := spaces_head k rest'
      exact ⟨c, t, hct, by rcases hc with rfl | rfl <;> decide⟩
  | status m name ename items ei k hn hu hi =>
    refine parseResponse_untaggedF _ _ k Any ?_ (fun _ => trivial) rest
    exact responseDataAlt_mailbox _ 83 _ m _ Any (mailboxData_status m name ename hn hu items ei hi) (by decide)
  | capabilities v e k he =>
    refine parseResponse_untaggedF _ _ k EndOfCaps (responseDataAlt_caps v e he) ?_ rest
    intro rest'
    cases k with
    | zero => exact Or.inl ⟨13, 10 :: rest', by simp, Or.inl rfl⟩
    | succ k =>
      obtain ⟨c, t, hct, hc⟩ := spaces_head k rest'
      refine Or.inr ⟨c, t, by have := congrArg (List.cons 32) hct; simpa [List.replicate_succ] using this, ?_⟩
      rcases hc with rfl | rfl <;> decide
  | gmailLabels m vs e k he =>
    refine parseResponse_untaggedF _ _ k Any ?_ (fun _ => trivial) rest
    exact responseDataAlt_mailbox _ 88 _ m e Any (mailboxData_gmailLabels m vs e he) (by decide)
  | gmailMsgId m n e k hn he =>
    refine parseResponse_untaggedF _ _ k (Starts notDigit) ?_ ?_ rest
    · exact responseDataAlt_mailbox _ 88 _ m e _ (mailboxData_gmailMsgId m n hn e he) (by decide)
    · intro rest'
      obtain ⟨c, t, hct, hc⟩ := spaces_head k rest'
      exact ⟨c, t, hct, by rcases hc with rfl | rfl <;> decide⟩
  | enabled m items k hall =>
    refine parseResponse_untaggedF _ _ k EndOfCaps (responseDataAlt_enabled m _ _ _ (enabled_enc m items hall)) ?_ rest
    intro rest'
    cases k with
    | zero => exact Or.inl ⟨13, 10 :: rest', by simp, Or.inl rfl⟩
    | succ k =>
      obtain ⟨c, t, hct, hc⟩ := spaces_head k rest'
      refine Or.inr ⟨c, t, by have := congrArg (List.cons 32) hct; simpa [List.replicate_succ] using this, ?_⟩
      rcases hc with rfl | rfl <;> decide
  | vanished m earlier w1 uids eu k hw0 hw1 hu =>
    refine parseResponse_untaggedF _ _ k (Starts spaceOrCRLF)
      (responseDataAlt_vanished m _ _ _ (vanished_enc m earlier hw0 w1 hw1 uids eu hu)) ?_ rest
    intro rest'
    obtain ⟨c, t, hct, hc⟩ := spaces_head k rest'
    exact ⟨c, t, hct, by rcases hc with rfl | rfl <;> decide⟩
  | quota m w1 w2 root eroot res el k hw1 hw2 hr hu hl =>
    exact parseResponse_untaggedF _ _ k Any
      (responseDataAlt_quota m _ _ _ (quota_enc m w1 w2 hw1 hw2 root eroot hr hu res el hl Any)) (fun _ => trivial) rest
  | quotaRoot m w1 name ename items k hw1 hn hu hitems =>
    refine parseResponse_untaggedF _ _ k EndOfWords
      (responseDataAlt_quotaRoot m _ _ _ (quotaRoot_enc m w1 hw1 name ename hn hu items hitems)) ?_ rest
    intro rest'
    cases k with
    | zero => exact Or.inl ⟨13, 10 :: rest', by simp, by decide⟩
    | succ k =>
      exact Or.inr ⟨List.replicate (k + 1) 32, b!"\r\n" ++ rest',
        ⟨by simp [List.replicate_succ], fun c hc => by rw [List.eq_of_mem_replicate hc]; decide⟩, rfl,
        ⟨13, 10 :: rest', rfl, by decide⟩⟩
  | id m w v e k hw he =>
    exact parseResponse_untaggedF _ _ k Any (responseDataAlt_id m _ _ _ (respId_enc m w hw v e he Any))
      (fun _ => trivial) rest
  | acl m w1 name ename ne entries el k hw1 hn hu hl hk =>
    refine parseResponse_untaggedF _ _ k (AfterWords ne)
      (responseDataAlt_acl m _ _ _ (acl_enc m w1 hw1 name ename hn hu ne entries el hl)) ?_ rest
    intro rest'
    cases ne with
    | false => have := hk rfl; subst this; exact ⟨13, 10 :: rest', by simp, by decide⟩
    | true =>
      cases k with
      | zero => exact Or.inl ⟨13, 10 :: rest', by simp, by decide⟩
      | succ k =>
        exact Or.inr ⟨List.replicate (k + 1) 32, b!"\r\n" ++ rest',
          ⟨by simp [List.replicate_succ], fun c hc => by rw [List.eq_of_mem_replicate hc]; decide⟩, rfl,
          ⟨13, 10 :: rest', rfl, by decide⟩⟩
  | listRights m w1 w2 w3 name ename ident eident required er ne optional eo k hw1 hw2 hw3 hn hu hi hui hr ho hk =>
    refine parseResponse_untaggedF _ _ k (AfterWords ne)
      (responseDataAlt_listRights m _ _ _
        (listRights_enc m w1 w2 w3 hw1 hw2 hw3 name ename hn hu ident eident hi hui required er hr ne optional eo ho))
      ?_ rest
    intro rest'
    cases ne with
    | false => have := hk rfl; subst this; exact ⟨13, 10 :: rest', by simp, by decide⟩
    | true =>
      cases k with
      | zero => exact Or.inl ⟨13, 10 :: rest', by simp, by decide⟩
      | succ k =>
        exact Or.inr ⟨List.replicate (k + 1) 32, b!"\r\n" ++ rest',
          ⟨by simp [List.replicate_succ], fun c hc => by rw [List.eq_of_mem_replicate hc]; decide⟩, rfl,
          ⟨13, 10 :: rest', rfl, by decide⟩⟩
  | myRights m w1 w2 name ename rights er k hw1 hw2 hn hu hr =>
    refine parseResponse_untaggedF _ _ k (Starts notAstringChar)
      (responseDataAlt_myRights m _ _ _ (myRights_enc m w1 w2 hw1 hw2 name ename hn hu rights er hr)) ?_ rest
    intro rest'
    obtain ⟨c, t, hct, hc⟩ := spaces_head k rest'
    exact ⟨c, t, hct, by rcases hc with rfl | rfl <;> decide⟩
  | metadataSolicited m name ename first others k hn hu hall =>
    have h0 := responseDataAlt_metaS m _ _ Any (by
      have := metadataSolicited_enc m name ename hn hu first others hall Any
      simpa [List.append_assoc] using this)
    have := parseResponse_untaggedF _ _ k Any h0 (fun _ => trivial) rest
    simpa [List.append_assoc] using this
  | metadataUnsolicited m name ename first others k hn hu hall =>
    refine parseResponse_untaggedF _ _ k EndOfEntries (responseDataAlt_metaU m name ename hn hu first others hall) ?_ rest
    intro rest'
    cases k with
    | zero => exact Or.inl ⟨13, 10 :: rest', by simp, by decide⟩
    | succ k =>
      obtain ⟨c, t, hct, hc⟩ := spaces_head k rest'
      refine Or.inr ⟨List.replicate k 32 ++ (b!"\r\n" ++ rest'), by simp [List.replicate_succ], ⟨c, t, hct, ?_⟩⟩
      rcases hc with rfl | rfl <;> decide
  | data s m v e he =>
    have h0 : Parses responseDataAlt (spell (statusKw s) m ++ e) (.data s v.1 v.2) (Starts crlfStart) := by
      unfold responseDataAlt
      exact Parses.altL (respCond_enc s m v e he)
    have := parseResponse_untaggedF _ _ 0 (Starts crlfStart) h0 (fun r => ⟨13, 10 :: r, by simp, by decide⟩) rest
    simpa using this
  | done t s m v e ht he =>
    have : Parses parseResponse (t ++ (b!" " ++ (spell (statusKw s) m ++ (e ++ b!"\r\n")))) (.done t s v.1 v.2) Any := by
      unfold parseResponse
      obtain ⟨hne, hall⟩ := ht
      cases t with
      | nil => exact absurd rfl hne
      | cons c cs =>
        have hc := tagChar_first c (hall c (by simp))
        refine Parses.altR (Parses.altR (responseTagged_enc (c :: cs) ⟨hne, hall⟩ s m v e he) ?_) ?_
        · intro rest' _
          unfold responseData
          show Parser.bindP (tag (b!"* ")) _ _ = .err
          unfold Parser.bindP
          simp only [List.cons_append]
          rw [tag_err_first (b!"* ") 42 c _ rfl hc.2]
        · intro rest' _
          unfold continueReq
          show Parser.bindP (tag (b!"+")) _ _ = .err
          unfold Parser.bindP
          simp only [List.cons_append]
          rw [tag_err_first (b!"+") 43 c _ rfl hc.1]
    exact this rest trivial
  | continue_ sp v e he hsp =>
    have : Parses parseResponse (b!"+" ++ ((if sp then b!" " else []) ++ (e ++ b!"\r\n"))) (.continue_ v.1 v.2) Any := by
      unfold parseResponse
      exact Parses.altL (continueReq_enc sp v e he hsp)
    exact this rest trivial

end RT
