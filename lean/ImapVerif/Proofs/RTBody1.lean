/-
  Round-trip for body structures, part 1: body parameters, content transfer encoding, body fields,
  language, disposition (rfc3501/body_structure.rs).
-/
import ImapVerif.Proofs.RTFlags

open Bytes Parser Grammar

namespace RT

theorem mismatch_plain (t u : Bytes) (rest : Bytes) (h : mismatch t u = true) :
    tagNoCase t (u ++ rest) = .err := by
  have := tagNoCase_mismatch t u [] rest h
  have hs : spell u [] = u := by cases u <;> rfl
  rwa [hs] at this

/-! ### body-fld-param -/

/-- one `string SP string` pair -/
inductive EncPair : Bytes × Bytes → Bytes → Prop
  | mk (k v ek ev : Bytes) : EncString k ek → validUtf8 k = true → EncString v ev → validUtf8 v = true →
      EncPair (k, v) (ek ++ b!" " ++ ev)

def pairP : Parser (Bytes × Bytes) := do
  let key ← stringUtf8
  tag (b!" ")
  let val ← stringUtf8
  pure (key, val)

theorem pair_enc (kv : Bytes × Bytes) (e : Bytes) (h : EncPair kv e) : Parses pairP e kv (Starts spaceOrClose) := by
  cases h with
  | mk k v ek ev hk huk hv huv =>
    unfold pairP
    rw [List.append_assoc]
    refine Parses.bind (stringUtf8_enc k ek hk huk) ?_ (fun _ _ => trivial)
    refine Parses.bind (tag_ok _) ?_ (fun _ _ => trivial)
    exact Parses.bind' (stringUtf8_enc v ev hv huv) (Parses.pure _ _) (fun _ _ => trivial) (by simp)

/-- NIL, or a non-empty parenthesised list of pairs -/
inductive EncParams : BodyParams → Bytes → Prop
  | nil (m : List Bool) : EncParams none (spell (b!"NIL") m)
  | some (first : Bytes × (Bytes × Bytes)) (others : List (Bytes × (Bytes × Bytes))) :
      (∀ x ∈ first :: others, EncPair x.2 x.1) →
      EncParams (some (first.2 :: others.map (·.2)))
        ([40] ++ (first.1 ++ (others.map fun x => [32] ++ x.1).flatten) ++ [41])

theorem bodyParam_enc (v : BodyParams) (e : Bytes) (h : EncParams v e) (F : Bytes → Prop) :
    Parses bodyParam e v F := by
  unfold bodyParam
  cases h with
  | nil m => exact Parses.altL (Parses.map _ ((nil_enc m).weaken (fun _ _ => trivial)))
  | some first others hall =>
    refine Parses.altR (Parses.map some ?_) ?_
    · exact parenthesizedNonemptyList_enc (p := pairP) (R := EncPair) pair_enc first others hall F
    · intro rest _
      simp [Parser.map, nil_err 40 _ (by decide)]

theorem encParams_head (v : BodyParams) (e : Bytes) (h : EncParams v e) :
    ∃ c t, e = c :: t ∧ (c = 40 ∨ c = 78 ∨ c = 110) := by
  cases h with
  | nil m =>
    cases m with
    | nil => exact ⟨78, _, rfl, by simp⟩
    | cons b bs => cases b <;> simp [spell, flipCase]
  | some first others _ =>
    exact ⟨40, (first.1 ++ (others.map fun x => [32] ++ x.1).flatten) ++ [41], by simp, by simp⟩

/-! ### body-fld-enc -/

/-- a parser result after which a closing quote cannot follow -/
def Dead {α : Type} (p : Parser α) (i : Bytes) : Prop :=
  p i = .err ∨ ∃ w r', p i = .ok w r' ∧ char 34 r' = .err

theorem tagNoCase_cons_match (a : UInt8) (K : Bytes) (y : UInt8) (r : Bytes) (h : (lower a == lower y) = true) :
    tagNoCase (a :: K) (y :: r) = tagNoCase K r := by
  simp [tagNoCase, tagGo, h]

theorem tagNoCase_cons_miss (a : UInt8) (K : Bytes) (y : UInt8) (r : Bytes) (h : (lower a == lower y) = false) :
    tagNoCase (a :: K) (y :: r) = .err := by
  simp [tagNoCase, tagGo, h]

/-- a keyword followed by a quote: if `t"` differs (ignoring case) from `K"`, then either the keyword
    does not match or the closing quote does not follow it -/
theorem kw_dead (K t rest : Bytes) (h : mismatch (K ++ [34]) t = true) : Dead (tagNoCase K) (t ++ rest) := by
  induction K generalizing t with
  | nil =>
    cases t with
    | nil => simp [mismatch] at h
    | cons y t' =>
      simp only [List.nil_append, mismatch] at h
      right
      refine ⟨(), y :: t' ++ rest, by simp [tagNoCase, tagGo], ?_⟩
      have hy : (y == 34) = false := by
        cases hc : (lower 34 == lower y)
        · have key : ∀ n : Fin 256, (lower 34 == lower (UInt8.ofNat n.val)) = false → (UInt8.ofNat n.val == 34) = false := by
            decide +kernel
          have := key ⟨y.toNat, y.toNat_lt⟩
          simp only [UInt8.ofNat_toNat] at this
          exact this hc
        · simp [hc, mismatch] at h
      simp [char, hy]
  | cons a K' ih =>
    cases t with
    | nil => simp [mismatch] at h
    | cons y t' =>
      simp only [List.cons_append, mismatch] at h
      cases hc : (lower a == lower y)
      · left; exact tagNoCase_cons_miss a K' y _ hc
      · simp only [hc, if_true] at h
        have := ih t' h
        unfold Dead at this ⊢
        rw [List.cons_append, tagNoCase_cons_match a K' y _ hc]
        exact this

theorem dead_map {α β : Type} (p : Parser α) (f : α → β) (i : Bytes) (h : Dead p i) : Dead (Parser.map p f) i := by
  rcases h with h | ⟨w, r', h, hc⟩
  · left; simp [Parser.map, h]
  · right; exact ⟨f w, r', by simp [Parser.map, h], hc⟩

theorem dead_alt {α : Type} (p q : Parser α) (i : Bytes) (hp : Dead p i) (hq : Dead q i) : Dead (alt p q) i := by
  rcases hp with hp | ⟨w, r', hp, hc⟩
  · unfold Dead alt; rw [hp]; exact hq
  · right; exact ⟨w, r', by simp [alt, hp], hc⟩

/-- the five keywords of body-fld-enc -/
def encKeywords : List Bytes := [b!"7BIT", b!"8BIT", b!"BINARY", b!"BASE64", b!"QUOTED-PRINTABLE"]

/-- the wire forms of a content transfer encoding -/
inductive EncEncoding : ContentEncoding → Bytes → Prop
  | sevenBit (m : List Bool) : EncEncoding .sevenBit ([34] ++ spell (b!"7BIT") m ++ [34])
  | eightBit (m : List Bool) : EncEncoding .eightBit ([34] ++ spell (b!"8BIT") m ++ [34])
  | binary (m : List Bool) : EncEncoding .binary ([34] ++ spell (b!"BINARY") m ++ [34])
  | base64 (m : List Bool) : EncEncoding .base64 ([34] ++ spell (b!"BASE64") m ++ [34])
  | quotedPrintable (m : List Bool) : EncEncoding .quotedPrintable ([34] ++ spell (b!"QUOTED-PRINTABLE") m ++ [34])
  /-- any other string; in quoted form it must differ from the five keywords -/
  | other (s e : Bytes) : EncString s e → validUtf8 s = true →
      (∀ K ∈ encKeywords, mismatch ([34] ++ K ++ [34]) e = true) → EncEncoding (.other s) e

def encKw : Parser ContentEncoding :=
  alt (map (tagNoCase (b!"7BIT")) fun _ => ContentEncoding.sevenBit) <|
  alt (map (tagNoCase (b!"8BIT")) fun _ => ContentEncoding.eightBit) <|
  alt (map (tagNoCase (b!"BINARY")) fun _ => ContentEncoding.binary) <|
  alt (map (tagNoCase (b!"BASE64")) fun _ => ContentEncoding.base64) <|
  map (tagNoCase (b!"QUOTED-PRINTABLE")) fun _ => ContentEncoding.quotedPrintable

theorem encKw_ok (K : Bytes) (m : List Bool) (c : ContentEncoding) (rest : Bytes)
    (h : (K = b!"7BIT" ∧ c = .sevenBit) ∨ (K = b!"8BIT" ∧ c = .eightBit) ∨ (K = b!"BINARY" ∧ c = .binary) ∨
         (K = b!"BASE64" ∧ c = .base64) ∨ (K = b!"QUOTED-PRINTABLE" ∧ c = .quotedPrintable)) :
    encKw (spell K m ++ rest) = .ok c rest := by
  unfold encKw
  rcases h with ⟨rfl, rfl⟩ | ⟨rfl, rfl⟩ | ⟨rfl, rfl⟩ | ⟨rfl, rfl⟩ | ⟨rfl, rfl⟩
  · simp [alt, Parser.map, tagNoCase_spell _ m rest trivial]
  · simp [alt, Parser.map, tagNoCase_spell _ m rest trivial,
      tagNoCase_mismatch (b!"7BIT") (b!"8BIT") m rest (by decide)]
  · simp [alt, Parser.map, tagNoCase_spell _ m rest trivial,
      tagNoCase_mismatch (b!"7BIT") (b!"BINARY") m rest (by decide),
      tagNoCase_mismatch (b!"8BIT") (b!"BINARY") m rest (by decide)]
  · simp [alt, Parser.map, tagNoCase_spell _ m rest trivial,
      tagNoCase_mismatch (b!"7BIT") (b!"BASE64") m rest (by decide),
      tagNoCase_mismatch (b!"8BIT") (b!"BASE64") m rest (by decide),
      tagNoCase_mismatch (b!"BINARY") (b!"BASE64") m rest (by decide)]
  · simp [alt, Parser.map, tagNoCase_spell _ m rest trivial,
      tagNoCase_mismatch (b!"7BIT") (b!"QUOTED-PRINTABLE") m rest (by decide),
      tagNoCase_mismatch (b!"8BIT") (b!"QUOTED-PRINTABLE") m rest (by decide),
      tagNoCase_mismatch (b!"BINARY") (b!"QUOTED-PRINTABLE") m rest (by decide),
      tagNoCase_mismatch (b!"BASE64") (b!"QUOTED-PRINTABLE") m rest (by decide)]

theorem encKw_dead (t rest : Bytes) (h : ∀ K ∈ encKeywords, mismatch (K ++ [34]) t = true) :
    Dead encKw (t ++ rest) := by
  unfold encKw
  refine dead_alt _ _ _ (dead_map _ _ _ (kw_dead _ t rest (h _ (by simp [encKeywords])))) ?_
  refine dead_alt _ _ _ (dead_map _ _ _ (kw_dead _ t rest (h _ (by simp [encKeywords])))) ?_
  refine dead_alt _ _ _ (dead_map _ _ _ (kw_dead _ t rest (h _ (by simp [encKeywords])))) ?_
  refine dead_alt _ _ _ (dead_map _ _ _ (kw_dead _ t rest (h _ (by simp [encKeywords])))) ?_
  exact dead_map _ _ _ (kw_dead _ t rest (h _ (by simp [encKeywords])))

theorem bodyEncoding_unfold : bodyEncoding =
    alt (do char 34; let e ← encKw; char 34; pure e) (map stringUtf8 ContentEncoding.other) := rfl

theorem bodyEncoding_enc (v : ContentEncoding) (e : Bytes) (h : EncEncoding v e) (F : Bytes → Prop) :
    Parses bodyEncoding e v F := by
  rw [bodyEncoding_unfold]
  have kwCase : ∀ (K : Bytes) (m : List Bool) (c : ContentEncoding),
      ((K = b!"7BIT" ∧ c = .sevenBit) ∨ (K = b!"8BIT" ∧ c = .eightBit) ∨ (K = b!"BINARY" ∧ c = .binary) ∨
         (K = b!"BASE64" ∧ c = .base64) ∨ (K = b!"QUOTED-PRINTABLE" ∧ c = .quotedPrintable)) →
      Parses (alt (do char 34; let e ← encKw; char 34; pure e) (map stringUtf8 ContentEncoding.other))
        ([34] ++ spell K m ++ [34]) c F := by
    intro K m c hK
    refine Parses.altL ?_
    rw [List.append_assoc]
    refine Parses.bind (char_ok 34) ?_ (fun _ _ => trivial)
    have hk : Parses encKw (spell K m) c Any := fun rest _ => encKw_ok K m c rest hK
    refine Parses.bind hk ?_ (fun _ _ => trivial)
    exact Parses.bind' (char_ok 34) (Parses.pure _ _) (fun _ _ => trivial) (by simp)
  cases h with
  | sevenBit m => exact kwCase _ m _ (by simp)
  | eightBit m => exact kwCase _ m _ (by simp)
  | binary m => exact kwCase _ m _ (by simp)
  | base64 m => exact kwCase _ m _ (by simp)
  | quotedPrintable m => exact kwCase _ m _ (by simp)
  | other s e hs hu hno =>
    refine Parses.altR (Parses.map _ ((stringUtf8_enc s e hs hu).weaken (fun _ _ => trivial))) ?_
    intro rest _
    cases e with
    | nil =>
      have := hno _ (by simp [encKeywords] : b!"7BIT" ∈ encKeywords)
      simp [mismatch] at this
    | cons x t =>
      show Parser.bindP (char 34) _ _ = .err
      unfold Parser.bindP
      by_cases hx : x = 34
      · subst hx
        have hdead : Dead encKw (t ++ rest) := by
          apply encKw_dead
          intro K hK
          have := hno K hK
          simpa [mismatch] using this
        simp only [List.cons_append, char, beq_self_eq_true, if_true]
        show Parser.bindP encKw _ _ = .err
        unfold Parser.bindP
        rcases hdead with hd | ⟨w, r', hd, hc⟩
        · rw [hd]
        · rw [hd]
          show Parser.bindP (char 34) _ _ = .err
          unfold Parser.bindP
          rw [hc]
      · have : (x == 34) = false := by simpa using hx
        simp [char, this]

/-! ### body-fields -/

inductive EncFields : BodyFields → Bytes → Prop
  | mk (f : BodyFields) (ep eid edesc eenc eoct : Bytes) :
      EncParams f.param ep → EncNString f.id eid → (∀ s, f.id = some s → validUtf8 s = true) →
      EncNString f.description edesc → (∀ s, f.description = some s → validUtf8 s = true) →
      EncEncoding f.transferEncoding eenc → f.octets < 2 ^ 32 → EncNumber f.octets eoct →
      EncFields f (ep ++ b!" " ++ eid ++ b!" " ++ edesc ++ b!" " ++ eenc ++ b!" " ++ eoct)

theorem bodyFields_enc (f : BodyFields) (e : Bytes) (h : EncFields f e) :
    Parses bodyFields e f (Starts notDigit) := by
  cases h with
  | mk ep eid edesc eenc eoct hp hid huid hdesc hudesc henc hn hoct =>
    unfold bodyFields
    simp only [List.append_assoc]
    refine Parses.bind (bodyParam_enc _ _ hp Any) ?_ (fun _ _ => trivial)
    refine Parses.bind (tag_ok _) ?_ (fun _ _ => trivial)
    refine Parses.bind (nstringUtf8_enc _ _ hid huid) ?_ (fun _ _ => trivial)
    refine Parses.bind (tag_ok _) ?_ (fun _ _ => trivial)
    refine Parses.bind (nstringUtf8_enc _ _ hdesc hudesc) ?_ (fun _ _ => trivial)
    refine Parses.bind (tag_ok _) ?_ (fun _ _ => trivial)
    refine Parses.bind (bodyEncoding_enc _ _ henc Any) ?_ (fun _ _ => trivial)
    refine Parses.bind (tag_ok _) ?_ (fun _ _ => trivial)
    exact Parses.bind' (number_enc (2 ^ 32) _ _ hoct hn) (Parses.pure _ _) (fun _ h => h) (by simp)

/-! ### body-fld-lang -/

inductive EncLang : Option (List Bytes) → Bytes → Prop
  | nil (m : List Bool) : EncLang none (spell (b!"NIL") m)
  | one (s e : Bytes) : EncString s e → validUtf8 s = true → EncLang (some [s]) e
  | many (first : Bytes × Bytes) (others : List (Bytes × Bytes)) :
      (∀ x ∈ first :: others, EncString x.2 x.1 ∧ validUtf8 x.2 = true) →
      EncLang (some (first.2 :: others.map (·.2)))
        ([40] ++ (first.1 ++ (others.map fun x => [32] ++ x.1).flatten) ++ [41])

theorem nstringUtf8_err (x : UInt8) (r : Bytes) (h0 : (lower 78 == lower x) = false)
    (h1 : (x == 34) = false) (h2 : ((123 : UInt8) == x) = false) : nstringUtf8 (x :: r) = .err := by
  unfold nstringUtf8 alt
  simp [Parser.map, nil_err x r h0, stringUtf8, Parser.mapRes, string_err x r h1 h2]

theorem bodyLang_enc (v : Option (List Bytes)) (e : Bytes) (h : EncLang v e) (F : Bytes → Prop) :
    Parses bodyLang e v F := by
  unfold bodyLang
  cases h with
  | nil m =>
    refine Parses.altL ?_
    exact Parses.map _ (v := none) ((nstringUtf8_enc none _ (.nil m) (by intro s hs; cases hs)).weaken (fun _ _ => trivial))
  | one s e hs hu =>
    refine Parses.altL ?_
    exact Parses.map _ (v := some s)
      ((nstringUtf8_enc (some s) e (.some s e hs) (by intro s' hs'; cases hs'; exact hu)).weaken (fun _ _ => trivial))
  | many first others hall =>
    refine Parses.altR (Parses.map some ?_) ?_
    · exact parenthesizedNonemptyList_enc (p := stringUtf8) (R := fun v e => EncString v e ∧ validUtf8 v = true)
        (fun v e hv => (stringUtf8_enc v e hv.1 hv.2).weaken (fun _ _ => trivial)) first others hall F
    · intro rest _
      simp [Parser.map, nstringUtf8_err 40 _ (by decide) (by decide) (by decide)]

/-! ### body-fld-dsp -/

inductive EncDisp : Option ContentDisposition → Bytes → Prop
  | nil (m : List Bool) : EncDisp none (spell (b!"NIL") m)
  | some (d : ContentDisposition) (ety ep : Bytes) : EncString d.ty ety → validUtf8 d.ty = true →
      EncParams d.params ep → EncDisp (some d) ([40] ++ (ety ++ b!" " ++ ep) ++ [41])

theorem bodyDisposition_enc (v : Option ContentDisposition) (e : Bytes) (h : EncDisp v e) (F : Bytes → Prop) :
    Parses bodyDisposition e v F := by
  unfold bodyDisposition
  cases h with
  | nil m => exact Parses.altL (Parses.map _ ((nil_enc m).weaken (fun _ _ => trivial)))
  | some d ety ep hty hu hp =>
    refine Parses.altR ?_ ?_
    · apply parenDelimited_enc
      rw [List.append_assoc]
      refine Parses.bind (stringUtf8_enc _ _ hty hu) ?_ (fun _ _ => trivial)
      refine Parses.bind (tag_ok _) ?_ (fun _ _ => trivial)
      exact Parses.bind' (bodyParam_enc _ _ hp _) (Parses.pure _ _) (fun _ h => h) (by simp)
    · intro rest _
      simp [Parser.map, nil_err 40 _ (by decide)]

end RT
