/-
  Lemmas about `Builders.escape` / `quotedString` and an independent lexer of quoted strings.
-/
import ImapVerif.Builders

open Bytes Builders

namespace Quoted

def isCRLF (c : UInt8) : Bool := c == 13 || c == 10

/-- independent lexer of the body of a quoted string (after the opening quote): reads up to the
    first unescaped `"`, undoing `\\` and `\"`; CR, LF and any other escape are lexical errors.
    Returns the unescaped content and what follows the closing quote. -/
def lexBody : Bytes → Option (Bytes × Bytes)
  | [] => none
  | c :: r =>
    if c == 34 then some ([], r)
    else if c == 92 then
      match r with
      | [] => none
      | d :: r' =>
        if d == 34 || d == 92 then (lexBody r').map fun (s, rest) => (d :: s, rest) else none
    else if isCRLF c then none
    else (lexBody r).map fun (s, rest) => (c :: s, rest)

/-- `"` body `"` -/
def lexQuoted : Bytes → Option (Bytes × Bytes)
  | 34 :: r => lexBody r
  | _ => none

theorem lexBody_cons (c : UInt8) (r : Bytes) :
    lexBody (c :: r) =
      if c == 34 then some ([], r)
      else if c == 92 then
        match r with
        | [] => none
        | d :: r' =>
          if d == 34 || d == 92 then (lexBody r').map fun (s, rest) => (d :: s, rest) else none
      else if isCRLF c then none
      else (lexBody r).map fun (s, rest) => (c :: s, rest) := by
  rw [lexBody.eq_def]
  rfl

/-- the lexer recovers exactly the text that was escaped, and stops at the closing quote that the
    builder appended - whatever the text contains and whatever follows -/
theorem lexBody_escape (s rest : Bytes) (h : ∀ c ∈ s, isCRLF c = false) :
    lexBody (escape s ++ 34 :: rest) = some (s, rest) := by
  induction s with
  | nil => simp [escape, lexBody_cons]
  | cons c r ih =>
    have hc := h c (by simp)
    have ih' := ih (fun x hx => h x (by simp [hx]))
    simp only [escape]
    by_cases hq : (c == 92 || c == 34) = true
    · simp only [hq, if_true, List.cons_append]
      rw [lexBody_cons]
      simp only [beq_self_eq_true]
      have h1 : ((92 : UInt8) == 34) = false := by decide
      simp only [h1]
      have h2 : (c == 34 || c == 92) = true := by
        simp only [Bool.or_eq_true] at hq ⊢; exact hq.symm
      simp [h2, ih']
    · have hq' : (c == 92 || c == 34) = false := by simpa using hq
      simp only [hq', Bool.false_eq_true, if_false, List.cons_append]
      rw [lexBody_cons]
      have h34 : (c == 34) = false := by
        cases h : c == 34 <;> simp_all
      have h92 : (c == 92) = false := by
        cases h : c == 92 <;> simp_all
      simp [h34, h92, hc, ih']

theorem lexQuoted_escape (s rest : Bytes) (h : ∀ c ∈ s, isCRLF c = false) :
    lexQuoted (34 :: (escape s ++ 34 :: rest)) = some (s, rest) := by
  simp [lexQuoted, lexBody_escape s rest h]

theorem escape_no_crlf (s : Bytes) (h : ∀ c ∈ s, isCRLF c = false) : ∀ c ∈ escape s, isCRLF c = false := by
  induction s with
  | nil => simp [escape]
  | cons x r ih =>
    have hx := h x (by simp)
    have ih' := ih (fun y hy => h y (by simp [hy]))
    simp only [escape]
    split
    · intro c hc
      simp only [List.mem_cons] at hc
      rcases hc with rfl | rfl | hc
      · decide
      · exact hx
      · exact ih' c hc
    · intro c hc
      simp only [List.mem_cons] at hc
      rcases hc with rfl | hc
      · exact hx
      · exact ih' c hc

theorem any_crlf_false (s : Bytes) (h : s.any (fun c => c == 13 || c == 10) = false) :
    ∀ c ∈ s, isCRLF c = false := by
  intro c hc
  have := List.any_eq_false.mp h c hc
  simpa [isCRLF] using this

/-! ### `escape` preserves UTF-8 validity (so `String::from_utf8(new).unwrap()` cannot fire) -/

theorem ge80_not_special (a : UInt8) (h : ¬ a < 0x80) : (a == 92 || a == 34) = false := by
  have key : ∀ n : Fin 256, ¬ (UInt8.ofNat n.val) < 0x80 → ((UInt8.ofNat n.val) == 92 || (UInt8.ofNat n.val) == 34) = false := by
    decide +kernel
  have := key ⟨a.toNat, a.toNat_lt⟩
  simp at this
  simpa using this (by simpa using h)

theorem cont_not_special (a : UInt8) (h : isCont a = true) : (a == 92 || a == 34) = false := by
  have key : ∀ n : Fin 256, isCont (UInt8.ofNat n.val) = true → ((UInt8.ofNat n.val) == 92 || (UInt8.ofNat n.val) == 34) = false := by
    decide +kernel
  have := key ⟨a.toNat, a.toNat_lt⟩
  simp at this
  simpa using this h

theorem range_not_special (a lo hi : UInt8) (hlo : 0x80 ≤ lo) (h : (lo ≤ a && a ≤ hi) = true) :
    (a == 92 || a == 34) = false := by
  apply ge80_not_special
  simp only [Bool.and_eq_true, decide_eq_true_eq] at h
  intro hlt
  have h1 := UInt8.le_iff_toNat_le.mp hlo
  have h2 := UInt8.le_iff_toNat_le.mp h.1
  have h3 := UInt8.lt_iff_toNat_lt.mp hlt
  simp at h1 h3
  omega

end Quoted

namespace Quoted

/-- well-formed UTF-8, inductively: a scalar value at the front, then well-formed -/
inductive WF : Bytes → Prop
  | nil : WF []
  | step (b : Bytes) (cp : Nat) (r : Bytes) : decodeOne b = some (cp, r) → WF r → WF b

theorem decodeOne_length (b : Bytes) (cp : Nat) (r : Bytes) (h : decodeOne b = some (cp, r)) :
    r.length < b.length := by
  unfold decodeOne at h
  split at h
  · simp at h
  · split at h
    · simp only [Option.some.injEq, Prod.mk.injEq] at h
      obtain ⟨_, rfl⟩ := h; simp only [List.length_cons]; omega
    · split at h
      · simp at h
      · split at h
        · simp only [Option.some.injEq, Prod.mk.injEq] at h
          obtain ⟨_, rfl⟩ := h; simp only [List.length_cons]; omega
        · split at h
          · simp at h
          · split at h
            · simp only [Option.some.injEq, Prod.mk.injEq] at h
              obtain ⟨_, rfl⟩ := h; simp only [List.length_cons]; omega
            · split at h
              · simp at h
              · split at h
                · simp only [Option.some.injEq, Prod.mk.injEq] at h
                  obtain ⟨_, rfl⟩ := h; simp only [List.length_cons]; omega
                · simp at h

theorem wf_of_decode : ∀ fuel b acc, (decodeUtf8Go fuel b acc).isSome = true → WF b := by
  intro fuel
  induction fuel with
  | zero =>
    intro b acc h
    cases b with
    | nil => exact WF.nil
    | cons x xs => simp [decodeUtf8Go] at h
  | succ n ih =>
    intro b acc h
    cases b with
    | nil => exact WF.nil
    | cons x xs =>
      simp only [decodeUtf8Go] at h
      split at h
      · rename_i cp r hd
        exact WF.step _ cp r hd (ih r _ h)
      · simp at h

theorem decode_of_wf (b : Bytes) (hw : WF b) : ∀ fuel acc, b.length ≤ fuel →
    (decodeUtf8Go fuel b acc).isSome = true := by
  induction hw with
  | nil => intro fuel acc _; cases fuel <;> simp [decodeUtf8Go]
  | step b cp r hd _ ih =>
    intro fuel acc hf
    have hl := decodeOne_length b cp r hd
    cases b with
    | nil => simp [decodeOne] at hd
    | cons x xs =>
      cases fuel with
      | zero => simp at hf
      | succ n =>
        simp only [decodeUtf8Go, hd]
        exact ih n _ (by simp at hf hl ⊢; omega)

theorem validUtf8_iff_wf (b : Bytes) : validUtf8 b = true ↔ WF b := by
  unfold validUtf8 decodeUtf8
  constructor
  · exact wf_of_decode _ _ _
  · intro h; exact decode_of_wf b h _ _ (Nat.le_refl _)

theorem wf_ascii (a : UInt8) (r : Bytes) (ha : a < 0x80) (hr : WF r) : WF (a :: r) :=
  WF.step _ a.toNat r (by simp [decodeOne, ha]) hr

theorem cont_of_second3 (a b : UInt8) (h : second3 a b = true) : (b == 92 || b == 34) = false := by
  unfold second3 at h
  split at h
  · exact range_not_special b 0xA0 0xBF (by decide) h
  · split at h
    · exact range_not_special b 0x80 0x9F (by decide) h
    · exact cont_not_special b h

theorem cont_of_second4 (a b : UInt8) (h : second4 a b = true) : (b == 92 || b == 34) = false := by
  unfold second4 at h
  split at h
  · exact range_not_special b 0x90 0xBF (by decide) h
  · split at h
    · exact range_not_special b 0x80 0x8F (by decide) h
    · exact cont_not_special b h

set_option maxRecDepth 20000 in
theorem wf_escape (b : Bytes) (hw : WF b) : WF (escape b) := by
  induction hw with
  | nil => exact WF.nil
  | step b cp r hd _ ih =>
    match b, hd with
    | [], hd => simp [decodeOne] at hd
    | a :: t, hd =>
      by_cases ha : a < 0x80
      · simp only [decodeOne, ha, if_true, Option.some.injEq, Prod.mk.injEq] at hd
        obtain ⟨_, rfl⟩ := hd
        simp only [escape]
        split
        · exact wf_ascii 92 _ (by decide) (wf_ascii a _ ha ih)
        · exact wf_ascii a _ ha ih
      · have hsa := ge80_not_special a ha
        match t, hd with
        | [], hd => simp [decodeOne, ha] at hd
        | x :: t1, hd =>
          by_cases h2 : ok2 a x = true
          · simp only [decodeOne, ha, h2, if_true, if_false, Option.some.injEq, Prod.mk.injEq] at hd
            obtain ⟨_, rfl⟩ := hd
            have hx : (x == 92 || x == 34) = false := by
              simp only [ok2, Bool.and_eq_true] at h2
              exact cont_not_special x h2.2
            simp only [escape, hsa, hx, Bool.false_eq_true, if_false]
            exact WF.step _ (cp2 a x) _ (by simp [decodeOne, ha, h2]) ih
          · match t1, hd with
            | [], hd => simp [decodeOne, ha, h2] at hd
            | y :: t2, hd =>
              by_cases h3 : ok3 a x y = true
              · simp only [decodeOne, ha, h2, h3, if_true, if_false, Option.some.injEq, Prod.mk.injEq] at hd
                obtain ⟨_, rfl⟩ := hd
                simp only [ok3, Bool.and_eq_true] at h3
                have hx := cont_of_second3 a x h3.1.2
                have hy := cont_not_special y h3.2
                simp only [escape, hsa, hx, hy, Bool.false_eq_true, if_false]
                refine WF.step _ (cp3 a x y) _ ?_ ih
                have h3' : ok3 a x y = true := by simp [ok3, h3]
                simp [decodeOne, ha, h2, h3']
              · match t2, hd with
                | [], hd => simp [decodeOne, ha, h2, h3] at hd
                | z :: t3, hd =>
                  by_cases h4 : ok4 a x y z = true
                  · simp only [decodeOne, ha, h2, h3, h4, if_true, if_false, Option.some.injEq, Prod.mk.injEq] at hd
                    obtain ⟨_, rfl⟩ := hd
                    simp only [ok4, Bool.and_eq_true] at h4
                    have hx := cont_of_second4 a x h4.1.1.2
                    have hy := cont_not_special y h4.1.2
                    have hz := cont_not_special z h4.2
                    simp only [escape, hsa, hx, hy, hz, Bool.false_eq_true, if_false]
                    refine WF.step _ (cp4 a x y z) _ ?_ ih
                    have h4' : ok4 a x y z = true := by simp [ok4, h4]
                    simp [decodeOne, ha, h2, h3, h4']
                  · simp [decodeOne, ha, h2, h3, h4] at hd

/-- escaping preserves UTF-8 validity -/
theorem escape_utf8 (s : Bytes) (h : validUtf8 s = true) : validUtf8 (escape s) = true :=
  (validUtf8_iff_wf _).mpr (wf_escape s ((validUtf8_iff_wf s).mp h))

end Quoted
