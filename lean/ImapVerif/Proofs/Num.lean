/-
  Decimal conversion lemmas and the three facts about `numberB` (the model of `number`/`number_64`):
  sound (what is accepted is exactly the value of the digits consumed, and below the bound),
  complete (every in-range numeral, with any zero padding, is accepted with exactly its value),
  rejecting (every out-of-range numeral is `Err::Error`; nothing wraps).
-/
import ImapVerif.Grammar.Core

open Bytes Parser Grammar

namespace Num

theorem digitVal_digitOf (k : Nat) (h : k < 10) : digitVal (digitOf k) = k := by
  unfold digitVal digitOf
  have : (UInt8.ofNat (48 + k)).toNat = 48 + k := by
    simp [UInt8.toNat_ofNat]; omega
  omega

theorem isDigit_digitOf (k : Nat) (h : k < 10) : isDigit (digitOf k) = true := by
  have hh : ∀ k : Fin 10, isDigit (digitOf k.val) = true := by decide
  exact hh ⟨k, h⟩

theorem decVal_append_single (a : Bytes) (d : UInt8) : decVal (a ++ [d]) = decVal a * 10 + digitVal d := by
  simp [decVal, List.foldl_append]

theorem decVal_decDigits (n : Nat) : decVal (decDigits n) = n := by
  induction n using Nat.strongRecOn with
  | _ n ih =>
    rw [decDigits]
    split
    · rename_i h; simp [decVal, digitVal_digitOf n h]
    · rename_i h
      rw [decVal_append_single, ih (n / 10) (by omega), digitVal_digitOf _ (Nat.mod_lt _ (by omega))]
      omega

theorem decDigits_all (n : Nat) : ∀ d ∈ decDigits n, isDigit d = true := by
  induction n using Nat.strongRecOn with
  | _ n ih =>
    rw [decDigits]
    split
    · rename_i h; simp [isDigit_digitOf n h]
    · rename_i h
      intro d hd
      simp only [List.mem_append, List.mem_singleton] at hd
      rcases hd with hd | hd
      · exact ih (n / 10) (by omega) d hd
      · subst hd; exact isDigit_digitOf _ (Nat.mod_lt _ (by omega))

theorem decDigits_ne_nil (n : Nat) : decDigits n ≠ [] := by
  rw [decDigits]; split <;> simp

theorem decVal_zeros (z : Nat) (ds : Bytes) : decVal (List.replicate z 48 ++ ds) = decVal ds := by
  induction z with
  | zero => simp
  | succ z ih =>
    simp only [List.replicate_succ, List.cons_append]
    unfold decVal at ih ⊢
    simp only [List.foldl_cons]
    have : (0 : Nat) * 10 + digitVal 48 = 0 := by decide
    rw [this]; exact ih

theorem takeWhile_digits (ds : Bytes) (c : UInt8) (r : Bytes) (hall : ∀ d ∈ ds, isDigit d = true)
    (hc : isDigit c = false) :
    (ds ++ c :: r).takeWhile isDigit = ds ∧ (ds ++ c :: r).dropWhile isDigit = c :: r := by
  induction ds with
  | nil => simp [List.takeWhile_cons, List.dropWhile_cons, hc]
  | cons d ds ih =>
    have hd := hall d (by simp)
    have := ih (fun x hx => hall x (by simp [hx]))
    simp [List.takeWhile_cons, List.dropWhile_cons, hd, this.1, this.2]

/-- `numberB` on a digit run followed by a non-digit: decided by the value alone -/
theorem numberB_eval (bound : Nat) (ds : Bytes) (hne : ds ≠ []) (hall : ∀ d ∈ ds, isDigit d = true)
    (c : UInt8) (r : Bytes) (hc : isDigit c = false) :
    numberB bound (ds ++ c :: r) =
      if decVal ds < bound then .ok (decVal ds) (c :: r) else .err := by
  have := takeWhile_digits ds c r hall hc
  unfold numberB mapRes takeWhile1
  rw [this.1, this.2]
  cases ds with
  | nil => exact absurd rfl hne
  | cons d ds' =>
    simp only
    by_cases hlt : decVal (d :: ds') < bound <;> simp [hlt]

/-- accept half: exact conversion, any zero padding -/
theorem numberB_complete (bound n z : Nat) (hn : n < bound) (c : UInt8) (r : Bytes)
    (hc : isDigit c = false) :
    numberB bound (List.replicate z 48 ++ decDigits n ++ c :: r) = .ok n (c :: r) := by
  have hall : ∀ d ∈ List.replicate z 48 ++ decDigits n, isDigit d = true := by
    intro d hd
    simp only [List.mem_append, List.mem_replicate] at hd
    rcases hd with ⟨_, rfl⟩ | hd
    · decide
    · exact decDigits_all n d hd
  have hne : List.replicate z 48 ++ decDigits n ≠ [] := by
    simp [decDigits_ne_nil]
  rw [numberB_eval bound _ hne hall c r hc]
  simp [decVal_zeros, decVal_decDigits, hn]

/-- reject half: a numeral beyond the range is `Err::Error`, never a wrapped value -/
theorem numberB_rejects (bound : Nat) (ds : Bytes) (hne : ds ≠ []) (hall : ∀ d ∈ ds, isDigit d = true)
    (hbig : bound ≤ decVal ds) (c : UInt8) (r : Bytes) (hc : isDigit c = false) :
    numberB bound (ds ++ c :: r) = .err := by
  rw [numberB_eval bound ds hne hall c r hc]
  have : ¬ decVal ds < bound := by omega
  simp [this]

/-- soundness: whatever is accepted is the exact value of the digits consumed, and in range -/
theorem numberB_sound (bound : Nat) (b : Bytes) (n : Nat) (r : Bytes) (h : numberB bound b = .ok n r) :
    ∃ ds, b = ds ++ r ∧ ds ≠ [] ∧ (∀ d ∈ ds, isDigit d = true) ∧ decVal ds = n ∧ n < bound ∧
      (∀ c r', r = c :: r' → isDigit c = false) ∧ r ≠ [] := by
  unfold numberB mapRes takeWhile1 at h
  split at h <;> try cases h
  rename_i v1 r1 h1
  split at h1 <;> try cases h1
  rename_i c r' hdrop
  split at h1 <;> try cases h1
  rename_i a as htw
  split at h <;> try cases h
  rename_i w hw
  simp only at hw
  split at hw <;> try cases hw
  rename_i hlt
  refine ⟨b.takeWhile isDigit, ?_, ?_, ?_, by rw [htw], by rw [htw] at *; exact hlt, ?_, by simp⟩
  · rw [← hdrop]; exact (List.takeWhile_append_dropWhile (p := isDigit) (l := b)).symm
  · rw [htw]; simp
  · intro d hd; exact (List.all_eq_true.mp (List.all_takeWhile (l := b) (p := isDigit))) d hd
  · intro c0 r0 he
    cases he
    have := List.head_dropWhile_not (p := isDigit) (l := b) (by rw [hdrop]; simp)
    simpa [hdrop] using this

end Num
