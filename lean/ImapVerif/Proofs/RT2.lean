/-
  Round-trip, second layer: repetition rules, astring / atom / mailbox / text, address and envelope.
-/
import ImapVerif.Proofs.RT

open Bytes Parser Grammar

namespace RT

/-! ### repetition -/

theorem many0Go_items {p : Parser α} (G F : Bytes → Prop)
    (hG_F : ∀ r, F r → G r) (hstop : ∀ r, F r → p r = .err) :
    ∀ (items : List (Bytes × α)),
      (∀ x ∈ items, Parses p x.1 x.2 G) → (∀ x ∈ items, x.1 ≠ []) →
      (∀ x ∈ items, ∀ r, G (x.1 ++ r)) →
      ∀ (fuel : Nat) (acc : List α) (rest : Bytes), F rest →
        ((items.map (·.1)).flatten ++ rest).length < fuel →
        many0Go p fuel ((items.map (·.1)).flatten ++ rest) acc = .ok (acc.reverse ++ items.map (·.2)) rest := by
  intro items
  induction items with
  | nil =>
    intro _ _ _ fuel acc rest hF hfuel
    cases fuel with
    | zero => simp at hfuel
    | succ n => simp [many0Go, hstop rest hF]
  | cons x xs ih =>
    intro hp hne hGi fuel acc rest hF hfuel
    cases fuel with
    | zero => simp at hfuel
    | succ n =>
      have hx := hp x (by simp)
      have hfollow : G ((xs.map (·.1)).flatten ++ rest) := by
        cases xs with
        | nil => simpa using hG_F rest hF
        | cons y ys =>
          have := hGi y (by simp) ((ys.map (·.1)).flatten ++ rest)
          simpa [List.append_assoc] using this
      have hpx := hx _ hfollow
      simp only [List.map_cons, List.flatten_cons, List.append_assoc] at hfuel ⊢
      simp only [many0Go, hpx]
      have hlen : ((xs.map (·.1)).flatten ++ rest).length < (x.1 ++ ((xs.map (·.1)).flatten ++ rest)).length := by
        have := hne x (by simp)
        cases hx1 : x.1 with
        | nil => exact absurd hx1 this
        | cons a as => simp; omega
      simp only [hlen, if_true]
      have := ih (fun y hy => hp y (by simp [hy])) (fun y hy => hne y (by simp [hy]))
        (fun y hy => hGi y (by simp [hy])) n (x.2 :: acc) rest hF
        (by
          have h1 : 1 ≤ x.1.length := by
            have := hne x (by simp)
            cases hx1 : x.1 with
            | nil => exact absurd hx1 this
            | cons a as => simp
          rw [List.length_append] at hfuel; omega)
      rw [this]; simp

/-- `many0 p` reads a sequence of items: every item is followed either by another item or by the
    final continuation, on which `p` fails -/
theorem Parses.many0 {p : Parser α} (G F : Bytes → Prop) (items : List (Bytes × α))
    (hp : ∀ x ∈ items, Parses p x.1 x.2 G) (hne : ∀ x ∈ items, x.1 ≠ [])
    (hGi : ∀ x ∈ items, ∀ r, G (x.1 ++ r)) (hG_F : ∀ r, F r → G r) (hstop : ∀ r, F r → p r = .err) :
    Parses (Parser.many0 p) (items.map (·.1)).flatten (items.map (·.2)) F := by
  intro rest hF
  unfold Parser.many0
  have := many0Go_items G F hG_F hstop items hp hne hGi
    (((items.map (·.1)).flatten ++ rest).length + 1) [] rest hF (by omega)
  simpa using this

/-- `many1 p`: a mandatory first item, then as `many0` -/
theorem Parses.many1 {p : Parser α} (G F : Bytes → Prop) (x : Bytes × α) (items : List (Bytes × α))
    (hp : ∀ y ∈ x :: items, Parses p y.1 y.2 G) (hne : ∀ y ∈ items, y.1 ≠ [])
    (hGi : ∀ y ∈ items, ∀ r, G (y.1 ++ r)) (hG_F : ∀ r, F r → G r) (hstop : ∀ r, F r → p r = .err) :
    Parses (Parser.many1 p) (x.1 ++ (items.map (·.1)).flatten) (x.2 :: items.map (·.2)) F := by
  intro rest hF
  unfold Parser.many1
  have hfollow : G ((items.map (·.1)).flatten ++ rest) := by
    cases items with
    | nil => simpa using hG_F rest hF
    | cons y ys =>
      have := hGi y (by simp) ((ys.map (·.1)).flatten ++ rest)
      simpa [List.append_assoc] using this
  rw [List.append_assoc, hp x (by simp) _ hfollow]
  have := many0Go_items G F hG_F hstop items (fun y hy => hp y (by simp [hy])) hne hGi
    (((items.map (·.1)).flatten ++ rest).length + 1) [x.2] rest hF (by omega)
  simpa using this

theorem sepGo_items {sep : Parser Unit} {p : Parser α} (se : Bytes) (hse : se ≠ []) (G F : Bytes → Prop)
    (hsep : Parses sep se () Any) (hG_F : ∀ r, F r → G r) (hstop : ∀ r, F r → sep r = .err) :
    ∀ (items : List (Bytes × α)),
      (∀ x ∈ items, Parses p x.1 x.2 G) → (∀ r, G (se ++ r)) →
      ∀ (fuel : Nat) (acc : List α) (rest : Bytes), F rest →
        ((items.map (fun x => se ++ x.1)).flatten ++ rest).length < fuel →
        sepGo sep p fuel ((items.map (fun x => se ++ x.1)).flatten ++ rest) acc
          = .ok (acc.reverse ++ items.map (·.2)) rest := by
  intro items
  induction items with
  | nil =>
    intro _ _ fuel acc rest hF hfuel
    cases fuel with
    | zero => simp at hfuel
    | succ n => simp [sepGo, hstop rest hF]
  | cons x xs ih =>
    intro hp hGs fuel acc rest hF hfuel
    cases fuel with
    | zero => simp at hfuel
    | succ n =>
      have hx := hp x (by simp)
      have hfollow : G ((xs.map (fun y => se ++ y.1)).flatten ++ rest) := by
        cases xs with
        | nil => simpa using hG_F rest hF
        | cons y ys =>
          have := hGs (y.1 ++ ((ys.map (fun y => se ++ y.1)).flatten ++ rest))
          simpa [List.append_assoc] using this
      simp only [List.map_cons, List.flatten_cons, List.append_assoc] at hfuel ⊢
      simp only [sepGo]
      rw [hsep _ trivial]
      have hlen : (x.1 ++ ((xs.map (fun y => se ++ y.1)).flatten ++ rest)).length
          < (se ++ (x.1 ++ ((xs.map (fun y => se ++ y.1)).flatten ++ rest))).length := by
        cases hs : se with
        | nil => exact absurd hs hse
        | cons a as => simp; omega
      simp only [hlen, if_true]
      rw [hx _ hfollow]
      simp only
      have := ih (fun y hy => hp y (by simp [hy])) hGs n (x.2 :: acc) rest hF
        (by
          have h1 : 1 ≤ se.length := by
            cases hs : se with
            | nil => exact absurd hs hse
            | cons a as => simp
          rw [List.length_append, List.length_append] at hfuel; omega)
      rw [this]; simp

/-- `separated_list1(sep, p)`: items separated by the fixed separator encoding `se` -/
theorem Parses.sepList1 {sep : Parser Unit} {p : Parser α} (se : Bytes) (hse : se ≠ []) (G F : Bytes → Prop)
    (x : Bytes × α) (items : List (Bytes × α))
    (hsep : Parses sep se () Any) (hp : ∀ y ∈ x :: items, Parses p y.1 y.2 G)
    (hGs : ∀ r, G (se ++ r)) (hG_F : ∀ r, F r → G r) (hstop : ∀ r, F r → sep r = .err) :
    Parses (Parser.sepList1 sep p) (x.1 ++ (items.map (fun y => se ++ y.1)).flatten) (x.2 :: items.map (·.2)) F := by
  intro rest hF
  unfold Parser.sepList1
  have hfollow : G ((items.map (fun y => se ++ y.1)).flatten ++ rest) := by
    cases items with
    | nil => simpa using hG_F rest hF
    | cons y ys =>
      have := hGs (y.1 ++ ((ys.map (fun y => se ++ y.1)).flatten ++ rest))
      simpa [List.append_assoc] using this
  rw [List.append_assoc, hp x (by simp) _ hfollow]
  have := sepGo_items se hse G F hsep hG_F hstop items (fun y hy => hp y (by simp [hy])) hGs
    (((items.map (fun y => se ++ y.1)).flatten ++ rest).length + 1) [x.2] rest hF (by omega)
  simpa using this

/-- `separated_list0(sep, p)` on a non-empty list -/
theorem Parses.sepList0_cons {sep : Parser Unit} {p : Parser α} (se : Bytes) (hse : se ≠ []) (G F : Bytes → Prop)
    (x : Bytes × α) (items : List (Bytes × α))
    (hsep : Parses sep se () Any) (hp : ∀ y ∈ x :: items, Parses p y.1 y.2 G)
    (hGs : ∀ r, G (se ++ r)) (hG_F : ∀ r, F r → G r) (hstop : ∀ r, F r → sep r = .err) :
    Parses (Parser.sepList0 sep p) (x.1 ++ (items.map (fun y => se ++ y.1)).flatten) (x.2 :: items.map (·.2)) F := by
  intro rest hF
  unfold Parser.sepList0
  have hfollow : G ((items.map (fun y => se ++ y.1)).flatten ++ rest) := by
    cases items with
    | nil => simpa using hG_F rest hF
    | cons y ys =>
      have := hGs (y.1 ++ ((ys.map (fun y => se ++ y.1)).flatten ++ rest))
      simpa [List.append_assoc] using this
  rw [List.append_assoc, hp x (by simp) _ hfollow]
  have := sepGo_items se hse G F hsep hG_F hstop items (fun y hy => hp y (by simp [hy])) hGs
    (((items.map (fun y => se ++ y.1)).flatten ++ rest).length + 1) [x.2] rest hF (by omega)
  simpa using this

/-- `separated_list0(sep, p)` on the empty list: `p` fails on what follows -/
theorem Parses.sepList0_nil {sep : Parser Unit} {p : Parser α} {F : Bytes → Prop}
    (hstop : ∀ r, F r → p r = .err) : Parses (Parser.sepList0 sep p) [] ([] : List α) F := by
  intro rest hF
  unfold Parser.sepList0
  simp [hstop rest hF]

/-! ### astring, atom, mailbox, text -/

def notAstringChar (c : UInt8) : Bool := !isAstringChar c
def notAtomChar (c : UInt8) : Bool := !isAtomChar c
def notTextChar (c : UInt8) : Bool := !isTextChar c

/-- astring = 1*ASTRING-CHAR / string -/
inductive EncAString (s : Bytes) : Bytes → Prop
  | atom : s ≠ [] → (∀ c ∈ s, isAstringChar c = true) → EncAString s s
  | str (e : Bytes) : EncString s e → EncAString s e

theorem astring_enc (s e : Bytes) (h : EncAString s e) : Parses astring e s (Starts notAstringChar) := by
  cases h with
  | atom hne hall => exact Parses.altL (takeWhile1_ok isAstringChar s hne hall)
  | str e hs =>
    refine Parses.altR ((string_enc s e hs).weaken (fun _ _ => trivial)) ?_
    intro rest _
    obtain ⟨t, ht | ht⟩ := encString_head s e hs
    · subst ht; exact takeWhile1_err _ _ _ (by decide)
    · subst ht; exact takeWhile1_err _ _ _ (by decide)

theorem astringUtf8_enc (s e : Bytes) (h : EncAString s e) (hu : validUtf8 s = true) :
    Parses astringUtf8 e s (Starts notAstringChar) :=
  Parses.mapRes _ s (astring_enc s e h) (by simp [utf8, hu])

/-- the canonical form of a mailbox name: INBOX in any case is INBOX -/
def canonMailbox (s : Bytes) : Bytes := if eqIgnoreAsciiCase s (b!"INBOX") then b!"INBOX" else s

theorem mailbox_enc (s e : Bytes) (h : EncAString s e) (hu : validUtf8 s = true) :
    Parses mailbox e (canonMailbox s) (Starts notAstringChar) :=
  Parses.map _ (astringUtf8_enc s e h hu)

theorem atom_enc (s : Bytes) (hne : s ≠ []) (hall : ∀ c ∈ s, isAtomChar c = true) (hu : validUtf8 s = true) :
    Parses atom s s (Starts notAtomChar) :=
  Parses.mapRes _ s (takeWhile1_ok isAtomChar s hne hall) (by simp [utf8, hu])

theorem text_enc (s : Bytes) (hall : ∀ c ∈ s, isTextChar c = true) (hu : validUtf8 s = true) :
    Parses text s s (Starts notTextChar) :=
  Parses.mapRes _ s (takeWhile_ok isTextChar s hall) (by simp [utf8, hu])

/-- 7-bit text is valid UTF-8 -/
theorem ascii_utf8 (s : Bytes) (h : ∀ c ∈ s, c < 0x80) : validUtf8 s = true := by
  unfold validUtf8 decodeUtf8
  suffices ∀ (fuel : Nat) (acc : List Nat), s.length ≤ fuel → (decodeUtf8Go fuel s acc).isSome = true from
    this _ _ (Nat.le_refl _)
  induction s with
  | nil => intro fuel acc _; cases fuel <;> simp [decodeUtf8Go]
  | cons c cs ih =>
    intro fuel acc hf
    cases fuel with
    | zero => simp at hf
    | succ n =>
      have hc := h c (by simp)
      simp only [decodeUtf8Go, decodeOne, hc, if_true]
      exact ih (fun x hx => h x (by simp [hx])) n _ (by simp at hf; omega)

theorem textChar_ascii (c : UInt8) (h : isTextChar c = true) : c < 0x80 := by
  have key : ∀ n : Fin 256, isTextChar (UInt8.ofNat n.val) = true → (UInt8.ofNat n.val) < 0x80 := by
    decide +kernel
  have := key ⟨c.toNat, c.toNat_lt⟩
  simp at this
  exact this h

end RT
