/-
  Round-trip, fourth layer: FETCH attributes (msg-att), the attribute list, FETCH responses, and the
  untagged-response wrapper; plus the simple untagged data responses.
-/
import ImapVerif.Proofs.RTSection

open Bytes Parser Grammar

namespace RT

theorem msgAttBodySection_err (u m r) (h : mismatch (b!"BODY") u = true) :
    msgAttBodySection (spell u m ++ r) = .err := by unfold msgAttBodySection; exact kwBind_err _ _ u m r h
theorem msgAttBodyStructure_err (u m r) (h : mismatch (b!"BODYSTRUCTURE ") u = true) :
    msgAttBodyStructure (spell u m ++ r) = .err := by unfold msgAttBodyStructure; exact kwBind_err _ _ u m r h
theorem msgAttBody_err (u m r) (h : mismatch (b!"BODY ") u = true) :
    msgAttBody (spell u m ++ r) = .err := by unfold msgAttBody; exact kwBind_err _ _ u m r h
theorem msgAttEnvelope_err (u m r) (h : mismatch (b!"ENVELOPE ") u = true) :
    msgAttEnvelope (spell u m ++ r) = .err := by unfold msgAttEnvelope; exact kwBind_err _ _ u m r h
theorem msgAttInternalDate_err (u m r) (h : mismatch (b!"INTERNALDATE ") u = true) :
    msgAttInternalDate (spell u m ++ r) = .err := by
  unfold msgAttInternalDate; exact mapRes_err _ _ _ (kwBind_err _ _ u m r h)
theorem msgAttFlags_err (u m r) (h : mismatch (b!"FLAGS ") u = true) :
    msgAttFlags (spell u m ++ r) = .err := by unfold msgAttFlags; exact kwBind_err _ _ u m r h
theorem msgAttModSeq_err (u m r) (h : mismatch (b!"MODSEQ ") u = true) :
    msgAttModSeq (spell u m ++ r) = .err := by unfold msgAttModSeq; exact kwBind_err _ _ u m r h
theorem msgAttRfc822_err (u m r) (h : mismatch (b!"RFC822 ") u = true) :
    msgAttRfc822 (spell u m ++ r) = .err := by unfold msgAttRfc822; exact kwBind_err _ _ u m r h
theorem msgAttRfc822Header_err (u m r) (h : mismatch (b!"RFC822.HEADER ") u = true) :
    msgAttRfc822Header (spell u m ++ r) = .err := by unfold msgAttRfc822Header; exact kwBind_err _ _ u m r h
theorem msgAttRfc822Size_err (u m r) (h : mismatch (b!"RFC822.SIZE ") u = true) :
    msgAttRfc822Size (spell u m ++ r) = .err := by unfold msgAttRfc822Size; exact kwBind_err _ _ u m r h
theorem msgAttRfc822Text_err (u m r) (h : mismatch (b!"RFC822.TEXT ") u = true) :
    msgAttRfc822Text (spell u m ++ r) = .err := by unfold msgAttRfc822Text; exact kwBind_err _ _ u m r h
theorem msgAttUid_err (u m r) (h : mismatch (b!"UID ") u = true) :
    msgAttUid (spell u m ++ r) = .err := by unfold msgAttUid; exact kwBind_err _ _ u m r h
theorem msgAttGmailLabels_err (u m r) (h : mismatch (b!"X-GM-LABELS ") u = true) :
    msgAttGmailLabels (spell u m ++ r) = .err := by
  unfold msgAttGmailLabels gmailLabelList; exact map_err _ _ _ (kwBind_err _ _ u m r h)

/-! ### `BODY` as a prefix of `BODYSTRUCTURE ` and of `BODY ` -/

theorem section_err (x : UInt8) (r : Bytes) (h : (x == 91) = false) : section_ (x :: r) = .err := by
  simp [section_, Bind.bind, Parser.bindP, char, h]

theorem msgAttBodySection_err_structure (m : List Bool) (r : Bytes) :
    msgAttBodySection (spell (b!"BODYSTRUCTURE ") m ++ r) = .err := by
  have hsp : spell (b!"BODYSTRUCTURE ") m = spell (b!"BODY") m ++ spell (b!"STRUCTURE ") (m.drop 4) :=
    spell_append (b!"BODY") (b!"STRUCTURE ") m
  obtain ⟨c', hc', hcc⟩ := spell_cons 83 (b!"TRUCTURE ") (m.drop 4)
  unfold msgAttBodySection
  show Parser.bindP (tagNoCase (b!"BODY")) _ _ = .err
  unfold Parser.bindP
  rw [hsp, List.append_assoc, tagNoCase_spell (b!"BODY") m _ trivial]
  show Parser.bindP section_ _ _ = .err
  unfold Parser.bindP
  have : spell (b!"STRUCTURE ") (m.drop 4) = c' :: spell (b!"TRUCTURE ") (m.drop 4).tail := hc'
  rw [this, List.cons_append, section_err c' _ (by rcases hcc with rfl | rfl <;> decide)]

theorem msgAttBodySection_err_body (m : List Bool) (r : Bytes) :
    msgAttBodySection (spell (b!"BODY ") m ++ r) = .err := by
  have hsp : spell (b!"BODY ") m = spell (b!"BODY") m ++ spell (b!" ") (m.drop 4) :=
    spell_append (b!"BODY") (b!" ") m
  obtain ⟨c', hc', hcc⟩ := spell_cons 32 [] (m.drop 4)
  unfold msgAttBodySection
  show Parser.bindP (tagNoCase (b!"BODY")) _ _ = .err
  unfold Parser.bindP
  rw [hsp, List.append_assoc, tagNoCase_spell (b!"BODY") m _ trivial]
  show Parser.bindP section_ _ _ = .err
  unfold Parser.bindP
  have : spell (b!" ") (m.drop 4) = c' :: spell [] (m.drop 4).tail := hc'
  rw [this, List.cons_append, section_err c' _ (by rcases hcc with rfl | rfl <;> decide)]

/-! ### attributes -/

/-- the wire forms of the fetch attributes covered so far (keyword in any letter case) -/
inductive EncAttr : AttributeValue → Bytes → Prop
  | envelope (m : List Bool) (v : Envelope) (e : Bytes) : EncEnvelope v e →
      EncAttr (.envelope v) (spell (b!"ENVELOPE ") m ++ e)
  | internalDate (m : List Bool) (s e : Bytes) : EncString s e → validUtf8 s = true →
      EncAttr (.internalDate s) (spell (b!"INTERNALDATE ") m ++ e)
  | modSeq (m : List Bool) (n : Nat) (e : Bytes) : n < 2 ^ 64 → EncNumber n e →
      EncAttr (.modSeq n) (spell (b!"MODSEQ ") m ++ ([40] ++ e ++ [41]))
  | rfc822 (m : List Bool) (v : Option Bytes) (e : Bytes) : EncNString v e →
      EncAttr (.rfc822 v) (spell (b!"RFC822 ") m ++ e)
  | rfc822Header (m : List Bool) (v : Option Bytes) (e : Bytes) (extraSpace : Bool) : EncNString v e →
      EncAttr (.rfc822Header v) (spell (b!"RFC822.HEADER ") m ++ ((if extraSpace then [32] else []) ++ e))
  | rfc822Size (m : List Bool) (n : Nat) (e : Bytes) : n < 2 ^ 32 → EncNumber n e →
      EncAttr (.rfc822Size n) (spell (b!"RFC822.SIZE ") m ++ e)
  | rfc822Text (m : List Bool) (v : Option Bytes) (e : Bytes) : EncNString v e →
      EncAttr (.rfc822Text v) (spell (b!"RFC822.TEXT ") m ++ e)
  | uid (m : List Bool) (n : Nat) (e : Bytes) : n < 2 ^ 32 → EncNumber n e →
      EncAttr (.uid n) (spell (b!"UID ") m ++ e)
  | gmailMsgId (m : List Bool) (n : Nat) (e : Bytes) : n < 2 ^ 64 → EncNumber n e →
      EncAttr (.gmailMsgId n) (spell (b!"X-GM-MSGID ") m ++ e)
  | bodySection (m : List Bool) (sect : Option SectionPath) (es : Bytes) (idx : Option Nat) (eo : Bytes)
      (data : Option Bytes) (ed : Bytes) : EncSection sect es → EncOrigin idx eo → EncNString data ed →
      EncAttr (.bodySection sect idx data) (spell (b!"BODY") m ++ (es ++ (eo ++ (b!" " ++ ed))))
  | bodyStructure (m : List Bool) (b : BodyStructure) (e : Bytes) : EncBody 33 b e →
      EncAttr (.bodyStructure b) (spell (b!"BODYSTRUCTURE ") m ++ e)
  /-- the non-extensible form `BODY (...)` yields the same value kind -/
  | body (m : List Bool) (b : BodyStructure) (e : Bytes) : EncBody 33 b e →
      EncAttr (.bodyStructure b) (spell (b!"BODY ") m ++ e)
  | flags (m : List Bool) (vs : List Bytes) (e : Bytes) : EncList EncFlagPerm vs e →
      EncAttr (.flags vs) (spell (b!"FLAGS ") m ++ e)
  | gmailLabels (m : List Bool) (vs : List Bytes) (e : Bytes) : EncList EncLabel vs e →
      EncAttr (.gmailLabels vs) (spell (b!"X-GM-LABELS ") m ++ e)

theorem encNString_head (v : Option Bytes) (e : Bytes) (h : EncNString v e) :
    ∃ c t, e = c :: t ∧ (c = 34 ∨ c = 123 ∨ c = 78 ∨ c = 110) := by
  cases h with
  | nil m =>
    cases m with
    | nil => exact ⟨78, _, rfl, by simp⟩
    | cons b bs => cases b <;> simp [spell, flipCase]
  | some s e hs =>
    obtain ⟨t, ht | ht⟩ := encString_head s e hs
    · exact ⟨34, t, ht, by simp⟩
    · exact ⟨123, t, ht, by simp⟩

set_option maxHeartbeats 800000 in
theorem msgAtt_enc (v : AttributeValue) (e : Bytes) (h : EncAttr v e) :
    Parses msgAtt e v (Starts spaceOrClose) := by
  unfold msgAtt
  cases h with
  | envelope m v e he =>
    refine Parses.altR (Parses.altR (Parses.altR (Parses.altL ?_) ?_) ?_) ?_
    · unfold msgAttEnvelope
      refine Parses.bind (tagNoCase_spell _ m) ?_ (fun _ _ => trivial)
      exact Parses.bind' (envelope_enc v e he Any) (Parses.pure _ _) (fun _ _ => trivial) (by simp)
    · intro rest _; rw [List.append_assoc]; exact msgAttBody_err _ _ _ (by decide)
    · intro rest _; rw [List.append_assoc]; exact msgAttBodyStructure_err _ _ _ (by decide)
    · intro rest _; rw [List.append_assoc]; exact msgAttBodySection_err _ _ _ (by decide)
  | internalDate m s e hs hu =>
    refine Parses.altR (Parses.altR (Parses.altR (Parses.altR (Parses.altL ?_) ?_) ?_) ?_) ?_
    · unfold msgAttInternalDate
      refine Parses.mapRes _ _ (v := some s) ?_ rfl
      refine Parses.bind (tagNoCase_spell _ m) ?_ (fun _ _ => trivial)
      exact (nstringUtf8_enc (some s) e (.some s e hs) (by intro s' hs'; cases hs'; exact hu)).weaken
        (fun _ _ => trivial)
    · intro rest _; rw [List.append_assoc]; exact msgAttEnvelope_err _ _ _ (by decide)
    · intro rest _; rw [List.append_assoc]; exact msgAttBody_err _ _ _ (by decide)
    · intro rest _; rw [List.append_assoc]; exact msgAttBodyStructure_err _ _ _ (by decide)
    · intro rest _; rw [List.append_assoc]; exact msgAttBodySection_err _ _ _ (by decide)
  | modSeq m n e hn he =>
    refine Parses.altR (Parses.altR (Parses.altR (Parses.altR (Parses.altR (Parses.altR (Parses.altL ?_)
      ?_) ?_) ?_) ?_) ?_) ?_
    · unfold msgAttModSeq
      refine Parses.bind (tagNoCase_spell _ m) ?_ (fun _ _ => trivial)
      refine Parses.bind' (parenDelimited_enc (e := e) (F := Any) ?_) (Parses.pure _ _) (fun _ _ => trivial) (by simp)
      exact (number_enc (2 ^ 64) n e he hn).weaken (fun r ⟨c, t, hr, hc⟩ =>
        ⟨c, t, hr, by have : c = 41 := by simpa using hc
                      subst this; decide⟩)
    · intro rest _; rw [List.append_assoc]; exact msgAttFlags_err _ _ _ (by decide)
    · intro rest _; rw [List.append_assoc]; exact msgAttInternalDate_err _ _ _ (by decide)
    · intro rest _; rw [List.append_assoc]; exact msgAttEnvelope_err _ _ _ (by decide)
    · intro rest _; rw [List.append_assoc]; exact msgAttBody_err _ _ _ (by decide)
    · intro rest _; rw [List.append_assoc]; exact msgAttBodyStructure_err _ _ _ (by decide)
    · intro rest _; rw [List.append_assoc]; exact msgAttBodySection_err _ _ _ (by decide)
  | rfc822 m v e he =>
    refine Parses.altR (Parses.altR (Parses.altR (Parses.altR (Parses.altR (Parses.altR (Parses.altR
      (Parses.altL ?_) ?_) ?_) ?_) ?_) ?_) ?_) ?_
    · unfold msgAttRfc822
      refine Parses.bind (tagNoCase_spell _ m) ?_ (fun _ _ => trivial)
      exact Parses.bind' (nstring_enc v e he) (Parses.pure _ _) (fun _ _ => trivial) (by simp)
    · intro rest _; rw [List.append_assoc]; exact msgAttModSeq_err _ _ _ (by decide)
    · intro rest _; rw [List.append_assoc]; exact msgAttFlags_err _ _ _ (by decide)
    · intro rest _; rw [List.append_assoc]; exact msgAttInternalDate_err _ _ _ (by decide)
    · intro rest _; rw [List.append_assoc]; exact msgAttEnvelope_err _ _ _ (by decide)
    · intro rest _; rw [List.append_assoc]; exact msgAttBody_err _ _ _ (by decide)
    · intro rest _; rw [List.append_assoc]; exact msgAttBodyStructure_err _ _ _ (by decide)
    · intro rest _; rw [List.append_assoc]; exact msgAttBodySection_err _ _ _ (by decide)
  | rfc822Header m v e sp he =>
    refine Parses.altR (Parses.altR (Parses.altR (Parses.altR (Parses.altR (Parses.altR (Parses.altR
      (Parses.altR (Parses.altL ?_) ?_) ?_) ?_) ?_) ?_) ?_) ?_) ?_
    · unfold msgAttRfc822Header
      refine Parses.bind (tagNoCase_spell _ m) ?_ (fun _ _ => trivial)
      cases sp with
      | true =>
        refine Parses.bind (Parses.optSome (tag_ok (b!" "))) ?_ (fun _ _ => trivial)
        exact Parses.bind' (nstring_enc v e he) (Parses.pure _ _) (fun _ _ => trivial) (by simp)
      | false =>
        obtain ⟨c, t, hct, hc⟩ := encNString_head v e he
        have hopt : Parses (opt (tag (b!" "))) [] none (fun r => ∃ t', r = c :: t') := by
          apply Parses.optNone
          intro rest ⟨t', ht'⟩
          subst ht'
          apply tag_err_first _ 32 c t' rfl
          rcases hc with rfl | rfl | rfl | rfl <;> decide
        refine Parses.bind hopt ?_ (fun r _ => ⟨t ++ r, by simp [hct]⟩)
        exact Parses.bind' (nstring_enc v e he) (Parses.pure _ _) (fun _ _ => trivial) (by simp)
    · intro rest _; rw [List.append_assoc]; exact msgAttRfc822_err _ _ _ (by decide)
    · intro rest _; rw [List.append_assoc]; exact msgAttModSeq_err _ _ _ (by decide)
    · intro rest _; rw [List.append_assoc]; exact msgAttFlags_err _ _ _ (by decide)
    · intro rest _; rw [List.append_assoc]; exact msgAttInternalDate_err _ _ _ (by decide)
    · intro rest _; rw [List.append_assoc]; exact msgAttEnvelope_err _ _ _ (by decide)
    · intro rest _; rw [List.append_assoc]; exact msgAttBody_err _ _ _ (by decide)
    · intro rest _; rw [List.append_assoc]; exact msgAttBodyStructure_err _ _ _ (by decide)
    · intro rest _; rw [List.append_assoc]; exact msgAttBodySection_err _ _ _ (by decide)
  | rfc822Size m n e hn he =>
    refine Parses.altR (Parses.altR (Parses.altR (Parses.altR (Parses.altR (Parses.altR (Parses.altR
      (Parses.altR (Parses.altR (Parses.altL ?_) ?_) ?_) ?_) ?_) ?_) ?_) ?_) ?_) ?_
    · unfold msgAttRfc822Size
      refine Parses.bind (tagNoCase_spell _ m) ?_ (fun _ _ => trivial)
      exact Parses.bind' ((number_enc (2 ^ 32) n e he hn).weaken spaceOrClose_notDigit) (Parses.pure _ _)
        (fun _ h => h) (by simp)
    · intro rest _; rw [List.append_assoc]; exact msgAttRfc822Header_err _ _ _ (by decide)
    · intro rest _; rw [List.append_assoc]; exact msgAttRfc822_err _ _ _ (by decide)
    · intro rest _; rw [List.append_assoc]; exact msgAttModSeq_err _ _ _ (by decide)
    · intro rest _; rw [List.append_assoc]; exact msgAttFlags_err _ _ _ (by decide)
    · intro rest _; rw [List.append_assoc]; exact msgAttInternalDate_err _ _ _ (by decide)
    · intro rest _; rw [List.append_assoc]; exact msgAttEnvelope_err _ _ _ (by decide)
    · intro rest _; rw [List.append_assoc]; exact msgAttBody_err _ _ _ (by decide)
    · intro rest _; rw [List.append_assoc]; exact msgAttBodyStructure_err _ _ _ (by decide)
    · intro rest _; rw [List.append_assoc]; exact msgAttBodySection_err _ _ _ (by decide)
  | rfc822Text m v e he =>
    refine Parses.altR (Parses.altR (Parses.altR (Parses.altR (Parses.altR (Parses.altR (Parses.altR
      (Parses.altR (Parses.altR (Parses.altR (Parses.altL ?_) ?_) ?_) ?_) ?_) ?_) ?_) ?_) ?_) ?_) ?_
    · unfold msgAttRfc822Text
      refine Parses.bind (tagNoCase_spell _ m) ?_ (fun _ _ => trivial)
      exact Parses.bind' (nstring_enc v e he) (Parses.pure _ _) (fun _ _ => trivial) (by simp)
    · intro rest _; rw [List.append_assoc]; exact msgAttRfc822Size_err _ _ _ (by decide)
    · intro rest _; rw [List.append_assoc]; exact msgAttRfc822Header_err _ _ _ (by decide)
    · intro rest _; rw [List.append_assoc]; exact msgAttRfc822_err _ _ _ (by decide)
    · intro rest _; rw [List.append_assoc]; exact msgAttModSeq_err _ _ _ (by decide)
    · intro rest _; rw [List.append_assoc]; exact msgAttFlags_err _ _ _ (by decide)
    · intro rest _; rw [List.append_assoc]; exact msgAttInternalDate_err _ _ _ (by decide)
    · intro rest _; rw [List.append_assoc]; exact msgAttEnvelope_err _ _ _ (by decide)
    · intro rest _; rw [List.append_assoc]; exact msgAttBody_err _ _ _ (by decide)
    · intro rest _; rw [List.append_assoc]; exact msgAttBodyStructure_err _ _ _ (by decide)
    · intro rest _; rw [List.append_assoc]; exact msgAttBodySection_err _ _ _ (by decide)
  | uid m n e hn he =>
    refine Parses.altR (Parses.altR (Parses.altR (Parses.altR (Parses.altR (Parses.altR (Parses.altR
      (Parses.altR (Parses.altR (Parses.altR (Parses.altR (Parses.altL ?_) ?_) ?_) ?_) ?_) ?_) ?_) ?_) ?_) ?_) ?_) ?_
    · unfold msgAttUid
      refine Parses.bind (tagNoCase_spell _ m) ?_ (fun _ _ => trivial)
      exact Parses.bind' ((number_enc (2 ^ 32) n e he hn).weaken spaceOrClose_notDigit) (Parses.pure _ _)
        (fun _ h => h) (by simp)
    · intro rest _; rw [List.append_assoc]; exact msgAttRfc822Text_err _ _ _ (by decide)
    · intro rest _; rw [List.append_assoc]; exact msgAttRfc822Size_err _ _ _ (by decide)
    · intro rest _; rw [List.append_assoc]; exact msgAttRfc822Header_err _ _ _ (by decide)
    · intro rest _; rw [List.append_assoc]; exact msgAttRfc822_err _ _ _ (by decide)
    · intro rest _; rw [List.append_assoc]; exact msgAttModSeq_err _ _ _ (by decide)
    · intro rest _; rw [List.append_assoc]; exact msgAttFlags_err _ _ _ (by decide)
    · intro rest _; rw [List.append_assoc]; exact msgAttInternalDate_err _ _ _ (by decide)
    · intro rest _; rw [List.append_assoc]; exact msgAttEnvelope_err _ _ _ (by decide)
    · intro rest _; rw [List.append_assoc]; exact msgAttBody_err _ _ _ (by decide)
    · intro rest _; rw [List.append_assoc]; exact msgAttBodyStructure_err _ _ _ (by decide)
    · intro rest _; rw [List.append_assoc]; exact msgAttBodySection_err _ _ _ (by decide)
  | gmailMsgId m n e hn he =>
    refine Parses.altR (Parses.altR (Parses.altR (Parses.altR (Parses.altR (Parses.altR (Parses.altR
      (Parses.altR (Parses.altR (Parses.altR (Parses.altR (Parses.altR (Parses.altR ?_ ?_) ?_) ?_) ?_) ?_) ?_) ?_)
      ?_) ?_) ?_) ?_) ?_) ?_
    · unfold msgAttGmailMsgId gmailMsgId
      refine Parses.map _ ?_
      refine Parses.bind (tagNoCase_spell _ m) ?_ (fun _ _ => trivial)
      exact (number_enc (2 ^ 64) n e he hn).weaken spaceOrClose_notDigit
    · intro rest _; rw [List.append_assoc]; exact msgAttGmailLabels_err _ _ _ (by decide)
    · intro rest _; rw [List.append_assoc]; exact msgAttUid_err _ _ _ (by decide)
    · intro rest _; rw [List.append_assoc]; exact msgAttRfc822Text_err _ _ _ (by decide)
    · intro rest _; rw [List.append_assoc]; exact msgAttRfc822Size_err _ _ _ (by decide)
    · intro rest _; rw [List.append_assoc]; exact msgAttRfc822Header_err _ _ _ (by decide)
    · intro rest _; rw [List.append_assoc]; exact msgAttRfc822_err _ _ _ (by decide)
    · intro rest _; rw [List.append_assoc]; exact msgAttModSeq_err _ _ _ (by decide)
    · intro rest _; rw [List.append_assoc]; exact msgAttFlags_err _ _ _ (by decide)
    · intro rest _; rw [List.append_assoc]; exact msgAttInternalDate_err _ _ _ (by decide)
    · intro rest _; rw [List.append_assoc]; exact msgAttEnvelope_err _ _ _ (by decide)
    · intro rest _; rw [List.append_assoc]; exact msgAttBody_err _ _ _ (by decide)
    · intro rest _; rw [List.append_assoc]; exact msgAttBodyStructure_err _ _ _ (by decide)
    · intro rest _; rw [List.append_assoc]; exact msgAttBodySection_err _ _ _ (by decide)
  | bodySection m sect es idx eo data ed hs ho hd =>
    exact Parses.altL (msgAttBodySection_enc m sect es hs idx eo ho data ed hd _)
  | bodyStructure m b e he =>
    refine Parses.altR (Parses.altL ?_) ?_
    · unfold msgAttBodyStructure
      refine Parses.bind (tagNoCase_spell _ m) ?_ (fun _ _ => trivial)
      exact Parses.bind' (body_enc b e he _) (Parses.pure _ _) (fun _ h => h) (by simp)
    · intro rest _; rw [List.append_assoc]; exact msgAttBodySection_err_structure m _
  | body m b e he =>
    refine Parses.altR (Parses.altR (Parses.altL ?_) ?_) ?_
    · unfold msgAttBody
      refine Parses.bind (tagNoCase_spell _ m) ?_ (fun _ _ => trivial)
      exact Parses.bind' (body_enc b e he _) (Parses.pure _ _) (fun _ h => h) (by simp)
    · intro rest _; rw [List.append_assoc]; exact msgAttBodyStructure_err _ _ _ (by decide)
    · intro rest _; rw [List.append_assoc]; exact msgAttBodySection_err_body m _
  | flags m vs e he =>
    refine Parses.altR (Parses.altR (Parses.altR (Parses.altR (Parses.altR (Parses.altL ?_) ?_) ?_) ?_) ?_) ?_
    · unfold msgAttFlags
      refine Parses.bind (tagNoCase_spell _ m) ?_ (fun _ _ => trivial)
      exact Parses.bind' (flagList_enc vs e he Any) (Parses.pure _ _) (fun _ _ => trivial) (by simp)
    · intro rest _; rw [List.append_assoc]; exact msgAttInternalDate_err _ _ _ (by decide)
    · intro rest _; rw [List.append_assoc]; exact msgAttEnvelope_err _ _ _ (by decide)
    · intro rest _; rw [List.append_assoc]; exact msgAttBody_err _ _ _ (by decide)
    · intro rest _; rw [List.append_assoc]; exact msgAttBodyStructure_err _ _ _ (by decide)
    · intro rest _; rw [List.append_assoc]; exact msgAttBodySection_err _ _ _ (by decide)
  | gmailLabels m vs e he =>
    refine Parses.altR (Parses.altR (Parses.altR (Parses.altR (Parses.altR (Parses.altR (Parses.altR
      (Parses.altR (Parses.altR (Parses.altR (Parses.altR (Parses.altR (Parses.altL ?_) ?_) ?_) ?_) ?_) ?_) ?_) ?_)
      ?_) ?_) ?_) ?_) ?_
    · unfold msgAttGmailLabels gmailLabelList
      refine Parses.map _ ?_
      refine Parses.bind (tagNoCase_spell _ m) ?_ (fun _ _ => trivial)
      exact parenthesizedList_enc label_enc label_err_close vs e he _
    · intro rest _; rw [List.append_assoc]; exact msgAttUid_err _ _ _ (by decide)
    · intro rest _; rw [List.append_assoc]; exact msgAttRfc822Text_err _ _ _ (by decide)
    · intro rest _; rw [List.append_assoc]; exact msgAttRfc822Size_err _ _ _ (by decide)
    · intro rest _; rw [List.append_assoc]; exact msgAttRfc822Header_err _ _ _ (by decide)
    · intro rest _; rw [List.append_assoc]; exact msgAttRfc822_err _ _ _ (by decide)
    · intro rest _; rw [List.append_assoc]; exact msgAttModSeq_err _ _ _ (by decide)
    · intro rest _; rw [List.append_assoc]; exact msgAttFlags_err _ _ _ (by decide)
    · intro rest _; rw [List.append_assoc]; exact msgAttInternalDate_err _ _ _ (by decide)
    · intro rest _; rw [List.append_assoc]; exact msgAttEnvelope_err _ _ _ (by decide)
    · intro rest _; rw [List.append_assoc]; exact msgAttBody_err _ _ _ (by decide)
    · intro rest _; rw [List.append_assoc]; exact msgAttBodyStructure_err _ _ _ (by decide)
    · intro rest _; rw [List.append_assoc]; exact msgAttBodySection_err _ _ _ (by decide)

end RT
