/-
  The codec on a stream of encoded responses: the one-shot framing of `e1 ++ e2 ++ ... ++ tail` begins
  with exactly the frames (e1, r1), (e2, r2), ...  Together with Framed.polls_ideal this says that a
  connection carrying RFC-conformant responses delivers exactly those responses under any chunking -
  whatever their literals contain.
-/
import ImapVerif.Proofs.RTResp
import ImapVerif.Proofs.Framed

open Bytes Parser Grammar Client Framed RT

namespace CodecRT

/-- the codec cuts one encoded response off the front of the buffer -/
theorem decodeC_enc (r : Response) (e : Bytes) (h : EncResponse r e) (rest : Bytes) :
    decodeC (e ++ rest) = .frame ⟨e, r⟩ rest := by
  unfold decodeC
  rw [parseResponse_enc r e h rest]
  simp

/-- the frames of a list of (value, encoding) pairs -/
def framesOfEncs (items : List (Response × Bytes)) : List Frame := items.map fun x => ⟨x.2, x.1⟩

/-- **a stream of encoded responses is framed into exactly those responses**, followed by the
    framing of whatever comes after them -/
theorem ideal_encodings (items : List (Response × Bytes)) (hall : ∀ x ∈ items, EncResponse x.1 x.2) (tail : Bytes) :
    ideal ((items.map (·.2)).flatten ++ tail) = framesOfEncs items ++ ideal tail := by
  induction items with
  | nil => simp [framesOfEncs]
  | cons x xs ih =>
    have hx := hall x (by simp)
    have hd := decodeC_enc x.1 x.2 hx []
    simp only [List.append_nil] at hd
    have := ideal_frame x.2 ((xs.map (·.2)).flatten ++ tail) ⟨x.2, x.1⟩ [] hd
    simp only [List.map_cons, List.flatten_cons, List.append_assoc, framesOfEncs, List.cons_append]
    rw [this]
    simp only [List.nil_append]
    rw [ih (fun y hy => hall y (by simp [hy]))]
    simp [framesOfEncs]

/-- **through the codec, under any chunking**: if the bytes the transport delivers are the encodings
    of `items` (followed by `tail`), then after any number of polls without an error item the frames
    delivered, followed by the framing of what is still undelivered, are exactly those responses -
    value and raw bytes - in order.  The contents of literals play no role. -/
theorem frames_of_encoded_stream (k : Nat) (rs : List REv) (res : List PollR) (s' : Rd) (rs' : List REv)
    (items : List (Response × Bytes)) (hall : ∀ x ∈ items, EncResponse x.1 x.2) (tail : Bytes)
    (hdata : dataOf rs = (items.map (·.2)).flatten ++ tail)
    (h : polls k {} rs = (res, s', rs')) (hne : ∀ r ∈ res, r ≠ .item .error) :
    framesOf res ++ ideal (s'.rbuf ++ dataOf rs') = framesOfEncs items ++ ideal tail := by
  have hs : Settled ({} : Rd) := by intro _; exact decodeC_nil
  have := (polls_ideal k {} rs res s' rs' h rfl hs hne).1
  rw [← ideal_encodings items hall tail, ← hdata]
  simpa using this

end CodecRT
