/-
  Round-trip, eleventh layer: ACL, QUOTA, QUOTAROOT, ENABLED, VANISHED, Gmail mailbox data.
-/
import ImapVerif.Proofs.RT10

open Bytes Parser Grammar

namespace RT

/-! ### ACL -/

/-- `identifier SP rights` -/
inductive EncAclEntry : AclEntry → Bytes → Prop
  | mk (ident eident : Bytes) (w : Bytes) (rights : List AclRight) (er : Bytes) :
      EncAString ident eident → validUtf8 ident = true → IsSpaces w → EncRights rights er →
      EncAclEntry { identifier := ident, rights := rights } (eident ++ (w ++ er))

theorem aclEntry_enc (v : AclEntry) (e : Bytes) (h : EncAclEntry v e) :
    Parses aclEntry e v (Starts notAstringChar) := by
  cases h with
  | mk ident eident w rights er hi hui hw hr =>
    unfold aclEntry
    refine Parses.bind (astringUtf8_enc ident eident hi hui) ?_ (fun r _ => by
      rw [List.append_assoc]; exact spaces_notAstring w hw _)
    refine Parses.bind (space1_enc w hw) ?_ (fun r _ => encRights_notSpace _ _ hr _)
    exact Parses.bind' (rights_enc rights er hr) (Parses.pure _ _) (fun _ h => h) (by simp)

theorem encAclEntry_notSpace (v : AclEntry) (e : Bytes) (h : EncAclEntry v e) (r : Bytes) :
    Starts notSpace (e ++ r) := by
  cases h with
  | mk ident eident w rights er hi hui hw hr =>
    rw [List.append_assoc]; exact encAString_notSpace _ _ hi _

theorem aclEntry_err_crlf (r : Bytes) (h : Starts crlfStart r) : aclEntry r = .err := by
  unfold aclEntry
  show Parser.bindP astringUtf8 _ _ = .err
  unfold Parser.bindP
  rw [astringUtf8_err_crlf r h]

theorem entries_stop (r : Bytes) (h : EndOfWords r) :
    space1 r = .err ∨ ∃ r', space1 r = .ok () r' ∧ r'.length < r.length ∧ aclEntry r' = .err := by
  rcases words_stop r h with h1 | ⟨r', h1, h2, _⟩
  · exact Or.inl h1
  · rcases h with h | ⟨ws, t, hws, rfl, ht⟩
    · obtain ⟨c, t, hr, hc⟩ := h
      subst hr
      have : isSpace c = false := by
        simp only [crlfStart, Bool.or_eq_true, beq_iff_eq] at hc
        rcases hc with rfl | rfl <;> decide
      rw [space1_err c t this] at h1; cases h1
    · have hsp := space1_enc ws hws t (crlf_notSpace t ht)
      have hlen : t.length < (ws ++ t).length := by
        have : 1 ≤ ws.length := by
          cases hw : ws with
          | nil => exact absurd hw hws.1
          | cons a as => simp
        rw [List.length_append]; omega
      exact Or.inr ⟨t, hsp, hlen, aclEntry_err_crlf t ht⟩

/-- the entries after the mailbox; the flag says whether there is any -/
inductive EncAclList : Bool → List AclEntry → Bytes → Prop
  | none (w0 : Bytes) : (∀ c ∈ w0, isSpace c = true) → EncAclList false [] w0
  | some (w0 : Bytes) (first : Bytes × AclEntry) (items : List (Bytes × Bytes × AclEntry)) :
      IsSpaces w0 → EncAclEntry first.2 first.1 → (∀ x ∈ items, IsSpaces x.1 ∧ EncAclEntry x.2.2 x.2.1) →
      EncAclList true (first.2 :: items.map (·.2.2)) (w0 ++ (first.1 ++ (items.map fun x => x.1 ++ x.2.1).flatten))

theorem aclList_enc (ne : Bool) (v : List AclEntry) (e : Bytes) (h : EncAclList ne v e) :
    Parses aclList e v (AfterWords ne) := by
  unfold aclList
  cases h with
  | none _ hw0 =>
    refine Parses.bind' (e2 := []) ((space0_enc e hw0).weaken crlf_notSpace) ?_ (fun _ h => h) (by simp)
    apply Parses.sepList0_nil
    intro r hr
    exact aclEntry_err_crlf r hr
  | some w0 first items hw0 hfirst hitems =>
    refine Parses.bind (space0_enc w0 hw0.2) ?_ (fun r _ => by
      rw [List.append_assoc]; exact encAclEntry_notSpace _ _ hfirst _)
    exact Parses.sepList0_cons2 (Starts notSpace) (Starts notAstringChar) EndOfWords first items
      (aclEntry_enc _ _ hfirst)
      (fun x hx => ⟨space1_enc x.1 (hitems x hx).1, (hitems x hx).1.1⟩)
      (fun x hx => aclEntry_enc _ _ (hitems x hx).2)
      (fun x hx r => encAclEntry_notSpace _ _ (hitems x hx).2 r)
      (fun x hx r => spaces_notAstring x.1 (hitems x hx).1 r)
      endOfWords_notAstring entries_stop

theorem acl_enc (m : List Bool) (w1 : Bytes) (hw1 : IsSpaces w1) (name ename : Bytes) (hn : EncAString name ename)
    (hu : validUtf8 name = true) (ne : Bool) (entries : List AclEntry) (el : Bytes) (hl : EncAclList ne entries el) :
    Parses acl (spell (b!"ACL") m ++ (w1 ++ (ename ++ el))) (.acl { mailbox := canonMailbox name, acls := entries })
      (AfterWords ne) := by
  unfold acl
  refine Parses.bind (tagNoCase_spell _ m) ?_ (fun _ _ => trivial)
  refine Parses.bind (space1_enc w1 hw1) ?_ (fun r _ => by rw [List.append_assoc]; exact encAString_notSpace _ _ hn _)
  refine Parses.bind (mailbox_enc name ename hn hu) ?_ ?_
  · exact Parses.bind' (e2 := []) (aclList_enc ne entries el hl) (Parses.pure _ _) (fun _ h => h) (by simp)
  · intro r hr'
    cases hl with
    | none _ hw0 =>
      cases el with
      | nil => simpa using crlf_notAstring r hr'
      | cons a as => exact spaces_notAstring (a :: as) ⟨by simp, hw0⟩ r
    | some w0 first items hw0 hfirst hitems =>
      rw [List.append_assoc]
      exact spaces_notAstring w0 hw0 _

theorem responseDataAlt_acl (m : List Bool) (tail : Bytes) (v : Response) (F : Bytes → Prop)
    (h : Parses acl (spell (b!"ACL") m ++ tail) v F) :
    Parses responseDataAlt (spell (b!"ACL") m ++ tail) v F := by
  unfold responseDataAlt
  walk_resp
  exact Parses.altL h

/-! ### QUOTA / QUOTAROOT -/

/-- `name SP usage SP limit`; the name is classified by the complete astring -/
inductive EncQuotaResource : QuotaResource → Bytes → Prop
  | mk (name ename w1 w2 : Bytes) (usage : Nat) (eu : Bytes) (limit : Nat) (el : Bytes) :
      EncAString name ename → validUtf8 name = true → IsSpaces w1 → IsSpaces w2 →
      usage < 2 ^ 64 → EncNumber usage eu → limit < 2 ^ 64 → EncNumber limit el →
      EncQuotaResource { name := classifyQuotaResource name, usage := usage, limit := limit }
        (ename ++ (w1 ++ (eu ++ (w2 ++ el))))

def spaceOrCloseP (c : UInt8) : Bool := isSpace c || c == 41

theorem spaceOrCloseP_notDigit (r : Bytes) (h : Starts spaceOrCloseP r) : Starts notDigit r := by
  obtain ⟨c, t, hr, hc⟩ := h
  refine ⟨c, t, hr, ?_⟩
  have key : ∀ n : Fin 256, spaceOrCloseP (UInt8.ofNat n.val) = true → notDigit (UInt8.ofNat n.val) = true := by
    decide +kernel
  have := key ⟨c.toNat, c.toNat_lt⟩
  simp only [UInt8.ofNat_toNat] at this
  exact this hc

theorem digits_notSpace (n : Nat) (e : Bytes) (h : EncNumber n e) (r : Bytes) : Starts notSpace (e ++ r) := by
  obtain ⟨c, t, he, hc⟩ := encNumber_head n e h
  subst he
  refine ⟨c, t ++ r, rfl, ?_⟩
  have key : ∀ n : Fin 256, isDigit (UInt8.ofNat n.val) = true → notSpace (UInt8.ofNat n.val) = true := by
    decide +kernel
  have := key ⟨c.toNat, c.toNat_lt⟩
  simp only [UInt8.ofNat_toNat] at this
  exact this hc

theorem quotaResource_enc (v : QuotaResource) (e : Bytes) (h : EncQuotaResource v e) :
    Parses quotaResource e v (Starts spaceOrCloseP) := by
  cases h with
  | mk name ename w1 w2 usage eu limit el hn hu hw1 hw2 hus heu hli hel =>
    unfold quotaResource quotaResourceName
    refine Parses.bind (Parses.map _ (astringUtf8_enc name ename hn hu)) ?_ (fun r _ => by
      rw [List.append_assoc]; exact spaces_notAstring w1 hw1 _)
    refine Parses.bind (space1_enc w1 hw1) ?_ (fun r _ => by rw [List.append_assoc]; exact digits_notSpace _ _ heu _)
    refine Parses.bind (number_enc (2 ^ 64) usage eu heu hus) ?_ (fun r _ => by
      rw [List.append_assoc]; exact spaces_notDigit w2 hw2 _)
    refine Parses.bind (space1_enc w2 hw2) ?_ (fun r _ => digits_notSpace _ _ hel _)
    exact Parses.bind' ((number_enc (2 ^ 64) limit el hel hli).weaken spaceOrCloseP_notDigit) (Parses.pure _ _)
      (fun _ h => h) (by simp)

theorem encQuotaResource_notSpace (v : QuotaResource) (e : Bytes) (h : EncQuotaResource v e) (r : Bytes) :
    Starts notSpace (e ++ r) := by
  cases h with
  | mk name ename w1 w2 usage eu limit el hn hu hw1 hw2 hus heu hli hel =>
    rw [List.append_assoc]; exact encAString_notSpace _ _ hn _

theorem quotaResource_err_close (r : Bytes) : quotaResource (41 :: r) = .err := by
  unfold quotaResource quotaResourceName
  show Parser.bindP (Parser.map astringUtf8 _) _ _ = .err
  unfold Parser.bindP
  simp [Parser.map, astringUtf8, Parser.mapRes, astring_err_close]

/-- `(` resources separated by white space `)` -/
inductive EncQuotaList : List QuotaResource → Bytes → Prop
  | nil : EncQuotaList [] (b!"()")
  | cons (first : Bytes × QuotaResource) (items : List (Bytes × Bytes × QuotaResource)) :
      EncQuotaResource first.2 first.1 → (∀ x ∈ items, IsSpaces x.1 ∧ EncQuotaResource x.2.2 x.2.1) →
      EncQuotaList (first.2 :: items.map (·.2.2))
        (b!"(" ++ (first.1 ++ (items.map fun x => x.1 ++ x.2.1).flatten) ++ b!")")

theorem quotaList_enc (v : List QuotaResource) (e : Bytes) (h : EncQuotaList v e) (F : Bytes → Prop) :
    Parses quotaList e v F := by
  unfold quotaList
  have closeStop : ∀ r, (Starts fun c => c == 41) r →
      space1 r = .err ∨ ∃ r', space1 r = .ok () r' ∧ r'.length < r.length ∧ quotaResource r' = .err := by
    intro r ⟨c, t, hr, hc⟩
    subst hr
    have : c = 41 := by simpa using hc
    subst this
    exact Or.inl (space1_err 41 t (by decide))
  cases h with
  | nil =>
    show Parses _ ([40] ++ ([] ++ [41])) _ _
    refine Parses.bind (tag_ok (b!"(")) ?_ (fun _ _ => trivial)
    refine Parses.bind (Parses.sepList0_nil (F := Starts fun c => c == 41) ?_) ?_ (fun r _ => ⟨41, r, rfl, by decide⟩)
    · intro r ⟨c, t, hr, hc⟩
      subst hr
      have : c = 41 := by simpa using hc
      subst this
      exact quotaResource_err_close t
    · exact Parses.bind' (tag_ok (b!")")) (Parses.pure _ _) (fun _ _ => trivial) (by simp)
  | cons first items hfirst hitems =>
    rw [List.append_assoc]
    refine Parses.bind (tag_ok (b!"(")) ?_ (fun _ _ => trivial)
    have key := Parses.sepList0_cons2 (sep := space1) (p := quotaResource) (Starts notSpace) (Starts spaceOrCloseP)
      (Starts fun c => c == 41) first items (quotaResource_enc _ _ hfirst)
      (fun x hx => ⟨space1_enc x.1 (hitems x hx).1, (hitems x hx).1.1⟩)
      (fun x hx => quotaResource_enc _ _ (hitems x hx).2)
      (fun x hx r => encQuotaResource_notSpace _ _ (hitems x hx).2 r)
      (fun x hx r => by
        obtain ⟨hne, hall⟩ := (hitems x hx).1
        cases hw : x.1 with
        | nil => exact absurd hw hne
        | cons a as => exact ⟨a, as ++ r, rfl, by simp [spaceOrCloseP, hall a (by simp [hw])]⟩)
      (fun r ⟨c, t, hr, hc⟩ => ⟨c, t, hr, by
        have : c = 41 := by simpa using hc
        subst this; decide⟩)
      closeStop
    refine Parses.bind key ?_ (fun r _ => ⟨41, r, rfl, by decide⟩)
    exact Parses.bind' (tag_ok (b!")")) (Parses.pure _ _) (fun _ _ => trivial) (by simp)

theorem quota_enc (m : List Bool) (w1 w2 : Bytes) (hw1 : IsSpaces w1) (hw2 : IsSpaces w2)
    (root eroot : Bytes) (hr : EncAString root eroot) (hu : validUtf8 root = true)
    (res : List QuotaResource) (el : Bytes) (hl : EncQuotaList res el) (F : Bytes → Prop) :
    Parses quota (spell (b!"QUOTA") m ++ (w1 ++ (eroot ++ (w2 ++ el)))) (.quota { rootName := root, resources := res })
      F := by
  unfold quota
  refine Parses.bind (tagNoCase_spell _ m) ?_ (fun _ _ => trivial)
  refine Parses.bind (space1_enc w1 hw1) ?_ (fun r _ => by rw [List.append_assoc]; exact encAString_notSpace _ _ hr _)
  refine Parses.bind (astringUtf8_enc root eroot hr hu) ?_ (fun r _ => by
    rw [List.append_assoc]; exact spaces_notAstring w2 hw2 _)
  refine Parses.bind (space1_enc w2 hw2) ?_ (fun r _ => by
    cases hl with
    | nil => exact ⟨40, _, rfl, by decide⟩
    | cons first items _ _ =>
      exact ⟨40, (first.1 ++ (items.map fun x => x.1 ++ x.2.1).flatten) ++ b!")" ++ r, by simp, by decide⟩)
  exact Parses.bind' (quotaList_enc res el hl F) (Parses.pure _ _) (fun _ h => h) (by simp)

theorem responseDataAlt_quota (m : List Bool) (tail : Bytes) (v : Response) (F : Bytes → Prop)
    (h : Parses quota (spell (b!"QUOTA") m ++ tail) v F) :
    Parses responseDataAlt (spell (b!"QUOTA") m ++ tail) v F := by
  unfold responseDataAlt
  walk_resp
  exact Parses.altL h

/-- the quota roots of a mailbox: zero or more astrings after the mailbox name -/
theorem quotaRoot_enc (m : List Bool) (w1 : Bytes) (hw1 : IsSpaces w1) (name ename : Bytes)
    (hn : EncAString name ename) (hu : validUtf8 name = true) (items : List (Bytes × Bytes × Bytes))
    (hitems : ∀ x ∈ items, IsSpaces x.1 ∧ EncAString x.2.2 x.2.1 ∧ validUtf8 x.2.2 = true) :
    Parses quotaRoot (spell (b!"QUOTAROOT") m ++ (w1 ++ (ename ++ (items.map fun x => x.1 ++ x.2.1).flatten)))
      (.quotaRoot { mailboxName := name, quotaRootNames := items.map (·.2.2) }) EndOfWords := by
  unfold quotaRoot
  refine Parses.bind (tagNoCase_spell _ m) ?_ (fun _ _ => trivial)
  refine Parses.bind (space1_enc w1 hw1) ?_ (fun r _ => by rw [List.append_assoc]; exact encAString_notSpace _ _ hn _)
  have hmany := Parses.many0_sep (sep := space1) (p := astringUtf8) (Starts notSpace) (Starts notAstringChar) EndOfWords
    items
    (fun x hx => ⟨space1_enc x.1 (hitems x hx).1, (hitems x hx).1.1⟩)
    (fun x hx => astringUtf8_enc _ _ (hitems x hx).2.1 (hitems x hx).2.2)
    (fun x hx r => encAString_notSpace _ _ (hitems x hx).2.1 r)
    (fun x hx r => spaces_notAstring x.1 (hitems x hx).1 r)
    endOfWords_notAstring
    (fun r hr => by
      show Parser.bindP space1 _ _ = .err
      unfold Parser.bindP
      rcases words_stop r hr with h1 | ⟨r', h1, _, h3⟩
      · rw [h1]
      · rw [h1]; exact h3)
  refine Parses.bind (astringUtf8_enc name ename hn hu) ?_ ?_
  · exact Parses.bind' (e2 := []) hmany (Parses.pure _ _) (fun _ h => h) (by simp)
  · intro r hr
    cases items with
    | nil => simpa using endOfWords_notAstring r hr
    | cons y ys =>
      simp only [List.map_cons, List.flatten_cons, List.append_assoc]
      exact spaces_notAstring y.1 (hitems y (by simp)).1 _

theorem responseDataAlt_quotaRoot (m : List Bool) (tail : Bytes) (v : Response) (F : Bytes → Prop)
    (h : Parses quotaRoot (spell (b!"QUOTAROOT") m ++ tail) v F) :
    Parses responseDataAlt (spell (b!"QUOTAROOT") m ++ tail) v F := by
  unfold responseDataAlt
  walk_resp
  exact Parses.altL h

/-! ### ENABLED -/

def spAtomCap : Parser Capability := do char 32; map atom Capability.atom

theorem enabled_enc (m : List Bool) (items : List (Bytes × Bytes))
    (hall : ∀ x ∈ items, x.1 ≠ [] ∧ (∀ c ∈ x.1, isAtomChar c = true) ∧ validUtf8 x.1 = true ∧ x.2 = x.1) :
    Parses respEnabled (spell (b!"ENABLED") m ++ (items.map fun x => b!" " ++ x.1).flatten)
      (.capabilities (items.map fun x => Capability.atom x.2)) EndOfCaps := by
  unfold respEnabled enabledData
  refine Parses.map _ ?_
  refine Parses.bind (tagNoCase_spell _ m) ?_ (fun _ _ => trivial)
  have key := Parses.many0 (p := spAtomCap) (Starts notAtomChar) EndOfCaps
    (items.map fun x => (b!" " ++ x.1, Capability.atom x.2)) ?_ ?_ ?_ ?_ ?_
  · simpa [List.map_map, Function.comp_def, spAtomCap] using key
  · intro y hy
    simp only [List.mem_map] at hy
    obtain ⟨x, hx, rfl⟩ := hy
    obtain ⟨hne, hat, hu, heq⟩ := hall x hx
    unfold spAtomCap
    rw [heq]
    exact Parses.bind (char_ok 32) (Parses.map _ (atom_enc x.1 hne hat hu)) (fun _ _ => trivial)
  · intro y hy
    simp only [List.mem_map] at hy
    obtain ⟨x, hx, rfl⟩ := hy
    simp
  · intro y hy r
    simp only [List.mem_map] at hy
    obtain ⟨x, hx, rfl⟩ := hy
    exact ⟨32, x.1 ++ r, by simp, by decide⟩
  · intro r hr
    rcases hr with ⟨c, t, rfl, hc⟩ | ⟨x, t, rfl, _⟩
    · exact ⟨c, t, rfl, by rcases hc with rfl | rfl <;> decide⟩
    · exact ⟨32, x :: t, rfl, by decide⟩
  · intro r hr
    unfold spAtomCap
    show Parser.bindP (char 32) _ _ = .err
    unfold Parser.bindP
    rcases hr with ⟨c, t, rfl, hc⟩ | ⟨x, t, rfl, hx⟩
    · have : (c == 32) = false := by rcases hc with rfl | rfl <;> decide
      simp [char, this]
    · simp [char, Parser.map, atom, Parser.mapRes, takeWhile1_err isAtomChar x t hx]

theorem responseDataAlt_enabled (m : List Bool) (tail : Bytes) (v : Response) (F : Bytes → Prop)
    (h : Parses respEnabled (spell (b!"ENABLED") m ++ tail) v F) :
    Parses responseDataAlt (spell (b!"ENABLED") m ++ tail) v F := by
  unfold responseDataAlt
  walk_resp
  exact Parses.altL h

/-! ### Gmail mailbox data -/

theorem mailboxData_gmailLabels (m : List Bool) (vs : List Bytes) (e : Bytes) (he : EncList EncLabel vs e) :
    Parses mailboxData (spell (b!"X-GM-LABELS ") m ++ e) (.gmailLabels vs) Any := by
  unfold mailboxData
  refine Parses.altR (Parses.altR (Parses.altR (Parses.altR (Parses.altR (Parses.altR (Parses.altR (Parses.altL ?_)
    ?_) ?_) ?_) ?_) ?_) ?_) ?_
  · unfold mailboxDataGmailLabels gmailLabelList
    refine Parses.map _ ?_
    refine Parses.bind (tagNoCase_spell _ m) ?_ (fun _ _ => trivial)
    exact parenthesizedList_enc label_enc label_err_close vs e he _
  all_goals (intro rest _; rw [List.append_assoc])
  · unfold mailboxDataSearch; exact kwBind_err _ _ _ m _ (by decide)
  · unfold mailboxDataRecent; exact numBind_err_kw _ 88 _ m _ (by decide)
  · unfold mailboxDataStatus; exact kwBind_err _ _ _ m _ (by decide)
  · unfold mailboxDataLsub; exact kwBind_err _ _ _ m _ (by decide)
  · unfold mailboxDataList; exact kwBind_err _ _ _ m _ (by decide)
  · unfold mailboxDataExists; exact numBind_err_kw _ 88 _ m _ (by decide)
  · unfold mailboxDataFlags; exact kwBind_err _ _ _ m _ (by decide)

theorem mailboxData_gmailMsgId (m : List Bool) (n : Nat) (hn : n < 2 ^ 64) (e : Bytes) (he : EncNumber n e) :
    Parses mailboxData (spell (b!"X-GM-MSGID ") m ++ e) (.gmailMsgId n) (Starts notDigit) := by
  unfold mailboxData
  refine Parses.altR (Parses.altR (Parses.altR (Parses.altR (Parses.altR (Parses.altR (Parses.altR (Parses.altR
    (Parses.altL ?_) ?_) ?_) ?_) ?_) ?_) ?_) ?_) ?_
  · unfold mailboxDataGmailMsgId gmailMsgId
    refine Parses.map _ ?_
    exact Parses.bind (tagNoCase_spell _ m) (number_enc (2 ^ 64) n e he hn) (fun _ _ => trivial)
  all_goals (intro rest _; rw [List.append_assoc])
  · unfold mailboxDataGmailLabels gmailLabelList; exact map_err _ _ _ (kwBind_err _ _ _ m _ (by decide))
  · unfold mailboxDataSearch; exact kwBind_err _ _ _ m _ (by decide)
  · unfold mailboxDataRecent; exact numBind_err_kw _ 88 _ m _ (by decide)
  · unfold mailboxDataStatus; exact kwBind_err _ _ _ m _ (by decide)
  · unfold mailboxDataLsub; exact kwBind_err _ _ _ m _ (by decide)
  · unfold mailboxDataList; exact kwBind_err _ _ _ m _ (by decide)
  · unfold mailboxDataExists; exact numBind_err_kw _ 88 _ m _ (by decide)
  · unfold mailboxDataFlags; exact kwBind_err _ _ _ m _ (by decide)

end RT
