/-
  Round-trip for body structures, part 2: extension data, the optional extension chains, the four
  body types, nesting (budget), BODYSTRUCTURE / BODY fetch items.
-/
import ImapVerif.Proofs.RTBody1

open Bytes Parser Grammar

namespace RT

/-! ### body-extension -/

inductive EncExt : Nat → BodyExtension → Bytes → Prop
  | num (n k : Nat) (e : Bytes) : k < 2 ^ 32 → EncNumber k e → EncExt (n + 1) (.num k) e
  | str (n : Nat) (v : Option Bytes) (e : Bytes) : EncNString v e → (∀ s, v = some s → validUtf8 s = true) →
      EncExt (n + 1) (.str v) e
  | list (n : Nat) (first : Bytes × BodyExtension) (others : List (Bytes × BodyExtension)) :
      (∀ x ∈ first :: others, EncExt n x.2 x.1) →
      EncExt (n + 1) (.list (first.2 :: others.map (·.2)))
        ([40] ++ (first.1 ++ (others.map fun x => [32] ++ x.1).flatten) ++ [41])

theorem bodyExtension_enc (n : Nat) (v : BodyExtension) (e : Bytes) (h : EncExt n v e) :
    Parses (bodyExtension n) e v (Starts spaceOrClose) := by
  induction h with
  | num n k e hk he =>
    unfold bodyExtension
    exact Parses.altL (Parses.map _ ((number_enc (2 ^ 32) k e he hk).weaken spaceOrClose_notDigit))
  | str n v e he hu =>
    unfold bodyExtension
    refine Parses.altR (Parses.altL (Parses.map _ ((nstringUtf8_enc v e he hu).weaken (fun _ _ => trivial)))) ?_
    intro rest _
    obtain ⟨c, t, hct, hc⟩ := encNString_head' v e he
    subst hct
    have : isDigit c = false := by rcases hc with rfl | rfl | rfl | rfl <;> decide
    simp [Parser.map, number, numberB_err (2 ^ 32) c _ this]
  | list n first others hall ih =>
    unfold bodyExtension
    refine Parses.altR (Parses.altR (Parses.map _ ?_) ?_) ?_
    · exact parenthesizedNonemptyList_enc (p := bodyExtension n) (R := fun v e => EncExt n v e ∧ Parses (bodyExtension n) e v (Starts spaceOrClose))
        (fun v e hv => hv.2) first others (fun x hx => ⟨hall x hx, ih x hx⟩) _
    · intro rest _
      simp [Parser.map, nstringUtf8_err 40 _ (by decide) (by decide) (by decide)]
    · intro rest _
      simp [Parser.map, number, numberB_err (2 ^ 32) 40 _ (by decide)]
where
  encNString_head' (v : Option Bytes) (e : Bytes) (h : EncNString v e) :
      ∃ c t, e = c :: t ∧ (c = 34 ∨ c = 123 ∨ c = 78 ∨ c = 110) := by
    cases h with
    | nil m =>
      cases m with
      | nil => exact ⟨78, _, rfl, by simp⟩
      | cons b bs => cases b <;> simp [spell, flipCase]
    | some s e hs =>
      obtain ⟨t, ht | ht⟩ := encString_head s e hs
      · exact ⟨34, t, ht, by simp⟩
      · exact ⟨123, t, ht, by simp⟩

/-! ### the optional extension chains -/

/-- `SP x` items present up to some level, nothing afterwards -/
def spItem {α : Type} (p : Parser (Option α)) : Parser (Option α) := optOpt (do tag (b!" "); p)

theorem spTag_err_close {α : Type} (p : Parser α) (r : Bytes) :
    (do tag (b!" "); p : Parser α) (41 :: r) = .err := by
  show Parser.bindP (tag (b!" ")) _ _ = .err
  unfold Parser.bindP
  rw [tag_err_first (b!" ") 32 41 r rfl (by decide)]

theorem closeF (r : Bytes) (h : Starts (fun c => c == 41) r) : ∃ t, r = 41 :: t := by
  obtain ⟨c, t, hr, hc⟩ := h
  have : c = 41 := by simpa using hc
  exact ⟨t, by rw [hr, this]⟩

/-- an optional `SP p` field that is absent: what follows is the closing parenthesis -/
theorem optOpt_absent {α : Type} (p : Parser (Option α)) :
    Parses (optOpt (do tag (b!" "); p)) [] none (Starts fun c => c == 41) := by
  apply Parses.optOptNone
  intro rest hr
  obtain ⟨t, rfl⟩ := closeF rest hr
  exact spTag_err_close p t

theorem opt_absent {α : Type} (p : Parser α) :
    Parses (opt (do tag (b!" "); p)) [] none (Starts fun c => c == 41) := by
  apply Parses.optNone
  intro rest hr
  obtain ⟨t, rfl⟩ := closeF rest hr
  exact spTag_err_close p t

/-- an optional `SP p` field that is present -/
theorem optOpt_present {α : Type} {p : Parser (Option α)} {e : Bytes} {v : Option α} {F : Bytes → Prop}
    (hp : Parses p e v F) : Parses (optOpt (do tag (b!" "); p)) (b!" " ++ e) v F :=
  Parses.optOptSome (Parses.bind (tag_ok _) hp (fun _ _ => trivial))

theorem opt_present {α : Type} {p : Parser α} {e : Bytes} {v : α} {F : Bytes → Prop}
    (hp : Parses p e v F) : Parses (opt (do tag (b!" "); p)) (b!" " ++ e) (some v) F :=
  Parses.optSome (Parses.bind (tag_ok _) hp (fun _ _ => trivial))

/-- body-ext-1part: md5 [dsp [lang [loc [extension]]]] -/
inductive EncExt1 (n : Nat) : BodyExt1Part → Bytes → Prop
  | l0 : EncExt1 n ⟨none, none, none, none, none⟩ []
  | l1 (md5 : Option Bytes) (e1 : Bytes) : EncNString md5 e1 → (∀ s, md5 = some s → validUtf8 s = true) →
      EncExt1 n ⟨md5, none, none, none, none⟩ (b!" " ++ e1)
  | l2 (md5 : Option Bytes) (d : Option ContentDisposition) (e1 e2 : Bytes) :
      EncNString md5 e1 → (∀ s, md5 = some s → validUtf8 s = true) → EncDisp d e2 →
      EncExt1 n ⟨md5, d, none, none, none⟩ (b!" " ++ e1 ++ (b!" " ++ e2))
  | l3 (md5 : Option Bytes) (d : Option ContentDisposition) (l : Option (List Bytes)) (e1 e2 e3 : Bytes) :
      EncNString md5 e1 → (∀ s, md5 = some s → validUtf8 s = true) → EncDisp d e2 → EncLang l e3 →
      EncExt1 n ⟨md5, d, l, none, none⟩ (b!" " ++ e1 ++ (b!" " ++ e2 ++ (b!" " ++ e3)))
  | l4 (md5 : Option Bytes) (d : Option ContentDisposition) (l : Option (List Bytes)) (loc : Option Bytes)
      (e1 e2 e3 e4 : Bytes) :
      EncNString md5 e1 → (∀ s, md5 = some s → validUtf8 s = true) → EncDisp d e2 → EncLang l e3 →
      EncNString loc e4 → (∀ s, loc = some s → validUtf8 s = true) →
      EncExt1 n ⟨md5, d, l, loc, none⟩ (b!" " ++ e1 ++ (b!" " ++ e2 ++ (b!" " ++ e3 ++ (b!" " ++ e4))))
  | l5 (md5 : Option Bytes) (d : Option ContentDisposition) (l : Option (List Bytes)) (loc : Option Bytes)
      (x : BodyExtension) (e1 e2 e3 e4 e5 : Bytes) :
      EncNString md5 e1 → (∀ s, md5 = some s → validUtf8 s = true) → EncDisp d e2 → EncLang l e3 →
      EncNString loc e4 → (∀ s, loc = some s → validUtf8 s = true) → EncExt n x e5 →
      EncExt1 n ⟨md5, d, l, loc, some x⟩
        (b!" " ++ e1 ++ (b!" " ++ e2 ++ (b!" " ++ e3 ++ (b!" " ++ e4 ++ (b!" " ++ e5)))))

theorem encExt1_head (n : Nat) (x : BodyExt1Part) (e : Bytes) (h : EncExt1 n x e) :
    e = [] ∨ ∃ t, e = 32 :: t := by
  cases h <;> first | exact Or.inl rfl | exact Or.inr ⟨_, rfl⟩

def closeP : Bytes → Prop := Starts fun c => c == 41

theorem close_of_space (e r : Bytes) : Any (e ++ r) := trivial

theorem bodyExt1Part_enc (n : Nat) (x : BodyExt1Part) (e : Bytes) (h : EncExt1 n x e) :
    Parses (bodyExt1Part n) e x closeP := by
  unfold bodyExt1Part closeP
  cases h with
  | l0 =>
    refine Parses.bind' (optOpt_absent _) ?_ (fun _ h => h) (e2 := []) (by simp)
    refine Parses.bind' (optOpt_absent _) ?_ (fun _ h => h) (e2 := []) (by simp)
    refine Parses.bind' (optOpt_absent _) ?_ (fun _ h => h) (e2 := []) (by simp)
    refine Parses.bind' (optOpt_absent _) ?_ (fun _ h => h) (e2 := []) (by simp)
    exact Parses.bind' (opt_absent _) (Parses.pure _ _) (fun _ h => h) (by simp)
  | l1 md5 e1 h1 hu1 =>
    refine Parses.bind' (optOpt_present ((nstringUtf8_enc _ _ h1 hu1).weaken (fun _ h => trivial)))
      ?_ (fun _ h => h) (e2 := []) (by simp)
    refine Parses.bind' (optOpt_absent _) ?_ (fun _ h => h) (e2 := []) (by simp)
    refine Parses.bind' (optOpt_absent _) ?_ (fun _ h => h) (e2 := []) (by simp)
    refine Parses.bind' (optOpt_absent _) ?_ (fun _ h => h) (e2 := []) (by simp)
    exact Parses.bind' (opt_absent _) (Parses.pure _ _) (fun _ h => h) (by simp)
  | l2 md5 d e1 e2 h1 hu1 h2 =>
    refine Parses.bind (optOpt_present (nstringUtf8_enc _ _ h1 hu1)) ?_ (fun _ _ => trivial)
    refine Parses.bind' (optOpt_present (bodyDisposition_enc _ _ h2 _)) ?_ (fun _ h => h) (e2 := []) (by simp)
    refine Parses.bind' (optOpt_absent _) ?_ (fun _ h => h) (e2 := []) (by simp)
    refine Parses.bind' (optOpt_absent _) ?_ (fun _ h => h) (e2 := []) (by simp)
    exact Parses.bind' (opt_absent _) (Parses.pure _ _) (fun _ h => h) (by simp)
  | l3 md5 d l e1 e2 e3 h1 hu1 h2 h3 =>
    refine Parses.bind (optOpt_present (nstringUtf8_enc _ _ h1 hu1)) ?_ (fun _ _ => trivial)
    refine Parses.bind (optOpt_present (bodyDisposition_enc _ _ h2 Any)) ?_ (fun _ _ => trivial)
    refine Parses.bind' (optOpt_present (bodyLang_enc _ _ h3 _)) ?_ (fun _ h => h) (e2 := []) (by simp)
    refine Parses.bind' (optOpt_absent _) ?_ (fun _ h => h) (e2 := []) (by simp)
    exact Parses.bind' (opt_absent _) (Parses.pure _ _) (fun _ h => h) (by simp)
  | l4 md5 d l loc e1 e2 e3 e4 h1 hu1 h2 h3 h4 hu4 =>
    refine Parses.bind (optOpt_present (nstringUtf8_enc _ _ h1 hu1)) ?_ (fun _ _ => trivial)
    refine Parses.bind (optOpt_present (bodyDisposition_enc _ _ h2 Any)) ?_ (fun _ _ => trivial)
    refine Parses.bind (optOpt_present (bodyLang_enc _ _ h3 Any)) ?_ (fun _ _ => trivial)
    refine Parses.bind' (optOpt_present ((nstringUtf8_enc _ _ h4 hu4).weaken (fun _ _ => trivial)))
      ?_ (fun _ h => h) (e2 := []) (by simp)
    exact Parses.bind' (opt_absent _) (Parses.pure _ _) (fun _ h => h) (by simp)
  | l5 md5 d l loc x e1 e2 e3 e4 e5 h1 hu1 h2 h3 h4 hu4 h5 =>
    refine Parses.bind (optOpt_present (nstringUtf8_enc _ _ h1 hu1)) ?_ (fun _ _ => trivial)
    refine Parses.bind (optOpt_present (bodyDisposition_enc _ _ h2 Any)) ?_ (fun _ _ => trivial)
    refine Parses.bind (optOpt_present (bodyLang_enc _ _ h3 Any)) ?_ (fun _ _ => trivial)
    refine Parses.bind (optOpt_present (nstringUtf8_enc _ _ h4 hu4)) ?_ (fun _ _ => trivial)
    refine Parses.bind' (opt_present ((bodyExtension_enc n x e5 h5).weaken ?_)) (Parses.pure _ _)
      (fun _ h => h) (by simp)
    intro r ⟨c, t, hr, hc⟩
    exact ⟨c, t, hr, by simp only [spaceOrClose, Bool.or_eq_true]; exact Or.inr hc⟩

/-- body-ext-mpart: param [dsp [lang [loc [extension]]]] -/
inductive EncExtM (n : Nat) : BodyExtMPart → Bytes → Prop
  | l0 : EncExtM n ⟨none, none, none, none, none⟩ []
  | l1 (p : BodyParams) (e1 : Bytes) : EncParams p e1 → EncExtM n ⟨p, none, none, none, none⟩ (b!" " ++ e1)
  | l2 (p : BodyParams) (d : Option ContentDisposition) (e1 e2 : Bytes) :
      EncParams p e1 → EncDisp d e2 → EncExtM n ⟨p, d, none, none, none⟩ (b!" " ++ e1 ++ (b!" " ++ e2))
  | l3 (p : BodyParams) (d : Option ContentDisposition) (l : Option (List Bytes)) (e1 e2 e3 : Bytes) :
      EncParams p e1 → EncDisp d e2 → EncLang l e3 →
      EncExtM n ⟨p, d, l, none, none⟩ (b!" " ++ e1 ++ (b!" " ++ e2 ++ (b!" " ++ e3)))
  | l4 (p : BodyParams) (d : Option ContentDisposition) (l : Option (List Bytes)) (loc : Option Bytes)
      (e1 e2 e3 e4 : Bytes) :
      EncParams p e1 → EncDisp d e2 → EncLang l e3 →
      EncNString loc e4 → (∀ s, loc = some s → validUtf8 s = true) →
      EncExtM n ⟨p, d, l, loc, none⟩ (b!" " ++ e1 ++ (b!" " ++ e2 ++ (b!" " ++ e3 ++ (b!" " ++ e4))))
  | l5 (p : BodyParams) (d : Option ContentDisposition) (l : Option (List Bytes)) (loc : Option Bytes)
      (x : BodyExtension) (e1 e2 e3 e4 e5 : Bytes) :
      EncParams p e1 → EncDisp d e2 → EncLang l e3 →
      EncNString loc e4 → (∀ s, loc = some s → validUtf8 s = true) → EncExt n x e5 →
      EncExtM n ⟨p, d, l, loc, some x⟩
        (b!" " ++ e1 ++ (b!" " ++ e2 ++ (b!" " ++ e3 ++ (b!" " ++ e4 ++ (b!" " ++ e5)))))

theorem bodyExtMPart_enc (n : Nat) (x : BodyExtMPart) (e : Bytes) (h : EncExtM n x e) :
    Parses (bodyExtMPart n) e x closeP := by
  unfold bodyExtMPart closeP
  cases h with
  | l0 =>
    refine Parses.bind' (optOpt_absent _) ?_ (fun _ h => h) (e2 := []) (by simp)
    refine Parses.bind' (optOpt_absent _) ?_ (fun _ h => h) (e2 := []) (by simp)
    refine Parses.bind' (optOpt_absent _) ?_ (fun _ h => h) (e2 := []) (by simp)
    refine Parses.bind' (optOpt_absent _) ?_ (fun _ h => h) (e2 := []) (by simp)
    exact Parses.bind' (opt_absent _) (Parses.pure _ _) (fun _ h => h) (by simp)
  | l1 p e1 h1 =>
    refine Parses.bind' (optOpt_present (bodyParam_enc _ _ h1 _)) ?_ (fun _ h => h) (e2 := []) (by simp)
    refine Parses.bind' (optOpt_absent _) ?_ (fun _ h => h) (e2 := []) (by simp)
    refine Parses.bind' (optOpt_absent _) ?_ (fun _ h => h) (e2 := []) (by simp)
    refine Parses.bind' (optOpt_absent _) ?_ (fun _ h => h) (e2 := []) (by simp)
    exact Parses.bind' (opt_absent _) (Parses.pure _ _) (fun _ h => h) (by simp)
  | l2 p d e1 e2 h1 h2 =>
    refine Parses.bind (optOpt_present (bodyParam_enc _ _ h1 Any)) ?_ (fun _ _ => trivial)
    refine Parses.bind' (optOpt_present (bodyDisposition_enc _ _ h2 _)) ?_ (fun _ h => h) (e2 := []) (by simp)
    refine Parses.bind' (optOpt_absent _) ?_ (fun _ h => h) (e2 := []) (by simp)
    refine Parses.bind' (optOpt_absent _) ?_ (fun _ h => h) (e2 := []) (by simp)
    exact Parses.bind' (opt_absent _) (Parses.pure _ _) (fun _ h => h) (by simp)
  | l3 p d l e1 e2 e3 h1 h2 h3 =>
    refine Parses.bind (optOpt_present (bodyParam_enc _ _ h1 Any)) ?_ (fun _ _ => trivial)
    refine Parses.bind (optOpt_present (bodyDisposition_enc _ _ h2 Any)) ?_ (fun _ _ => trivial)
    refine Parses.bind' (optOpt_present (bodyLang_enc _ _ h3 _)) ?_ (fun _ h => h) (e2 := []) (by simp)
    refine Parses.bind' (optOpt_absent _) ?_ (fun _ h => h) (e2 := []) (by simp)
    exact Parses.bind' (opt_absent _) (Parses.pure _ _) (fun _ h => h) (by simp)
  | l4 p d l loc e1 e2 e3 e4 h1 h2 h3 h4 hu4 =>
    refine Parses.bind (optOpt_present (bodyParam_enc _ _ h1 Any)) ?_ (fun _ _ => trivial)
    refine Parses.bind (optOpt_present (bodyDisposition_enc _ _ h2 Any)) ?_ (fun _ _ => trivial)
    refine Parses.bind (optOpt_present (bodyLang_enc _ _ h3 Any)) ?_ (fun _ _ => trivial)
    refine Parses.bind' (optOpt_present ((nstringUtf8_enc _ _ h4 hu4).weaken (fun _ _ => trivial)))
      ?_ (fun _ h => h) (e2 := []) (by simp)
    exact Parses.bind' (opt_absent _) (Parses.pure _ _) (fun _ h => h) (by simp)
  | l5 p d l loc x e1 e2 e3 e4 e5 h1 h2 h3 h4 hu4 h5 =>
    refine Parses.bind (optOpt_present (bodyParam_enc _ _ h1 Any)) ?_ (fun _ _ => trivial)
    refine Parses.bind (optOpt_present (bodyDisposition_enc _ _ h2 Any)) ?_ (fun _ _ => trivial)
    refine Parses.bind (optOpt_present (bodyLang_enc _ _ h3 Any)) ?_ (fun _ _ => trivial)
    refine Parses.bind (optOpt_present (nstringUtf8_enc _ _ h4 hu4)) ?_ (fun _ _ => trivial)
    refine Parses.bind' (opt_present ((bodyExtension_enc n x e5 h5).weaken ?_)) (Parses.pure _ _)
      (fun _ h => h) (by simp)
    intro r ⟨c, t, hr, hc⟩
    exact ⟨c, t, hr, by simp only [spaceOrClose, Bool.or_eq_true]; exact Or.inr hc⟩

theorem encExtM_head (n : Nat) (x : BodyExtMPart) (e : Bytes) (h : EncExtM n x e) :
    e = [] ∨ ∃ t, e = 32 :: t := by
  cases h <;> first | exact Or.inl rfl | exact Or.inr ⟨_, rfl⟩

end RT
