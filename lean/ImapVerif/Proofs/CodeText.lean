/-
  C13 at response level: a numeric response code whose numeral does not fit the field is not a code
  at all - the bracketed text is returned as human-readable text, unchanged; the number is never
  wrapped or truncated.
-/
import ImapVerif.Proofs.RT8

open Bytes Parser Grammar

namespace RT

/-- every alternative of `resp_text_code` fails: so does the choice -/
theorem respTextCodeAlt_all_err (i : Bytes)
    (h1 : (Parser.map (tagNoCase (b!"ALERT")) fun _ => ResponseCode.alert) i = .err)
    (h2 : respTextCodeBadCharset i = .err)
    (h3 : (Parser.map capabilityData ResponseCode.capabilities) i = .err)
    (h4 : (Parser.map (tagNoCase (b!"PARSE")) fun _ => ResponseCode.parse) i = .err)
    (h5 : respTextCodePermanentFlags i = .err) (h6 : respTextCodeUidValidity i = .err)
    (h7 : respTextCodeUidNext i = .err) (h8 : respTextCodeUnseen i = .err)
    (h9 : (Parser.map (tagNoCase (b!"READ-ONLY")) fun _ => ResponseCode.readOnly) i = .err)
    (h10 : (Parser.map (tagNoCase (b!"READ-WRITE")) fun _ => ResponseCode.readWrite) i = .err)
    (h11 : (Parser.map (tagNoCase (b!"TRYCREATE")) fun _ => ResponseCode.tryCreate) i = .err)
    (h12 : respTextCodeHighestModSeq i = .err) (h13 : respTextCodeAppendUid i = .err)
    (h14 : respTextCodeCopyUid i = .err) (h15 : respTextCodeUidNotSticky i = .err)
    (h16 : respTextCodeMetadataLongEntries i = .err) (h17 : respTextCodeMetadataMaxSize i = .err)
    (h18 : respTextCodeMetadataTooMany i = .err) (h19 : respTextCodeMetadataNoPrivate i = .err) :
    respTextCodeAlt i = .err := by
  unfold respTextCodeAlt
  simp only [alt, h1, h2, h3, h4, h5, h6, h7, h8, h9, h10, h11, h12, h13, h14, h15, h16, h17, h18, h19]

theorem code_noPrivate_err (u m r) (h : mismatch (b!"METADATA NOPRIVATE") u = true) :
    respTextCodeMetadataNoPrivate (spell u m ++ r) = .err := by
  unfold respTextCodeMetadataNoPrivate; exact kwMap_err _ _ u m r h

/-- `K SP digits` where the digits do not fit: the alternative for `K` fails at the number -/
theorem kwNumber_overflow {β : Type} (kw : Bytes) (g : Nat → β) (bound : Nat) (m : List Bool) (ds : Bytes)
    (hne : ds ≠ []) (hall : ∀ d ∈ ds, isDigit d = true) (hbig : bound ≤ decVal ds) (c : UInt8) (r : Bytes)
    (hc : isDigit c = false) :
    (do tagNoCase kw; let n ← numberB bound; pure (g n) : Parser β) (spell kw m ++ (ds ++ c :: r)) = .err := by
  show Parser.bindP (tagNoCase kw) _ _ = .err
  unfold Parser.bindP
  rw [tagNoCase_spell kw m _ trivial]
  show Parser.bindP (numberB bound) _ _ = .err
  unfold Parser.bindP
  rw [Num.numberB_rejects bound ds hne hall hbig c r hc]

/-- the four numeric codes whose field is a plain number -/
inductive NumCode | uidValidity | uidNext | unseen | highestModSeq
deriving DecidableEq

def NumCode.kw : NumCode → Bytes
  | .uidValidity => b!"UIDVALIDITY " | .uidNext => b!"UIDNEXT " | .unseen => b!"UNSEEN "
  | .highestModSeq => b!"HIGHESTMODSEQ "

def NumCode.bound : NumCode → Nat
  | .highestModSeq => 2 ^ 64
  | _ => 2 ^ 32

macro "code_err" : tactic => `(tactic|
  first
    | exact kwMap_err _ _ _ _ _ (by decide)
    | exact code_badCharset_err _ _ _ (by decide)
    | exact code_capability_err _ _ _ (by decide)
    | exact code_permanentFlags_err _ _ _ (by decide)
    | exact code_uidValidity_err _ _ _ (by decide)
    | exact code_uidNext_err _ _ _ (by decide)
    | exact code_unseen_err _ _ _ (by decide)
    | exact code_highestModSeq_err _ _ _ (by decide)
    | exact code_appendUid_err _ _ _ (by decide)
    | exact code_copyUid_err _ _ _ (by decide)
    | exact code_uidNotSticky_err _ _ _ (by decide)
    | exact code_longEntries_err _ _ _ (by decide)
    | exact code_maxSize_err _ _ _ (by decide)
    | exact code_tooMany_err _ _ _ (by decide)
    | exact code_noPrivate_err _ _ _ (by decide))

/-- **an out-of-range numeral makes the whole code fail**: no alternative of `resp_text_code` accepts
    `K SP digits ]` when the digits denote a number beyond the field's range -/
theorem respTextCodeAlt_overflow (k : NumCode) (m : List Bool) (ds : Bytes) (hne : ds ≠ [])
    (hall : ∀ d ∈ ds, isDigit d = true) (hbig : k.bound ≤ decVal ds) (r : Bytes) :
    respTextCodeAlt (spell k.kw m ++ (ds ++ 93 :: r)) = .err := by
  cases k with
  | uidValidity =>
    apply respTextCodeAlt_all_err
    case h6 => unfold respTextCodeUidValidity; exact kwNumber_overflow _ _ (2 ^ 32) m ds hne hall hbig 93 r (by decide)
    all_goals code_err
  | uidNext =>
    apply respTextCodeAlt_all_err
    case h7 => unfold respTextCodeUidNext; exact kwNumber_overflow _ _ (2 ^ 32) m ds hne hall hbig 93 r (by decide)
    all_goals code_err
  | unseen =>
    apply respTextCodeAlt_all_err
    case h8 => unfold respTextCodeUnseen; exact kwNumber_overflow _ _ (2 ^ 32) m ds hne hall hbig 93 r (by decide)
    all_goals code_err
  | highestModSeq =>
    apply respTextCodeAlt_all_err
    case h12 => unfold respTextCodeHighestModSeq; exact kwNumber_overflow _ _ (2 ^ 64) m ds hne hall hbig 93 r (by decide)
    all_goals code_err

theorem textChar_flip (c : UInt8) (h : isTextChar c = true) : isTextChar (flipCase c) = true := by
  have key : ∀ n : Fin 256, isTextChar (UInt8.ofNat n.val) = true → isTextChar (flipCase (UInt8.ofNat n.val)) = true := by
    decide +kernel
  have := key ⟨c.toNat, c.toNat_lt⟩
  simp only [UInt8.ofNat_toNat] at this
  exact this h

theorem isText_spell (t : Bytes) (m : List Bool) (h : IsText t) : IsText (spell t m) := by
  induction t generalizing m with
  | nil => cases m <;> simpa [spell] using h
  | cons a as ih =>
    cases m with
    | nil => simpa [spell] using h
    | cons b bs =>
      intro c hc
      simp only [spell, List.mem_cons] at hc
      rcases hc with rfl | hc
      · cases b
        · simpa using h a (by simp)
        · simpa using textChar_flip a (h a (by simp))
      · exact ih bs (fun x hx => h x (by simp [hx])) c hc

theorem digit_isText (ds : Bytes) (h : ∀ d ∈ ds, isDigit d = true) : IsText ds := by
  intro c hc
  have key : ∀ n : Fin 256, isDigit (UInt8.ofNat n.val) = true → isTextChar (UInt8.ofNat n.val) = true := by
    decide +kernel
  have := key ⟨c.toNat, c.toNat_lt⟩
  simp only [UInt8.ofNat_toNat] at this
  exact this (h c hc)

/-- **the code is left as text**: `[K digits] text` with an out-of-range numeral is parsed as
    human-readable text - the complete bracketed string, byte for byte - with no code -/
theorem respText_overflow_is_text (k : NumCode) (m : List Bool) (ds : Bytes) (hne : ds ≠ [])
    (hall : ∀ d ∈ ds, isDigit d = true) (hbig : k.bound ≤ decVal ds) (t : Bytes) (ht : IsText t)
    (rest : Bytes) (hr : Starts crlfStart rest) :
    respText (b!"[" ++ (spell k.kw m ++ (ds ++ (b!"]" ++ t))) ++ rest)
      = .ok (none, some (b!"[" ++ (spell k.kw m ++ (ds ++ (b!"]" ++ t))))) rest := by
  have hkw : IsText k.kw := by cases k <;> (unfold IsText NumCode.kw; decide)
  have hwhole : IsText (b!"[" ++ (spell k.kw m ++ (ds ++ (b!"]" ++ t)))) := by
    intro c hc
    simp only [List.mem_append, List.mem_cons, List.not_mem_nil, or_false] at hc
    rcases hc with rfl | hc | hc | rfl | hc
    · decide
    · exact isText_spell _ m hkw c hc
    · exact digit_isText ds hall c hc
    · decide
    · exact ht c hc
  have hcode : respTextCode (b!"[" ++ (spell k.kw m ++ (ds ++ (b!"]" ++ t))) ++ rest) = .err := by
    unfold respTextCode
    show Parser.bindP (tag (b!"[")) _ _ = .err
    unfold Parser.bindP
    simp only [List.append_assoc]
    rw [tag_ok (b!"[") _ trivial]
    show Parser.bindP respTextCodeAlt _ _ = .err
    unfold Parser.bindP
    have := respTextCodeAlt_overflow k m ds hne hall hbig (t ++ rest)
    simp only [List.cons_append, List.nil_append] at this ⊢
    rw [this]
  unfold respText mapPanic
  have h1 : (do let code ← opt respTextCode; let t ← text; pure (code, t) : Parser (Option ResponseCode × Bytes))
      (b!"[" ++ (spell k.kw m ++ (ds ++ (b!"]" ++ t))) ++ rest)
      = .ok (none, b!"[" ++ (spell k.kw m ++ (ds ++ (b!"]" ++ t)))) rest := by
    show Parser.bindP (opt respTextCode) _ _ = _
    unfold Parser.bindP Parser.opt
    rw [hcode]
    simp only
    show Parser.bindP text _ _ = _
    unfold Parser.bindP
    rw [text_enc _ hwhole (text_utf8 _ hwhole) rest (crlf_notText rest hr)]
    rfl
  rw [h1]
  simp [respTextFinish]

end RT
