/-
  Round-trip: capability atoms and the CAPABILITY list.
-/
import ImapVerif.Proofs.RT7

open Bytes Parser Grammar

namespace RT

/-- a capability on the wire is an atom; its value is the classification of the complete atom -/
inductive EncCap : Capability → Bytes → Prop
  | mk (a : Bytes) : a ≠ [] → (∀ c ∈ a, isAtomChar c = true) → validUtf8 a = true →
      EncCap (classifyCapability a) a

theorem capability_enc (v : Capability) (e : Bytes) (h : EncCap v e) : Parses capability e v (Starts notAtomChar) := by
  cases h with
  | mk _ hne hall hu =>
    unfold capability
    exact Parses.map _ (atom_enc e hne hall hu)

def spCap : Parser Capability := do char 32; capability

/-- what may follow the capability list: CR, `]`, or a space not followed by an atom character -/
def EndOfCaps (r : Bytes) : Prop :=
  (∃ c t, r = c :: t ∧ (c = 13 ∨ c = 93)) ∨ (∃ x t, r = 32 :: x :: t ∧ isAtomChar x = false)

theorem spCap_stop (r : Bytes) (h : EndOfCaps r) : spCap r = .err := by
  unfold spCap
  show Parser.bindP (char 32) _ _ = .err
  unfold Parser.bindP
  rcases h with ⟨c, t, rfl, hc⟩ | ⟨x, t, rfl, hx⟩
  · have : (c == 32) = false := by rcases hc with rfl | rfl <;> decide
    simp [char, this]
  · simp [char, capability, Parser.map, atom, Parser.mapRes, takeWhile1_err isAtomChar x t hx]

theorem caps_many0 (items : List (Bytes × Capability)) (hall : ∀ x ∈ items, EncCap x.2 x.1) :
    Parses (many0 spCap) (items.map fun x => b!" " ++ x.1).flatten (items.map (·.2)) EndOfCaps := by
  have key := Parses.many0 (p := spCap) (Starts notAtomChar) EndOfCaps
    (items.map fun x => (b!" " ++ x.1, x.2)) ?_ ?_ ?_ ?_ ?_
  · simpa [List.map_map, Function.comp_def] using key
  · intro y hy
    simp only [List.mem_map] at hy
    obtain ⟨x, hx, rfl⟩ := hy
    unfold spCap
    exact Parses.bind (char_ok 32) (capability_enc x.2 x.1 (hall x hx)) (fun _ _ => trivial)
  · intro y hy
    simp only [List.mem_map] at hy
    obtain ⟨x, hx, rfl⟩ := hy
    simp
  · intro y hy r
    simp only [List.mem_map] at hy
    obtain ⟨x, hx, rfl⟩ := hy
    exact ⟨32, x.1 ++ r, by simp, by decide⟩
  · intro r hr
    rcases hr with ⟨c, t, rfl, hc⟩ | ⟨x, t, rfl, _⟩
    · exact ⟨c, t, rfl, by rcases hc with rfl | rfl <;> decide⟩
    · exact ⟨32, x :: t, rfl, by decide⟩
  · intro r hr
    exact spCap_stop r hr

/-- `CAPABILITY SP atom ...`; the list must name IMAP4rev1 -/
inductive EncCaps : List Capability → Bytes → Prop
  | mk (m : List Bool) (items : List (Bytes × Capability)) :
      (∀ x ∈ items, EncCap x.2 x.1) → (items.map (·.2)).contains Capability.imap4rev1 = true →
      EncCaps (items.map (·.2)) (spell (b!"CAPABILITY") m ++ (items.map fun x => b!" " ++ x.1).flatten)

theorem capabilityData_enc (v : List Capability) (e : Bytes) (h : EncCaps v e) :
    Parses capabilityData e v EndOfCaps := by
  cases h with
  | mk m items hall hc =>
    unfold capabilityData
    refine Parses.mapRes _ _ (v := items.map (·.2)) ?_ (by unfold ensureCapabilitiesContainsImap4rev; rw [if_pos hc])
    exact Parses.bind (tagNoCase_spell _ m) (caps_many0 items hall) (fun _ _ => trivial)

end RT
