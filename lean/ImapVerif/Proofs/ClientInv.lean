/-
  Invariants of the write half of `Framed` and of `ResponseStream::poll_next` (Client.lean).
-/
import ImapVerif.Client

open Bytes Client

namespace ClientInv

/-! ### write half -/

theorem pollFlushGo_spec : ∀ (ws : List WEv) (w : Wr) (calls : List Char),
    (pollFlushGo ws w calls).2.1.wire ++ (pollFlushGo ws w calls).2.1.wbuf = w.wire ++ w.wbuf ∧
    ((pollFlushGo ws w calls).1 = .ready → (pollFlushGo ws w calls).2.1.wbuf = []) ∧
    ((pollFlushGo ws w calls).1 = .pending →
      (pollFlushGo ws w calls).2.2.1 = [] ∨ ∃ pre, ws = pre ++ WEv.pending :: (pollFlushGo ws w calls).2.2.1) := by
  intro ws
  induction ws with
  | nil =>
    intro w calls
    unfold pollFlushGo
    split <;> simp
  | cons e rest ih =>
    intro w calls
    unfold pollFlushGo
    split
    · rename_i hw
      cases e with
      | acc n => simp
      | pending => simp
      | err => simp
      | flushed => simp [hw]
    · rename_i x xs hw
      cases e with
      | pending => simp
      | err => simp
      | flushed => simp
      | acc n =>
        simp only
        split
        · simp
        · obtain ⟨h1, h2, h3⟩ := ih (⟨w.wbuf.drop (min n w.wbuf.length),
                        w.wire ++ w.wbuf.take (min n w.wbuf.length)⟩ : Wr) ('w' :: calls)
          refine ⟨?_, h2, ?_⟩
          · rw [h1]; simp [List.append_assoc]
          · intro hp
            rcases h3 hp with h | ⟨pre, hpre⟩
            · exact Or.inl h
            · exact Or.inr ⟨.acc n :: pre, by rw [List.cons_append, ← hpre]⟩

theorem pollFlush_spec (w : Wr) (ws : List WEv) :
    (pollFlush w ws).2.1.wire ++ (pollFlush w ws).2.1.wbuf = w.wire ++ w.wbuf ∧
    ((pollFlush w ws).1 = .ready → (pollFlush w ws).2.1.wbuf = []) ∧
    ((pollFlush w ws).1 = .pending →
      (pollFlush w ws).2.2.1 = [] ∨ ∃ pre, ws = pre ++ WEv.pending :: (pollFlush w ws).2.2.1) := by
  have := pollFlushGo_spec ws w []
  simpa [pollFlush] using this

theorem pollReady_spec (w : Wr) (ws : List WEv) :
    (pollReady w ws).2.1.wire ++ (pollReady w ws).2.1.wbuf = w.wire ++ w.wbuf ∧
    ((pollReady w ws).1 = .pending →
      (pollReady w ws).2.2.1 = [] ∨ ∃ pre, ws = pre ++ WEv.pending :: (pollReady w ws).2.2.1) := by
  unfold pollReady
  split
  · have := pollFlush_spec w ws
    exact ⟨this.1, this.2.2⟩
  · simp

theorem pollFlushGo_calls : ∀ (ws : List WEv) (w : Wr) (calls : List Char),
    (∀ ch ∈ calls, ch ≠ 'r') → ∀ ch ∈ (pollFlushGo ws w calls).2.2.2, ch ≠ 'r' := by
  intro ws
  induction ws with
  | nil =>
    intro w calls h
    unfold pollFlushGo
    split <;> simpa using h
  | cons e rest ih =>
    intro w calls h
    have hw : ∀ ch ∈ 'w' :: calls, ch ≠ 'r' := by
      intro ch hch; simp only [List.mem_cons] at hch
      rcases hch with rfl | hch
      · decide
      · exact h ch hch
    have hf : ∀ ch ∈ 'f' :: calls, ch ≠ 'r' := by
      intro ch hch; simp only [List.mem_cons] at hch
      rcases hch with rfl | hch
      · decide
      · exact h ch hch
    unfold pollFlushGo
    split
    · cases e <;> simpa using hf
    · cases e with
      | pending => simpa using hw
      | err => simpa using hw
      | flushed => simpa using hw
      | acc n =>
        simp only
        split
        · simpa using hw
        · exact ih _ _ hw

/-- a flush makes `poll_write` / `poll_flush` calls only -/
theorem pollFlush_calls (w : Wr) (ws : List WEv) : ∀ ch ∈ (pollFlush w ws).2.2.2, ch ≠ 'r' := by
  intro ch hch
  unfold pollFlush at hch
  simp only [List.mem_reverse] at hch
  exact pollFlushGo_calls ws w [] (by simp) ch hch

/-! ### connection invariants -/

/-- everything handed to `start_send` is either on the wire or still in the write buffer, in order -/
def WInv (c : Conn) : Prop := c.wr.wire ++ c.wr.wbuf = c.started.flatten

/-- a stream that is waiting for (or has seen) its completion has flushed its command completely -/
def Flushed (s : RStream) (c : Conn) : Prop :=
  (s.st = .receiving ∨ s.st = .done) → c.wr.wbuf = []

/-- what the `Receiving` arm does, in terms of one poll of the framed transport -/
theorem recvStep_spec (s : RStream) (c : Conn) (rs : List REv) (ws : List WEv) (calls : List Char) :
    ∃ r rd' rs' n, pollNext c.rd rs = (r, rd', rs', n) ∧
      (recvStep s c rs ws calls).c = { c with rd := rd' } ∧
      (recvStep s c rs ws calls).rs = rs' ∧ (recvStep s c rs ws calls).ws = ws ∧
      (recvStep s c rs ws calls).calls = calls ++ List.replicate n 'r' ∧
      (recvStep s c rs ws calls).s.tag = s.tag ∧ (recvStep s c rs ws calls).s.args = s.args ∧
      (match r with
       | .pending => (recvStep s c rs ws calls).res = .pending ∧ (recvStep s c rs ws calls).s = s
       | .item (.frame f) =>
         (recvStep s c rs ws calls).res = .item (.frame f) ∧
         (recvStep s c rs ws calls).s.st = (if requestId f.value = some s.tag then .done else s.st)
       | .item .error => (recvStep s c rs ws calls).res = .item .error ∧ (recvStep s c rs ws calls).s = s
       | .done => (recvStep s c rs ws calls).res = .item .error ∧ (recvStep s c rs ws calls).s = s) := by
  cases hp : pollNext c.rd rs with
  | mk r t =>
    obtain ⟨rd', rs', n⟩ := t
    refine ⟨r, rd', rs', n, rfl, ?_⟩
    unfold recvStep
    rw [hp]
    cases r with
    | pending => simp
    | done => simp
    | item it =>
      cases it with
      | error => simp
      | frame f =>
        simp only
        split <;> simp_all

theorem recvStep_wr (s : RStream) (c : Conn) (rs ws calls) :
    (recvStep s c rs ws calls).c.wr = c.wr ∧ (recvStep s c rs ws calls).c.started = c.started ∧
    (recvStep s c rs ws calls).c.issued = c.issued ∧ (recvStep s c rs ws calls).ws = ws := by
  obtain ⟨r, rd', rs', n, _, hc, _, hws, _⟩ := recvStep_spec s c rs ws calls
  rw [hc]; exact ⟨rfl, rfl, rfl, hws⟩

theorem recvStep_not_done (s : RStream) (c : Conn) (rs ws calls) :
    (recvStep s c rs ws calls).res ≠ .done := by
  obtain ⟨r, rd', rs', n, _, _, _, _, _, _, _, hm⟩ := recvStep_spec s c rs ws calls
  cases r with
  | pending => simp only at hm; rw [hm.1]; simp
  | done => simp only at hm; rw [hm.1]; simp
  | item it =>
    cases it with
    | error => simp only at hm; rw [hm.1]; simp
    | frame f => simp only at hm; rw [hm.1]; simp

/-- the stream leaves `Receiving` for `Done` exactly on a frame whose tag is byte-for-byte its own -/
theorem recvStep_state (s : RStream) (c : Conn) (rs ws calls) (hs : s.st = .receiving) :
    ((recvStep s c rs ws calls).s.st = .done ↔
      ∃ f, (recvStep s c rs ws calls).res = .item (.frame f) ∧ requestId f.value = some s.tag) ∧
    ((recvStep s c rs ws calls).s.st = .done ∨ (recvStep s c rs ws calls).s.st = .receiving) := by
  obtain ⟨r, rd', rs', n, _, _, _, _, _, _, _, hm⟩ := recvStep_spec s c rs ws calls
  cases r with
  | pending =>
    simp only at hm
    rw [hm.1, hm.2]; simp [hs]
  | done =>
    simp only at hm
    rw [hm.1, hm.2]; simp [hs]
  | item it =>
    cases it with
    | error =>
      simp only at hm
      rw [hm.1, hm.2]; simp [hs]
    | frame f =>
      simp only at hm
      rw [hm.1, hm.2]
      by_cases hq : requestId f.value = some s.tag
      · simp [hq]
      · simp [hq, hs]

theorem recvStep_calls (s : RStream) (c : Conn) (rs ws calls) :
    ∃ n, (recvStep s c rs ws calls).calls = calls ++ List.replicate n 'r' := by
  obtain ⟨r, rd', rs', n, _, _, _, _, hcalls, _⟩ := recvStep_spec s c rs ws calls
  exact ⟨n, hcalls⟩

theorem recvStep_pending (s : RStream) (c : Conn) (rs ws calls)
    (h : (recvStep s c rs ws calls).res = .pending) :
    ∃ rd' n, pollNext c.rd rs = (.pending, rd', (recvStep s c rs ws calls).rs, n) := by
  obtain ⟨r, rd', rs', n, hp, _, hrs, _, _, _, _, hm⟩ := recvStep_spec s c rs ws calls
  cases r with
  | pending => exact ⟨rd', n, by rw [hrs]; exact hp⟩
  | done => simp only at hm; rw [hm.1] at h; cases h
  | item it =>
    cases it with
    | error => simp only at hm; rw [hm.1] at h; cases h
    | frame f => simp only at hm; rw [hm.1] at h; cases h

/-! ### equations of `sendStep` and `Stream.pollNext` -/

theorem sendStep_ready (s : RStream) (c : Conn) (rs : List REv) (ws : List WEv) (calls : List Char)
    (wr' : Wr) (ws' : List WEv) (cl : List Char) (h : pollFlush c.wr ws = (.ready, wr', ws', cl)) :
    sendStep s c rs ws calls =
      recvStep { s with st := .receiving } { c with wr := wr' } rs ws' (calls ++ cl) := by
  unfold sendStep; rw [h]

theorem sendStep_pending (s : RStream) (c : Conn) (rs : List REv) (ws : List WEv) (calls : List Char)
    (wr' : Wr) (ws' : List WEv) (cl : List Char) (h : pollFlush c.wr ws = (.pending, wr', ws', cl)) :
    sendStep s c rs ws calls = ⟨.pending, s, { c with wr := wr' }, rs, ws', calls ++ cl⟩ := by
  unfold sendStep; rw [h]

theorem sendStep_err (s : RStream) (c : Conn) (rs : List REv) (ws : List WEv) (calls : List Char)
    (wr' : Wr) (ws' : List WEv) (cl : List Char) (h : pollFlush c.wr ws = (.err, wr', ws', cl)) :
    sendStep s c rs ws calls = ⟨.item .error, s, { c with wr := wr' }, rs, ws', calls ++ cl⟩ := by
  unfold sendStep; rw [h]

theorem pollNext_start_ready (s : RStream) (c : Conn) (rs : List REv) (ws : List WEv) (hs : s.st = .start)
    (wr' : Wr) (ws' : List WEv) (cl : List Char) (h : pollReady c.wr ws = (.ready, wr', ws', cl)) :
    Stream.pollNext s c rs ws =
      sendStep { s with st := .sending }
        { c with wr := startSend wr' s.tag s.args, started := c.started ++ [encodeC s.tag s.args] } rs ws' cl := by
  unfold Stream.pollNext; rw [hs]; simp only; rw [h]

theorem pollNext_start_pending (s : RStream) (c : Conn) (rs : List REv) (ws : List WEv) (hs : s.st = .start)
    (wr' : Wr) (ws' : List WEv) (cl : List Char) (h : pollReady c.wr ws = (.pending, wr', ws', cl)) :
    Stream.pollNext s c rs ws = ⟨.pending, s, { c with wr := wr' }, rs, ws', cl⟩ := by
  unfold Stream.pollNext; rw [hs]; simp only; rw [h]

theorem pollNext_start_err (s : RStream) (c : Conn) (rs : List REv) (ws : List WEv) (hs : s.st = .start)
    (wr' : Wr) (ws' : List WEv) (cl : List Char) (h : pollReady c.wr ws = (.err, wr', ws', cl)) :
    Stream.pollNext s c rs ws = ⟨.item .error, s, { c with wr := wr' }, rs, ws', cl⟩ := by
  unfold Stream.pollNext; rw [hs]; simp only; rw [h]

theorem pollNext_sending (s : RStream) (c : Conn) (rs ws) (hs : s.st = .sending) :
    Stream.pollNext s c rs ws = sendStep s c rs ws [] := by
  unfold Stream.pollNext; rw [hs]

theorem pollNext_receiving (s : RStream) (c : Conn) (rs ws) (hs : s.st = .receiving) :
    Stream.pollNext s c rs ws = recvStep s c rs ws [] := by
  unfold Stream.pollNext; rw [hs]

theorem pollNext_done (s : RStream) (c : Conn) (rs ws) (hs : s.st = .done) :
    Stream.pollNext s c rs ws = ⟨.done, s, c, rs, ws, []⟩ := by
  unfold Stream.pollNext; rw [hs]

/-- facts about `sendStep` that hold whatever the transport does -/
theorem sendStep_facts (s : RStream) (c : Conn) (rs : List REv) (ws : List WEv) (calls : List Char)
    (hs : s.st = .sending) :
    let st := sendStep s c rs ws calls
    st.c.wr.wire ++ st.c.wr.wbuf = c.wr.wire ++ c.wr.wbuf ∧ st.c.started = c.started ∧
    st.c.issued = c.issued ∧ st.res ≠ .done ∧ st.s.tag = s.tag ∧ st.s.args = s.args ∧
    (st.s.st = .sending ∨ st.s.st = .receiving ∨ st.s.st = .done) ∧
    (st.s.st = .receiving ∨ st.s.st = .done → st.c.wr.wbuf = []) ∧
    (st.s.st = .done ↔ ∃ f, st.res = .item (.frame f) ∧ requestId f.value = some s.tag) ∧
    (∀ ch ∈ st.calls, ch = 'r' → ch ∈ calls ∨ st.c.wr.wbuf = []) := by
  cases hf : pollFlush c.wr ws with
  | mk u t =>
    obtain ⟨wr', ws', cl⟩ := t
    have hspec := pollFlush_spec c.wr ws
    rw [hf] at hspec
    simp only at hspec
    obtain ⟨hw, hready, _⟩ := hspec
    cases u with
    | ready =>
      rw [sendStep_ready s c rs ws calls wr' ws' cl hf]
      have hwb : wr'.wbuf = [] := hready rfl
      obtain ⟨h1, h2, h3, _⟩ := recvStep_wr { s with st := .receiving } { c with wr := wr' } rs ws' (calls ++ cl)
      obtain ⟨hd, hor⟩ := recvStep_state { s with st := .receiving } { c with wr := wr' } rs ws' (calls ++ cl) rfl
      obtain ⟨_, _, _, _, _, _, _, _, _, htag, hargs, _⟩ :=
        recvStep_spec { s with st := .receiving } { c with wr := wr' } rs ws' (calls ++ cl)
      refine ⟨by rw [h1]; exact hw, by rw [h2], by rw [h3], recvStep_not_done _ _ _ _ _, htag, hargs, ?_, ?_, ?_, ?_⟩
      · rcases hor with h | h
        · exact Or.inr (Or.inr h)
        · exact Or.inr (Or.inl h)
      · intro _; rw [h1]; exact hwb
      · simpa using hd
      · intro ch _ _
        right; rw [h1]; exact hwb
    | pending =>
      rw [sendStep_pending s c rs ws calls wr' ws' cl hf]
      refine ⟨hw, rfl, rfl, by simp, rfl, rfl, Or.inl hs, ?_, ?_, ?_⟩
      · intro h; rcases h with h | h <;> simp [hs] at h
      · simp [hs]
      · intro ch hch hr
        simp only [List.mem_append] at hch
        rcases hch with h | h
        · exact Or.inl h
        · -- the calls of a flush are `w` / `f`, never `r`
          exfalso
          have := pollFlush_calls c.wr ws
          rw [hf] at this
          exact this ch h hr
    | err =>
      rw [sendStep_err s c rs ws calls wr' ws' cl hf]
      refine ⟨hw, rfl, rfl, by simp, rfl, rfl, Or.inl hs, ?_, ?_, ?_⟩
      · intro h; rcases h with h | h <;> simp [hs] at h
      · simp [hs]
      · intro ch hch hr
        simp only [List.mem_append] at hch
        rcases hch with h | h
        · exact Or.inl h
        · exfalso
          have := pollFlush_calls c.wr ws
          rw [hf] at this
          exact this ch h hr

theorem pollReady_calls (w : Wr) (ws : List WEv) : ∀ ch ∈ (pollReady w ws).2.2.2, ch ≠ 'r' := by
  unfold pollReady
  split
  · exact pollFlush_calls w ws
  · simp

/-- everything the properties need to know about one `ResponseStream::poll_next` -/
theorem pollNext_facts (s : RStream) (c : Conn) (rs : List REv) (ws : List WEv) :
    let st := Stream.pollNext s c rs ws
    (st.c.wr.wire ++ st.c.wr.wbuf =
        c.wr.wire ++ c.wr.wbuf ++ (if s.st = .start ∧ st.s.st ≠ .start then encodeC s.tag s.args else [])) ∧
    (st.c.started = c.started ++ (if s.st = .start ∧ st.s.st ≠ .start then [encodeC s.tag s.args] else [])) ∧
    st.c.issued = c.issued ∧ st.s.tag = s.tag ∧ st.s.args = s.args ∧
    (s.st = .done → st.res = .done ∧ st.s = s ∧ st.c = c) ∧
    (s.st ≠ .done → st.res ≠ .done) ∧
    (s.st ≠ .done → (st.s.st = .done ↔ ∃ f, st.res = .item (.frame f) ∧ requestId f.value = some s.tag)) ∧
    (s.st ≠ .start → st.s.st ≠ .start) ∧
    (Flushed s c → Flushed st.s st.c) ∧
    (Flushed s c → (∃ ch ∈ st.calls, ch = 'r') → st.c.wr.wbuf = []) := by
  cases hst : s.st with
  | done =>
    rw [pollNext_done s c rs ws hst]
    simp [hst, Flushed]
  | receiving =>
    rw [pollNext_receiving s c rs ws hst]
    obtain ⟨h1, h2, h3, _⟩ := recvStep_wr s c rs ws []
    obtain ⟨hd, hor⟩ := recvStep_state s c rs ws [] hst
    obtain ⟨_, _, _, _, _, _, _, _, _, htag, hargs, _⟩ := recvStep_spec s c rs ws []
    refine ⟨by rw [h1]; simp, by rw [h2]; simp, h3, htag, hargs, (by intro h; cases h),
      (fun _ => recvStep_not_done s c rs ws []), (fun _ => hd), ?_, ?_, ?_⟩
    · intro _ h; rcases hor with h' | h' <;> rw [h'] at h <;> cases h
    · intro hf _; rw [h1]; exact hf (Or.inl hst)
    · intro hf _; rw [h1]; exact hf (Or.inl hst)
  | sending =>
    rw [pollNext_sending s c rs ws hst]
    obtain ⟨h1, h2, h3, h4, htag, hargs, h5, h6, h7, h8⟩ := sendStep_facts s c rs ws [] hst
    refine ⟨by rw [h1]; simp, by rw [h2]; simp, h3, htag, hargs, (by intro h; cases h), (fun _ => h4),
      (fun _ => h7), ?_, ?_, ?_⟩
    · intro _ h; rcases h5 with h' | h' | h' <;> rw [h'] at h <;> cases h
    · intro _; exact h6
    · intro _ ⟨ch, hch, hr⟩
      rcases h8 ch hch hr with h | h
      · simp at h
      · exact h
  | start =>
    cases hr : pollReady c.wr ws with
    | mk u t =>
      obtain ⟨wr', ws', cl⟩ := t
      have hspec := pollReady_spec c.wr ws
      rw [hr] at hspec
      simp only at hspec
      obtain ⟨hw, _⟩ := hspec
      cases u with
      | pending =>
        rw [pollNext_start_pending s c rs ws hst wr' ws' cl hr]
        simp only [hst]
        refine ⟨by simpa using hw, by simp, (by simp), (by simp), (by simp), (by intro h; cases h), (by simp), (by simp [hst]), (by simp),
          ?_, ?_⟩
        · intro _ h; rcases h with h | h <;> simp [hst] at h
        · intro _ ⟨ch, hch, hrr⟩
          have := pollReady_calls c.wr ws
          rw [hr] at this
          exact absurd hrr (this ch hch)
      | err =>
        rw [pollNext_start_err s c rs ws hst wr' ws' cl hr]
        simp only [hst]
        refine ⟨by simpa using hw, by simp, (by simp), (by simp), (by simp), (by intro h; cases h), (by simp), (by simp [hst]), (by simp),
          ?_, ?_⟩
        · intro _ h; rcases h with h | h <;> simp [hst] at h
        · intro _ ⟨ch, hch, hrr⟩
          have := pollReady_calls c.wr ws
          rw [hr] at this
          exact absurd hrr (this ch hch)
      | ready =>
        rw [pollNext_start_ready s c rs ws hst wr' ws' cl hr]
        obtain ⟨h1, h2, h3, h4, htag, hargs, h5, h6, h7, h8⟩ :=
          sendStep_facts { s with st := .sending }
            { c with wr := startSend wr' s.tag s.args, started := c.started ++ [encodeC s.tag s.args] } rs ws' cl rfl
        have hne : (sendStep { s with st := .sending }
            { c with wr := startSend wr' s.tag s.args, started := c.started ++ [encodeC s.tag s.args] } rs ws' cl).s.st
              ≠ .start := by
          intro h; rcases h5 with h' | h' | h' <;> rw [h'] at h <;> cases h
        refine ⟨?_, ?_, h3, htag, hargs, (by intro h; cases h), (fun _ => h4), (fun _ => h7), (by simp), ?_, ?_⟩
        · rw [h1]
          rw [if_pos ⟨rfl, hne⟩]
          simp only [startSend]
          rw [← hw]; simp [List.append_assoc]
        · rw [h2, if_pos ⟨rfl, hne⟩]
        · intro _; exact h6
        · intro _ ⟨ch, hch, hrr⟩
          rcases h8 ch hch hrr with h | h
          · have := pollReady_calls c.wr ws
            rw [hr] at this
            exact absurd hrr (this ch h)
          · exact h

end ClientInv
