/-
  Session level (C05): polling one command's response stream any number of times, once it is
  receiving, delivers exactly the responses of the connection's byte stream up to and including
  its own tagged completion - each once, in order - and leaves everything after it untouched.
  Composition of the per-poll facts of `ResponseStream::poll_next` (ClientInv) with the one-poll
  specification of the framed transport (Framed).
-/
import ImapVerif.Proofs.ClientInv
import ImapVerif.Proofs.Framed

open Bytes Client ClientInv Framed

namespace Session

/-- poll a response stream `k` times, collecting the results -/
def spolls : Nat → RStream → Conn → List REv → List WEv → List PollR × RStream × Conn × List REv × List WEv
  | 0, s, c, rs, ws => ([], s, c, rs, ws)
  | k + 1, s, c, rs, ws =>
    let st := Stream.pollNext s c rs ws
    match spolls k st.s st.c st.rs st.ws with
    | (l, s', c', rs', ws') => (st.res :: l, s', c', rs', ws')

/-- once `Done`, every further poll is `None` and touches nothing -/
theorem spolls_done (k : Nat) (s : RStream) (c : Conn) (rs : List REv) (ws : List WEv) (h : s.st = .done) :
    ∃ l, spolls k s c rs ws = (l, s, c, rs, ws) ∧ framesOf l = [] ∧ ∀ r ∈ l, r = .done := by
  induction k with
  | zero => exact ⟨[], rfl, rfl, by simp⟩
  | succ k ih =>
    obtain ⟨l, hl, hf, hall⟩ := ih
    refine ⟨.done :: l, ?_, ?_, ?_⟩
    · simp only [spolls, pollNext_done s c rs ws h, hl]
    · simp [framesOf, hf]
    · intro r hr
      simp only [List.mem_cons] at hr
      rcases hr with rfl | hr
      · rfl
      · exact hall r hr

/-- one poll of the framed transport, as a `polls 1` -/
theorem polls_one (rd : Rd) (rs : List REv) (r : PollR) (rd' : Rd) (rs' : List REv) (n : Nat)
    (h : pollNext rd rs = (r, rd', rs', n)) : polls 1 rd rs = ([r], rd', rs') := by
  simp [polls, h]

/-- what one poll of a live stream does to the read side: either it reaches the `Receiving` arm
    (possibly after starting and flushing the command in the same poll), or it stops before any
    read with Pending / an error, leaving the read side alone -/
theorem sendStep_view (s : RStream) (c : Conn) (rs : List REv) (ws : List WEv) (calls : List Char)
    (hnd : s.st ≠ .done) :
    (∃ s0 c0 ws0 calls0, s0.st = .receiving ∧ s0.tag = s.tag ∧ c0.rd = c.rd ∧
        sendStep s c rs ws calls = recvStep s0 c0 rs ws0 calls0) ∨
    (((sendStep s c rs ws calls).res = .pending ∨ (sendStep s c rs ws calls).res = .item .error) ∧
      (sendStep s c rs ws calls).c.rd = c.rd ∧ (sendStep s c rs ws calls).rs = rs ∧
      (sendStep s c rs ws calls).s.st ≠ .done ∧ (sendStep s c rs ws calls).s.tag = s.tag) := by
  cases hf : pollFlush c.wr ws with
  | mk u t =>
    obtain ⟨wr', ws', cl⟩ := t
    cases u with
    | ready =>
      left
      exact ⟨{ s with st := .receiving }, { c with wr := wr' }, ws', calls ++ cl, rfl, rfl, rfl,
        sendStep_ready s c rs ws calls wr' ws' cl hf⟩
    | pending =>
      right
      rw [sendStep_pending s c rs ws calls wr' ws' cl hf]
      exact ⟨Or.inl rfl, rfl, rfl, hnd, rfl⟩
    | err =>
      right
      rw [sendStep_err s c rs ws calls wr' ws' cl hf]
      exact ⟨Or.inr rfl, rfl, rfl, hnd, rfl⟩

theorem step_view (s : RStream) (c : Conn) (rs : List REv) (ws : List WEv) (hnd : s.st ≠ .done) :
    (∃ s0 c0 ws0 calls0, s0.st = .receiving ∧ s0.tag = s.tag ∧ c0.rd = c.rd ∧
        Stream.pollNext s c rs ws = recvStep s0 c0 rs ws0 calls0) ∨
    (((Stream.pollNext s c rs ws).res = .pending ∨ (Stream.pollNext s c rs ws).res = .item .error) ∧
      (Stream.pollNext s c rs ws).c.rd = c.rd ∧ (Stream.pollNext s c rs ws).rs = rs ∧
      (Stream.pollNext s c rs ws).s.st ≠ .done ∧ (Stream.pollNext s c rs ws).s.tag = s.tag) := by
  cases hst : s.st with
  | done => exact absurd hst hnd
  | receiving => exact Or.inl ⟨s, c, ws, [], hst, rfl, rfl, pollNext_receiving s c rs ws hst⟩
  | sending =>
    rw [pollNext_sending s c rs ws hst]
    exact sendStep_view s c rs ws [] hnd
  | start =>
    unfold Stream.pollNext
    rw [hst]
    cases hr : pollReady c.wr ws with
    | mk u t =>
      obtain ⟨wr', ws', cl⟩ := t
      cases u with
      | ready =>
        simp only
        have := sendStep_view { s with st := .sending }
          { c with wr := startSend wr' s.tag s.args, started := c.started ++ [encodeC s.tag s.args] } rs ws' cl
          (by simp)
        simpa using this
      | pending => right; simp [hst]
      | err => right; simp [hst]

/-- **the session invariant**: from `call` on (any state but `Done`) with a healthy connection,
    after any number of polls none of which reported an error:
    * the frames delivered, followed by the one-shot framing of what the connection still holds or
      will receive, are the one-shot framing of what it held or was to receive at the start - no
      response lost, duplicated, merged, torn or reordered;
    * the connection stays healthy;
    * if a delivered frame carries the stream's tag, the stream is `Done`;
    * if the stream is `Done`, the last frame delivered is that completion and no earlier frame
      carried the tag - so nothing after the completion has been consumed. -/
theorem session_invariant : ∀ (k : Nat) (s : RStream) (c : Conn) (rs : List REv) (ws : List WEv)
    (res : List PollR) (s' : RStream) (c' : Conn) (rs' : List REv) (ws' : List WEv),
    s.st ≠ .done → c.rd.errored = false → Settled c.rd →
    spolls k s c rs ws = (res, s', c', rs', ws') → (∀ r ∈ res, r ≠ .item .error) →
    framesOf res ++ ideal (c'.rd.rbuf ++ dataOf rs') = ideal (c.rd.rbuf ++ dataOf rs) ∧
    c'.rd.errored = false ∧ Settled c'.rd ∧ s'.tag = s.tag ∧
    (∀ f ∈ framesOf res, requestId f.value = some s.tag → s'.st = .done) ∧
    (s'.st = .done → ∃ pre f, framesOf res = pre ++ [f] ∧ requestId f.value = some s.tag ∧
      ∀ g ∈ pre, requestId g.value ≠ some s.tag) := by
  intro k
  induction k with
  | zero =>
    intro s c rs ws res s' c' rs' ws' hnd he hs h _
    simp only [spolls, Prod.mk.injEq] at h
    obtain ⟨rfl, rfl, rfl, rfl, rfl⟩ := h
    exact ⟨by simp [framesOf], he, hs, rfl, by simp [framesOf], fun hd => absurd hd hnd⟩
  | succ k ih =>
    intro s c rs ws res s' c' rs' ws' hnd he hs h hne
    simp only [spolls] at h
    cases htail : spolls k (Stream.pollNext s c rs ws).s (Stream.pollNext s c rs ws).c (Stream.pollNext s c rs ws).rs
        (Stream.pollNext s c rs ws).ws with
    | mk l t =>
      obtain ⟨s2, c2, rs2, ws2⟩ := t
      rw [htail] at h
      simp only [Prod.mk.injEq] at h
      obtain ⟨rfl, rfl, rfl, rfl, rfl⟩ := h
      have hres_ne : (Stream.pollNext s c rs ws).res ≠ .item .error := hne _ (by simp)
      have hl_ne : ∀ x ∈ l, x ≠ .item .error := fun x hx => hne x (by simp [hx])
      rcases step_view s c rs ws hnd with ⟨s0, c0, ws0, calls0, hs0, htag0, hrd0, hview⟩ | ⟨hres, hrd, hrs, hnd1, htag1⟩
      · -- the poll reached the Receiving arm
        rw [hview] at htail hres_ne ⊢
        obtain ⟨r, rd', rs1, n, hp, hc, hrs, hws, _, htag, _, hm⟩ := recvStep_spec s0 c0 rs ws0 calls0
        rw [hrd0] at hp
        have hone := polls_one c.rd rs r rd' rs1 n hp
        cases r with
        | pending =>
          obtain ⟨hr1, hs1⟩ := hm
          obtain ⟨hi, hset, herr⟩ := polls_ideal 1 c.rd rs [.pending] rd' rs1 hone he hs (by simp)
          rw [hs1, hc, hrs, hws] at htail
          obtain ⟨i1, i2, i3, i4, i6, i7⟩ :=
            ih s0 { c0 with rd := rd' } rs1 ws0 l s2 c2 rs2 ws2 (by rw [hs0]; simp) herr hset htail hl_ne
          rw [htag0] at i4 i6 i7
          refine ⟨?_, i2, i3, i4, ?_, ?_⟩
          · rw [hr1]; simp only [framesOf]; rw [i1]; simpa [framesOf] using hi
          · rw [hr1]; simpa [framesOf] using i6
          · rw [hr1]; simpa [framesOf] using i7
        | done => exact absurd hm.1 hres_ne
        | item it =>
          cases it with
          | error => exact absurd hm.1 hres_ne
          | frame f =>
            obtain ⟨hr1, hs1⟩ := hm
            obtain ⟨hi, hset, herr⟩ := polls_ideal 1 c.rd rs [.item (.frame f)] rd' rs1 hone he hs (by simp)
            rw [hc, hrs, hws] at htail
            rw [htag0] at hs1 htag
            by_cases hmatch : requestId f.value = some s.tag
            · have hdone : (recvStep s0 c0 rs ws0 calls0).s.st = .done := by rw [hs1]; simp [hmatch]
              obtain ⟨l', hl', hfl, _⟩ := spolls_done k (recvStep s0 c0 rs ws0 calls0).s { c0 with rd := rd' } rs1 ws0 hdone
              rw [hl'] at htail
              simp only [Prod.mk.injEq] at htail
              obtain ⟨rfl, rfl, rfl, rfl, rfl⟩ := htail
              refine ⟨?_, herr, hset, htag, fun _ _ _ => hdone, fun _ => ?_⟩
              · rw [hr1]; simp only [framesOf, hfl]; simpa [framesOf] using hi
              · exact ⟨[], f, by rw [hr1]; simp [framesOf, hfl], hmatch, by simp⟩
            · have hrecv : (recvStep s0 c0 rs ws0 calls0).s.st ≠ .done := by rw [hs1]; simp [hmatch, hs0]
              obtain ⟨i1, i2, i3, i4, i6, i7⟩ :=
                ih (recvStep s0 c0 rs ws0 calls0).s { c0 with rd := rd' } rs1 ws0 l s2 c2 rs2 ws2 hrecv herr hset htail hl_ne
              rw [htag] at i4 i6 i7
              refine ⟨?_, i2, i3, i4, ?_, ?_⟩
              · rw [hr1]; simp only [framesOf, List.cons_append]; rw [i1]; simpa [framesOf] using hi
              · intro g hg hgm
                rw [hr1] at hg
                simp only [framesOf, List.mem_cons] at hg
                rcases hg with rfl | hg
                · exact absurd hgm hmatch
                · exact i6 g hg hgm
              · intro hd
                obtain ⟨pre, g, hpre, hgm, hall⟩ := i7 hd
                refine ⟨f :: pre, g, by rw [hr1]; simp [framesOf, hpre], hgm, ?_⟩
                intro x hx
                simp only [List.mem_cons] at hx
                rcases hx with rfl | hx
                · exact hmatch
                · exact hall x hx
      · -- the poll stopped before any read (command not yet flushed)
        have hpend : (Stream.pollNext s c rs ws).res = .pending := by
          rcases hres with h | h
          · exact h
          · exact absurd h hres_ne
        obtain ⟨i1, i2, i3, i4, i6, i7⟩ :=
          ih (Stream.pollNext s c rs ws).s (Stream.pollNext s c rs ws).c (Stream.pollNext s c rs ws).rs
            (Stream.pollNext s c rs ws).ws l s2 c2 rs2 ws2 hnd1 (by rw [hrd]; exact he) (by rw [hrd]; exact hs) htail hl_ne
        rw [hrd, hrs] at i1
        rw [htag1] at i4 i6 i7
        refine ⟨?_, i2, i3, i4, ?_, ?_⟩
        · rw [hpend]; simpa [framesOf] using i1
        · rw [hpend]; simpa [framesOf] using i6
        · rw [hpend]; simpa [framesOf] using i7

end Session
