/-
  `check_entry_name` (rfc5464.rs) never indexes out of range and its stage loop always terminates:
  `checkEntryName i` is `ok` or `err` for every `i`.
-/
import ImapVerif.Grammar.Ext

open Bytes Parser Grammar

namespace EntryName

theorem startsWith_length : ∀ (a p : Bytes), startsWith a p = true → p.length ≤ a.length
  | _, [], _ => by simp
  | [], _ :: _, h => by simp [startsWith] at h
  | x :: xs, q :: qs, h => by
    simp only [startsWith, Bool.and_eq_true] at h
    have := startsWith_length xs qs h.2
    simp; omega

theorem startsWith_drop (i p : Bytes) (l : Nat) (hl : l ≤ i.length)
    (h : startsWith (i.drop l) p = true) : l + p.length ≤ i.length := by
  have := startsWith_length _ _ h
  simp at this; omega

theorem firstNonComponent_lt : ∀ (t : Bytes) (k : Nat), firstNonComponent t = some k → k < t.length
  | [], k, h => by simp [firstNonComponent] at h
  | c :: r, k, h => by
    simp only [firstNonComponent] at h
    split at h
    · cases hr : firstNonComponent r with
      | none => simp [hr] at h
      | some k' =>
        simp [hr] at h
        have := firstNonComponent_lt r k' hr
        simp; omega
    · simp at h; simp; omega

/-- the stage carries an offset inside the buffer -/
def StageOk (i : Bytes) : Stage → Prop
  | .privateShared => True
  | .admin l => l ≤ i.length
  | .vendorComment l => l ≤ i.length
  | .path l => l ≤ i.length
  | .done l => l ≤ i.length
  | .failErr => True
  | .panic => False

/-- upper bound on the number of loop iterations still to come -/
def mu (i : Bytes) : Stage → Nat
  | .privateShared => i.length + 6
  | .admin l => i.length - l + 4
  | .vendorComment l => i.length - l + 3
  | .path l => i.length - l + 2
  | .done _ => 1
  | .failErr => 1
  | .panic => 1

theorem checkPrivateShared_ok (i : Bytes) :
    StageOk i (checkPrivateShared i) ∧ mu i (checkPrivateShared i) < mu i .privateShared := by
  unfold checkPrivateShared
  split
  · rename_i h
    have := startsWith_length _ _ h
    simp at this
    simp [StageOk, mu]; omega
  · split
    · rename_i h
      have := startsWith_length _ _ h
      simp at this
      simp [StageOk, mu]; omega
    · simp [StageOk, mu]

theorem checkAdmin_ok (i : Bytes) (l : Nat) (hl : l ≤ i.length) :
    StageOk i (checkAdmin i l) ∧ mu i (checkAdmin i l) < mu i (.admin l) := by
  unfold checkAdmin
  split
  · omega
  · split
    · rename_i h
      have := startsWith_drop i _ l hl h
      simp at this
      simp [StageOk, mu]; omega
    · simp [StageOk, mu]; omega

theorem checkVendorComment_ok (i : Bytes) (l : Nat) (hl : l ≤ i.length) :
    StageOk i (checkVendorComment i l) ∧ mu i (checkVendorComment i l) < mu i (.vendorComment l) := by
  unfold checkVendorComment
  split
  · omega
  · split
    · rename_i h
      have := startsWith_drop i _ l hl h
      simp at this
      simp [StageOk, mu]; omega
    · split
      · split
        · simp [StageOk, mu]
        · rename_i hlen
          have h7 : l + 7 < i.length := by omega
          have h8 : l + 8 < i.length := by omega
          rw [List.getElem?_eq_getElem h7, List.getElem?_eq_getElem h8]
          simp only
          split
          · simp [StageOk, mu]
          · simp [StageOk, mu]; omega
      · simp [StageOk, mu]

theorem checkPath_ok (i : Bytes) (l : Nat) (hl : l ≤ i.length) :
    StageOk i (checkPath i l) ∧ mu i (checkPath i l) < mu i (.path l) := by
  unfold checkPath
  split
  · simp [StageOk, mu]; omega
  · rename_i hne
    have hlt : l < i.length := by omega
    rw [List.getElem?_eq_getElem hlt]
    simp only
    split
    · simp [StageOk, mu]; omega
    · split
      · simp [StageOk, mu]
      · split
        · rename_i k hk
          have := firstNonComponent_lt _ k hk
          simp at this
          simp [StageOk, mu]; omega
        · simp [StageOk, mu]

theorem entryLoop_total (i : Bytes) :
    ∀ fuel st, StageOk i st → mu i st ≤ fuel →
      entryLoop i fuel st = .ok ∨ entryLoop i fuel st = .err := by
  intro fuel
  induction fuel with
  | zero =>
    intro st _ hmu
    cases st <;> simp [mu] at hmu
  | succ n ih =>
    intro st hok hmu
    cases st with
    | privateShared =>
      simp only [entryLoop]
      have := checkPrivateShared_ok i
      exact ih _ this.1 (by omega)
    | admin l =>
      simp only [entryLoop]
      have := checkAdmin_ok i l hok
      exact ih _ this.1 (by omega)
    | vendorComment l =>
      simp only [entryLoop]
      have := checkVendorComment_ok i l hok
      exact ih _ this.1 (by omega)
    | path l =>
      simp only [entryLoop]
      have := checkPath_ok i l hok
      exact ih _ this.1 (by omega)
    | done l =>
      simp only [entryLoop]
      have : ¬ i.length < l := by simp [StageOk] at hok; omega
      simp [this]
    | failErr => simp [entryLoop]
    | panic => simp [StageOk] at hok

/-- `check_entry_name` neither panics nor loops, whatever the token -/
theorem checkEntryName_total (i : Bytes) : checkEntryName i = .ok ∨ checkEntryName i = .err := by
  unfold checkEntryName
  exact entryLoop_total i _ _ trivial (by simp [mu])

end EntryName
