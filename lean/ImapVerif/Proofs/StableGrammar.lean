/-
  `Stable` for every function of the grammar model, by instance search over its definition.
  By hand: `entryName` (uses `checkEntryName_total`), `respText` (the `&text[1..]` slice cannot panic
  because `text` is 7-bit), and the two budget recursions.
-/
import ImapVerif.Proofs.Stable
import ImapVerif.Proofs.EntryName
import ImapVerif.Grammar.Rfc3501

open Bytes Parser Grammar

set_option synthInstance.maxSize 100000
set_option synthInstance.maxHeartbeats 400000
set_option maxRecDepth 4000

namespace Stable

/-! ### core.rs -/

instance : Stable (numberB n) := by unfold numberB; infer_instance
instance : Stable number := by unfold number; infer_instance
instance : Stable number64 := by unfold number64; infer_instance
instance : Stable sequenceRange := by unfold sequenceRange; infer_instance
instance : Stable sequenceSet := by unfold sequenceSet; infer_instance
instance : Stable quoted := by unfold quoted; infer_instance
instance : Stable quotedUtf8 := by unfold quotedUtf8; infer_instance
instance : Stable literal := by unfold literal; infer_instance
instance : Stable string := by unfold string; infer_instance
instance : Stable stringUtf8 := by unfold stringUtf8; infer_instance
instance : Stable astring := by unfold astring; infer_instance
instance : Stable astringUtf8 := by unfold astringUtf8; infer_instance
instance : Stable atom := by unfold atom; infer_instance
instance : Stable nil := by unfold nil; infer_instance
instance : Stable nstring := by unfold nstring; infer_instance
instance : Stable nstringUtf8 := by unfold nstringUtf8; infer_instance
instance : Stable text := by unfold text; infer_instance
instance (p : Parser α) [Stable p] : Stable (parenDelimited p) := by unfold parenDelimited; infer_instance
instance (p : Parser α) [Stable p] : Stable (parenthesizedNonemptyList p) := by
  unfold parenthesizedNonemptyList; infer_instance
instance (p : Parser α) [Stable p] : Stable (parenthesizedList p) := by
  unfold parenthesizedList; infer_instance
instance : Stable mailbox := by unfold mailbox; infer_instance
instance : Stable flagExtension := by unfold flagExtension; infer_instance
instance : Stable flag := by unfold flag; infer_instance

/-! ### extensions -/

instance : Stable quotaResourceName := by unfold quotaResourceName; infer_instance
instance : Stable quotaResource := by unfold quotaResource; infer_instance
instance : Stable quotaList := by unfold quotaList; infer_instance
instance : Stable quota := by unfold quota; infer_instance
instance : Stable quotaRoot := by unfold quotaRoot; infer_instance
instance : Stable idParam := by unfold idParam; infer_instance
instance : Stable idParamListNotNil := by unfold idParamListNotNil; infer_instance
instance : Stable idParamList := by unfold idParamList; infer_instance
instance : Stable respId := by unfold respId; infer_instance
instance : Stable aclEntry := by unfold aclEntry; infer_instance
instance : Stable aclList := by unfold aclList; infer_instance
instance : Stable acl := by unfold acl; infer_instance
instance : Stable listRightsOptional := by unfold listRightsOptional; infer_instance
instance : Stable listRights := by unfold listRights; infer_instance
instance : Stable myRights := by unfold myRights; infer_instance
instance : Stable uidRange := by unfold uidRange; infer_instance
instance : Stable uidSet := by unfold uidSet; infer_instance
instance : Stable respTextCodeAppendUid := by unfold respTextCodeAppendUid; infer_instance
instance : Stable respTextCodeCopyUid := by unfold respTextCodeCopyUid; infer_instance
instance : Stable respTextCodeUidNotSticky := by unfold respTextCodeUidNotSticky; infer_instance
instance : Stable respTextCodeHighestModSeq := by unfold respTextCodeHighestModSeq; infer_instance
instance : Stable statusAttValHighestModSeq := by unfold statusAttValHighestModSeq; infer_instance
instance : Stable msgAttModSeq := by unfold msgAttModSeq; infer_instance
instance : Stable enabledData := by unfold enabledData; infer_instance
instance : Stable respEnabled := by unfold respEnabled; infer_instance
instance : Stable mailboxDataSort := by unfold mailboxDataSort; infer_instance

/-- `entry_name`: the continuation after `astring` never takes the panic branches -/
instance : Stable entryName := by
  unfold entryName
  refine @instBind _ _ _ _ inferInstance (fun s => ?_)
  rcases EntryName.checkEntryName_total s with h | h <;> simp only [h] <;> infer_instance
instance : Stable nilValue := by unfold nilValue; infer_instance
instance : Stable stringValue := by unfold stringValue; infer_instance
instance : Stable keyvalList := by unfold keyvalList; infer_instance
instance : Stable entryList := by unfold entryList; infer_instance
instance : Stable metadataCommon := by unfold metadataCommon; infer_instance
instance : Stable metadataSolicited := by unfold metadataSolicited; infer_instance
instance : Stable metadataUnsolicited := by unfold metadataUnsolicited; infer_instance
instance : Stable respTextCodeMetadataLongEntries := by unfold respTextCodeMetadataLongEntries; infer_instance
instance : Stable respTextCodeMetadataMaxSize := by unfold respTextCodeMetadataMaxSize; infer_instance
instance : Stable respTextCodeMetadataTooMany := by unfold respTextCodeMetadataTooMany; infer_instance
instance : Stable respTextCodeMetadataNoPrivate := by unfold respTextCodeMetadataNoPrivate; infer_instance
instance : Stable respVanished := by unfold respVanished; infer_instance
instance : Stable gmailLabelList := by unfold gmailLabelList; infer_instance
instance : Stable msgAttGmailLabels := by unfold msgAttGmailLabels; infer_instance
instance : Stable mailboxDataGmailLabels := by unfold mailboxDataGmailLabels; infer_instance
instance : Stable gmailMsgId := by unfold gmailMsgId; infer_instance
instance : Stable msgAttGmailMsgId := by unfold msgAttGmailMsgId; infer_instance
instance : Stable mailboxDataGmailMsgId := by unfold mailboxDataGmailMsgId; infer_instance

/-! ### envelope, body.rs, body_structure.rs -/

instance : Stable address := by unfold address; infer_instance
instance : Stable optAddresses := by unfold optAddresses; infer_instance
instance : Stable envelope := by unfold envelope; infer_instance
instance : Stable sectionPart := by unfold sectionPart; infer_instance
instance : Stable sectionMsgtext := by unfold sectionMsgtext; infer_instance
instance : Stable sectionText := by unfold sectionText; infer_instance
instance : Stable sectionSpec := by unfold sectionSpec; infer_instance
instance : Stable section_ := by unfold section_; infer_instance
instance : Stable msgAttBodySection := by unfold msgAttBodySection; infer_instance
instance : Stable bodyParam := by unfold bodyParam; infer_instance
instance : Stable bodyEncoding := by unfold bodyEncoding; infer_instance
instance : Stable bodyLang := by unfold bodyLang; infer_instance
instance : Stable bodyDisposition := by unfold bodyDisposition; infer_instance
instance : Stable bodyFields := by unfold bodyFields; infer_instance

instance instBodyExtension : ∀ n, Stable (bodyExtension n)
  | 0 => by unfold bodyExtension; infer_instance
  | n + 1 => by
    have := instBodyExtension n
    unfold bodyExtension; infer_instance

instance : Stable (bodyExt1Part n) := by unfold bodyExt1Part; infer_instance
instance : Stable (bodyExtMPart n) := by unfold bodyExtMPart; infer_instance
instance : Stable (bodyTypeBasic n) := by unfold bodyTypeBasic; infer_instance
instance : Stable (bodyTypeText n) := by unfold bodyTypeText; infer_instance
instance (child : Parser BodyStructure) [Stable child] : Stable (bodyTypeMessage child n) := by
  unfold bodyTypeMessage; infer_instance
instance (child : Parser BodyStructure) [Stable child] : Stable (bodyTypeMultipart child n) := by
  unfold bodyTypeMultipart; infer_instance

instance instBodyNested : ∀ n, Stable (bodyNested n)
  | 0 => by unfold bodyNested; infer_instance
  | n + 1 => by
    have := instBodyNested n
    unfold bodyNested; infer_instance

instance : Stable body := by unfold body; infer_instance
instance : Stable msgAttBodyStructure := by unfold msgAttBodyStructure; infer_instance
instance : Stable msgAttBody := by unfold msgAttBody; infer_instance

/-! ### rfc3501/mod.rs -/

instance : Stable statusP := by unfold statusP; infer_instance
instance : Stable flagPerm := by unfold flagPerm; infer_instance
instance : Stable flagList := by unfold flagList; infer_instance
instance : Stable capability := by unfold capability; infer_instance
instance : Stable capabilityData := by unfold capabilityData; infer_instance
instance : Stable respTextCodeBadCharset := by unfold respTextCodeBadCharset; infer_instance
instance : Stable respTextCodePermanentFlags := by unfold respTextCodePermanentFlags; infer_instance
instance : Stable respTextCodeUidValidity := by unfold respTextCodeUidValidity; infer_instance
instance : Stable respTextCodeUidNext := by unfold respTextCodeUidNext; infer_instance
instance : Stable respTextCodeUnseen := by unfold respTextCodeUnseen; infer_instance
instance : Stable respTextCodeAlt := by unfold respTextCodeAlt; infer_instance
instance : Stable respTextCode := by unfold respTextCode; infer_instance
instance : Stable mailboxDataSearch := by unfold mailboxDataSearch; infer_instance
instance : Stable mailboxDataFlags := by unfold mailboxDataFlags; infer_instance
instance : Stable mailboxDataExists := by unfold mailboxDataExists; infer_instance
instance : Stable nameAttributeExt := by unfold nameAttributeExt; infer_instance
instance : Stable nameAttribute := by unfold nameAttribute; infer_instance
instance : Stable mailboxList := by unfold mailboxList; infer_instance
instance : Stable mailboxDataList := by unfold mailboxDataList; infer_instance
instance : Stable mailboxDataLsub := by unfold mailboxDataLsub; infer_instance
instance : Stable statusAtt := by unfold statusAtt; infer_instance
instance : Stable statusAttList := by unfold statusAttList; infer_instance
instance : Stable mailboxDataStatus := by unfold mailboxDataStatus; infer_instance
instance : Stable mailboxDataRecent := by unfold mailboxDataRecent; infer_instance
instance : Stable mailboxData := by unfold mailboxData; infer_instance
instance : Stable msgAttEnvelope := by unfold msgAttEnvelope; infer_instance
instance : Stable msgAttInternalDate := by unfold msgAttInternalDate; infer_instance
instance : Stable msgAttFlags := by unfold msgAttFlags; infer_instance
instance : Stable msgAttRfc822 := by unfold msgAttRfc822; infer_instance
instance : Stable msgAttRfc822Header := by unfold msgAttRfc822Header; infer_instance
instance : Stable msgAttRfc822Size := by unfold msgAttRfc822Size; infer_instance
instance : Stable msgAttRfc822Text := by unfold msgAttRfc822Text; infer_instance
instance : Stable msgAttUid := by unfold msgAttUid; infer_instance
instance : Stable msgAtt := by unfold msgAtt; infer_instance
instance : Stable msgAttList := by unfold msgAttList; infer_instance
instance : Stable messageDataFetch := by unfold messageDataFetch; infer_instance
instance : Stable messageDataExpunge := by unfold messageDataExpunge; infer_instance
instance : Stable imapTag := by unfold imapTag; infer_instance

/-! ### `resp_text`: `&text[1..]` -/

/-- a converting wrapper that panics on `none` is stable when `f` is never `none` on what `p` returns -/
theorem mapPanic_stable (p : Parser α) (f : α → Option β) [hp : Stable p]
    (hf : ∀ b v r, p b = .ok v r → f v ≠ none) : Stable (mapPanic p f) where
  suffix := fun b v r h => by
    simp only [mapPanic] at h
    split at h <;> try cases h
    rename_i v1 r1 h1
    split at h <;> try cases h
    exact hp.suffix _ _ _ h1
  ok := fun b v r x h => by
    simp only [mapPanic] at h ⊢
    split at h <;> try cases h
    rename_i v1 r1 h1
    rw [hp.ok _ _ _ x h1]
    split at h <;> try cases h
    rename_i hf'
    simp [hf']
  err := fun b x h => by
    simp only [mapPanic] at h ⊢
    split at h <;> try cases h
    · split at h <;> cases h
    · rename_i h1; rw [hp.err _ x h1]
  fail := fun b x h => by
    simp only [mapPanic] at h ⊢
    split at h <;> try cases h
    · split at h <;> cases h
    · rename_i h1; rw [hp.fail _ x h1]
  nopanic := fun b h => by
    simp only [mapPanic] at h
    split at h <;> try cases h
    · rename_i v1 r1 h1
      split at h <;> try cases h
      rename_i hn
      exact hf _ _ _ h1 hn
    · rename_i h1; exact hp.nopanic _ h1

theorem textChar_not_cont : ∀ c : UInt8, isTextChar c = true → isCont c = false := by
  intro c
  have h : ∀ n : Fin 256, isTextChar (UInt8.ofNat n.val) = true → isCont (UInt8.ofNat n.val) = false := by
    decide +kernel
  have := h ⟨c.toNat, c.toNat_lt⟩
  simpa using this

/-- what `text` returns consists of TEXT-CHARs -/
theorem text_all (b v r) (h : text b = .ok v r) : ∀ c ∈ v, isTextChar c = true := by
  simp only [text, mapRes, takeWhile] at h
  split at h <;> try cases h
  rename_i v1 r1 h1
  split at h1 <;> try cases h1
  split at h <;> try cases h
  rename_i hu
  simp only [utf8] at hu
  split at hu <;> try cases hu
  intro c hc
  exact (List.all_eq_true.mp (List.all_takeWhile (l := b) (p := isTextChar))) c hc

theorem strFrom1_some (t : Bytes) (hne : t ≠ []) (h : ∀ c ∈ t, isTextChar c = true) :
    strFrom1 t ≠ none := by
  match t, hne, h with
  | [], hne, _ => exact absurd rfl hne
  | [_], _, _ => simp [strFrom1]
  | _ :: b :: r, _, h =>
    have := textChar_not_cont b (h b (by simp))
    simp [strFrom1, this]

theorem respTextFinish_some (code : Option ResponseCode) (t : Bytes)
    (h : ∀ c ∈ t, isTextChar c = true) : respTextFinish code t ≠ none := by
  unfold respTextFinish
  split
  · simp
  · rename_i hne
    split
    · have : t ≠ [] := by intro h0; subst h0; simp at hne
      have := strFrom1_some t this h
      cases hs : strFrom1 t with
      | none => exact absurd hs this
      | some s => simp
    · simp

def respTextInner : Parser (Option ResponseCode × Bytes) := do
  let code ← opt respTextCode
  let t ← text
  pure (code, t)

instance : Stable respTextInner := by unfold respTextInner; infer_instance

theorem respTextInner_text (b v r) (h : respTextInner b = .ok v r) : ∀ c ∈ v.2, isTextChar c = true := by
  simp only [respTextInner, Bind.bind, Parser.bindP] at h
  split at h <;> try cases h
  rename_i code r1 _
  split at h <;> try cases h
  rename_i t r2 ht
  exact text_all _ _ _ ht

instance : Stable respText := by
  have : respText = mapPanic respTextInner fun ct => respTextFinish ct.1 ct.2 := rfl
  rw [this]
  exact mapPanic_stable _ _ fun b v r h => respTextFinish_some v.1 v.2 (respTextInner_text b v r h)

instance : Stable trailingRespText := by unfold trailingRespText; infer_instance
instance : Stable continueReq := by unfold continueReq; infer_instance
instance : Stable responseTagged := by unfold responseTagged; infer_instance
instance : Stable respCond := by unfold respCond; infer_instance
instance : Stable responseDataAlt := by unfold responseDataAlt; infer_instance
instance : Stable responseData := by unfold responseData; infer_instance
instance : Stable parseResponse := by unfold parseResponse; infer_instance

end Stable
