/-
  Round-trip, fifth layer: the attribute list, the FETCH response, the untagged wrapper
  (`"* " payload *SP CRLF`) and the top-level `parseResponse`; EXISTS / RECENT / EXPUNGE.
-/
import ImapVerif.Proofs.RT4

open Bytes Parser Grammar

namespace RT

/-! ### bytes: digits against keyword heads -/

theorem lower_digit_ne (k x : UInt8) (hk : isDigit (lower k) = false) (hx : isDigit x = true) :
    (lower k == lower x) = false := by
  have key : ∀ m n : Fin 256, isDigit (lower (UInt8.ofNat m.val)) = false → isDigit (UInt8.ofNat n.val) = true →
      (lower (UInt8.ofNat m.val) == lower (UInt8.ofNat n.val)) = false := by
    decide +kernel
  have := key ⟨k.toNat, k.toNat_lt⟩ ⟨x.toNat, x.toNat_lt⟩
  simpa using this (by simpa using hk) (by simpa using hx)

theorem encNumber_head (n : Nat) (e : Bytes) (h : EncNumber n e) : ∃ c t, e = c :: t ∧ isDigit c = true := by
  cases h with
  | mk z =>
    cases z with
    | zero =>
      have hne := Num.decDigits_ne_nil n
      have hall := Num.decDigits_all n
      cases hd : decDigits n with
      | nil => exact absurd hd hne
      | cons c t => exact ⟨c, t, by simp, hall c (by simp [hd])⟩
    | succ z => exact ⟨48, List.replicate z 48 ++ decDigits n, by simp [List.replicate_succ], by decide⟩

/-- a keyword whose first byte is not a digit rejects a numeral -/
theorem tagNoCase_err_num (t : Bytes) (k : UInt8) (n : Nat) (e r : Bytes) (h : EncNumber n e)
    (ht : t.head? = some k) (hk : isDigit (lower k) = false) : tagNoCase t (e ++ r) = .err := by
  obtain ⟨c, tl, he, hc⟩ := encNumber_head n e h
  subst he
  exact tagNoCase_err_first t k c (tl ++ r) ht (lower_digit_ne k c hk hc)

theorem kwBind_err_num {β : Type} (t : Bytes) (f : Unit → Parser β) (k : UInt8) (n : Nat) (e r : Bytes)
    (h : EncNumber n e) (ht : t.head? = some k) (hk : isDigit (lower k) = false) :
    (tagNoCase t >>= f) (e ++ r) = .err := by
  show Parser.bindP (tagNoCase t) f (e ++ r) = .err
  unfold Parser.bindP
  rw [tagNoCase_err_num t k n e r h ht hk]

theorem spell_space_head (u : Bytes) (m : List Bool) (r : Bytes) :
    Starts notDigit (spell (32 :: u) m ++ r) := by
  cases m with
  | nil => exact ⟨32, u ++ r, by simp [spell], by decide⟩
  | cons b bs =>
    cases b
    · exact ⟨32, spell u bs ++ r, by simp [spell], by decide⟩
    · exact ⟨32, spell u bs ++ r, by simp [spell, flipCase], by decide⟩

/-- `number` then a keyword: fails when the keyword differs from the one that follows the numeral -/
theorem numKw_err {β : Type} (t : Bytes) (g : Nat → β) (n : Nat) (e u : Bytes) (m : List Bool) (r : Bytes)
    (h : EncNumber n e) (hn : n < 2 ^ 32) (hm : mismatch t (32 :: u) = true) :
    (do let x ← number; tagNoCase t; pure (g x) : Parser β) (e ++ (spell (32 :: u) m ++ r)) = .err := by
  show Parser.bindP number _ _ = .err
  unfold Parser.bindP
  have := number_enc (2 ^ 32) n e h hn (spell (32 :: u) m ++ r) (spell_space_head u m r)
  unfold number
  rw [this]
  exact kwBind_err t _ (32 :: u) m r hm

/-! ### the attribute list and the FETCH response -/

/-- "(" attr *(SP attr) ")" -/
inductive EncAttrs : List AttributeValue → Bytes → Prop
  | mk (first : Bytes × AttributeValue) (others : List (Bytes × AttributeValue)) :
      (∀ x ∈ first :: others, EncAttr x.2 x.1) →
      EncAttrs (first.2 :: others.map (·.2))
        ([40] ++ (first.1 ++ (others.map fun x => [32] ++ x.1).flatten) ++ [41])

theorem msgAttList_enc (vs : List AttributeValue) (e : Bytes) (h : EncAttrs vs e) (F : Bytes → Prop) :
    Parses msgAttList e vs F := by
  cases h with
  | mk first others hall =>
    unfold msgAttList parenthesizedNonemptyList
    rw [List.append_assoc]
    refine Parses.bind (char_ok 40) ?_ (fun _ _ => trivial)
    have key := Parses.sepList1 (sep := char 32) (p := msgAtt) [32] (by simp) (Starts spaceOrClose)
      (Starts fun c => c == 41) first others (char_ok 32)
      (fun y hy => msgAtt_enc y.2 y.1 (hall y hy))
      (fun r => ⟨32, r, by simp, by decide⟩)
      (fun r ⟨c, t, hr, hc⟩ => ⟨c, t, hr, by simp only [spaceOrClose, Bool.or_eq_true]; exact Or.inr hc⟩)
      (fun r ⟨c, t, hr, hc⟩ => by
        subst hr
        have : c = 41 := by simpa using hc
        subst this
        exact char_err 32 41 t (by decide))
    refine Parses.bind key ?_ (fun r _ => ⟨41, r, by simp, by simp⟩)
    exact Parses.bind' (char_ok 41) (Parses.pure _ _) (fun _ _ => trivial) (by simp)

/-- `* n FETCH (...)` without the `"* "` prefix and line end -/
inductive EncFetch : Response → Bytes → Prop
  | mk (n : Nat) (en : Bytes) (m : List Bool) (vs : List AttributeValue) (ea : Bytes) :
      n < 2 ^ 32 → EncNumber n en → EncAttrs vs ea →
      EncFetch (.fetch n vs) (en ++ (spell (b!" FETCH ") m ++ ea))

theorem messageDataFetch_enc (r : Response) (e : Bytes) (h : EncFetch r e) (F : Bytes → Prop) :
    Parses messageDataFetch e r F := by
  cases h with
  | mk n en m vs ea hn hen hea =>
    unfold messageDataFetch
    refine Parses.bind (number_enc (2 ^ 32) n en hen hn) ?_
      (fun r _ => by rw [List.append_assoc]; exact spell_space_head _ m _)
    refine Parses.bind (tagNoCase_spell _ m) ?_ (fun _ _ => trivial)
    exact Parses.bind' (msgAttList_enc vs ea hea Any) (Parses.pure _ _) (fun _ _ => trivial) (by simp)

/-! ### alternatives tried before FETCH reject `numeral SP keyword` -/

theorem statusP_err_num (n : Nat) (e r : Bytes) (h : EncNumber n e) : statusP (e ++ r) = .err := by
  unfold statusP
  simp only [alt, Parser.map]
  rw [tagNoCase_err_num (b!"OK") _ n e r h rfl (by decide),
      tagNoCase_err_num (b!"NO") _ n e r h rfl (by decide),
      tagNoCase_err_num (b!"BAD") _ n e r h rfl (by decide),
      tagNoCase_err_num (b!"PREAUTH") _ n e r h rfl (by decide),
      tagNoCase_err_num (b!"BYE") _ n e r h rfl (by decide)]

theorem respCond_err_num (n : Nat) (e r : Bytes) (h : EncNumber n e) : respCond (e ++ r) = .err := by
  unfold respCond
  show Parser.bindP statusP _ _ = .err
  unfold Parser.bindP
  rw [statusP_err_num n e r h]

/-- `mailbox_data` on `numeral SP keyword` where the keyword is neither EXISTS nor RECENT -/
theorem mailboxData_err_num (n : Nat) (e u : Bytes) (m : List Bool) (r : Bytes)
    (h : EncNumber n e) (hn : n < 2 ^ 32)
    (h1 : mismatch (b!" EXISTS") (32 :: u) = true) (h2 : mismatch (b!" RECENT") (32 :: u) = true) :
    mailboxData (e ++ (spell (32 :: u) m ++ r)) = .err := by
  unfold mailboxData
  simp only [alt]
  have hFlags : mailboxDataFlags (e ++ (spell (32 :: u) m ++ r)) = .err := by
    unfold mailboxDataFlags; exact kwBind_err_num _ _ _ n e _ h rfl (by decide)
  have hExists : mailboxDataExists (e ++ (spell (32 :: u) m ++ r)) = .err := by
    unfold mailboxDataExists; exact numKw_err _ _ n e u m r h hn h1
  have hList : mailboxDataList (e ++ (spell (32 :: u) m ++ r)) = .err := by
    unfold mailboxDataList; exact kwBind_err_num _ _ _ n e _ h rfl (by decide)
  have hLsub : mailboxDataLsub (e ++ (spell (32 :: u) m ++ r)) = .err := by
    unfold mailboxDataLsub; exact kwBind_err_num _ _ _ n e _ h rfl (by decide)
  have hStatus : mailboxDataStatus (e ++ (spell (32 :: u) m ++ r)) = .err := by
    unfold mailboxDataStatus; exact kwBind_err_num _ _ _ n e _ h rfl (by decide)
  have hRecent : mailboxDataRecent (e ++ (spell (32 :: u) m ++ r)) = .err := by
    unfold mailboxDataRecent; exact numKw_err _ _ n e u m r h hn h2
  have hSearch : mailboxDataSearch (e ++ (spell (32 :: u) m ++ r)) = .err := by
    unfold mailboxDataSearch; exact kwBind_err_num _ _ _ n e _ h rfl (by decide)
  have hLabels : mailboxDataGmailLabels (e ++ (spell (32 :: u) m ++ r)) = .err := by
    unfold mailboxDataGmailLabels gmailLabelList
    exact map_err _ _ _ (kwBind_err_num _ _ _ n e _ h rfl (by decide))
  have hMsgId : mailboxDataGmailMsgId (e ++ (spell (32 :: u) m ++ r)) = .err := by
    unfold mailboxDataGmailMsgId gmailMsgId
    exact map_err _ _ _ (kwBind_err_num _ _ _ n e _ h rfl (by decide))
  have hSort : mailboxDataSort (e ++ (spell (32 :: u) m ++ r)) = .err := by
    unfold mailboxDataSort; exact kwBind_err_num _ _ _ n e _ h rfl (by decide)
  rw [hFlags, hExists, hList, hLsub, hStatus, hRecent, hSearch, hLabels, hMsgId, hSort]

theorem expunge_err_num (n : Nat) (e u : Bytes) (m : List Bool) (r : Bytes)
    (h : EncNumber n e) (hn : n < 2 ^ 32) (h1 : mismatch (b!" EXPUNGE") (32 :: u) = true) :
    messageDataExpunge (e ++ (spell (32 :: u) m ++ r)) = .err := by
  unfold messageDataExpunge; exact numKw_err _ _ n e u m r h hn h1

theorem responseDataAlt_fetch (r : Response) (e : Bytes) (h : EncFetch r e) (F : Bytes → Prop) :
    Parses responseDataAlt e r F := by
  unfold responseDataAlt
  refine Parses.altR (Parses.altR (Parses.altR (Parses.altL (messageDataFetch_enc r e h F)) ?_) ?_) ?_
  · cases h with
    | mk n en m vs ea hn hen hea =>
      intro rest _
      simp only [List.append_assoc]
      exact map_err _ _ _ (expunge_err_num n en _ m _ hen hn (by decide))
  · cases h with
    | mk n en m vs ea hn hen hea =>
      intro rest _
      simp only [List.append_assoc]
      exact map_err _ _ _ (mailboxData_err_num n en _ m _ hen hn (by decide) (by decide))
  · cases h with
    | mk n en m vs ea hn hen hea =>
      intro rest _
      simp only [List.append_assoc]
      exact respCond_err_num n en _ hen

/-! ### the untagged wrapper and `parseResponse` -/

def spaceOrCR (c : UInt8) : Bool := c == 32 || c == 13

theorem spaces_many0 (k : Nat) :
    Parses (many0 (tag (b!" "))) (List.replicate k 32) (List.replicate k ()) (Starts fun c => c == 13) := by
  have key := Parses.many0 (p := tag (b!" ")) Any (Starts fun c => c == 13)
    (List.replicate k ([32], ())) (fun x hx => by
      have := List.eq_of_mem_replicate hx; subst this; exact tag_ok _)
    (fun x hx => by have := List.eq_of_mem_replicate hx; subst this; simp)
    (fun _ _ _ => trivial) (fun _ _ => trivial)
    (fun r ⟨c, t, hr, hc⟩ => by
      subst hr
      have : c = 13 := by simpa using hc
      subst this
      exact tag_err_first _ 32 13 t rfl (by decide))
  simpa [List.map_replicate, List.flatten_replicate_singleton] using key

/-- **untagged response**: `"* "`, the payload, any number of trailing spaces, CRLF -/
theorem responseData_enc (r : Response) (e : Bytes) (k : Nat)
    (h : Parses responseDataAlt e r (Starts spaceOrCR)) :
    Parses responseData (b!"* " ++ (e ++ (List.replicate k 32 ++ b!"\r\n"))) r Any := by
  unfold responseData
  refine Parses.bind (tag_ok _) ?_ (fun _ _ => trivial)
  refine Parses.bind h ?_ (fun rest _ => ?_)
  · refine Parses.bind (spaces_many0 k) ?_ (fun rest _ => ⟨13, 10 :: rest, by simp, by decide⟩)
    exact Parses.bind' (tag_ok _) (Parses.pure _ _) (fun _ _ => trivial) (by simp)
  · cases k with
    | zero => exact ⟨13, 10 :: rest, by simp, by decide⟩
    | succ k => exact ⟨32, List.replicate k 32 ++ (b!"\r\n" ++ rest), by simp [List.replicate_succ], by decide⟩

theorem continueReq_err_star (r : Bytes) : continueReq (42 :: r) = .err := by
  unfold continueReq
  show Parser.bindP (tag (b!"+")) _ _ = .err
  unfold Parser.bindP
  rw [tag_err_first (b!"+") 43 42 r rfl (by decide)]

theorem parseResponse_untagged (r : Response) (e : Bytes) (k : Nat)
    (h : Parses responseDataAlt e r (Starts spaceOrCR)) :
    Parses parseResponse (b!"* " ++ (e ++ (List.replicate k 32 ++ b!"\r\n"))) r Any := by
  unfold parseResponse
  refine Parses.altR (Parses.altL (responseData_enc r e k h)) ?_
  intro rest _
  exact continueReq_err_star _

/-- **FETCH fidelity**: the complete line, whatever follows it -/
theorem parseResponse_fetch (r : Response) (e : Bytes) (k : Nat) (h : EncFetch r e) (rest : Bytes) :
    parseResponse (b!"* " ++ (e ++ (List.replicate k 32 ++ b!"\r\n")) ++ rest) = .ok r rest :=
  parseResponse_untagged r e k (responseDataAlt_fetch r e h _) rest trivial

end RT
