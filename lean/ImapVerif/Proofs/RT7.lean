/-
  Round-trip, seventh layer: LIST / LSUB and STATUS mailbox data.
-/
import ImapVerif.Proofs.RT6

open Bytes Parser Grammar

namespace RT

/-! ### LIST / LSUB -/

/-- a mailbox name attribute on the wire: `\` and atom characters; its value is the classification
    of that complete flag (a known attribute in any case, otherwise the extension as sent) -/
inductive EncNameAttr : NameAttribute → Bytes → Prop
  | mk (s : Bytes) : (∀ c ∈ s, isAtomChar c = true) → validUtf8 (92 :: s) = true →
      EncNameAttr (classifyNameAttribute (92 :: s)) (92 :: s)

theorem nameAttribute_enc (v : NameAttribute) (e : Bytes) (h : EncNameAttr v e) :
    Parses nameAttribute e v (Starts spaceOrClose) := by
  cases h with
  | mk s hall hu =>
    unfold nameAttribute nameAttributeExt
    refine Parses.map _ ?_
    refine Parses.mapRes _ _ (v := 92 :: s) ?_ (by simp [utf8, hu])
    show Parses _ ([92] ++ s) _ _
    refine Parses.bind (tag_ok (b!"\\")) ?_ (fun _ _ => trivial)
    exact Parses.bind' ((takeWhile_ok isAtomChar s hall).weaken spaceOrClose_notAtom) (Parses.pure _ _)
      (fun _ h => h) (by simp)

theorem nameAttribute_err_close (r : Bytes) : nameAttribute (41 :: r) = .err := by
  unfold nameAttribute nameAttributeExt
  apply map_err
  apply mapRes_err
  show Parser.bindP (tag (b!"\\")) _ _ = .err
  unfold Parser.bindP
  rw [tag_err_first (b!"\\") 92 41 r rfl (by decide)]

/-- the hierarchy delimiter: a quoted string or NIL -/
inductive EncDelim : Option Bytes → Bytes → Prop
  | nil (m : List Bool) : EncDelim none (spell (b!"NIL") m)
  | some (s : Bytes) : Quotable s → validUtf8 s = true → EncDelim (some s) ([34] ++ s ++ [34])

def delimP : Parser (Option Bytes) := alt (map quotedUtf8 some) (map nil fun _ => none)

theorem delim_enc (v : Option Bytes) (e : Bytes) (h : EncDelim v e) : Parses delimP e v Any := by
  unfold delimP
  cases h with
  | nil m =>
    refine Parses.altR (Parses.map _ (nil_enc m)) ?_
    intro rest _
    obtain ⟨c', hc', hcc⟩ := spell_cons 78 (b!"IL") m
    have : spell (b!"NIL") m = c' :: spell (b!"IL") m.tail := hc'
    rw [this, List.cons_append]
    simp [Parser.map, quotedUtf8, Parser.mapRes, quoted_err c' _ (by rcases hcc with rfl | rfl <;> decide)]
  | some s hq hu =>
    refine Parses.altL (Parses.map _ ?_)
    exact Parses.mapRes _ _ (quoted_enc s hq) (by simp [utf8, hu])

/-- `(attrs) SP delimiter SP mailbox` -/
inductive EncMailboxList : List NameAttribute → Option Bytes → Bytes → Bytes → Prop
  | mk (attrs : List NameAttribute) (ea : Bytes) (d : Option Bytes) (ed : Bytes) (name ename : Bytes) :
      EncList EncNameAttr attrs ea → EncDelim d ed → EncAString name ename → validUtf8 name = true →
      EncMailboxList attrs d (canonMailbox name) (ea ++ (b!" " ++ (ed ++ (b!" " ++ ename))))

theorem mailboxList_enc (attrs : List NameAttribute) (d : Option Bytes) (name : Bytes) (e : Bytes)
    (h : EncMailboxList attrs d name e) :
    Parses mailboxList e (attrs, d, name) (Starts notAstringChar) := by
  cases h with
  | mk ea d ed name ename ha hd hn hu =>
    unfold mailboxList
    refine Parses.bind (parenthesizedList_enc nameAttribute_enc nameAttribute_err_close attrs ea ha Any) ?_
      (fun _ _ => trivial)
    refine Parses.bind (tag_ok _) ?_ (fun _ _ => trivial)
    refine Parses.bind (delim_enc d ed hd) ?_ (fun _ _ => trivial)
    refine Parses.bind (tag_ok _) ?_ (fun _ _ => trivial)
    exact Parses.bind' (mailbox_enc name ename hn hu) (Parses.pure _ _) (fun _ h => h) (by simp)

/-- LIST and LSUB both yield `MailboxDatum.list` -/
theorem mailboxData_list (lsub : Bool) (m : List Bool) (attrs : List NameAttribute) (d : Option Bytes)
    (name : Bytes) (e : Bytes) (h : EncMailboxList attrs d name e) :
    Parses mailboxData (spell (if lsub then b!"LSUB " else b!"LIST ") m ++ e) (.list attrs d name)
      (Starts notAstringChar) := by
  unfold mailboxData
  cases lsub with
  | false =>
    refine Parses.altR (Parses.altR (Parses.altL ?_) ?_) ?_
    · unfold mailboxDataList
      refine Parses.bind (tagNoCase_spell _ m) ?_ (fun _ _ => trivial)
      exact Parses.bind' (mailboxList_enc attrs d name e h) (Parses.pure _ _) (fun _ h => h) (by simp)
    · intro rest _; rw [List.append_assoc]
      unfold mailboxDataExists; exact numBind_err_kw _ 76 _ m _ (by decide)
    · intro rest _; rw [List.append_assoc]
      unfold mailboxDataFlags; exact kwBind_err _ _ _ m _ (by decide)
  | true =>
    refine Parses.altR (Parses.altR (Parses.altR (Parses.altL ?_) ?_) ?_) ?_
    · unfold mailboxDataLsub
      refine Parses.bind (tagNoCase_spell _ m) ?_ (fun _ _ => trivial)
      exact Parses.bind' (mailboxList_enc attrs d name e h) (Parses.pure _ _) (fun _ h => h) (by simp)
    · intro rest _; rw [List.append_assoc]
      unfold mailboxDataList; exact kwBind_err _ _ _ m _ (by decide)
    · intro rest _; rw [List.append_assoc]
      unfold mailboxDataExists; exact numBind_err_kw _ 76 _ m _ (by decide)
    · intro rest _; rw [List.append_assoc]
      unfold mailboxDataFlags; exact kwBind_err _ _ _ m _ (by decide)

/-! ### STATUS -/

inductive EncStatusAtt : StatusAttribute → Bytes → Prop
  | highestModSeq (m : List Bool) (n : Nat) (e : Bytes) : n < 2 ^ 64 → EncNumber n e →
      EncStatusAtt (.highestModSeq n) (spell (b!"HIGHESTMODSEQ ") m ++ e)
  | messages (m : List Bool) (n : Nat) (e : Bytes) : n < 2 ^ 32 → EncNumber n e →
      EncStatusAtt (.messages n) (spell (b!"MESSAGES ") m ++ e)
  | recent (m : List Bool) (n : Nat) (e : Bytes) : n < 2 ^ 32 → EncNumber n e →
      EncStatusAtt (.recent n) (spell (b!"RECENT ") m ++ e)
  | uidNext (m : List Bool) (n : Nat) (e : Bytes) : n < 2 ^ 32 → EncNumber n e →
      EncStatusAtt (.uidNext n) (spell (b!"UIDNEXT ") m ++ e)
  | uidValidity (m : List Bool) (n : Nat) (e : Bytes) : n < 2 ^ 32 → EncNumber n e →
      EncStatusAtt (.uidValidity n) (spell (b!"UIDVALIDITY ") m ++ e)
  | unseen (m : List Bool) (n : Nat) (e : Bytes) : n < 2 ^ 32 → EncNumber n e →
      EncStatusAtt (.unseen n) (spell (b!"UNSEEN ") m ++ e)

/-- `KEYWORD SP number` -/
theorem kwNumber_enc {β : Type} (kw : Bytes) (g : Nat → β) (bound : Nat) (m : List Bool) (n : Nat) (e : Bytes)
    (hn : n < bound) (he : EncNumber n e) :
    Parses (do tagNoCase kw; let n ← numberB bound; pure (g n) : Parser β) (spell kw m ++ e) (g n)
      (Starts spaceOrClose) := by
  refine Parses.bind (tagNoCase_spell _ m) ?_ (fun _ _ => trivial)
  exact Parses.bind' ((number_enc bound n e he hn).weaken spaceOrClose_notDigit) (Parses.pure _ _)
    (fun _ h => h) (by simp)

theorem statusAtt_enc (v : StatusAttribute) (e : Bytes) (h : EncStatusAtt v e) :
    Parses statusAtt e v (Starts spaceOrClose) := by
  unfold statusAtt
  cases h with
  | highestModSeq m n e hn he =>
    refine Parses.altL ?_
    unfold statusAttValHighestModSeq
    exact kwNumber_enc _ StatusAttribute.highestModSeq (2 ^ 64) m n e hn he
  | messages m n e hn he =>
    refine Parses.altR (Parses.altL (kwNumber_enc _ StatusAttribute.messages (2 ^ 32) m n e hn he)) ?_
    intro rest _; rw [List.append_assoc]
    unfold statusAttValHighestModSeq; exact kwBind_err _ _ _ m _ (by decide)
  | recent m n e hn he =>
    refine Parses.altR (Parses.altR (Parses.altL (kwNumber_enc _ StatusAttribute.recent (2 ^ 32) m n e hn he)) ?_) ?_
    · intro rest _; rw [List.append_assoc]; exact kwBind_err _ _ _ m _ (by decide)
    · intro rest _; rw [List.append_assoc]
      unfold statusAttValHighestModSeq; exact kwBind_err _ _ _ m _ (by decide)
  | uidNext m n e hn he =>
    refine Parses.altR (Parses.altR (Parses.altR
      (Parses.altL (kwNumber_enc _ StatusAttribute.uidNext (2 ^ 32) m n e hn he)) ?_) ?_) ?_
    · intro rest _; rw [List.append_assoc]; exact kwBind_err _ _ _ m _ (by decide)
    · intro rest _; rw [List.append_assoc]; exact kwBind_err _ _ _ m _ (by decide)
    · intro rest _; rw [List.append_assoc]
      unfold statusAttValHighestModSeq; exact kwBind_err _ _ _ m _ (by decide)
  | uidValidity m n e hn he =>
    refine Parses.altR (Parses.altR (Parses.altR (Parses.altR
      (Parses.altL (kwNumber_enc _ StatusAttribute.uidValidity (2 ^ 32) m n e hn he)) ?_) ?_) ?_) ?_
    · intro rest _; rw [List.append_assoc]; exact kwBind_err _ _ _ m _ (by decide)
    · intro rest _; rw [List.append_assoc]; exact kwBind_err _ _ _ m _ (by decide)
    · intro rest _; rw [List.append_assoc]; exact kwBind_err _ _ _ m _ (by decide)
    · intro rest _; rw [List.append_assoc]
      unfold statusAttValHighestModSeq; exact kwBind_err _ _ _ m _ (by decide)
  | unseen m n e hn he =>
    refine Parses.altR (Parses.altR (Parses.altR (Parses.altR (Parses.altR
      (kwNumber_enc _ StatusAttribute.unseen (2 ^ 32) m n e hn he) ?_) ?_) ?_) ?_) ?_
    · intro rest _; rw [List.append_assoc]; exact kwBind_err _ _ _ m _ (by decide)
    · intro rest _; rw [List.append_assoc]; exact kwBind_err _ _ _ m _ (by decide)
    · intro rest _; rw [List.append_assoc]; exact kwBind_err _ _ _ m _ (by decide)
    · intro rest _; rw [List.append_assoc]; exact kwBind_err _ _ _ m _ (by decide)
    · intro rest _; rw [List.append_assoc]
      unfold statusAttValHighestModSeq; exact kwBind_err _ _ _ m _ (by decide)

theorem statusAtt_err_close (r : Bytes) : statusAtt (41 :: r) = .err := by
  unfold statusAtt statusAttValHighestModSeq
  simp only [alt]
  rw [kwBind_err_first _ _ 72 41 r rfl (by decide), kwBind_err_first _ _ 77 41 r rfl (by decide),
    kwBind_err_first _ _ 82 41 r rfl (by decide), kwBind_err_first _ _ 85 41 r rfl (by decide),
    kwBind_err_first _ _ 85 41 r rfl (by decide), kwBind_err_first _ _ 85 41 r rfl (by decide)]

/-- `STATUS mailbox (items)`; the item list may be empty -/
theorem mailboxData_status (m : List Bool) (name ename : Bytes) (hn : EncAString name ename)
    (hu : validUtf8 name = true) (items : List StatusAttribute) (ei : Bytes) (hi : EncList EncStatusAtt items ei) :
    Parses mailboxData (spell (b!"STATUS ") m ++ (ename ++ (b!" " ++ ei))) (.status (canonMailbox name) items) Any := by
  unfold mailboxData
  refine Parses.altR (Parses.altR (Parses.altR (Parses.altR (Parses.altL ?_) ?_) ?_) ?_) ?_
  · unfold mailboxDataStatus
    refine Parses.bind (tagNoCase_spell _ m) ?_ (fun _ _ => trivial)
    refine Parses.bind (mailbox_enc name ename hn hu) ?_ (fun r _ => ⟨32, _, rfl, by decide⟩)
    refine Parses.bind (tag_ok _) ?_ (fun _ _ => trivial)
    unfold statusAttList
    exact Parses.bind' (parenthesizedList_enc statusAtt_enc statusAtt_err_close items ei hi Any) (Parses.pure _ _)
      (fun _ h => h) (by simp)
  · intro rest _; rw [List.append_assoc]
    unfold mailboxDataLsub; exact kwBind_err _ _ _ m _ (by decide)
  · intro rest _; rw [List.append_assoc]
    unfold mailboxDataList; exact kwBind_err _ _ _ m _ (by decide)
  · intro rest _; rw [List.append_assoc]
    unfold mailboxDataExists; exact numBind_err_kw _ 83 _ m _ (by decide)
  · intro rest _; rw [List.append_assoc]
    unfold mailboxDataFlags; exact kwBind_err _ _ _ m _ (by decide)

end RT
