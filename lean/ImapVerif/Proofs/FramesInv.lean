/-
  Invariant of the ownership model (Frames.lean) and the theorem that no admissible operation
  touches the cells of a live frame.
-/
import ImapVerif.Frames

namespace Own

theorem look_filter_ne (l : List (Nat × Nat)) (a x : Nat) (h : x ≠ a) :
    look (l.filter (·.1 != a)) x = look l x := by
  induction l with
  | nil => rfl
  | cons p rest ih =>
    obtain ⟨b, n⟩ := p
    by_cases hb : b = a
    · subst hb
      have : b ≠ x := fun e => h e.symm
      simp [List.filter_cons, look, this, ih]
    · simp only [List.filter_cons, bne_iff_ne, ne_eq, hb, not_false_eq_true, decide_true, if_true, look]
      split <;> simp [ih]

theorem look_setSize_same (l : List (Nat × Nat)) (a n : Nat) : look (setSize l a n) a = some n := by
  simp [setSize, look]

theorem look_setSize_other (l : List (Nat × Nat)) (a n x : Nat) (h : x ≠ a) :
    look (setSize l a n) x = look l x := by
  have : a ≠ x := fun e => h e.symm
  simp [setSize, look, this, look_filter_ne l a x h]

theorem look_some_mem (l : List (Nat × Nat)) (x n : Nat) (h : look l x = some n) : (x, n) ∈ l := by
  induction l with
  | nil => cases h
  | cons p rest ih =>
    obtain ⟨b, k⟩ := p
    simp only [look] at h
    split at h
    · rename_i hb; cases h; subst hb; simp
    · exact List.mem_cons_of_mem _ (ih h)

theorem look_fresh (l : List (Nat × Nat)) (x : Nat) (h : ∀ p ∈ l, p.1 < x) : look l x = none := by
  cases hl : look l x with
  | none => rfl
  | some n => exact absurd (h _ (look_some_mem l x n hl)) (Nat.lt_irrefl _)

/-- the invariant of the bookkeeping -/
structure Inv (s : St) : Prop where
  /-- a frame lies inside a live allocation -/
  frameAlloc : ∀ f ∈ s.frames, ∃ size, look s.sizes f.a = some size ∧ f.off + f.len ≤ size
  /-- the buffer window lies inside a live allocation -/
  winAlloc : ∀ w, s.win = some w → ∃ size, look s.sizes w.a = some size ∧ w.off + w.len ≤ size
  /-- frames that share the buffer's allocation end before the window starts -/
  before : ∀ w, s.win = some w → ∀ f ∈ s.frames, f.a = w.a → f.off + f.len ≤ w.off
  /-- allocation identifiers in use are below the next fresh one -/
  fresh : ∀ p ∈ s.sizes, p.1 < s.next
  /-- frame handles in use are below the next fresh one -/
  handles : ∀ f ∈ s.frames, f.h < s.nextH

theorem inv_init : Inv ({} : St) where
  frameAlloc := by intro f hf; cases hf
  winAlloc := by
    intro w hw; cases hw
    exact ⟨0, by simp [look], by simp⟩
  before := by intro w _ f hf; cases hf
  fresh := by intro p hp; simp at hp; subst hp; decide
  handles := by intro f hf; cases hf

theorem shared_false_iff (s : St) (a : Nat) : shared s a = false ↔ ∀ f ∈ s.frames, f.a ≠ a := by
  simp [shared]

/-- `release` keeps the invariant, provided the state before releasing satisfies it -/
theorem inv_release (s : St) (a : Nat) (h : Inv s) : Inv (release s a).1 := by
  unfold release
  split
  · exact h
  · rename_i hcond
    have hns : shared s a = false := by
      cases hs : shared s a <;> simp [hs] at hcond ⊢
    have hnw : winIn s a = false := by
      cases hs : winIn s a <;> simp [hs] at hcond ⊢
    refine ⟨?_, ?_, h.before, ?_, h.handles⟩
    · intro f hf
      obtain ⟨size, hl, hb⟩ := h.frameAlloc f hf
      have hne : f.a ≠ a := (shared_false_iff s a).1 hns f hf
      exact ⟨size, by simpa [look_filter_ne _ _ _ hne] using hl, hb⟩
    · intro w hw
      obtain ⟨size, hl, hb⟩ := h.winAlloc w hw
      have hw' : s.win = some w := hw
      have hne : w.a ≠ a := by
        intro e
        have : winIn s a = true := by simp [winIn, hw', e]
        rw [this] at hnw; cases hnw
      exact ⟨size, by simpa [look_filter_ne _ _ _ hne] using hl, hb⟩
    · intro p hp
      exact h.fresh p (List.mem_filter.1 hp).1

theorem release_frames (s : St) (a : Nat) : (release s a).1.frames = s.frames := by
  unfold release; split <;> rfl

theorem release_win (s : St) (a : Nat) : (release s a).1.win = s.win := by
  unfold release; split <;> rfl

theorem release_nextH (s : St) (a : Nat) : (release s a).1.nextH = s.nextH := by
  unfold release; split <;> rfl

/-- an allocation is only released when no frame refers to it -/
theorem release_freed (s : St) (a x : Nat) (hx : x ∈ (release s a).2) : ∀ f ∈ s.frames, f.a ≠ x := by
  unfold release at hx
  split at hx
  · cases hx
  · rename_i hcond
    simp at hx; subst hx
    have hns : shared s x = false := by
      cases hs : shared s x <;> simp [hs] at hcond ⊢
    exact (shared_false_iff s x).1 hns

/-- **the invariant is preserved by every admissible operation** -/
theorem inv_step (s : St) (op : Op) (s' : St) (e : Eff) (h : Inv s) (hs : step s op = some (s', e)) : Inv s' := by
  cases op with
  | recvInPlace n cap =>
    simp only [step] at hs
    split at hs
    · cases hs
    · rename_i w hw
      split at hs
      · cases hs
      · rename_i size hsize
        split at hs
        · rename_i hc
          cases hs
          refine ⟨?_, ?_, ?_, ?_, h.handles⟩
          · intro f hf
            obtain ⟨sz, hl, hb⟩ := h.frameAlloc f hf
            by_cases hfa : f.a = w.a
            · refine ⟨w.off + cap, by simp [hfa, look_setSize_same], ?_⟩
              have := h.before w hw f hf hfa
              omega
            · exact ⟨sz, by simpa [look_setSize_other _ _ _ _ hfa] using hl, hb⟩
          · intro w' hw'
            simp at hw'; subst hw'
            exact ⟨w.off + cap, by simp [look_setSize_same], by simp; omega⟩
          · intro w' hw' f hf hfa
            simp at hw'; subst hw'
            exact h.before w hw f hf hfa
          · intro p hp
            simp only [setSize, List.mem_cons] at hp
            rcases hp with rfl | hp
            · exact h.fresh (w.a, size) (look_some_mem _ _ _ hsize)
            · exact h.fresh p (List.mem_filter.1 hp).1
        · cases hs
  | recvShift n newOff cap =>
    simp only [step] at hs
    split at hs
    · cases hs
    · rename_i w hw
      split at hs
      · cases hs
      · rename_i size hsize
        split at hs
        · rename_i hc
          cases hs
          have hnone := (shared_false_iff s w.a).1 hc.1
          refine ⟨?_, ?_, ?_, ?_, h.handles⟩
          · intro f hf
            obtain ⟨sz, hl, hb⟩ := h.frameAlloc f hf
            have hfa : f.a ≠ w.a := hnone f hf
            exact ⟨sz, by simpa [look_setSize_other _ _ _ _ hfa] using hl, hb⟩
          · intro w' hw'
            simp at hw'; subst hw'
            exact ⟨newOff + cap, by simp [look_setSize_same], by simp; omega⟩
          · intro w' hw' f hf hfa
            simp at hw'; subst hw'
            exact absurd hfa (hnone f hf)
          · intro p hp
            simp only [setSize, List.mem_cons] at hp
            rcases hp with rfl | hp
            · exact h.fresh (w.a, size) (look_some_mem _ _ _ hsize)
            · exact h.fresh p (List.mem_filter.1 hp).1
        · cases hs
  | recvNew n cap =>
    simp only [step] at hs
    split at hs
    · cases hs
    · rename_i w hw
      split at hs
      · rename_i hc
        simp only [Option.some.injEq, Prod.mk.injEq] at hs
        obtain ⟨rfl, _⟩ := hs
        apply inv_release
        refine ⟨?_, ?_, ?_, ?_, h.handles⟩
        · intro f hf
          obtain ⟨sz, hl, hb⟩ := h.frameAlloc f hf
          have hlt := h.fresh _ (look_some_mem _ _ _ hl)
          have : s.next ≠ f.a := by simp at hlt; omega
          exact ⟨sz, by simp [look, this, hl], hb⟩
        · intro w' hw'
          simp at hw'; subst hw'
          exact ⟨cap, by simp [look], by simpa using hc⟩
        · intro w' hw' f hf hfa
          simp at hw'; subst hw'
          obtain ⟨sz, hl, _⟩ := h.frameAlloc f hf
          have hlt := h.fresh _ (look_some_mem _ _ _ hl)
          simp at hlt hfa; omega
        · intro p hp
          simp only [List.mem_cons] at hp
          rcases hp with rfl | hp
          · simp
          · have := h.fresh p hp; simp; omega
      · cases hs
  | deliver n =>
    simp only [step] at hs
    split at hs
    · cases hs
    · rename_i w hw
      split at hs
      · rename_i hc
        cases hs
        obtain ⟨sz, hl, hb⟩ := h.winAlloc w hw
        refine ⟨?_, ?_, ?_, h.fresh, ?_⟩
        · intro f hf
          simp only [List.mem_cons] at hf
          rcases hf with rfl | hf
          · exact ⟨sz, hl, by simp; omega⟩
          · exact h.frameAlloc f hf
        · intro w' hw'
          simp at hw'; subst hw'
          exact ⟨sz, hl, by simp; omega⟩
        · intro w' hw' f hf hfa
          simp at hw'; subst hw'
          simp only [List.mem_cons] at hf
          rcases hf with rfl | hf
          · simp
          · have := h.before w hw f hf hfa
            simp; omega
        · intro f hf
          simp only [List.mem_cons] at hf
          rcases hf with rfl | hf
          · simp
          · have := h.handles f hf; simp; omega
      · cases hs
  | dropFrame hd =>
    simp only [step] at hs
    split at hs
    · cases hs
    · rename_i f0 hf0
      simp only [Option.some.injEq, Prod.mk.injEq] at hs
      obtain ⟨rfl, _⟩ := hs
      apply inv_release
      refine ⟨?_, h.winAlloc, ?_, h.fresh, ?_⟩
      · intro f hf; exact h.frameAlloc f (List.mem_filter.1 hf).1
      · intro w hw f hf hfa; exact h.before w hw f (List.mem_filter.1 hf).1 hfa
      · intro f hf; exact h.handles f (List.mem_filter.1 hf).1
  | dropBuf =>
    simp only [step] at hs
    split at hs
    · cases hs
    · rename_i w hw
      simp only [Option.some.injEq, Prod.mk.injEq] at hs
      obtain ⟨rfl, _⟩ := hs
      apply inv_release
      refine ⟨h.frameAlloc, ?_, ?_, h.fresh, h.handles⟩
      · intro w' hw'; cases hw'
      · intro w' hw'; cases hw'

/-! ### memory effects -/

theorem applyWrite_other (m : Mem) (v : Nat) (w : Nat × Nat × Nat) (a i : Nat)
    (h : a ≠ w.1 ∨ i < w.2.1 ∨ w.2.2 ≤ i) : applyWrite m v w a i = m a i := by
  unfold applyWrite
  split
  · rename_i hc
    rcases h with h | h | h
    · exact absurd hc.1 h
    · omega
    · omega
  · rfl

theorem applyFrees_other (fr : List Nat) (m : Mem) (v : Nat) (a i : Nat) (h : a ∉ fr) :
    (fr.foldl (fun m a => applyFree m v a) m) a i = m a i := by
  induction fr generalizing m with
  | nil => rfl
  | cons x xs ih =>
    simp only [List.foldl_cons]
    rw [ih _ (fun hx => h (List.mem_cons_of_mem _ hx))]
    unfold applyFree
    have : a ≠ x := fun e => h (by simp [e])
    simp [this]

/-- the effect of an operation leaves a cell alone if no write covers it and its allocation is
    not released -/
theorem applyEff_other (m : Mem) (v : Nat) (e : Eff) (a i : Nat)
    (hw : ∀ w ∈ e.writes, a ≠ w.1 ∨ i < w.2.1 ∨ w.2.2 ≤ i) (hf : a ∉ e.freed) :
    applyEff m v e a i = m a i := by
  unfold applyEff
  rw [applyFrees_other _ _ _ _ _ hf]
  generalize e.writes = ws at hw
  induction ws generalizing m with
  | nil => rfl
  | cons w ws ih =>
    simp only [List.foldl_cons]
    rw [ih _ (fun w' hw' => hw w' (List.mem_cons_of_mem _ hw'))]
    exact applyWrite_other m v w a i (hw w (by simp))

/-- **one step**: every frame that is live before and after an admissible operation shows the
    same cells, whatever content the operation writes -/
theorem step_intact (s : St) (op : Op) (s' : St) (e : Eff) (h : Inv s) (hs : step s op = some (s', e))
    (m : Mem) (v : Nat) (f : Frame) (hf : f ∈ s.frames) (hf' : f ∈ s'.frames) :
    ∀ i, i < f.len → applyEff m v e f.a (f.off + i) = m f.a (f.off + i) := by
  intro i hi
  apply applyEff_other
  · intro wr hwr
    cases op with
    | recvInPlace n cap =>
      simp only [step] at hs
      split at hs
      · cases hs
      · rename_i w hw
        split at hs
        · cases hs
        · split at hs
          · cases hs
            simp at hwr; subst hwr
            by_cases hfa : f.a = w.a
            · have := h.before w hw f hf hfa
              right; left; simp; omega
            · left; exact hfa
          · cases hs
    | recvShift n newOff cap =>
      simp only [step] at hs
      split at hs
      · cases hs
      · rename_i w hw
        split at hs
        · cases hs
        · split at hs
          · rename_i hc
            cases hs
            simp at hwr; subst hwr
            left; exact (shared_false_iff s w.a).1 hc.1 f hf
          · cases hs
    | recvNew n cap =>
      simp only [step] at hs
      split at hs
      · cases hs
      · rename_i w hw
        split at hs
        · simp only [Option.some.injEq, Prod.mk.injEq] at hs
          obtain ⟨_, rfl⟩ := hs
          simp at hwr; subst hwr
          left
          obtain ⟨sz, hl, _⟩ := h.frameAlloc f hf
          have hlt := h.fresh _ (look_some_mem _ _ _ hl)
          simp at hlt ⊢; omega
        · cases hs
    | deliver n =>
      simp only [step] at hs
      split at hs
      · cases hs
      · split at hs
        · cases hs; simp at hwr
        · cases hs
    | dropFrame hd =>
      simp only [step] at hs
      split at hs
      · cases hs
      · simp only [Option.some.injEq, Prod.mk.injEq] at hs
        obtain ⟨_, rfl⟩ := hs
        simp at hwr
    | dropBuf =>
      simp only [step] at hs
      split at hs
      · cases hs
      · simp only [Option.some.injEq, Prod.mk.injEq] at hs
        obtain ⟨_, rfl⟩ := hs
        simp at hwr
  · intro hfr
    cases op with
    | recvInPlace n cap =>
      simp only [step] at hs
      split at hs
      · cases hs
      · split at hs
        · cases hs
        · split at hs
          · cases hs; simp at hfr
          · cases hs
    | recvShift n newOff cap =>
      simp only [step] at hs
      split at hs
      · cases hs
      · split at hs
        · cases hs
        · split at hs
          · cases hs; simp at hfr
          · cases hs
    | recvNew n cap =>
      simp only [step] at hs
      split at hs
      · cases hs
      · rename_i w hw
        split at hs
        · simp only [Option.some.injEq, Prod.mk.injEq] at hs
          obtain ⟨_, rfl⟩ := hs
          simp only at hfr
          exact release_freed _ _ _ hfr f hf rfl
        · cases hs
    | deliver n =>
      simp only [step] at hs
      split at hs
      · cases hs
      · split at hs
        · cases hs; simp at hfr
        · cases hs
    | dropFrame hd =>
      simp only [step] at hs
      split at hs
      · cases hs
      · rename_i f0 hf0
        simp only [Option.some.injEq, Prod.mk.injEq] at hs
        obtain ⟨rfl, rfl⟩ := hs
        simp only at hfr
        rw [release_frames] at hf'
        exact release_freed _ _ _ hfr f hf' rfl
    | dropBuf =>
      simp only [step] at hs
      split at hs
      · cases hs
      · rename_i w hw
        simp only [Option.some.injEq, Prod.mk.injEq] at hs
        obtain ⟨_, rfl⟩ := hs
        simp only at hfr
        exact release_freed _ _ _ hfr f hf rfl

end Own

namespace Own

/-! ### whole histories -/

/-- frames after a step are old frames or the one just delivered (with the fresh handle) -/
theorem step_frames_sub (s : St) (op : Op) (s' : St) (e : Eff) (hs : step s op = some (s', e)) :
    (∀ f ∈ s'.frames, f ∈ s.frames ∨ f.h = s.nextH) ∧ s.nextH ≤ s'.nextH := by
  cases op with
  | recvInPlace n cap =>
    simp only [step] at hs
    split at hs
    · cases hs
    · split at hs
      · cases hs
      · split at hs
        · cases hs; exact ⟨fun f hf => Or.inl hf, Nat.le_refl _⟩
        · cases hs
  | recvShift n newOff cap =>
    simp only [step] at hs
    split at hs
    · cases hs
    · split at hs
      · cases hs
      · split at hs
        · cases hs; exact ⟨fun f hf => Or.inl hf, Nat.le_refl _⟩
        · cases hs
  | recvNew n cap =>
    simp only [step] at hs
    split at hs
    · cases hs
    · split at hs
      · simp only [Option.some.injEq, Prod.mk.injEq] at hs
        obtain ⟨rfl, _⟩ := hs
        rw [release_frames, release_nextH]
        exact ⟨fun f hf => Or.inl hf, Nat.le_refl _⟩
      · cases hs
  | deliver n =>
    simp only [step] at hs
    split at hs
    · cases hs
    · split at hs
      · cases hs
        refine ⟨fun f hf => ?_, by simp⟩
        simp only [List.mem_cons] at hf
        rcases hf with rfl | hf
        · exact Or.inr rfl
        · exact Or.inl hf
      · cases hs
  | dropFrame hd =>
    simp only [step] at hs
    split at hs
    · cases hs
    · simp only [Option.some.injEq, Prod.mk.injEq] at hs
      obtain ⟨rfl, _⟩ := hs
      rw [release_frames, release_nextH]
      exact ⟨fun f hf => Or.inl (List.mem_filter.1 hf).1, Nat.le_refl _⟩
  | dropBuf =>
    simp only [step] at hs
    split at hs
    · cases hs
    · simp only [Option.some.injEq, Prod.mk.injEq] at hs
      obtain ⟨rfl, _⟩ := hs
      rw [release_frames, release_nextH]
      exact ⟨fun f hf => Or.inl hf, Nat.le_refl _⟩

/-- a frame that has been dropped never comes back (handles are not reused) -/
theorem run_absent (ops : List (Op × Nat)) (s : St) (m : Mem) (s' : St) (m' : Mem) (f : Frame)
    (hh : f.h < s.nextH) (hf : f ∉ s.frames) (hr : run s m ops = some (s', m')) : f ∉ s'.frames := by
  induction ops generalizing s m with
  | nil => simp [run] at hr; obtain ⟨rfl, _⟩ := hr; exact hf
  | cons x rest ih =>
    obtain ⟨op, v⟩ := x
    simp only [run] at hr
    split at hr
    · cases hr
    · rename_i s1 e hs
      have ⟨hsub, hmono⟩ := step_frames_sub s op s1 e hs
      refine ih s1 _ (Nat.lt_of_lt_of_le hh hmono) ?_ hr
      intro hf1
      rcases hsub f hf1 with h1 | h1
      · exact hf h1
      · omega

theorem inv_run (ops : List (Op × Nat)) (s : St) (m : Mem) (s' : St) (m' : Mem) (h : Inv s)
    (hr : run s m ops = some (s', m')) : Inv s' := by
  induction ops generalizing s m with
  | nil => simp [run] at hr; obtain ⟨rfl, _⟩ := hr; exact h
  | cons x rest ih =>
    obtain ⟨op, v⟩ := x
    simp only [run] at hr
    split at hr
    · cases hr
    · rename_i s1 e hs
      exact ih s1 _ (inv_step s op s1 e h hs) hr

/-- **every history**: a frame that is live at the start and at the end of any admissible history
    shows exactly the same cells at the end, whatever was received, delivered, dropped, reallocated
    or released in between and whatever contents were written -/
theorem run_intact (ops : List (Op × Nat)) (s : St) (m : Mem) (s' : St) (m' : Mem) (h : Inv s)
    (hr : run s m ops = some (s', m')) (f : Frame) (hf : f ∈ s.frames) (hf' : f ∈ s'.frames) :
    ∀ i, i < f.len → m' f.a (f.off + i) = m f.a (f.off + i) := by
  induction ops generalizing s m with
  | nil => simp [run] at hr; obtain ⟨_, rfl⟩ := hr; intro i _; rfl
  | cons x rest ih =>
    obtain ⟨op, v⟩ := x
    simp only [run] at hr
    split at hr
    · cases hr
    · rename_i s1 e hs
      by_cases hf1 : f ∈ s1.frames
      · intro i hi
        rw [ih s1 _ (inv_step s op s1 e h hs) hr hf1 i hi]
        exact step_intact s op s1 e h hs m v f hf hf1 i hi
      · have ⟨_, hmono⟩ := step_frames_sub s op s1 e hs
        exact absurd hf' (run_absent rest s1 _ s' m' f (Nat.lt_of_lt_of_le (h.handles f hf) hmono) hf1 hr)

end Own
