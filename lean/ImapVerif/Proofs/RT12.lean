/-
  Round-trip, twelfth layer: VANISHED, ID, METADATA.
-/
import ImapVerif.Proofs.RT11

open Bytes Parser Grammar

namespace RT

/-! ### VANISHED -/

/-- what may follow a member of a sequence set: `,`, white space, CR or LF -/
def seqEnd (c : UInt8) : Bool := c == 44 || isSpace c || c == 13 || c == 10

theorem seqEnd_notDigit (r : Bytes) (h : Starts seqEnd r) : Starts notDigit r := by
  obtain ⟨c, t, hr, hc⟩ := h
  refine ⟨c, t, hr, ?_⟩
  have key : ∀ n : Fin 256, seqEnd (UInt8.ofNat n.val) = true → notDigit (UInt8.ofNat n.val) = true := by
    decide +kernel
  have := key ⟨c.toNat, c.toNat_lt⟩
  simp only [UInt8.ofNat_toNat] at this
  exact this hc

theorem seqEnd_notColon (c : UInt8) (h : seqEnd c = true) : ((58 : UInt8) == c) = false := by
  have key : ∀ n : Fin 256, seqEnd (UInt8.ofNat n.val) = true → ((58 : UInt8) == UInt8.ofNat n.val) = false := by
    decide +kernel
  have := key ⟨c.toNat, c.toNat_lt⟩
  simp only [UInt8.ofNat_toNat] at this
  exact this h

/-- a member of a sequence set denotes a closed interval; `high:low` denotes the same as `low:high` -/
inductive EncSeqMember : Nat × Nat → Bytes → Prop
  | single (n : Nat) (e : Bytes) : n < 2 ^ 32 → EncNumber n e → EncSeqMember (n, n) e
  | range (a b : Nat) (ea eb : Bytes) : a < 2 ^ 32 → b < 2 ^ 32 → EncNumber a ea → EncNumber b eb →
      EncSeqMember (if a ≤ b then (a, b) else (b, a)) (ea ++ (b!":" ++ eb))

def seqMemberP : Parser (Nat × Nat) := alt sequenceRange (map number fun n => (n, n))

theorem seqMember_enc (v : Nat × Nat) (e : Bytes) (h : EncSeqMember v e) : Parses seqMemberP e v (Starts seqEnd) := by
  unfold seqMemberP
  cases h with
  | single n e hn he =>
    refine Parses.altR (Parses.map _ ((number_enc (2 ^ 32) n e he hn).weaken seqEnd_notDigit)) ?_
    intro rest hr
    unfold sequenceRange
    show Parser.bindP number _ _ = .err
    unfold Parser.bindP number
    rw [number_enc (2 ^ 32) n e he hn rest (seqEnd_notDigit rest hr)]
    obtain ⟨c, t, hr', hc⟩ := hr
    subst hr'
    show Parser.bindP (tag (b!":")) _ _ = .err
    unfold Parser.bindP
    rw [tag_err_first (b!":") 58 c t rfl (seqEnd_notColon c hc)]
  | range a b ea eb ha hb hea heb =>
    refine Parses.altL ?_
    unfold sequenceRange
    refine Parses.bind (number_enc (2 ^ 32) a ea hea ha) ?_ (fun r _ => ⟨58, _, rfl, by decide⟩)
    refine Parses.bind (tag_ok _) ?_ (fun _ _ => trivial)
    exact Parses.bind' ((number_enc (2 ^ 32) b eb heb hb).weaken seqEnd_notDigit) (Parses.pure _ _)
      (fun _ h => h) (by simp)

def spaceOrCRLF (c : UInt8) : Bool := isSpace c || c == 13 || c == 10

inductive EncSeqSet : List (Nat × Nat) → Bytes → Prop
  | mk (first : Bytes × (Nat × Nat)) (others : List (Bytes × (Nat × Nat))) :
      (∀ x ∈ first :: others, EncSeqMember x.2 x.1) →
      EncSeqSet (first.2 :: others.map (·.2)) (first.1 ++ (others.map fun x => b!"," ++ x.1).flatten)

theorem sequenceSet_enc (v : List (Nat × Nat)) (e : Bytes) (h : EncSeqSet v e) :
    Parses sequenceSet e v (Starts spaceOrCRLF) := by
  cases h with
  | mk first others hall =>
    exact Parses.sepList1 (sep := tag (b!",")) (p := seqMemberP) (b!",") (by simp) (Starts seqEnd)
      (Starts spaceOrCRLF) first others (tag_ok _) (fun y hy => seqMember_enc y.2 y.1 (hall y hy))
      (fun r => ⟨44, r, rfl, by decide⟩)
      (fun r ⟨c, t, hr, hc⟩ => ⟨c, t, hr, by
        simp only [spaceOrCRLF, Bool.or_eq_true] at hc
        simp only [seqEnd, Bool.or_eq_true]
        rcases hc with (hc | hc) | hc
        · exact Or.inl (Or.inl (Or.inr hc))
        · exact Or.inl (Or.inr hc)
        · exact Or.inr hc⟩)
      (fun r ⟨c, t, hr, hc⟩ => by
        subst hr
        have key : ∀ n : Fin 256, spaceOrCRLF (UInt8.ofNat n.val) = true → ((44 : UInt8) == UInt8.ofNat n.val) = false := by
          decide +kernel
        have := key ⟨c.toNat, c.toNat_lt⟩
        simp only [UInt8.ofNat_toNat] at this
        exact tag_err_first _ 44 c t rfl (this hc))

theorem encSeqMember_head (v : Nat × Nat) (e : Bytes) (h : EncSeqMember v e) :
    ∃ c t, e = c :: t ∧ isDigit c = true := by
  cases h with
  | single n e hn he => exact encNumber_head n _ he
  | range a b ea eb ha hb hea heb =>
    obtain ⟨c, t, hct, hc⟩ := encNumber_head a ea hea
    exact ⟨c, t ++ (b!":" ++ eb), by simp [hct], hc⟩

theorem encSeqSet_head (v : List (Nat × Nat)) (e : Bytes) (h : EncSeqSet v e) :
    ∃ c t, e = c :: t ∧ isDigit c = true := by
  cases h with
  | mk first others hall =>
    obtain ⟨c, t, hct, hc⟩ := encSeqMember_head _ _ (hall first (by simp))
    exact ⟨c, t ++ (others.map fun x => b!"," ++ x.1).flatten, by simp [hct], hc⟩

/-- the optional `SP (EARLIER)` marker -/
def earlierEnc : Option (Bytes × List Bool) → Bytes
  | some x => x.1 ++ spell (b!"(EARLIER)") x.2
  | none => []

/-- `VANISHED [(EARLIER)] set` -/
theorem vanished_enc (m : List Bool) (earlier : Option (Bytes × List Bool)) (hw0 : ∀ x, earlier = some x → IsSpaces x.1)
    (w1 : Bytes) (hw1 : IsSpaces w1) (uids : List (Nat × Nat)) (eu : Bytes) (hu : EncSeqSet uids eu) :
    Parses respVanished
      (spell (b!"VANISHED") m ++ (earlierEnc earlier ++ (w1 ++ eu)))
      (.vanished earlier.isSome uids) (Starts spaceOrCRLF) := by
  unfold respVanished
  obtain ⟨c0, t0, hct0, hc0⟩ := encSeqSet_head uids eu hu
  have hdig : ∀ r, Starts notSpace (eu ++ r) := by
    intro r
    have key : ∀ n : Fin 256, isDigit (UInt8.ofNat n.val) = true → notSpace (UInt8.ofNat n.val) = true := by
      decide +kernel
    have := key ⟨c0.toNat, c0.toNat_lt⟩
    simp only [UInt8.ofNat_toNat] at this
    exact ⟨c0, t0 ++ r, by simp [hct0], this hc0⟩
  refine Parses.bind (tagNoCase_spell _ m) ?_ (fun _ _ => trivial)
  have hopt : Parses (opt (do space1; tagNoCase (b!"(EARLIER)")))
      (earlierEnc earlier)
      (earlier.map fun _ => ()) (fun r => ∃ r', r = w1 ++ (eu ++ r')) := by
    cases earlier with
    | none =>
      apply Parses.optNone
      intro rest ⟨r', hr'⟩
      subst hr'
      show Parser.bindP space1 _ _ = .err
      unfold Parser.bindP
      rw [space1_enc w1 hw1 _ (hdig r')]
      simp only [hct0, List.cons_append]
      exact tagNoCase_err_first _ 40 c0 _ rfl (lower_digit_ne 40 c0 (by decide) hc0)
    | some x =>
      apply Parses.optSome
      refine Parses.bind (space1_enc x.1 (hw0 x rfl)) ((tagNoCase_spell _ x.2).weaken (fun _ _ => trivial)) ?_
      intro r _
      obtain ⟨c', hc', hcc⟩ := spell_cons 40 (b!"EARLIER)") x.2
      have : spell (b!"(EARLIER)") x.2 = c' :: spell (b!"EARLIER)") x.2.tail := hc'
      rw [this]
      exact ⟨c', _, rfl, by rcases hcc with rfl | rfl <;> decide⟩
  refine Parses.bind hopt ?_ (fun r _ => ⟨r, by simp⟩)
  refine Parses.bind (space1_enc w1 hw1) ?_ (fun r _ => hdig r)
  refine Parses.bind' (sequenceSet_enc uids eu hu) ?_ (fun _ h => h) (e2 := []) (by simp)
  cases earlier <;> exact Parses.pure _ _

theorem responseDataAlt_vanished (m : List Bool) (tail : Bytes) (v : Response) (F : Bytes → Prop)
    (h : Parses respVanished (spell (b!"VANISHED") m ++ tail) v F) :
    Parses responseDataAlt (spell (b!"VANISHED") m ++ tail) v F := by
  unfold responseDataAlt
  walk_resp
  exact Parses.altL h

/-! ### ID -/

inductive EncIdParam : Bytes × Option Bytes → Bytes → Prop
  | mk (k ek w : Bytes) (v : Option Bytes) (ev : Bytes) : EncString k ek → validUtf8 k = true → IsSpaces w →
      EncNString v ev → (∀ s, v = some s → validUtf8 s = true) → EncIdParam (k, v) (ek ++ (w ++ ev))

theorem encNString_notSpace (v : Option Bytes) (e : Bytes) (h : EncNString v e) (r : Bytes) : Starts notSpace (e ++ r) := by
  obtain ⟨c, t, hct, hc⟩ := encNString_head v e h
  exact ⟨c, t ++ r, by simp [hct], by rcases hc with rfl | rfl | rfl | rfl <;> decide⟩

theorem idParam_enc (v : Bytes × Option Bytes) (e : Bytes) (h : EncIdParam v e) : Parses idParam e v Any := by
  cases h with
  | mk k ek w v ev hk hu hw hv huv =>
    unfold idParam
    refine Parses.bind (stringUtf8_enc k ek hk hu) ?_ (fun _ _ => trivial)
    refine Parses.bind (space1_enc w hw) ?_ (fun r _ => encNString_notSpace v ev hv r)
    exact Parses.bind' (nstringUtf8_enc v ev hv huv) (Parses.pure _ _) (fun _ h => h) (by simp)

theorem encIdParam_notSpace (v : Bytes × Option Bytes) (e : Bytes) (h : EncIdParam v e) (r : Bytes) :
    Starts notSpace (e ++ r) := by
  cases h with
  | mk k ek w v ev hk hu hw hv huv =>
    obtain ⟨t, ht | ht⟩ := encString_head k ek hk
    · exact ⟨34, t ++ ((w ++ ev) ++ r), by simp [ht], by decide⟩
    · exact ⟨123, t ++ ((w ++ ev) ++ r), by simp [ht], by decide⟩

theorem idParam_err_close (r : Bytes) : idParam (41 :: r) = .err := by
  unfold idParam
  show Parser.bindP stringUtf8 _ _ = .err
  unfold Parser.bindP
  simp [stringUtf8, Parser.mapRes, string_err 41 r (by decide) (by decide)]

/-- the parameter list: NIL, or `(` pairs separated by white space, optional white space, `)`;
    pairs whose value is NIL are dropped by the parser (they have no place in the crate's type) -/
inductive EncIdParams : Option (List (Bytes × Bytes)) → Bytes → Prop
  | nil (m : List Bool) : EncIdParams none (spell (b!"NIL") m)
  | some (first : Bytes × (Bytes × Option Bytes)) (items : List (Bytes × Bytes × (Bytes × Option Bytes))) (w0 : Bytes) :
      EncIdParam first.2 first.1 → (∀ x ∈ items, IsSpaces x.1 ∧ EncIdParam x.2.2 x.2.1) →
      (∀ c ∈ w0, isSpace c = true) →
      EncIdParams (some (idKeep (first.2 :: items.map (·.2.2))))
        ([40] ++ (first.1 ++ ((items.map fun x => x.1 ++ x.2.1).flatten ++ (w0 ++ [41]))))

theorem idParamList_enc (v : Option (List (Bytes × Bytes))) (e : Bytes) (h : EncIdParams v e) (F : Bytes → Prop) :
    Parses idParamList e v F := by
  unfold idParamList
  cases h with
  | nil m =>
    refine Parses.altR (Parses.map _ ((nil_enc m).weaken (fun _ _ => trivial))) ?_
    intro rest _
    obtain ⟨c', hc', hcc⟩ := spell_cons 78 (b!"IL") m
    have : spell (b!"NIL") m = c' :: spell (b!"IL") m.tail := hc'
    rw [this, List.cons_append]
    apply map_err
    unfold idParamListNotNil
    show Parser.bindP (char 40) _ _ = .err
    unfold Parser.bindP
    rw [char_err 40 c' _ (by rcases hcc with rfl | rfl <;> decide)]
  | some first items w0 hfirst hitems hw0 =>
    refine Parses.altL (Parses.map _ ?_)
    unfold idParamListNotNil
    refine Parses.bind (char_ok 40) ?_ (fun _ _ => trivial)
    -- what follows the pairs: optional white space and the closing parenthesis
    let Fend : Bytes → Prop := fun r => ∃ t, r = w0 ++ 41 :: t
    have hmany := Parses.many0_sep (sep := space1) (p := idParam) (Starts notSpace) Any Fend items
      (fun x hx => ⟨space1_enc x.1 (hitems x hx).1, (hitems x hx).1.1⟩)
      (fun x hx => idParam_enc _ _ (hitems x hx).2)
      (fun x hx r => encIdParam_notSpace _ _ (hitems x hx).2 r)
      (fun _ _ _ => trivial) (fun _ _ => trivial)
      (fun r ⟨t, hr⟩ => by
        subst hr
        show Parser.bindP space1 _ _ = .err
        unfold Parser.bindP
        cases w0 with
        | nil => simp [space1_err 41 t (by decide)]
        | cons a as =>
          rw [space1_enc (a :: as) ⟨by simp, hw0⟩ (41 :: t) ⟨41, t, rfl, by decide⟩]
          exact idParam_err_close t)
    refine Parses.bind (idParam_enc _ _ hfirst) ?_ (fun _ _ => trivial)
    refine Parses.bind hmany ?_ (fun r _ => ⟨r, by simp⟩)
    refine Parses.bind ((space0_enc w0 hw0).weaken (G := fun r => ∃ t, r = 41 :: t) ?_) ?_ (fun r _ => ⟨r, rfl⟩)
    · intro r ⟨t, hr⟩
      exact ⟨41, t, hr, by decide⟩
    · exact Parses.bind' (char_ok 41) (Parses.pure _ _) (fun _ _ => trivial) (by simp)

theorem respId_enc (m : List Bool) (w : Bytes) (hw : IsSpaces w) (v : Option (List (Bytes × Bytes))) (e : Bytes)
    (h : EncIdParams v e) (F : Bytes → Prop) :
    Parses respId (spell (b!"ID") m ++ (w ++ e)) (.id v) F := by
  unfold respId
  refine Parses.bind (tagNoCase_spell _ m) ?_ (fun _ _ => trivial)
  refine Parses.bind (space1_enc w hw) ?_ (fun r _ => by
    cases h with
    | nil mm =>
      obtain ⟨c', hc', hcc⟩ := spell_cons 78 (b!"IL") mm
      have : spell (b!"NIL") mm = c' :: spell (b!"IL") mm.tail := hc'
      rw [this]
      exact ⟨c', _, rfl, by rcases hcc with rfl | rfl <;> decide⟩
    | some first items w0 _ _ _ => exact ⟨40, _, rfl, by decide⟩)
  exact Parses.bind' (idParamList_enc v e h F) (Parses.pure _ _) (fun _ h => h) (by simp)

theorem responseDataAlt_id (m : List Bool) (tail : Bytes) (v : Response) (F : Bytes → Prop)
    (h : Parses respId (spell (b!"ID") m ++ tail) v F) :
    Parses responseDataAlt (spell (b!"ID") m ++ tail) v F := by
  unfold responseDataAlt
  walk_resp
  exact Parses.altL h

end RT
