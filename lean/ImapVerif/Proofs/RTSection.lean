/-
  Round-trip: BODY[section]<origin> (rfc3501/body.rs).
-/
import ImapVerif.Proofs.RTBody3

open Bytes Parser Grammar

namespace RT

/-- a keyword followed by a byte that has no letter case: the pair is a spelling of keyword ++ byte -/
theorem spell_snoc (u : Bytes) (m : List Bool) (c : UInt8) (hc : flipCase c = c) (r : Bytes) :
    spell u m ++ c :: r = spell (u ++ [c]) m ++ r := by
  rw [spell_append]
  have : spell [c] (m.drop u.length) = [c] := by
    cases m.drop u.length with
    | nil => rfl
    | cons k ks => cases k <;> simp [spell, hc]
  rw [this]; simp

/-- a keyword parser rejects a shorter keyword that is followed by a byte the longer one does not
    continue with -/
theorem tagNoCase_mismatch_snoc (t u : Bytes) (m : List Bool) (c : UInt8) (r : Bytes) (hc : flipCase c = c)
    (h : mismatch t (u ++ [c]) = true) : tagNoCase t (spell u m ++ c :: r) = .err := by
  rw [spell_snoc u m c hc r]
  exact tagNoCase_mismatch t (u ++ [c]) m r h

theorem astring_err_close (r : Bytes) : astring (41 :: r) = .err := by
  unfold astring alt
  rw [takeWhile1_err isAstringChar 41 r (by decide), string_err 41 r (by decide) (by decide)]

/-! ### section-msgtext / section-text -/

def closeSq : Bytes → Prop := Starts fun c => c == 93

theorem closeSq_form (r : Bytes) (h : closeSq r) : ∃ t, r = 93 :: t := by
  obtain ⟨c, t, hr, hc⟩ := h
  have : c = 93 := by simpa using hc
  exact ⟨t, by rw [hr, this]⟩

/-- `HEADER`, `HEADER.FIELDS[.NOT] (names)` (both yield `header`; the field names are not kept by the
    crate's types), `TEXT` -/
inductive EncMsgText : MessageSection → Bytes → Prop
  | headerFields (m : List Bool) (neg : Option (List Bool)) (names : List Bytes) (en : Bytes) :
      EncList (fun v e => EncAString v e) names en →
      EncMsgText .header (spell (b!"HEADER.FIELDS") m ++ ((match neg with | some mn => spell (b!".NOT") mn | none => []) ++
        (b!" " ++ en)))
  | header (m : List Bool) : EncMsgText .header (spell (b!"HEADER") m)
  | text (m : List Bool) : EncMsgText .text (spell (b!"TEXT") m)

theorem sectionMsgtext_enc (v : MessageSection) (e : Bytes) (h : EncMsgText v e) :
    Parses sectionMsgtext e v closeSq := by
  unfold sectionMsgtext
  cases h with
  | headerFields m neg names en hn =>
    refine Parses.altL ?_
    refine Parses.bind (tagNoCase_spell _ m) ?_ (fun _ _ => trivial)
    have hneg : Parses (opt (tagNoCase (b!".NOT"))) (match neg with | some mn => spell (b!".NOT") mn | none => [])
        (neg.map fun _ => ()) (Starts fun c => c == 32) := by
      cases neg with
      | none =>
        apply Parses.optNone
        intro rest ⟨c, t, hr, hc⟩
        subst hr
        have : c = 32 := by simpa using hc
        subst this
        exact tagNoCase_err_first _ 46 32 t rfl (by decide)
      | some mn => exact Parses.optSome ((tagNoCase_spell _ mn).weaken (fun _ _ => trivial))
    refine Parses.bind hneg ?_ (fun r _ => ⟨32, _, rfl, by decide⟩)
    refine Parses.bind (tag_ok _) ?_ (fun _ _ => trivial)
    refine Parses.bind' (parenthesizedList_enc (p := astring) (R := fun v e => EncAString v e)
      (fun v e hv => (astring_enc v e hv).weaken spaceOrClose_notAstring) astring_err_close names en hn _)
      (Parses.pure _ _) (fun _ h => h) (by simp)
  | header m =>
    refine Parses.altR (Parses.altL (Parses.map _ ((tagNoCase_spell _ m).weaken (fun _ _ => trivial)))) ?_
    intro rest hr
    obtain ⟨t, rfl⟩ := closeSq_form rest hr
    show Parser.bindP (tagNoCase (b!"HEADER.FIELDS")) _ _ = .err
    unfold Parser.bindP
    rw [tagNoCase_mismatch_snoc (b!"HEADER.FIELDS") (b!"HEADER") m 93 t (by decide) (by decide)]
  | text m =>
    refine Parses.altR (Parses.altR (Parses.map _ ((tagNoCase_spell _ m).weaken (fun _ _ => trivial))) ?_) ?_
    · intro rest _
      exact kwMap_err' _ _ _ m rest (by decide)
    · intro rest _
      exact kwBind_err _ _ _ m rest (by decide)
where
  kwMap_err' {β : Type} (t : Bytes) (g : Unit → β) (u : Bytes) (m : List Bool) (r : Bytes)
      (h : mismatch t u = true) : (Parser.map (tagNoCase t) g) (spell u m ++ r) = .err := by
    unfold Parser.map; rw [tagNoCase_mismatch t u m r h]

theorem sectionMsgtext_err_first (x : UInt8) (r : Bytes)
    (h1 : (lower 72 == lower x) = false) (h2 : (lower 84 == lower x) = false) : sectionMsgtext (x :: r) = .err := by
  unfold sectionMsgtext
  simp only [alt, Parser.map]
  rw [kwBind_err_first _ _ 72 x r rfl h1, tagNoCase_err_first (b!"HEADER") 72 x r rfl h1,
    tagNoCase_err_first (b!"TEXT") 84 x r rfl h2]

/-- section-text = section-msgtext / "MIME" -/
inductive EncSecText : MessageSection → Bytes → Prop
  | msg (v : MessageSection) (e : Bytes) : EncMsgText v e → EncSecText v e
  | mime (m : List Bool) : EncSecText .mime (spell (b!"MIME") m)

theorem sectionText_enc (v : MessageSection) (e : Bytes) (h : EncSecText v e) :
    Parses sectionText e v closeSq := by
  unfold sectionText
  cases h with
  | msg v e hm => exact Parses.altL (sectionMsgtext_enc v e hm)
  | mime m =>
    refine Parses.altR (Parses.map _ ((tagNoCase_spell _ m).weaken (fun _ _ => trivial))) ?_
    intro rest _
    obtain ⟨c', hc', hcc⟩ := spell_cons 77 (b!"IME") m
    have : spell (b!"MIME") m = c' :: spell (b!"IME") m.tail := hc'
    rw [this, List.cons_append]
    exact sectionMsgtext_err_first c' _ (by rcases hcc with rfl | rfl <;> decide)
      (by rcases hcc with rfl | rfl <;> decide)

theorem encSecText_head (v : MessageSection) (e : Bytes) (h : EncSecText v e) :
    ∃ c t, e = c :: t ∧ isDigit c = false := by
  have sp : ∀ (k : UInt8) (u : Bytes) (m : List Bool) (tl : Bytes), isDigit k = false → isDigit (flipCase k) = false →
      ∃ c t, spell (k :: u) m ++ tl = c :: t ∧ isDigit c = false := by
    intro k u m tl h1 h2
    obtain ⟨c', hc', hcc⟩ := spell_cons k u m
    exact ⟨c', spell u m.tail ++ tl, by rw [hc']; rfl, by rcases hcc with rfl | rfl <;> assumption⟩
  cases h with
  | msg v e hm =>
    cases hm with
    | headerFields m neg names en hn => exact sp 72 _ m _ (by decide) (by decide)
    | header m => simpa using sp 72 _ m [] (by decide) (by decide)
    | text m => simpa using sp 84 _ m [] (by decide) (by decide)
  | mime m => simpa using sp 77 _ m [] (by decide) (by decide)

/-! ### section-part, section-spec, section -/

def dotNumber : Parser Nat := do char 46; number

/-- after the part numbers: `]`, or `.` followed by a section text (not a digit) -/
def EndOfPart (r : Bytes) : Prop :=
  (∃ t, r = 93 :: t) ∨ (∃ x t, r = 46 :: x :: t ∧ isDigit x = false)

theorem endOfPart_notDigit (r : Bytes) (h : EndOfPart r) : Starts notDigit r := by
  rcases h with ⟨t, rfl⟩ | ⟨x, t, rfl, _⟩
  · exact ⟨93, t, rfl, by decide⟩
  · exact ⟨46, x :: t, rfl, by decide⟩

theorem dotNumber_stop (r : Bytes) (h : EndOfPart r) : dotNumber r = .err := by
  unfold dotNumber
  show Parser.bindP (char 46) _ _ = .err
  unfold Parser.bindP
  rcases h with ⟨t, rfl⟩ | ⟨x, t, rfl, hx⟩
  · simp [char]
  · simp [char, number, numberB_err (2 ^ 32) x t hx]

theorem sectionPart_enc (first : Bytes × Nat) (others : List (Bytes × Nat))
    (hall : ∀ x ∈ first :: others, x.2 < 2 ^ 32 ∧ EncNumber x.2 x.1) :
    Parses sectionPart (first.1 ++ (others.map fun x => b!"." ++ x.1).flatten) (first.2 :: others.map (·.2))
      EndOfPart := by
  unfold sectionPart
  have hfirst := hall first (by simp)
  have hdot : ∀ r, Starts notDigit ((b!"." : Bytes) ++ r) := fun r => ⟨46, r, rfl, by decide⟩
  have key := Parses.many0 (p := dotNumber) (Starts notDigit) EndOfPart
    (others.map fun x => (b!"." ++ x.1, x.2)) ?_ ?_ ?_ ?_ ?_
  · refine Parses.bind (number_enc (2 ^ 32) first.2 first.1 hfirst.2 hfirst.1) ?_ ?_
    · refine Parses.bind' (e1 := (others.map fun x => b!"." ++ x.1).flatten) (e2 := []) ?_ (Parses.pure _ _)
        (fun _ h => h) (by simp)
      simpa [List.map_map, Function.comp_def, dotNumber] using key
    · intro r hr
      cases others with
      | nil => simpa using endOfPart_notDigit r hr
      | cons y ys =>
        exact ⟨46, y.1 ++ ((ys.map fun x => b!"." ++ x.1).flatten ++ r), by simp, by decide⟩
  · intro y hy
    simp only [List.mem_map] at hy
    obtain ⟨x, hx, rfl⟩ := hy
    have hx' := hall x (by simp [hx])
    unfold dotNumber
    exact Parses.bind (char_ok 46) (number_enc (2 ^ 32) x.2 x.1 hx'.2 hx'.1) (fun _ _ => trivial)
  · intro y hy
    simp only [List.mem_map] at hy
    obtain ⟨x, hx, rfl⟩ := hy
    simp
  · intro y hy r
    simp only [List.mem_map] at hy
    obtain ⟨x, hx, rfl⟩ := hy
    exact ⟨46, x.1 ++ r, by simp, by decide⟩
  · intro r hr; exact endOfPart_notDigit r hr
  · intro r hr; exact dotNumber_stop r hr

inductive EncSectionSpec : SectionPath → Bytes → Prop
  | full (v : MessageSection) (e : Bytes) : EncMsgText v e → EncSectionSpec (.full v) e
  | part (first : Bytes × Nat) (others : List (Bytes × Nat)) :
      (∀ x ∈ first :: others, x.2 < 2 ^ 32 ∧ EncNumber x.2 x.1) →
      EncSectionSpec (.part (first.2 :: others.map (·.2)) none)
        (first.1 ++ (others.map fun x => b!"." ++ x.1).flatten)
  | partText (first : Bytes × Nat) (others : List (Bytes × Nat)) (v : MessageSection) (et : Bytes) :
      (∀ x ∈ first :: others, x.2 < 2 ^ 32 ∧ EncNumber x.2 x.1) → EncSecText v et →
      EncSectionSpec (.part (first.2 :: others.map (·.2)) (some v))
        (first.1 ++ (others.map fun x => b!"." ++ x.1).flatten ++ (b!"." ++ et))

theorem sectionMsgtext_err_num (n : Nat) (e r : Bytes) (h : EncNumber n e) : sectionMsgtext (e ++ r) = .err := by
  obtain ⟨c, t, he, hc⟩ := encNumber_head' n e h
  subst he
  exact sectionMsgtext_err_first c _ (lower_digit_ne' 72 c (by decide) hc) (lower_digit_ne' 84 c (by decide) hc)
where
  lower_digit_ne' (k x : UInt8) (hk : isDigit (lower k) = false) (hx : isDigit x = true) :
      (lower k == lower x) = false := by
    have key : ∀ m n : Fin 256, isDigit (lower (UInt8.ofNat m.val)) = false → isDigit (UInt8.ofNat n.val) = true →
        (lower (UInt8.ofNat m.val) == lower (UInt8.ofNat n.val)) = false := by
      decide +kernel
    have := key ⟨k.toNat, k.toNat_lt⟩ ⟨x.toNat, x.toNat_lt⟩
    simpa using this (by simpa using hk) (by simpa using hx)
  encNumber_head' (n : Nat) (e : Bytes) (h : EncNumber n e) : ∃ c t, e = c :: t ∧ isDigit c = true := by
    cases h with
    | mk z =>
      cases z with
      | zero =>
        have hne := Num.decDigits_ne_nil n
        have hall := Num.decDigits_all n
        cases hd : decDigits n with
        | nil => exact absurd hd hne
        | cons c t => exact ⟨c, t, by simp, hall c (by simp [hd])⟩
      | succ z => exact ⟨48, List.replicate z 48 ++ decDigits n, by simp [List.replicate_succ], by decide⟩

theorem sectionSpec_enc (v : SectionPath) (e : Bytes) (h : EncSectionSpec v e) :
    Parses sectionSpec e v closeSq := by
  unfold sectionSpec
  cases h with
  | full v e hm => exact Parses.altL (Parses.map _ (sectionMsgtext_enc v e hm))
  | part first others hall =>
    refine Parses.altR ?_ ?_
    · refine Parses.bind' (e2 := []) ((sectionPart_enc first others hall).weaken ?_) ?_ (fun _ h => h) (by simp)
      · intro r hr
        obtain ⟨t, rfl⟩ := closeSq_form r hr
        exact Or.inl ⟨t, rfl⟩
      · refine Parses.bind' (e1 := []) (e2 := []) (Parses.optNone ?_) (Parses.pure _ _) (fun _ h => h) rfl
        intro rest hr
        obtain ⟨t, rfl⟩ := closeSq_form rest hr
        show Parser.bindP (char 46) _ _ = .err
        unfold Parser.bindP
        simp [char]
    · intro rest _
      rw [List.append_assoc]
      exact map_err _ _ _ (sectionMsgtext_err_num _ _ _ (hall first (by simp)).2)
  | partText first others v et hall ht =>
    obtain ⟨c, tl, hct, hcd⟩ := encSecText_head v et ht
    refine Parses.altR ?_ ?_
    · refine Parses.bind ((sectionPart_enc first others hall).weaken (G := fun r => ∃ r', r = 46 :: c :: r') ?_) ?_
        (fun r _ => ⟨tl ++ r, by simp [hct]⟩)
      · intro r ⟨r', hr'⟩
        subst hr'
        exact Or.inr ⟨c, r', rfl, hcd⟩
      · refine Parses.bind' (e1 := b!"." ++ et) (e2 := []) (F1 := closeSq) (Parses.optSome ?_) (Parses.pure _ _)
          (fun _ h => h) (by simp)
        exact Parses.bind (char_ok 46) (sectionText_enc v et ht) (fun _ _ => trivial)
    · intro rest _
      simp only [List.append_assoc]
      exact map_err _ _ _ (sectionMsgtext_err_num _ _ _ (hall first (by simp)).2)

theorem sectionSpec_err_close (r : Bytes) : sectionSpec (93 :: r) = .err := by
  simp [sectionSpec, alt, Parser.map, sectionMsgtext_err_first 93 r (by decide) (by decide), sectionPart,
    Bind.bind, Parser.bindP, number, numberB_err (2 ^ 32) 93 r (by decide)]

/-- `[` [section-spec] `]` -/
inductive EncSection : Option SectionPath → Bytes → Prop
  | none : EncSection none (b!"[]")
  | some (v : SectionPath) (e : Bytes) : EncSectionSpec v e → EncSection (some v) (b!"[" ++ e ++ b!"]")

theorem section_enc (v : Option SectionPath) (e : Bytes) (h : EncSection v e) (F : Bytes → Prop) :
    Parses section_ e v F := by
  unfold section_
  cases h with
  | none =>
    show Parses _ ([91] ++ ([] ++ [93])) _ _
    refine Parses.bind (char_ok 91) ?_ (fun _ _ => trivial)
    refine Parses.bind (Parses.optNone (F := closeSq) ?_) ?_ (fun r _ => ⟨93, r, rfl, by decide⟩)
    · intro rest hr
      obtain ⟨t, rfl⟩ := closeSq_form rest hr
      exact sectionSpec_err_close t
    · exact Parses.bind' (char_ok 93) (Parses.pure _ _) (fun _ _ => trivial) (by simp)
  | some v e hs =>
    rw [List.append_assoc]
    refine Parses.bind (char_ok 91) ?_ (fun _ _ => trivial)
    refine Parses.bind (Parses.optSome (sectionSpec_enc v e hs)) ?_ (fun r _ => ⟨93, r, rfl, by decide⟩)
    exact Parses.bind' (char_ok 93) (Parses.pure _ _) (fun _ _ => trivial) (by simp)

/-! ### the origin octet and the whole item -/

inductive EncOrigin : Option Nat → Bytes → Prop
  | none : EncOrigin none []
  | some (n : Nat) (e : Bytes) : n < 2 ^ 32 → EncNumber n e → EncOrigin (some n) (b!"<" ++ e ++ b!">")

def originP : Parser (Option Nat) := opt (do char 60; let n ← number; char 62; pure n)

theorem origin_enc (v : Option Nat) (e : Bytes) (h : EncOrigin v e) :
    Parses originP e v (Starts fun c => c == 32) := by
  unfold originP
  cases h with
  | none =>
    apply Parses.optNone
    intro rest ⟨c, t, hr, hc⟩
    subst hr
    have : c = 32 := by simpa using hc
    subst this
    show Parser.bindP (char 60) _ _ = .err
    unfold Parser.bindP
    simp [char]
  | some n e hn he =>
    apply Parses.optSome
    rw [List.append_assoc]
    refine Parses.bind (char_ok 60) ?_ (fun _ _ => trivial)
    refine Parses.bind (number_enc (2 ^ 32) n e he hn) ?_ (fun r _ => ⟨62, r, rfl, by decide⟩)
    exact Parses.bind' (char_ok 62) (Parses.pure _ _) (fun _ _ => trivial) (by simp)

/-- `BODY[section]<origin> SP nstring` -/
theorem msgAttBodySection_enc (m : List Bool) (sect : Option SectionPath) (es : Bytes) (hs : EncSection sect es)
    (idx : Option Nat) (eo : Bytes) (ho : EncOrigin idx eo) (data : Option Bytes) (ed : Bytes)
    (hd : EncNString data ed) (F : Bytes → Prop) :
    Parses msgAttBodySection (spell (b!"BODY") m ++ (es ++ (eo ++ (b!" " ++ ed)))) (.bodySection sect idx data) F := by
  unfold msgAttBodySection
  refine Parses.bind (tagNoCase_spell _ m) ?_ (fun _ _ => trivial)
  refine Parses.bind (section_enc sect es hs Any) ?_ (fun _ _ => trivial)
  refine Parses.bind (origin_enc idx eo ho) ?_ (fun r _ => ⟨32, _, rfl, by decide⟩)
  refine Parses.bind (tag_ok _) ?_ (fun _ _ => trivial)
  exact Parses.bind' ((nstring_enc data ed hd).weaken (fun _ _ => trivial)) (Parses.pure _ _) (fun _ h => h) (by simp)

end RT
