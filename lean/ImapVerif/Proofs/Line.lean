/-
  Lexical structure of IMAP frames (C09).

  `frameEnd`  : the independent lexical framer (scan to CRLF; if the line ends in `{n}` skip n bytes
                and continue) - written from the IMAP framing rule, not from the parser.
  `Seg c`     : `c` consists of bytes other than CR/LF and of whole literals `{n}CRLF` + n bytes.
  `SegOpen b` : `b` is a `Seg` followed by an unfinished tail (CR/LF-free run, optionally one CR, or a
                literal header with fewer than n content bytes).
  Key lemma   : a `SegOpen` buffer contains no complete frame (`frameEnd_none_of_segOpen`).
-/
import ImapVerif.Bytes

open Bytes

namespace Line

def isCRLFByte (c : UInt8) : Bool := c == 13 || c == 10

/-- `{digits}` at the end of a line: the announced literal length -/
def litSuffix (line : Bytes) : Option Nat :=
  match line.reverse with
  | 125 :: t =>
    let ds := (t.takeWhile isDigit).reverse
    match t.dropWhile isDigit with
    | 123 :: _ => if ds = [] then none else some (decVal ds)
    | _ => none
  | _ => none

/-- index of the first CRLF pair -/
def findCRLF : Bytes → Option Nat
  | [] => none
  | [_] => none
  | a :: b :: r => if a == 13 && b == 10 then some 0 else (findCRLF (b :: r)).map (· + 1)

/-- the independent lexical framer: length of the first complete frame, if the buffer holds one.
    `fuel` bounds the number of literals crossed (`length + 1` always suffices). -/
def frameEndGo : Nat → Bytes → Option Nat
  | 0, _ => none
  | fuel + 1, b =>
    match findCRLF b with
    | none => none
    | some i =>
      match litSuffix (b.take i) with
      | none => some (i + 2)
      | some n =>
        if b.length < i + 2 + n then none
        else (frameEndGo fuel (b.drop (i + 2 + n))).map (· + (i + 2 + n))

def frameEnd (b : Bytes) : Option Nat := frameEndGo (b.length + 1) b

def Free (t : Bytes) : Prop := ∀ c ∈ t, isCRLFByte c = false

/-- consumed material: CR/LF-free bytes and whole literals -/
inductive Seg : Bytes → Prop
  | nil : Seg []
  | byte (c : UInt8) (s : Bytes) : isCRLFByte c = false → Seg s → Seg (c :: s)
  | lit (ds content s : Bytes) : ds ≠ [] → (∀ d ∈ ds, isDigit d = true) → content.length = decVal ds →
      Seg s → Seg ([123] ++ ds ++ [125, 13, 10] ++ content ++ s)

theorem Seg.append {a b : Bytes} (ha : Seg a) (hb : Seg b) : Seg (a ++ b) := by
  induction ha with
  | nil => simpa
  | byte c s hc _ ih => exact Seg.byte c _ hc ih
  | lit ds content s h1 h2 h3 _ ih =>
    have := Seg.lit ds content (s ++ b) h1 h2 h3 ih
    simpa [List.append_assoc] using this

theorem Seg.of_free (t : Bytes) (h : Free t) : Seg t := by
  induction t with
  | nil => exact Seg.nil
  | cons c cs ih => exact Seg.byte c cs (h c (by simp)) (ih fun x hx => h x (by simp [hx]))

/-- what an unfinished parse may have in hand after the consumed part -/
inductive OpenTail : Bytes → Prop
  | free (t : Bytes) : Free t → OpenTail t
  | cr (t : Bytes) : Free t → OpenTail (t ++ [13])
  | lit (t ds content : Bytes) : Free t → ds ≠ [] → (∀ d ∈ ds, isDigit d = true) →
      content.length < decVal ds → OpenTail (t ++ [123] ++ ds ++ [125, 13, 10] ++ content)

def SegOpen (b : Bytes) : Prop := ∃ c t, b = c ++ t ∧ Seg c ∧ OpenTail t

theorem SegOpen.prepend {a b : Bytes} (ha : Seg a) (hb : SegOpen b) : SegOpen (a ++ b) := by
  obtain ⟨c, t, rfl, hc, ht⟩ := hb
  exact ⟨a ++ c, t, by simp, ha.append hc, ht⟩

theorem SegOpen.of_free (t : Bytes) (h : Free t) : SegOpen t :=
  ⟨[], t, by simp, Seg.nil, OpenTail.free t h⟩

theorem Free.append {a b : Bytes} (ha : Free a) (hb : Free b) : Free (a ++ b) := by
  intro c hc
  simp only [List.mem_append] at hc
  rcases hc with h | h
  · exact ha c h
  · exact hb c h

theorem Free.nil : Free [] := by intro c hc; simp at hc

theorem Free.cons {c : UInt8} {t : Bytes} (hc : isCRLFByte c = false) (ht : Free t) : Free (c :: t) := by
  intro x hx
  simp only [List.mem_cons] at hx
  rcases hx with rfl | h
  · exact hc
  · exact ht x h

/-! ### the framer on open buffers -/

theorem findCRLF_free (t : Bytes) (h : Free t) : findCRLF t = none := by
  match t with
  | [] => rfl
  | [_] => rfl
  | a :: b :: r =>
    have ha := h a (by simp)
    have : (a == 13 && b == 10) = false := by
      simp only [isCRLFByte, Bool.or_eq_false_iff] at ha; simp [ha.1]
    simp only [findCRLF, this]
    rw [findCRLF_free (b :: r) (fun x hx => h x (by simp [hx]))]
    rfl

theorem findCRLF_free_cr (t : Bytes) (h : Free t) : findCRLF (t ++ [13]) = none := by
  match t with
  | [] => rfl
  | [a] =>
    have ha := h a (by simp)
    simp only [isCRLFByte, Bool.or_eq_false_iff] at ha
    simp [findCRLF, ha.1]
  | a :: b :: r =>
    have ha := h a (by simp)
    have : (a == 13 && b == 10) = false := by
      simp only [isCRLFByte, Bool.or_eq_false_iff] at ha; simp [ha.1]
    simp only [List.cons_append, findCRLF, this]
    have := findCRLF_free_cr (b :: r) (fun x hx => h x (by simp [hx]))
    simp only [List.cons_append] at this
    rw [this]; rfl

/-- the first CRLF after a CR/LF-free prefix is found right there -/
theorem findCRLF_prefix (t r : Bytes) (h : Free t) : findCRLF (t ++ 13 :: 10 :: r) = some t.length := by
  match t with
  | [] => simp [findCRLF]
  | [a] =>
    have ha := h a (by simp)
    simp only [isCRLFByte, Bool.or_eq_false_iff] at ha
    simp [findCRLF, ha.1]
  | a :: b :: r' =>
    have ha := h a (by simp)
    have : (a == 13 && b == 10) = false := by
      simp only [isCRLFByte, Bool.or_eq_false_iff] at ha; simp [ha.1]
    simp only [List.cons_append, findCRLF, this]
    have := findCRLF_prefix (b :: r') r (fun x hx => h x (by simp [hx]))
    simp only [List.cons_append] at this
    rw [this]; simp

theorem digits_free (ds : Bytes) (h : ∀ d ∈ ds, isDigit d = true) : Free ds := by
  intro c hc
  have hd := h c hc
  have key : ∀ n : Fin 256, isDigit (UInt8.ofNat n.val) = true → isCRLFByte (UInt8.ofNat n.val) = false := by
    decide +kernel
  have := key ⟨c.toNat, c.toNat_lt⟩
  simp at this
  exact this hd

theorem takeWhile_digits_stop (ds : Bytes) (c : UInt8) (r : Bytes) (hall : ∀ d ∈ ds, isDigit d = true)
    (hc : isDigit c = false) :
    (ds ++ c :: r).takeWhile isDigit = ds ∧ (ds ++ c :: r).dropWhile isDigit = c :: r := by
  induction ds with
  | nil => simp [List.takeWhile_cons, List.dropWhile_cons, hc]
  | cons d ds ih =>
    have hd := hall d (by simp)
    have := ih (fun x hx => hall x (by simp [hx]))
    simp [List.takeWhile_cons, List.dropWhile_cons, hd, this.1, this.2]

theorem litSuffix_lit (x ds : Bytes) (hne : ds ≠ []) (hall : ∀ d ∈ ds, isDigit d = true) :
    litSuffix (x ++ [123] ++ ds ++ [125]) = some (decVal ds) := by
  unfold litSuffix
  have hrev : (x ++ [123] ++ ds ++ [125]).reverse = 125 :: (ds.reverse ++ 123 :: x.reverse) := by
    simp
  rw [hrev]
  have hall' : ∀ d ∈ ds.reverse, isDigit d = true := by
    intro d hd; exact hall d (List.mem_reverse.mp hd)
  have := takeWhile_digits_stop ds.reverse 123 x.reverse hall' (by decide)
  simp only [this.1, this.2, List.reverse_reverse]
  simp [hne]

/-- a buffer that ends inside a frame holds no complete frame: generalised over the CR/LF-free bytes
    `pre` of the current line that precede the `Seg` -/
theorem frameEndGo_open (fuel : Nat) :
    ∀ (c : Bytes), Seg c → ∀ (pre t : Bytes), Free pre → OpenTail t →
      frameEndGo fuel (pre ++ c ++ t) = none := by
  induction fuel with
  | zero => intros; rfl
  | succ fuel ihf =>
    intro c hc
    induction hc with
    | nil =>
      intro pre t hpre ht
      simp only [List.append_nil]
      cases ht with
      | free t hfree =>
        simp only [frameEndGo]
        rw [findCRLF_free _ (hpre.append hfree)]
      | cr t hfree =>
        simp only [frameEndGo]
        rw [← List.append_assoc, findCRLF_free_cr _ (hpre.append hfree)]
      | lit t ds content hfree hne hall hlen =>
        simp only [frameEndGo]
        have hfr : Free (pre ++ t ++ [123] ++ ds ++ [125]) := by
          refine Free.append (Free.append (Free.append (Free.append hpre hfree) ?_) (digits_free ds hall)) ?_
          · intro c hc; simp at hc; subst hc; decide
          · intro c hc; simp at hc; subst hc; decide
        have e : pre ++ (t ++ [123] ++ ds ++ [125, 13, 10] ++ content)
            = (pre ++ t ++ [123] ++ ds ++ [125]) ++ 13 :: 10 :: content := by simp
        rw [e, findCRLF_prefix _ _ hfr]
        simp only
        rw [List.take_left']
        · have := litSuffix_lit (pre ++ t) ds hne hall
          simp only [List.append_assoc] at this ⊢
          rw [this]
          simp only
          split
          · rfl
          · rename_i hnl
            exfalso; apply hnl
            simp; omega
        · rfl
    | byte x s hx _ ih =>
      intro pre t hpre ht
      have e : pre ++ (x :: s) ++ t = (pre ++ [x]) ++ s ++ t := by simp
      rw [e]
      exact ih (pre ++ [x]) t (hpre.append (Free.cons hx Free.nil)) ht
    | lit ds content s hne hall hlen hs _ =>
      intro pre t hpre ht
      simp only [frameEndGo]
      have hfr : Free (pre ++ [123] ++ ds ++ [125]) := by
        refine Free.append (Free.append (Free.append hpre ?_) (digits_free ds hall)) ?_
        · intro c hc; simp at hc; subst hc; decide
        · intro c hc; simp at hc; subst hc; decide
      have e : pre ++ ([123] ++ ds ++ [125, 13, 10] ++ content ++ s) ++ t
          = (pre ++ [123] ++ ds ++ [125]) ++ 13 :: 10 :: (content ++ s ++ t) := by simp
      rw [e, findCRLF_prefix _ _ hfr]
      simp only
      rw [List.take_left']
      · have := litSuffix_lit pre ds hne hall
        rw [this]
        simp only
        have hl : ¬ ((pre ++ [123] ++ ds ++ [125]) ++ 13 :: 10 :: (content ++ s ++ t)).length
            < (pre ++ [123] ++ ds ++ [125]).length + 2 + decVal ds := by
          simp; omega
        simp only [hl, if_false]
        have hd : ((pre ++ [123] ++ ds ++ [125]) ++ 13 :: 10 :: (content ++ s ++ t)).drop
            ((pre ++ [123] ++ ds ++ [125]).length + 2 + decVal ds) = s ++ t := by
          rw [← hlen]
          have : (pre ++ [123] ++ ds ++ [125]) ++ 13 :: 10 :: (content ++ s ++ t)
              = ((pre ++ [123] ++ ds ++ [125]) ++ [13, 10] ++ content) ++ (s ++ t) := by simp
          rw [this]
          apply List.drop_left'
          simp; omega
        rw [hd]
        have := ihf s hs [] t Free.nil ht
        simp only [List.nil_append] at this
        rw [this]
        rfl
      · rfl

/-- an open buffer contains no complete frame -/
theorem frameEnd_none_of_segOpen (b : Bytes) (h : SegOpen b) : frameEnd b = none := by
  obtain ⟨c, t, rfl, hc, ht⟩ := h
  have := frameEndGo_open ((c ++ t).length + 1) c hc [] t Free.nil ht
  simpa [frameEnd] using this

end Line
