/-
  `LineSafe p`: what `p` consumes is a `Seg` (CR/LF-free bytes and whole literals), and when `p`
  answers Incomplete the whole input is `SegOpen` - i.e. Incomplete only ever originates from running
  out of input inside a line or inside an announced literal.
  `LineOpen p` is the Incomplete half alone (used for the response level, which consumes the CRLF).
-/
import Lean.Elab.Command
import ImapVerif.Nom
import ImapVerif.Proofs.Line

open Bytes Parser Line

class LineSafe (p : Parser α) : Prop where
  ok : ∀ b v r, p b = .ok v r → ∃ c, b = c ++ r ∧ Seg c
  inc : ∀ b, p b = .inc → SegOpen b

class LineOpen (p : Parser α) : Prop where
  inc : ∀ b, p b = .inc → SegOpen b

/-- byte values other than CR and LF -/
class NotCRLF (c : UInt8) : Prop where
  out : isCRLFByte c = false

/-- byte strings without CR and LF (keywords) -/
class CRLFFree (t : Bytes) : Prop where
  out : Free t

/-- byte classes that exclude CR and LF -/
class CRLFStop (f : UInt8 → Bool) : Prop where
  out : ∀ c, f c = true → isCRLFByte c = false

namespace LineSafe

open Lean Elab Command in
run_cmd
  for i in [0:256] do
    if i != 10 && i != 13 then
      elabCommand (← `(instance : NotCRLF $(Syntax.mkNumLit (toString i)) := ⟨by decide⟩))

instance : CRLFFree [] := ⟨Free.nil⟩
instance (c : UInt8) (t : Bytes) [hc : NotCRLF c] [ht : CRLFFree t] : CRLFFree (c :: t) :=
  ⟨Free.cons hc.out ht.out⟩

instance (priority := low) instOpenOfSafe (p : Parser α) [h : LineSafe p] : LineOpen p := ⟨h.inc⟩

/-! ### leaves -/

theorem tagGo_line (eq : UInt8 → UInt8 → Bool) (t : Bytes) (ht : Free t)
    (heq : ∀ a b, eq a b = true → isCRLFByte a = false → isCRLFByte b = false) :
    (∀ b r, tagGo eq t b = .ok () r → ∃ c, b = c ++ r ∧ Free c) ∧
    (∀ b, tagGo eq t b = .inc → Free b) := by
  induction t with
  | nil =>
    constructor
    · intro b r h; simp [tagGo] at h; exact ⟨[], by simp [h], Free.nil⟩
    · intro b h; simp [tagGo] at h
  | cons y ys ih =>
    have ih' := ih (fun c hc => ht c (by simp [hc]))
    constructor
    · intro b r h
      cases b with
      | nil => simp [tagGo] at h
      | cons c cs =>
        simp only [tagGo] at h
        split at h
        · rename_i hyc
          obtain ⟨d, hd, hfree⟩ := ih'.1 cs r h
          exact ⟨c :: d, by simp [hd], Free.cons (heq y c hyc (ht y (by simp))) hfree⟩
        · cases h
    · intro b h
      cases b with
      | nil => exact Free.nil
      | cons c cs =>
        simp only [tagGo] at h
        split at h
        · rename_i hyc
          exact Free.cons (heq y c hyc (ht y (by simp))) (ih'.2 cs h)
        · cases h

theorem lower_crlf (a b : UInt8) (h : (lower a == lower b) = true) (ha : isCRLFByte a = false) :
    isCRLFByte b = false := by
  have key : ∀ m n : Fin 256, (lower (UInt8.ofNat m.val) == lower (UInt8.ofNat n.val)) = true →
      isCRLFByte (UInt8.ofNat m.val) = false → isCRLFByte (UInt8.ofNat n.val) = false := by
    decide +kernel
  have := key ⟨a.toNat, a.toNat_lt⟩ ⟨b.toNat, b.toNat_lt⟩
  simp at this
  exact this (by simpa using h) ha

instance instTag (t : Bytes) [ht : CRLFFree t] : LineSafe (tag t) where
  ok := fun b _ r h => by
    obtain ⟨c, hc, hfree⟩ := (tagGo_line (· == ·) t ht.out
      (by intro a b hab ha; simp at hab; subst hab; exact ha)).1 b r h
    exact ⟨c, hc, Seg.of_free c hfree⟩
  inc := fun b h =>
    SegOpen.of_free b ((tagGo_line (· == ·) t ht.out
      (by intro a b hab ha; simp at hab; subst hab; exact ha)).2 b h)

instance instTagNoCase (t : Bytes) [ht : CRLFFree t] : LineSafe (tagNoCase t) where
  ok := fun b _ r h => by
    obtain ⟨c, hc, hfree⟩ := (tagGo_line _ t ht.out lower_crlf).1 b r h
    exact ⟨c, hc, Seg.of_free c hfree⟩
  inc := fun b h => SegOpen.of_free b ((tagGo_line _ t ht.out lower_crlf).2 b h)

instance instPure (a : α) : LineSafe (Pure.pure a : Parser α) where
  ok := fun b v r h => by
    simp [Pure.pure, Parser.pureP] at h; exact ⟨[], by simp [h.2], Seg.nil⟩
  inc := fun b h => by simp [Pure.pure, Parser.pureP] at h

instance instErrP : LineSafe (errP : Parser α) where
  ok := fun b v r h => by simp [errP] at h
  inc := fun b h => by simp [errP] at h

instance instFailP : LineSafe (failP : Parser α) where
  ok := fun b v r h => by simp [failP] at h
  inc := fun b h => by simp [failP] at h

theorem takeWhile_free (f : UInt8 → Bool) [hf : CRLFStop f] (b : Bytes) : Free (b.takeWhile f) := by
  intro c hc
  exact hf.out c ((List.all_eq_true.mp (List.all_takeWhile (l := b) (p := f))) c hc)

theorem dropWhile_nil_all (f : UInt8 → Bool) (b : Bytes) (h : b.dropWhile f = []) : ∀ c ∈ b, f c = true := by
  induction b with
  | nil => intro c hc; simp at hc
  | cons x xs ih =>
    simp only [List.dropWhile_cons] at h
    split at h
    · rename_i hx
      intro c hc
      simp only [List.mem_cons] at hc
      rcases hc with rfl | hc
      · exact hx
      · exact ih h c hc
    · cases h

instance instTakeWhile (f : UInt8 → Bool) [hf : CRLFStop f] : LineSafe (takeWhile f) where
  ok := fun b v r h => by
    simp only [takeWhile] at h
    split at h <;> try cases h
    rename_i heq
    exact ⟨b.takeWhile f, by rw [← heq]; exact (List.takeWhile_append_dropWhile (p := f) (l := b)).symm,
      Seg.of_free _ (takeWhile_free f b)⟩
  inc := fun b h => by
    simp only [takeWhile] at h
    split at h <;> try cases h
    rename_i heq
    exact SegOpen.of_free b fun c hc => hf.out c (dropWhile_nil_all f b heq c hc)

instance instTakeWhile1 (f : UInt8 → Bool) [hf : CRLFStop f] : LineSafe (takeWhile1 f) where
  ok := fun b v r h => by
    simp only [takeWhile1] at h
    split at h <;> try cases h
    rename_i c r' heq
    split at h <;> try cases h
    exact ⟨b.takeWhile f, by rw [← heq]; exact (List.takeWhile_append_dropWhile (p := f) (l := b)).symm,
      Seg.of_free _ (takeWhile_free f b)⟩
  inc := fun b h => by
    simp only [takeWhile1] at h
    split at h
    · rename_i heq
      exact SegOpen.of_free b fun c hc => hf.out c (dropWhile_nil_all f b heq c hc)
    · split at h <;> cases h

instance instChar (c : UInt8) [hc : NotCRLF c] : LineSafe (char c) where
  ok := fun b v r h => by
    cases b with
    | nil => simp [char] at h
    | cons y ys =>
      simp only [char] at h
      split at h <;> try cases h
      rename_i hy
      have : y = c := by simpa using hy
      exact ⟨[y], rfl, Seg.byte y [] (this ▸ hc.out) Seg.nil⟩
  inc := fun b h => by
    cases b with
    | nil => exact SegOpen.of_free [] Free.nil
    | cons y ys =>
      simp only [char] at h
      split at h <;> cases h

instance : CRLFStop isSpace := ⟨by
  intro c
  have key : ∀ n : Fin 256, isSpace (UInt8.ofNat n.val) = true → isCRLFByte (UInt8.ofNat n.val) = false := by
    decide +kernel
  have := key ⟨c.toNat, c.toNat_lt⟩
  simpa using this⟩

instance : CRLFStop isDigit := ⟨by
  intro c
  have key : ∀ n : Fin 256, isDigit (UInt8.ofNat n.val) = true → isCRLFByte (UInt8.ofNat n.val) = false := by
    decide +kernel
  have := key ⟨c.toNat, c.toNat_lt⟩
  simpa using this⟩

instance instSpace0 : LineSafe space0 where
  ok := fun b v r h => by
    simp only [space0] at h
    split at h <;> try cases h
    rename_i h1; exact (instTakeWhile isSpace).ok _ _ _ h1
  inc := fun b h => by
    simp only [space0] at h
    split at h <;> try cases h
    rename_i h1; exact (instTakeWhile isSpace).inc _ h1

instance instSpace1 : LineSafe space1 where
  ok := fun b v r h => by
    simp only [space1] at h
    split at h <;> try cases h
    rename_i h1; exact (instTakeWhile1 isSpace).ok _ _ _ h1
  inc := fun b h => by
    simp only [space1] at h
    split at h <;> try cases h
    rename_i h1; exact (instTakeWhile1 isSpace).inc _ h1

/-! ### wrappers -/

instance instMap (p : Parser α) (f : α → β) [hp : LineSafe p] : LineSafe (map p f) where
  ok := fun b v r h => by
    simp only [map] at h
    split at h <;> try cases h
    rename_i h1; exact hp.ok _ _ _ h1
  inc := fun b h => by
    simp only [map] at h
    split at h <;> try cases h
    rename_i h1; exact hp.inc _ h1

instance instMapRes (p : Parser α) (f : α → Option β) [hp : LineSafe p] : LineSafe (mapRes p f) where
  ok := fun b v r h => by
    simp only [mapRes] at h
    split at h <;> try cases h
    rename_i v1 r1 h1
    split at h <;> try cases h
    exact hp.ok _ _ _ h1
  inc := fun b h => by
    simp only [mapRes] at h
    split at h <;> try cases h
    · split at h <;> cases h
    · rename_i h1; exact hp.inc _ h1

instance instMapPanic (p : Parser α) (f : α → Option β) [hp : LineSafe p] : LineSafe (mapPanic p f) where
  ok := fun b v r h => by
    simp only [mapPanic] at h
    split at h <;> try cases h
    rename_i v1 r1 h1
    split at h <;> try cases h
    exact hp.ok _ _ _ h1
  inc := fun b h => by
    simp only [mapPanic] at h
    split at h <;> try cases h
    · split at h <;> cases h
    · rename_i h1; exact hp.inc _ h1

instance instOpt (p : Parser α) [hp : LineSafe p] : LineSafe (opt p) where
  ok := fun b v r h => by
    simp only [opt] at h
    split at h <;> try cases h
    · rename_i h1; exact hp.ok _ _ _ h1
    · exact ⟨[], rfl, Seg.nil⟩
  inc := fun b h => by
    simp only [opt] at h
    split at h <;> try cases h
    rename_i h1; exact hp.inc _ h1

instance instOptOpt (p : Parser (Option α)) [hp : LineSafe p] : LineSafe (optOpt p) where
  ok := fun b v r h => by
    simp only [optOpt] at h
    split at h <;> try cases h
    · rename_i h1; exact hp.ok _ _ _ h1
    · exact ⟨[], rfl, Seg.nil⟩
  inc := fun b h => by
    simp only [optOpt] at h
    split at h <;> try cases h
    rename_i h1; exact hp.inc _ h1

instance instBind (p : Parser α) (f : α → Parser β) [hp : LineSafe p] [hf : ∀ a, LineSafe (f a)] :
    LineSafe (p >>= f) where
  ok := fun b v r h => by
    simp only [Bind.bind, Parser.bindP] at h
    split at h <;> try cases h
    rename_i v1 r1 h1
    obtain ⟨c1, rfl, s1⟩ := hp.ok _ _ _ h1
    obtain ⟨c2, rfl, s2⟩ := (hf v1).ok _ _ _ h
    exact ⟨c1 ++ c2, by simp, s1.append s2⟩
  inc := fun b h => by
    simp only [Bind.bind, Parser.bindP] at h
    split at h <;> try cases h
    · rename_i v1 r1 h1
      obtain ⟨c1, rfl, s1⟩ := hp.ok _ _ _ h1
      exact SegOpen.prepend s1 ((hf v1).inc _ h)
    · rename_i h1; exact hp.inc _ h1

instance instBindOpen (p : Parser α) (f : α → Parser β) [hp : LineSafe p] [hf : ∀ a, LineOpen (f a)] :
    LineOpen (p >>= f) where
  inc := fun b h => by
    simp only [Bind.bind, Parser.bindP] at h
    split at h <;> try cases h
    · rename_i v1 r1 h1
      obtain ⟨c1, rfl, s1⟩ := hp.ok _ _ _ h1
      exact SegOpen.prepend s1 ((hf v1).inc _ h)
    · rename_i h1; exact hp.inc _ h1

instance instAlt (p q : Parser α) [hp : LineSafe p] [hq : LineSafe q] : LineSafe (alt p q) where
  ok := fun b v r h => by
    simp only [alt] at h
    split at h
    · exact hq.ok _ _ _ h
    · exact hp.ok _ _ _ h
  inc := fun b h => by
    simp only [alt] at h
    split at h
    · exact hq.inc _ h
    · exact hp.inc _ h

instance instAltOpen (p q : Parser α) [hp : LineOpen p] [hq : LineOpen q] : LineOpen (alt p q) where
  inc := fun b h => by
    simp only [alt] at h
    split at h
    · exact hq.inc _ h
    · exact hp.inc _ h

instance instIte (c : Prop) [Decidable c] (p q : Parser α) [hp : LineSafe p] [hq : LineSafe q] :
    LineSafe (if c then p else q) := by
  split <;> assumption

/-- the response terminator: Incomplete on `[]` and on a lone CR -/
instance instCRLFOpen : LineOpen (tag [13, 10]) where
  inc := fun b h => by
    match b with
    | [] => exact SegOpen.of_free [] Free.nil
    | [x] =>
      simp only [tag, tagGo] at h
      split at h
      · rename_i hx
        have : x = 13 := (by simpa using hx : (13 : UInt8) = x).symm
        subst this
        exact ⟨[], [13], rfl, Seg.nil, OpenTail.cr [] Free.nil⟩
      · cases h
    | x :: y :: r =>
      simp only [tag, tagGo] at h
      split at h
      · split at h <;> cases h
      · cases h

/-! ### loops -/

theorem many0Go_line (p : Parser α) [hp : LineSafe p] :
    ∀ n i acc,
      (∀ vs r, many0Go p n i acc = .ok vs r → ∃ c, i = c ++ r ∧ Seg c) ∧
      (many0Go p n i acc = .inc → SegOpen i) := by
  intro n
  induction n with
  | zero => intro i acc; simp [many0Go]
  | succ n ih =>
    intro i acc
    simp only [many0Go]
    cases hpi : p i with
    | err =>
      simp
      exact Seg.nil
    | inc => simp; exact hp.inc _ hpi
    | fail => simp
    | panic => simp
    | ok v r =>
      obtain ⟨c, rfl, sc⟩ := hp.ok _ _ _ hpi
      simp only
      split
      · have := ih r (v :: acc)
        constructor
        · intro vs r' h'
          obtain ⟨c', rfl, sc'⟩ := this.1 vs r' h'
          exact ⟨c ++ c', by simp, sc.append sc'⟩
        · intro h'
          exact SegOpen.prepend sc (this.2 h')
      · simp

instance instMany0 (p : Parser α) [hp : LineSafe p] : LineSafe (many0 p) where
  ok := fun b v r h => (many0Go_line p (b.length + 1) b []).1 v r h
  inc := fun b h => (many0Go_line p (b.length + 1) b []).2 h

instance instMany1 (p : Parser α) [hp : LineSafe p] : LineSafe (many1 p) where
  ok := fun b v r h => by
    simp only [many1] at h
    split at h <;> try cases h
    rename_i v1 r1 h1
    obtain ⟨c1, rfl, s1⟩ := hp.ok _ _ _ h1
    obtain ⟨c2, rfl, s2⟩ := (many0Go_line p (r1.length + 1) r1 [v1]).1 v r h
    exact ⟨c1 ++ c2, by simp, s1.append s2⟩
  inc := fun b h => by
    simp only [many1] at h
    split at h <;> try cases h
    · rename_i v1 r1 h1
      obtain ⟨c1, rfl, s1⟩ := hp.ok _ _ _ h1
      exact SegOpen.prepend s1 ((many0Go_line p (r1.length + 1) r1 [v1]).2 h)
    · rename_i h1; exact hp.inc _ h1

theorem sepGo_line (sep : Parser Unit) (p : Parser α) [hs : LineSafe sep] [hp : LineSafe p] :
    ∀ n i acc,
      (∀ vs r, sepGo sep p n i acc = .ok vs r → ∃ c, i = c ++ r ∧ Seg c) ∧
      (sepGo sep p n i acc = .inc → SegOpen i) := by
  intro n
  induction n with
  | zero => intro i acc; simp [sepGo]
  | succ n ih =>
    intro i acc
    simp only [sepGo]
    cases hsi : sep i with
    | err =>
      simp
      exact Seg.nil
    | inc => simp; exact hs.inc _ hsi
    | fail => simp
    | panic => simp
    | ok u i1 =>
      obtain ⟨c, rfl, sc⟩ := hs.ok _ _ _ hsi
      simp only
      split
      · cases hpi : p i1 with
        | err =>
          simp
          exact Seg.nil
        | inc => simp; exact SegOpen.prepend sc (hp.inc _ hpi)
        | fail => simp
        | panic => simp
        | ok v i2 =>
          obtain ⟨c2, rfl, sc2⟩ := hp.ok _ _ _ hpi
          simp only
          have := ih i2 (v :: acc)
          constructor
          · intro vs r' h'
            obtain ⟨c', rfl, sc'⟩ := this.1 vs r' h'
            exact ⟨c ++ c2 ++ c', by simp, (sc.append sc2).append sc'⟩
          · intro h'
            have := SegOpen.prepend (sc.append sc2) (this.2 h')
            simpa using this
      · simp

instance instSepList1 (sep : Parser Unit) (p : Parser α) [hs : LineSafe sep] [hp : LineSafe p] :
    LineSafe (sepList1 sep p) where
  ok := fun b v r h => by
    simp only [sepList1] at h
    split at h <;> try cases h
    rename_i v1 r1 h1
    obtain ⟨c1, rfl, s1⟩ := hp.ok _ _ _ h1
    obtain ⟨c2, rfl, s2⟩ := (sepGo_line sep p (r1.length + 1) r1 [v1]).1 v r h
    exact ⟨c1 ++ c2, by simp, s1.append s2⟩
  inc := fun b h => by
    simp only [sepList1] at h
    split at h <;> try cases h
    · rename_i v1 r1 h1
      obtain ⟨c1, rfl, s1⟩ := hp.ok _ _ _ h1
      exact SegOpen.prepend s1 ((sepGo_line sep p (r1.length + 1) r1 [v1]).2 h)
    · rename_i h1; exact hp.inc _ h1

instance instSepList0 (sep : Parser Unit) (p : Parser α) [hs : LineSafe sep] [hp : LineSafe p] :
    LineSafe (sepList0 sep p) where
  ok := fun b v r h => by
    simp only [sepList0] at h
    split at h <;> try cases h
    · exact ⟨[], rfl, Seg.nil⟩
    · rename_i v1 r1 h1
      obtain ⟨c1, rfl, s1⟩ := hp.ok _ _ _ h1
      obtain ⟨c2, rfl, s2⟩ := (sepGo_line sep p (r1.length + 1) r1 [v1]).1 v r h
      exact ⟨c1 ++ c2, by simp, s1.append s2⟩
  inc := fun b h => by
    simp only [sepList0] at h
    split at h <;> try cases h
    · rename_i v1 r1 h1
      obtain ⟨c1, rfl, s1⟩ := hp.ok _ _ _ h1
      exact SegOpen.prepend s1 ((sepGo_line sep p (r1.length + 1) r1 [v1]).2 h)
    · rename_i h1; exact hp.inc _ h1

end LineSafe
