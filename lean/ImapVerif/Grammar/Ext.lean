/-
  Model of the extension parser modules: rfc2087 (QUOTA), rfc2971 (ID), rfc4314 (ACL), rfc4315
  (UIDPLUS), rfc4551 (CONDSTORE), rfc5161 (ENABLED), rfc5256 (SORT), rfc5464 (METADATA), rfc7162
  (VANISHED), gmail.rs.
-/
import ImapVerif.Grammar.Core

open Bytes Parser

namespace Grammar

/-! ### rfc2087 -/

/-- classify the complete name -/
def classifyQuotaResource (name : Bytes) : QuotaResourceName :=
  if eqIgnoreAsciiCase name (b!"STORAGE") then .storage
  else if eqIgnoreAsciiCase name (b!"MESSAGE") then .message
  else .atom name

def quotaResourceName : Parser QuotaResourceName := map astringUtf8 classifyQuotaResource

def quotaResource : Parser QuotaResource := do
  let name ← quotaResourceName
  space1
  let usage ← number64
  space1
  let limit ← number64
  pure { name, usage, limit }

def quotaList : Parser (List QuotaResource) := do
  tag (b!"(")
  let v ← sepList0 space1 quotaResource
  tag (b!")")
  pure v

def quota : Parser Response := do
  tagNoCase (b!"QUOTA")
  space1
  let rootName ← astringUtf8
  space1
  let resources ← quotaList
  pure (.quota { rootName, resources })

def quotaRoot : Parser Response := do
  tagNoCase (b!"QUOTAROOT")
  space1
  let mailboxName ← astringUtf8
  let quotaRootNames ← many0 (do space1; astringUtf8)
  pure (.quotaRoot { mailboxName, quotaRootNames })

/-! ### rfc2971 -/

def idParam : Parser (Bytes × Option Bytes) := do
  let k ← stringUtf8
  space1
  let v ← nstringUtf8
  pure (k, v)

/-- `.filter(|(_k, v)| v.is_some()).map(|(k, v)| (k, v.unwrap()))` -/
def idKeep (ps : List (Bytes × Option Bytes)) : List (Bytes × Bytes) :=
  ps.filterMap fun (k, v) => v.map fun v => (k, v)

def idParamListNotNil : Parser (List (Bytes × Bytes)) := do
  char 40
  let first ← idParam
  let rest ← many0 (do space1; idParam)
  space0
  char 41
  pure (idKeep (first :: rest))

def idParamList : Parser (Option (List (Bytes × Bytes))) :=
  alt (map idParamListNotNil some) (map nil fun _ => none)

def respId : Parser Response := do
  tagNoCase (b!"ID")
  space1
  let p ← idParamList
  pure (.id p)

/-! ### rfc4314 -/

/-- `i.chars().map(|c| c.into()).collect()` on a `&str` -/
def textToRights (s : Bytes) : List AclRight := ((decodeUtf8 s).getD []).map AclRight.ofChar

def aclEntry : Parser AclEntry := do
  let identifier ← astringUtf8
  space1
  let rights ← map astringUtf8 textToRights
  pure { identifier, rights }

def aclList : Parser (List AclEntry) := do
  space0
  sepList0 space1 aclEntry

def acl : Parser Response := do
  tagNoCase (b!"ACL")
  space1
  let mailbox ← mailbox
  let acls ← aclList
  pure (.acl { mailbox, acls })

def listRightsOptional : Parser (List AclRight) := do
  space0
  let items ← sepList0 space1 astringUtf8
  pure (items.flatMap textToRights)

def listRights : Parser Response := do
  tagNoCase (b!"LISTRIGHTS")
  space1
  let mailbox ← mailbox
  space1
  let identifier ← astringUtf8
  space1
  let required ← map astringUtf8 textToRights
  let optional ← listRightsOptional
  pure (.listRights { mailbox, identifier, required, optional })

def myRights : Parser Response := do
  tagNoCase (b!"MYRIGHTS")
  space1
  let mailbox ← mailbox
  space1
  let rights ← map astringUtf8 textToRights
  pure (.myRights { mailbox, rights })

/-! ### rfc4315 -/

def uidRange : Parser UidSetMember := do
  let fst ← number
  tag (b!":")
  let snd ← number
  pure (if fst ≤ snd then .uidRange fst snd else .uidRange snd fst)

def uidSet : Parser (List UidSetMember) :=
  sepList1 (tag (b!",")) (alt uidRange (map number UidSetMember.uid))

def respTextCodeAppendUid : Parser ResponseCode := do
  tagNoCase (b!"APPENDUID ")
  let fst ← number
  tag (b!" ")
  let snd ← uidSet
  pure (.appendUid fst snd)

def respTextCodeCopyUid : Parser ResponseCode := do
  tagNoCase (b!"COPYUID ")
  let fst ← number
  tag (b!" ")
  let snd ← uidSet
  tag (b!" ")
  let trd ← uidSet
  pure (.copyUid fst snd trd)

def respTextCodeUidNotSticky : Parser ResponseCode :=
  map (tagNoCase (b!"UIDNOTSTICKY")) fun _ => .uidNotSticky

/-! ### rfc4551 -/

def respTextCodeHighestModSeq : Parser ResponseCode := do
  tagNoCase (b!"HIGHESTMODSEQ ")
  let n ← number64
  pure (.highestModSeq n)

def statusAttValHighestModSeq : Parser StatusAttribute := do
  tagNoCase (b!"HIGHESTMODSEQ ")
  let n ← number64
  pure (.highestModSeq n)

def msgAttModSeq : Parser AttributeValue := do
  tagNoCase (b!"MODSEQ ")
  let n ← parenDelimited number64
  pure (.modSeq n)

/-! ### rfc5161 -/

def enabledData : Parser (List Capability) := do
  tagNoCase (b!"ENABLED")
  many0 (do char 32; map atom Capability.atom)

def respEnabled : Parser Response := map enabledData Response.capabilities

/-! ### rfc5256 -/

def mailboxDataSort : Parser MailboxDatum := do
  tagNoCase (b!"SORT")
  let v ← many0 (do tag (b!" "); number)
  let _ ← opt (tag (b!" "))
  pure (.sort v)

/-! ### rfc5464 -/

def isEntryComponentChar (c : UInt8) : Bool := c < 0x80 && c > 0x19 && c != 42 && c != 37 && c != 47

/-- `EntryParseStage`; `panic` stands for an out-of-range slice/index expression -/
inductive Stage
  | privateShared
  | admin (l : Nat)
  | vendorComment (l : Nat)
  | path (l : Nat)
  | done (l : Nat)
  | failErr
  | panic
deriving Repr, DecidableEq

def checkPrivateShared (i : Bytes) : Stage :=
  if startsWith i (b!"/private") then .vendorComment 8
  else if startsWith i (b!"/shared") then .admin 7
  else .failErr

/-- `i[l..]` panics when `l > i.len()` -/
def checkAdmin (i : Bytes) (l : Nat) : Stage :=
  if i.length < l then .panic
  else if startsWith (i.drop l) (b!"/admin") then .path (l + 6)
  else .vendorComment l

def checkVendorComment (i : Bytes) (l : Nat) : Stage :=
  if i.length < l then .panic
  else if startsWith (i.drop l) (b!"/comment") then .path (l + 8)
  else if startsWith (i.drop l) (b!"/vendor") then
    -- `i.len() < l + 9 || i[l + 7] != b'/' || !is_entry_component_char(i[l + 8])`
    if i.length < l + 9 then .failErr
    else
      match i[l + 7]?, i[l + 8]? with
      | some a, some b => if a != 47 || !isEntryComponentChar b then .failErr else .path (l + 7)
      | _, _ => .panic
  else .failErr

/-- offset of the first byte of `t` that is not an entry component char -/
def firstNonComponent : Bytes → Option Nat
  | [] => none
  | c :: r => if isEntryComponentChar c then (firstNonComponent r).map (· + 1) else some 0

def checkPath (i : Bytes) (l : Nat) : Stage :=
  if i.length = l then .done l
  else
    match i[l]? with
    | none => .panic
    | some c =>
      if c == 32 || c == 13 then .done l
      else if c != 47 then .failErr
      else
        match firstNonComponent (i.drop (l + 1)) with
        | some k => .path (l + 1 + k)
        | none => .done i.length

inductive EntryVerdict | ok | err | panic | diverge
deriving Repr, DecidableEq

/-- the `loop { match stage … }` of `check_entry_name`; `diverge` = fuel exhausted -/
def entryLoop (i : Bytes) : Nat → Stage → EntryVerdict
  | 0, _ => .diverge
  | fuel + 1, st =>
    match st with
    | .privateShared => entryLoop i fuel (checkPrivateShared i)
    | .admin l => entryLoop i fuel (checkAdmin i l)
    | .vendorComment l => entryLoop i fuel (checkVendorComment i l)
    | .path l => entryLoop i fuel (checkPath i l)
    | .done l => if i.length < l then .panic else .ok
    | .failErr => .err
    | .panic => .panic

def checkEntryName (i : Bytes) : EntryVerdict := entryLoop i (i.length + 6) .privateShared

def entryName : Parser Bytes := do
  let s ← astring
  match checkEntryName s with
  | .ok => pure s
  | .err => errP
  | .panic => panicP
  | .diverge => panicP

def nilValue : Parser (Option Bytes) := map (tagNoCase (b!"NIL")) fun _ => none

def stringValue : Parser (Option Bytes) := mapRes (alt quoted literal) fun s => (utf8 s).map some

def keyvalList : Parser (List Metadata) :=
  parenthesizedNonemptyList (do
    let entry ← mapRes entryName utf8
    tag (b!" ")
    let value ← alt nilValue stringValue
    pure { entry, value })

def entryList : Parser (List Bytes) := sepList0 (tag (b!" ")) (mapRes entryName utf8)

def metadataCommon : Parser Bytes := do
  tagNoCase (b!"METADATA ")
  let mbox ← mailbox
  tag (b!" ")
  pure mbox

def metadataSolicited : Parser Response := do
  let mailbox ← metadataCommon
  let values ← keyvalList
  pure (.mailboxData (.metadataSolicited mailbox values))

def metadataUnsolicited : Parser Response := do
  let mailbox ← metadataCommon
  let values ← entryList
  pure (.mailboxData (.metadataUnsolicited mailbox values))

def respTextCodeMetadataLongEntries : Parser ResponseCode := do
  tagNoCase (b!"METADATA LONGENTRIES ")
  let n ← number64
  pure (.metadataLongEntries n)

def respTextCodeMetadataMaxSize : Parser ResponseCode := do
  tagNoCase (b!"METADATA MAXSIZE ")
  let n ← number64
  pure (.metadataMaxSize n)

def respTextCodeMetadataTooMany : Parser ResponseCode :=
  map (tagNoCase (b!"METADATA TOOMANY")) fun _ => .metadataTooMany

def respTextCodeMetadataNoPrivate : Parser ResponseCode :=
  map (tagNoCase (b!"METADATA NOPRIVATE")) fun _ => .metadataNoPrivate

/-! ### rfc7162 -/

def respVanished : Parser Response := do
  tagNoCase (b!"VANISHED")
  let earlier ← opt (do space1; tagNoCase (b!"(EARLIER)"))
  space1
  let uids ← sequenceSet
  pure (.vanished earlier.isSome uids)

/-! ### gmail.rs -/

def gmailLabelList : Parser (List Bytes) := do
  tagNoCase (b!"X-GM-LABELS ")
  parenthesizedList (alt flag quotedUtf8)

def msgAttGmailLabels : Parser AttributeValue := map gmailLabelList AttributeValue.gmailLabels
def mailboxDataGmailLabels : Parser MailboxDatum := map gmailLabelList MailboxDatum.gmailLabels

def gmailMsgId : Parser Nat := do
  tagNoCase (b!"X-GM-MSGID ")
  number64

def msgAttGmailMsgId : Parser AttributeValue := map gmailMsgId AttributeValue.gmailMsgId
def mailboxDataGmailMsgId : Parser MailboxDatum := map gmailMsgId MailboxDatum.gmailMsgId

end Grammar
