/-
  Model of rfc3501/body.rs, rfc3501/body_structure.rs and of `address` / `opt_addresses` /
  `envelope` from rfc3501/mod.rs (which body_structure.rs uses).

  The two recursive cycles (`body` ↔ `many1 body` / message body, `body_extension` ↔ list of
  `body_extension`) are structural recursions on the nesting budget of the Rust code
  (`MAX_NESTING = 32`: depth `d` of the Rust corresponds to budget `33 - d` here; exceeding the
  budget is `Err::Failure`).
-/
import ImapVerif.Grammar.Core

open Bytes Parser

namespace Grammar

/-! ### rfc3501/mod.rs: address, envelope -/

def address : Parser Address :=
  parenDelimited (do
    let name ← nstring
    tag (b!" ")
    let adl ← nstring
    tag (b!" ")
    let mailbox ← nstring
    tag (b!" ")
    let host ← nstring
    pure { name, adl, mailbox, host })

def optAddresses : Parser (Option (List Address)) :=
  alt (map nil fun _ => none)
      (map (parenDelimited (many1 (do let a ← address; let _ ← opt (char 32); pure a))) some)

def envelope : Parser Envelope :=
  parenDelimited (do
    let date ← nstring
    tag (b!" ")
    let subject ← nstring
    tag (b!" ")
    let from_ ← optAddresses
    tag (b!" ")
    let sender ← optAddresses
    tag (b!" ")
    let replyTo ← optAddresses
    tag (b!" ")
    let to ← optAddresses
    tag (b!" ")
    let cc ← optAddresses
    tag (b!" ")
    let bcc ← optAddresses
    tag (b!" ")
    let inReplyTo ← nstring
    tag (b!" ")
    let messageId ← nstring
    pure { date, subject, from_, sender, replyTo, to, cc, bcc, inReplyTo, messageId })

/-! ### rfc3501/body.rs -/

def sectionPart : Parser (List Nat) := do
  let part ← number
  let rest ← many0 (do char 46; number)
  pure (part :: rest)

def sectionMsgtext : Parser MessageSection :=
  alt (do
        tagNoCase (b!"HEADER.FIELDS")
        let _ ← opt (tagNoCase (b!".NOT"))
        tag (b!" ")
        let _ ← parenthesizedList astring
        pure MessageSection.header) <|
  alt (map (tagNoCase (b!"HEADER")) fun _ => MessageSection.header) <|
  map (tagNoCase (b!"TEXT")) fun _ => MessageSection.text

def sectionText : Parser MessageSection :=
  alt sectionMsgtext (map (tagNoCase (b!"MIME")) fun _ => MessageSection.mime)

def sectionSpec : Parser SectionPath :=
  alt (map sectionMsgtext SectionPath.full)
      (do
        let part ← sectionPart
        let text ← opt (do char 46; sectionText)
        pure (SectionPath.part part text))

def section_ : Parser (Option SectionPath) := do
  char 91
  let s ← opt sectionSpec
  char 93
  pure s

def msgAttBodySection : Parser AttributeValue := do
  tagNoCase (b!"BODY")
  let sect ← section_
  let index ← opt (do char 60; let n ← number; char 62; pure n)
  tag (b!" ")
  let data ← nstring
  pure (.bodySection sect index data)

/-! ### rfc3501/body_structure.rs -/

structure BodyFields where
  param : BodyParams
  id : Option Bytes
  description : Option Bytes
  transferEncoding : ContentEncoding
  octets : Nat

structure BodyExt1Part where
  md5 : Option Bytes
  disposition : Option ContentDisposition
  language : Option (List Bytes)
  location : Option Bytes
  extension : Option BodyExtension

structure BodyExtMPart where
  param : BodyParams
  disposition : Option ContentDisposition
  language : Option (List Bytes)
  location : Option Bytes
  extension : Option BodyExtension

def bodyParam : Parser BodyParams :=
  alt (map nil fun _ => none)
      (map (parenthesizedNonemptyList (do
              let key ← stringUtf8
              tag (b!" ")
              let val ← stringUtf8
              pure (key, val))) some)

def bodyEncoding : Parser ContentEncoding :=
  alt (do
        char 34
        let e ←
          alt (map (tagNoCase (b!"7BIT")) fun _ => ContentEncoding.sevenBit) <|
          alt (map (tagNoCase (b!"8BIT")) fun _ => ContentEncoding.eightBit) <|
          alt (map (tagNoCase (b!"BINARY")) fun _ => ContentEncoding.binary) <|
          alt (map (tagNoCase (b!"BASE64")) fun _ => ContentEncoding.base64) <|
          map (tagNoCase (b!"QUOTED-PRINTABLE")) fun _ => ContentEncoding.quotedPrintable
        char 34
        pure e)
      (map stringUtf8 ContentEncoding.other)

def bodyLang : Parser (Option (List Bytes)) :=
  alt (map nstringUtf8 fun v => v.map fun s => [s])
      (map (parenthesizedNonemptyList stringUtf8) some)

def bodyDisposition : Parser (Option ContentDisposition) :=
  alt (map nil fun _ => none)
      (parenDelimited (do
        let ty ← stringUtf8
        tag (b!" ")
        let params ← bodyParam
        pure (some { ty, params })))

def bodyFields : Parser BodyFields := do
  let param ← bodyParam
  tag (b!" ")
  let id ← nstringUtf8
  tag (b!" ")
  let description ← nstringUtf8
  tag (b!" ")
  let transferEncoding ← bodyEncoding
  tag (b!" ")
  let octets ← number
  pure { param, id, description, transferEncoding, octets }

/-- `body_extension_nested`; the budget `n` is `33 - depth` -/
def bodyExtension : Nat → Parser BodyExtension
  | 0 => failP
  | n + 1 =>
    alt (map number BodyExtension.num) <|
    alt (map nstringUtf8 BodyExtension.str) <|
    map (parenthesizedNonemptyList (bodyExtension n)) BodyExtension.list

def bodyExt1Part (n : Nat) : Parser BodyExt1Part := do
  let md5 ← optOpt (do tag (b!" "); nstringUtf8)
  let disposition ← optOpt (do tag (b!" "); bodyDisposition)
  let language ← optOpt (do tag (b!" "); bodyLang)
  let location ← optOpt (do tag (b!" "); nstringUtf8)
  let extension ← opt (do tag (b!" "); bodyExtension n)
  pure { md5, disposition, language, location, extension }

def bodyExtMPart (n : Nat) : Parser BodyExtMPart := do
  let param ← optOpt (do tag (b!" "); bodyParam)
  let disposition ← optOpt (do tag (b!" "); bodyDisposition)
  let language ← optOpt (do tag (b!" "); bodyLang)
  let location ← optOpt (do tag (b!" "); nstringUtf8)
  let extension ← opt (do tag (b!" "); bodyExtension n)
  pure { param, disposition, language, location, extension }

def mkCommon (ty subtype : Bytes) (params : BodyParams) (disposition : Option ContentDisposition)
    (language : Option (List Bytes)) (location : Option Bytes) : BodyContentCommon :=
  { ty := { ty, subtype, params }, disposition, language, location }

def mkOther (fields : BodyFields) (md5 : Option Bytes) : BodyContentSinglePart :=
  { id := fields.id, md5, octets := fields.octets, description := fields.description,
    transferEncoding := fields.transferEncoding }

def bodyTypeBasic (n : Nat) : Parser BodyStructure := do
  let ty ← stringUtf8
  tag (b!" ")
  let subtype ← stringUtf8
  tag (b!" ")
  let fields ← bodyFields
  let ext ← bodyExt1Part n
  pure (.basic (mkCommon ty subtype fields.param ext.disposition ext.language ext.location)
          (mkOther fields ext.md5) ext.extension)

def bodyTypeText (n : Nat) : Parser BodyStructure := do
  tagNoCase (b!"\"TEXT\"")
  tag (b!" ")
  let subtype ← stringUtf8
  tag (b!" ")
  let fields ← bodyFields
  tag (b!" ")
  let lines ← number
  let ext ← bodyExt1Part n
  pure (.text (mkCommon (b!"TEXT") subtype fields.param ext.disposition ext.language ext.location)
          (mkOther fields ext.md5) lines ext.extension)

def bodyTypeMessage (child : Parser BodyStructure) (n : Nat) : Parser BodyStructure := do
  tagNoCase (b!"\"MESSAGE\" \"RFC822\"")
  tag (b!" ")
  let fields ← bodyFields
  tag (b!" ")
  let envelope ← envelope
  tag (b!" ")
  let body ← child
  tag (b!" ")
  let lines ← number
  let ext ← bodyExt1Part n
  pure (.message
          (mkCommon (b!"MESSAGE") (b!"RFC822") fields.param ext.disposition ext.language ext.location)
          (mkOther fields ext.md5) envelope body lines ext.extension)

def bodyTypeMultipart (child : Parser BodyStructure) (n : Nat) : Parser BodyStructure := do
  let bodies ← many1 child
  tag (b!" ")
  let subtype ← stringUtf8
  let ext ← bodyExtMPart n
  pure (.multipart
          (mkCommon (b!"MULTIPART") subtype ext.param ext.disposition ext.language ext.location)
          bodies ext.extension)

/-- `body_nested`; budget `n = 33 - depth` -/
def bodyNested : Nat → Parser BodyStructure
  | 0 => failP
  | n + 1 =>
    parenDelimited <|
      alt (bodyTypeText (n + 1)) <|
      alt (bodyTypeMessage (bodyNested n) (n + 1)) <|
      alt (bodyTypeBasic (n + 1)) <|
      bodyTypeMultipart (bodyNested n) (n + 1)

def MAX_NESTING : Nat := 32

def body : Parser BodyStructure := bodyNested (MAX_NESTING + 1)

def msgAttBodyStructure : Parser AttributeValue := do
  tagNoCase (b!"BODYSTRUCTURE ")
  let b ← body
  pure (.bodyStructure b)

/-- `"BODY" SP body`: the non-extensible form -/
def msgAttBody : Parser AttributeValue := do
  tagNoCase (b!"BODY ")
  let b ← body
  pure (.bodyStructure b)

end Grammar
