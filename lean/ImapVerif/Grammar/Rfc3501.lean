/-
  Model of rfc3501/mod.rs (status, response codes, capability, mailbox data, message data, tagged /
  untagged / continuation responses) and of parser/mod.rs `parse_response`.
-/
import ImapVerif.Grammar.Ext
import ImapVerif.Grammar.Body

open Bytes Parser

namespace Grammar

def statusP : Parser Status :=
  alt (map (tagNoCase (b!"OK")) fun _ => Status.ok) <|
  alt (map (tagNoCase (b!"NO")) fun _ => Status.no) <|
  alt (map (tagNoCase (b!"BAD")) fun _ => Status.bad) <|
  alt (map (tagNoCase (b!"PREAUTH")) fun _ => Status.preAuth) <|
  map (tagNoCase (b!"BYE")) fun _ => Status.bye

def flagPerm : Parser Bytes := alt (mapRes (map (tag (b!"\\*")) fun _ => b!"\\*") utf8) flag

def flagList : Parser (List Bytes) := parenthesizedList flagPerm

/-! ### capability -/

/-- classify the complete atom -/
def classifyCapability (a : Bytes) : Capability :=
  if eqIgnoreAsciiCase a (b!"IMAP4rev1") then .imap4rev1
  else if a.length > 5 && eqIgnoreAsciiCase (a.take 5) (b!"AUTH=") then .auth (a.drop 5)
  else .atom a

def capability : Parser Capability := map atom classifyCapability

def ensureCapabilitiesContainsImap4rev (caps : List Capability) : Option (List Capability) :=
  if caps.contains Capability.imap4rev1 then some caps else none

def capabilityData : Parser (List Capability) :=
  mapRes (do tagNoCase (b!"CAPABILITY"); many0 (do char 32; capability))
    ensureCapabilitiesContainsImap4rev

/-! ### response codes -/

def respTextCodeBadCharset : Parser ResponseCode := do
  tagNoCase (b!"BADCHARSET")
  let v ← opt (do tag (b!" "); parenthesizedNonemptyList astringUtf8)
  pure (.badCharset v)

def respTextCodePermanentFlags : Parser ResponseCode := do
  tagNoCase (b!"PERMANENTFLAGS ")
  let v ← parenthesizedList flagPerm
  pure (.permanentFlags v)

def respTextCodeUidValidity : Parser ResponseCode := do
  tagNoCase (b!"UIDVALIDITY ")
  let n ← number
  pure (.uidValidity n)

def respTextCodeUidNext : Parser ResponseCode := do
  tagNoCase (b!"UIDNEXT ")
  let n ← number
  pure (.uidNext n)

def respTextCodeUnseen : Parser ResponseCode := do
  tagNoCase (b!"UNSEEN ")
  let n ← number
  pure (.unseen n)

def respTextCodeAlt : Parser ResponseCode :=
  alt (map (tagNoCase (b!"ALERT")) fun _ => ResponseCode.alert) <|
  alt respTextCodeBadCharset <|
  alt (map capabilityData ResponseCode.capabilities) <|
  alt (map (tagNoCase (b!"PARSE")) fun _ => ResponseCode.parse) <|
  alt respTextCodePermanentFlags <|
  alt respTextCodeUidValidity <|
  alt respTextCodeUidNext <|
  alt respTextCodeUnseen <|
  alt (map (tagNoCase (b!"READ-ONLY")) fun _ => ResponseCode.readOnly) <|
  alt (map (tagNoCase (b!"READ-WRITE")) fun _ => ResponseCode.readWrite) <|
  alt (map (tagNoCase (b!"TRYCREATE")) fun _ => ResponseCode.tryCreate) <|
  alt respTextCodeHighestModSeq <|
  alt respTextCodeAppendUid <|
  alt respTextCodeCopyUid <|
  alt respTextCodeUidNotSticky <|
  alt respTextCodeMetadataLongEntries <|
  alt respTextCodeMetadataMaxSize <|
  alt respTextCodeMetadataTooMany <|
  respTextCodeMetadataNoPrivate

def respTextCode : Parser ResponseCode := do
  tag (b!"[")
  let c ← respTextCodeAlt
  tag (b!"]")
  pure c

/-! ### mailbox data -/

def mailboxDataSearch : Parser MailboxDatum := do
  tagNoCase (b!"SEARCH")
  let v ← many0 (do tag (b!" "); number)
  let _ ← opt (tag (b!" "))
  pure (.search v)

def mailboxDataFlags : Parser MailboxDatum := do
  tagNoCase (b!"FLAGS ")
  let v ← flagList
  pure (.flags v)

def mailboxDataExists : Parser MailboxDatum := do
  let n ← number
  tagNoCase (b!" EXISTS")
  pure (.exists_ n)

def nameAttributeExt : Parser Bytes :=
  mapRes (do tag (b!"\\"); let s ← takeWhile isAtomChar; pure (92 :: s)) utf8

/-- the known attributes (RFC 3501, RFC 6154), compared with the complete flag ignoring case -/
def knownNameAttributes : List (Bytes × NameAttribute) :=
  [(b!"\\Noinferiors", .noInferiors), (b!"\\Noselect", .noSelect), (b!"\\Marked", .marked),
   (b!"\\Unmarked", .unmarked), (b!"\\All", .all), (b!"\\Archive", .archive), (b!"\\Drafts", .drafts),
   (b!"\\Flagged", .flagged), (b!"\\Junk", .junk), (b!"\\Sent", .sent), (b!"\\Trash", .trash)]

def classifyNameAttribute (s : Bytes) : NameAttribute :=
  match knownNameAttributes.find? (fun e => eqIgnoreAsciiCase s e.1) with
  | some e => e.2
  | none => .extension s

def nameAttribute : Parser NameAttribute := map nameAttributeExt classifyNameAttribute

def mailboxList : Parser (List NameAttribute × Option Bytes × Bytes) := do
  let nameAttributes ← parenthesizedList nameAttribute
  tag (b!" ")
  let delimiter ← alt (map quotedUtf8 some) (map nil fun _ => none)
  tag (b!" ")
  let name ← mailbox
  pure (nameAttributes, delimiter, name)

def mailboxDataList : Parser MailboxDatum := do
  tagNoCase (b!"LIST ")
  let d ← mailboxList
  pure (.list d.1 d.2.1 d.2.2)

def mailboxDataLsub : Parser MailboxDatum := do
  tagNoCase (b!"LSUB ")
  let d ← mailboxList
  pure (.list d.1 d.2.1 d.2.2)

def statusAtt : Parser StatusAttribute :=
  alt statusAttValHighestModSeq <|
  alt (do tagNoCase (b!"MESSAGES "); let n ← number; pure (StatusAttribute.messages n)) <|
  alt (do tagNoCase (b!"RECENT "); let n ← number; pure (StatusAttribute.recent n)) <|
  alt (do tagNoCase (b!"UIDNEXT "); let n ← number; pure (StatusAttribute.uidNext n)) <|
  alt (do tagNoCase (b!"UIDVALIDITY "); let n ← number; pure (StatusAttribute.uidValidity n)) <|
  (do tagNoCase (b!"UNSEEN "); let n ← number; pure (StatusAttribute.unseen n))

def statusAttList : Parser (List StatusAttribute) := parenthesizedList statusAtt

def mailboxDataStatus : Parser MailboxDatum := do
  tagNoCase (b!"STATUS ")
  let mailbox ← mailbox
  tag (b!" ")
  let status ← statusAttList
  pure (.status mailbox status)

def mailboxDataRecent : Parser MailboxDatum := do
  let n ← number
  tagNoCase (b!" RECENT")
  pure (.recent n)

def mailboxData : Parser MailboxDatum :=
  alt mailboxDataFlags <|
  alt mailboxDataExists <|
  alt mailboxDataList <|
  alt mailboxDataLsub <|
  alt mailboxDataStatus <|
  alt mailboxDataRecent <|
  alt mailboxDataSearch <|
  alt mailboxDataGmailLabels <|
  alt mailboxDataGmailMsgId <|
  mailboxDataSort

/-! ### message data -/

def msgAttEnvelope : Parser AttributeValue := do
  tagNoCase (b!"ENVELOPE ")
  let e ← envelope
  pure (.envelope e)

/-- a `NIL` date is a parse error (`map_res(.., ok_or)`) -/
def msgAttInternalDate : Parser AttributeValue :=
  mapRes (do tagNoCase (b!"INTERNALDATE "); nstringUtf8) fun date => date.map AttributeValue.internalDate

def msgAttFlags : Parser AttributeValue := do
  tagNoCase (b!"FLAGS ")
  let v ← flagList
  pure (.flags v)

def msgAttRfc822 : Parser AttributeValue := do
  tagNoCase (b!"RFC822 ")
  let v ← nstring
  pure (.rfc822 v)

def msgAttRfc822Header : Parser AttributeValue := do
  tagNoCase (b!"RFC822.HEADER ")
  let _ ← opt (tag (b!" "))
  let v ← nstring
  pure (.rfc822Header v)

def msgAttRfc822Size : Parser AttributeValue := do
  tagNoCase (b!"RFC822.SIZE ")
  let n ← number
  pure (.rfc822Size n)

def msgAttRfc822Text : Parser AttributeValue := do
  tagNoCase (b!"RFC822.TEXT ")
  let v ← nstring
  pure (.rfc822Text v)

def msgAttUid : Parser AttributeValue := do
  tagNoCase (b!"UID ")
  let n ← number
  pure (.uid n)

def msgAtt : Parser AttributeValue :=
  alt msgAttBodySection <|
  alt msgAttBodyStructure <|
  alt msgAttBody <|
  alt msgAttEnvelope <|
  alt msgAttInternalDate <|
  alt msgAttFlags <|
  alt msgAttModSeq <|
  alt msgAttRfc822 <|
  alt msgAttRfc822Header <|
  alt msgAttRfc822Size <|
  alt msgAttRfc822Text <|
  alt msgAttUid <|
  alt msgAttGmailLabels <|
  msgAttGmailMsgId

def msgAttList : Parser (List AttributeValue) := parenthesizedNonemptyList msgAtt

def messageDataFetch : Parser Response := do
  let num ← number
  tagNoCase (b!" FETCH ")
  let attrs ← msgAttList
  pure (.fetch num attrs)

def messageDataExpunge : Parser Nat := do
  let n ← number
  tagNoCase (b!" EXPUNGE")
  pure n

/-! ### response text -/

def imapTag : Parser Bytes := mapRes (takeWhile1 isTagChar) utf8

/-- `&text[1..]` panics unless index 1 is a char boundary of `text` (here: `text` has length 1 or
    its second byte is not a UTF-8 continuation byte) -/
def strFrom1 (t : Bytes) : Option Bytes :=
  match t with
  | [] => none
  | [_] => some []
  | _ :: b :: r => if isCont b then none else some (b :: r)

/-- the closure of `resp_text`; `none` = panic -/
def respTextFinish (code : Option ResponseCode) (t : Bytes) :
    Option (Option ResponseCode × Option Bytes) :=
  if t.isEmpty then some (code, none)
  else if code.isSome then (strFrom1 t).map fun s => (code, some s)
  else some (code, some t)

def respText : Parser (Option ResponseCode × Option Bytes) :=
  mapPanic (do let code ← opt respTextCode; let t ← text; pure (code, t))
    fun ct => respTextFinish ct.1 ct.2

def trailingRespText : Parser (Option ResponseCode × Option Bytes) :=
  map (opt (do tag (b!" "); respText)) fun r => r.getD (none, none)

def continueReq : Parser Response := do
  tag (b!"+")
  let _ ← opt (tag (b!" "))
  let t ← respText
  tag (b!"\r\n")
  pure (.continue_ t.1 t.2)

def responseTagged : Parser Response := do
  let tg ← imapTag
  tag (b!" ")
  let status ← statusP
  let t ← trailingRespText
  tag (b!"\r\n")
  pure (.done tg status t.1 t.2)

def respCond : Parser Response := do
  let status ← statusP
  let t ← trailingRespText
  pure (.data status t.1 t.2)

def responseDataAlt : Parser Response :=
  alt respCond <|
  alt (map mailboxData Response.mailboxData) <|
  alt (map messageDataExpunge Response.expunge) <|
  alt messageDataFetch <|
  alt (map capabilityData Response.capabilities) <|
  alt respEnabled <|
  alt metadataSolicited <|
  alt metadataUnsolicited <|
  alt respVanished <|
  alt quota <|
  alt quotaRoot <|
  alt respId <|
  alt acl <|
  alt listRights <|
  myRights

def responseData : Parser Response := do
  tag (b!"* ")
  let r ← responseDataAlt
  let _ ← many0 (tag (b!" "))
  tag (b!"\r\n")
  pure r

/-- parser/mod.rs `parse_response` = `Response::from_bytes` -/
def parseResponse : Parser Response :=
  alt continueReq <| alt responseData responseTagged

end Grammar
