/-
  Model of imap-proto/src/parser/core.rs (one definition per Rust function, same combinators, same
  order of alternatives), plus `mailbox` and `flag` from rfc3501/mod.rs which the extension modules
  use.
-/
import ImapVerif.Nom
import ImapVerif.Types

open Bytes Parser

namespace Grammar

/-! ### byte classes (core.rs `is_*`) -/

def isChar (c : UInt8) : Bool := 1 ≤ c && c ≤ 127
def isListWildcards (c : UInt8) : Bool := c == 37 || c == 42
def isQuotedSpecials (c : UInt8) : Bool := c == 34 || c == 92
def isRespSpecials (c : UInt8) : Bool := c == 93
def isAtomSpecials (c : UInt8) : Bool :=
  c == 40 || c == 41 || c == 123 || c == 32 || c < 32 || isListWildcards c || isQuotedSpecials c
    || isRespSpecials c
def isAtomChar (c : UInt8) : Bool := isChar c && !isAtomSpecials c
def isAstringChar (c : UInt8) : Bool := isAtomChar c || isRespSpecials c
def isTextChar (c : UInt8) : Bool := isChar c && c != 13 && c != 10
def isChar8 (c : UInt8) : Bool := c != 0
def isQuotedNormal (c : UInt8) : Bool := isTextChar c && !isQuotedSpecials c
def isTagChar (c : UInt8) : Bool := c != 43 && isAstringChar c

/-! ### number -/

/-- `digit1` then `u32::from_str` / `u64::from_str`: exact value or `Err::Error` -/
def numberB (bound : Nat) : Parser Nat :=
  mapRes (takeWhile1 isDigit) fun ds => if decVal ds < bound then some (decVal ds) else none

def number : Parser Nat := numberB (2 ^ 32)
def number64 : Parser Nat := numberB (2 ^ 64)

/-- `sequence_range` -/
def sequenceRange : Parser (Nat × Nat) := do
  let s ← number
  tag (b!":")
  let e ← number
  pure (if s ≤ e then (s, e) else (e, s))

def sequenceSet : Parser (List (Nat × Nat)) :=
  sepList1 (tag (b!",")) (alt sequenceRange (map number fun n => (n, n)))

/-! ### strings -/

def utf8 (s : Bytes) : Option Bytes := if validUtf8 s then some s else none

/-- `quoted`: the value is the text between the quotes, escapes left in place -/
def quoted : Parser Bytes := do
  char 34
  let s ← escaped isQuotedNormal
  char 34
  pure s

def quotedUtf8 : Parser Bytes := mapRes quoted utf8

/-- `literal = "{" number "}" CRLF *CHAR8` -/
def literal : Parser Bytes := do
  tag (b!"{")
  let count ← number
  tag (b!"}")
  tag (b!"\r\n")
  let data ← take count
  if data.all isChar8 then pure data else errP

def string : Parser Bytes := alt quoted literal
def stringUtf8 : Parser Bytes := mapRes string utf8

def astring : Parser Bytes := alt (takeWhile1 isAstringChar) string
def astringUtf8 : Parser Bytes := mapRes astring utf8

def atom : Parser Bytes := mapRes (takeWhile1 isAtomChar) utf8

def nil : Parser Unit := tagNoCase (b!"NIL")

def nstring : Parser (Option Bytes) := alt (map nil fun _ => none) (map string some)
def nstringUtf8 : Parser (Option Bytes) := alt (map nil fun _ => none) (map stringUtf8 some)

def text : Parser Bytes := mapRes (takeWhile isTextChar) utf8

/-! ### list helpers -/

def parenDelimited (p : Parser α) : Parser α := do
  char 40
  let v ← p
  char 41
  pure v

def parenthesizedNonemptyList (p : Parser α) : Parser (List α) := do
  char 40
  let v ← sepList1 (char 32) p
  char 41
  pure v

def parenthesizedList (p : Parser α) : Parser (List α) := do
  char 40
  let v ← sepList0 (char 32) p
  char 41
  pure v

/-! ### rfc3501/mod.rs: mailbox, flag (used by the extension modules) -/

def mailbox : Parser Bytes :=
  map astringUtf8 fun s => if eqIgnoreAsciiCase s (b!"INBOX") then b!"INBOX" else s

/-- `recognize(pair(tag("\\"), take_while(is_atom_char)))` then `from_utf8` -/
def flagExtension : Parser Bytes :=
  mapRes (do tag (b!"\\"); let s ← takeWhile isAtomChar; pure (92 :: s)) utf8

def flag : Parser Bytes := alt flagExtension (mapRes (takeWhile1 isAstringChar) utf8)

end Grammar
