/-
  Model of imap-proto/src/builders/command.rs (`quoted_string`, `CommandBuilder`, the FETCH / SELECT
  typestate builders, `From<..> for Command`), of the codec's `Encoder` (tokio-imap/src/codec.rs) and of
  the tag generator (tokio-imap/src/client.rs `IdGenerator`).
-/
import ImapVerif.Bytes

open Bytes

namespace Builders

/-! ### quoted_string -/

/-- `\` and `"` are preceded by a backslash -/
def escape : Bytes → Bytes
  | [] => []
  | c :: r => if c == 92 || c == 34 then 92 :: c :: escape r else c :: escape r

inductive QRes
  | ok (q : Bytes)
  | refused          -- `Err("CR and LF not allowed in quoted strings")`; the builders `unwrap()` it
  | panic            -- `String::from_utf8(new).unwrap()` on a non-UTF-8 result
deriving Repr, DecidableEq

/-- `quoted_string(s)` for a `&str` whose bytes are `s` -/
def quotedString (s : Bytes) : QRes :=
  if s.any (fun c => c == 13 || c == 10) then .refused
  else if validUtf8 (escape s) then .ok (escape s) else .panic

/-! ### commands -/

inductive Attribute
  | body | envelope | flags | internalDate | modSeq | rfc822 | rfc822Size | rfc822Text | uid
  | gmailLabels | gmailMsgId
deriving Repr, DecidableEq

inductive AttrMacro | all | fast | full
deriving Repr, DecidableEq

def attrName : Attribute → Bytes
  | .body => b!"BODY"
  | .envelope => b!"ENVELOPE"
  | .flags => b!"FLAGS"
  | .internalDate => b!"INTERNALDATE"
  | .modSeq => b!"MODSEQ"
  | .rfc822 => b!"RFC822"
  | .rfc822Size => b!"RFC822.SIZE"
  | .rfc822Text => b!"RFC822.TEXT"
  | .uid => b!"UID"
  | .gmailLabels => b!"X-GM-LABELS"
  | .gmailMsgId => b!"X-GM-MSGID"

def macroName : AttrMacro → Bytes
  | .all => b!"ALL"
  | .fast => b!"FAST"
  | .full => b!"FULL"

/-- one builder call on the FETCH builder -/
inductive Call
  | num (n : Nat)
  | range (a b : Nat)
  | rangeFrom (a : Nat)
  | attr (a : Attribute)
  | attrMacro (m : AttrMacro)
  | changedSince (n : Nat)
deriving Repr, DecidableEq

/-- `fetch::{Empty, Messages, Attributes, Modifiers, Complete}` -/
inductive FState | empty | messages | attributes | modifiers | complete
deriving Repr, DecidableEq

def seqItem : Call → Option Bytes
  | .num n => some (decDigits n)
  | .range a b => some (decDigits a ++ b!":" ++ decDigits b)
  | .rangeFrom a => some (decDigits a ++ b!":*")
  | _ => none

def changedSinceBytes (n : Nat) : Bytes := b!" (CHANGEDSINCE " ++ decDigits n ++ b!")"

/-- one typestate transition: the methods each `impl FetchCommand<fetch::X>` block offers;
    `none` = the call does not type-check in that state -/
def step (st : FState) (args : Bytes) (c : Call) : Option (FState × Bytes) :=
  match st, c with
  | .empty, .num _ | .empty, .range _ _ | .empty, .rangeFrom _ =>
    (seqItem c).map fun s => (.messages, args ++ s)
  | .messages, .num _ | .messages, .range _ _ | .messages, .rangeFrom _ =>
    (seqItem c).map fun s => (.messages, args ++ b!"," ++ s)
  | .messages, .attrMacro m => some (.modifiers, args ++ b!" " ++ macroName m)
  | .messages, .attr a => some (.attributes, args ++ b!" (" ++ attrName a)
  | .attributes, .attr a => some (.attributes, args ++ b!" " ++ attrName a)
  | .attributes, .changedSince n => some (.complete, args ++ b!")" ++ changedSinceBytes n)
  | .modifiers, .changedSince n => some (.complete, args ++ changedSinceBytes n)
  | _, _ => none

def run : FState → Bytes → List Call → Option (FState × Bytes)
  | st, args, [] => some (st, args)
  | st, args, c :: cs =>
    match step st args c with
    | some (st', args') => run st' args' cs
    | none => none

/-- `impl From<FetchCommand<..>> for Command`: only Attributes, Modifiers and Complete convert -/
def finish : FState → Bytes → Option Bytes
  | .attributes, args => some (args ++ b!")")
  | .modifiers, args => some args
  | .complete, args => some args
  | _, _ => none

/-- `CommandBuilder::fetch()` / `uid_fetch()` followed by the calls and the conversion to `Command` -/
def fetchCommand (uid : Bool) (calls : List Call) : Option Bytes :=
  match run .empty (if uid then b!"UID FETCH " else b!"FETCH ") calls with
  | some (st, args) => finish st args
  | none => none

inductive TextCmd | login | select | examine | list
deriving Repr, DecidableEq

/-- `format!("LOGIN \"{}\" \"{}\"", quoted_string(a).unwrap(), quoted_string(b).unwrap())` etc.;
    the arguments are evaluated left to right, so a refusal of the first wins -/
def quote2 (verb : Bytes) (a b : Bytes) : QRes :=
  match quotedString a with
  | .ok qa =>
    match quotedString b with
    | .ok qb => .ok (verb ++ b!" \"" ++ qa ++ b!"\" \"" ++ qb ++ b!"\"")
    | .refused => .refused
    | .panic => .panic
  | .refused => .refused
  | .panic => .panic

def quote1 (verb : Bytes) (a : Bytes) : QRes :=
  match quotedString a with
  | .ok qa => .ok (verb ++ b!" \"" ++ qa ++ b!"\"")
  | .refused => .refused
  | .panic => .panic

def login (user pass : Bytes) : QRes := quote2 (b!"LOGIN") user pass
def list (reference glob : Bytes) : QRes := quote2 (b!"LIST") reference glob
/-- `select(mailbox)` / `examine(mailbox)`, optionally `.cond_store()`, then `into()` -/
def select (examine : Bool) (condStore : Bool) (mailbox : Bytes) : QRes :=
  match quote1 (if examine then b!"EXAMINE" else b!"SELECT") mailbox with
  | .ok args => .ok (if condStore then args ++ b!" (CONDSTORE" ++ b!")" else args)
  | r => r

def check : Bytes := b!"CHECK"
def close : Bytes := b!"CLOSE"

/-! ### codec `Encoder::encode` -/

def encode (tag args : Bytes) : Bytes := tag ++ [32] ++ args ++ [13, 10]

/-! ### tag generator -/

def pad4 (n : Nat) : Bytes :=
  [digitOf (n / 1000 % 10), digitOf (n / 100 % 10), digitOf (n / 10 % 10), digitOf (n % 10)]

/-- the tag of the `k`-th command of a connection (`k = 1, 2, …`): `format!("A{:04}", k % 10_000)` -/
def tagOf (k : Nat) : Bytes := 65 :: pad4 (k % 10000)

end Builders
