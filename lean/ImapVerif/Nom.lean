/-
  Model of the nom 7.1.3 *streaming* combinators that imap-proto uses, over `List UInt8`.
  Transcribed from ~/.cargo/registry/src/*/nom-7.1.3 (bytes/streaming.rs, character/streaming.rs,
  branch/mod.rs, combinator/mod.rs, multi/mod.rs, sequence/mod.rs).  Trusted; validated by the
  correspondence check (every grammar function runs through these).

  `Res.inc/err/fail` are nom's `Err::Incomplete/Error/Failure`; `Res.panic` is produced by the model
  exactly where the Rust source can panic.  `Needed` sizes and error kinds are not modelled.
-/
import ImapVerif.Bytes

open Bytes

inductive Res (α : Type) where
  | ok (v : α) (rest : Bytes)
  | inc
  | err
  | fail
  | panic
deriving Repr

def Parser (α : Type) := Bytes → Res α

namespace Parser

@[inline] def pureP (a : α) : Parser α := fun i => .ok a i

@[inline] def bindP (p : Parser α) (f : α → Parser β) : Parser β := fun i =>
  match p i with
  | .ok v r => f v r
  | .inc => .inc
  | .err => .err
  | .fail => .fail
  | .panic => .panic

instance : Monad Parser where
  pure := Parser.pureP
  bind := Parser.bindP

/-- always `Err::Error` -/
def errP : Parser α := fun _ => .err
/-- always `Err::Failure` -/
def failP : Parser α := fun _ => .fail
/-- a Rust panic -/
def panicP : Parser α := fun _ => .panic

/-- nom `Compare`: mismatch in the common prefix → Error; input too short → Incomplete -/
def tagGo (eq : UInt8 → UInt8 → Bool) : Bytes → Bytes → Res Unit
  | [], i => .ok () i
  | _ :: _, [] => .inc
  | t :: ts, c :: cs => if eq t c then tagGo eq ts cs else .err

def tag (t : Bytes) : Parser Unit := tagGo (· == ·) t
def tagNoCase (t : Bytes) : Parser Unit := tagGo (fun a b => lower a == lower b) t

/-- `take_while` (streaming): Incomplete when no stop byte is in the buffer -/
def takeWhile (f : UInt8 → Bool) : Parser Bytes := fun i =>
  match i.dropWhile f with
  | [] => .inc
  | c :: r => .ok (i.takeWhile f) (c :: r)

/-- `take_while1` (streaming) -/
def takeWhile1 (f : UInt8 → Bool) : Parser Bytes := fun i =>
  match i.dropWhile f with
  | [] => .inc
  | c :: r =>
    match i.takeWhile f with
    | [] => .err
    | a :: as => .ok (a :: as) (c :: r)

/-- `take(n)` (streaming) -/
def take (n : Nat) : Parser Bytes := fun i =>
  if i.length < n then .inc else .ok (i.take n) (i.drop n)

/-- `char(c)` (streaming) -/
def char (c : UInt8) : Parser Unit := fun i =>
  match i with
  | [] => .inc
  | x :: r => if x == c then .ok () r else .err

def isSpace (c : UInt8) : Bool := c == 32 || c == 9
/-- `character::streaming::space0` -/
def space0 : Parser Unit := fun i =>
  match takeWhile isSpace i with
  | .ok _ r => .ok () r
  | .inc => .inc | .err => .err | .fail => .fail | .panic => .panic
/-- `character::streaming::space1` -/
def space1 : Parser Unit := fun i =>
  match takeWhile1 isSpace i with
  | .ok _ r => .ok () r
  | .inc => .inc | .err => .err | .fail => .fail | .panic => .panic

/-- `alt`: the next branch is tried only on `Err::Error` -/
def alt (p q : Parser α) : Parser α := fun i =>
  match p i with
  | .err => q i
  | r => r

def opt (p : Parser α) : Parser (Option α) := fun i =>
  match p i with
  | .ok v r => .ok (some v) r
  | .err => .ok none i
  | .inc => .inc
  | .fail => .fail
  | .panic => .panic

/-- imap-proto `core::opt_opt` -/
def optOpt (p : Parser (Option α)) : Parser (Option α) := fun i =>
  match p i with
  | .ok v r => .ok v r
  | .err => .ok none i
  | .inc => .inc
  | .fail => .fail
  | .panic => .panic

def map (p : Parser α) (f : α → β) : Parser β := fun i =>
  match p i with
  | .ok v r => .ok (f v) r
  | .inc => .inc
  | .err => .err
  | .fail => .fail
  | .panic => .panic

/-- `map_res`: a failing conversion is `Err::Error` -/
def mapRes (p : Parser α) (f : α → Option β) : Parser β := fun i =>
  match p i with
  | .ok v r =>
    match f v with
    | some w => .ok w r
    | none => .err
  | .inc => .inc
  | .err => .err
  | .fail => .fail
  | .panic => .panic

/-- a conversion that panics (Rust `unwrap`, slice indexing) when `f` gives `none` -/
def mapPanic (p : Parser α) (f : α → Option β) : Parser β := fun i =>
  match p i with
  | .ok v r =>
    match f v with
    | some w => .ok w r
    | none => .panic
  | .inc => .inc
  | .err => .err
  | .fail => .fail
  | .panic => .panic

/-- `many0` loop with nom's no-progress check (→ Error); `fuel` bounds the iterations -/
def many0Go (p : Parser α) : Nat → Bytes → List α → Res (List α)
  | 0, _, _ => .err
  | fuel + 1, i, acc =>
    match p i with
    | .err => .ok acc.reverse i
    | .ok v r => if r.length < i.length then many0Go p fuel r (v :: acc) else .err
    | .inc => .inc
    | .fail => .fail
    | .panic => .panic

def many0 (p : Parser α) : Parser (List α) := fun i => many0Go p (i.length + 1) i []

/-- `many1`: the first element is mandatory and is not subject to the no-progress check -/
def many1 (p : Parser α) : Parser (List α) := fun i =>
  match p i with
  | .ok v r => many0Go p (r.length + 1) r [v]
  | .err => .err
  | .inc => .inc
  | .fail => .fail
  | .panic => .panic

/-- loop of `separated_list0/1` after the first element; a non-consuming separator is an Error;
    a separator whose element fails is given back -/
def sepGo (sep : Parser Unit) (p : Parser α) : Nat → Bytes → List α → Res (List α)
  | 0, _, _ => .err
  | fuel + 1, i, acc =>
    match sep i with
    | .err => .ok acc.reverse i
    | .ok _ i1 =>
      if i1.length < i.length then
        match p i1 with
        | .err => .ok acc.reverse i
        | .ok v i2 => sepGo sep p fuel i2 (v :: acc)
        | .inc => .inc
        | .fail => .fail
        | .panic => .panic
      else .err
    | .inc => .inc
    | .fail => .fail
    | .panic => .panic

def sepList0 (sep : Parser Unit) (p : Parser α) : Parser (List α) := fun i =>
  match p i with
  | .err => .ok [] i
  | .ok v r => sepGo sep p (r.length + 1) r [v]
  | .inc => .inc
  | .fail => .fail
  | .panic => .panic

def sepList1 (sep : Parser Unit) (p : Parser α) : Parser (List α) := fun i =>
  match p i with
  | .ok v r => sepGo sep p (r.length + 1) r [v]
  | .err => .err
  | .inc => .inc
  | .fail => .fail
  | .panic => .panic

/-- `escaped(take_while1(normal), '\\', one_of("\\\""))` (streaming), specialised to the one use in
    `core::quoted`: returns the recognised run (escapes left in place) and stops at the first byte
    that is neither normal nor a backslash; reaching the end of the buffer is Incomplete. -/
def escapedGo (normal : UInt8 → Bool) (acc : Bytes) : Bytes → Res Bytes
  | [] => .inc
  | c :: r =>
    if normal c then escapedGo normal (c :: acc) r
    else if c == 92 then
      match r with
      | [] => .inc
      | d :: r' => if d == 92 || d == 34 then escapedGo normal (d :: c :: acc) r' else .err
    else .ok acc.reverse (c :: r)

def escaped (normal : UInt8 → Bool) : Parser Bytes := escapedGo normal []

end Parser
