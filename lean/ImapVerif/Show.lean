/-
  Canonical serialiser of model values for the line protocol.  The harness has the same serialiser
  for the crate's types (harness/src/ser.rs); the two outputs are compared as strings.

  Format: `(Ctor arg …)`, lists `[a b …]`, `_` = None, `(S v)` = Some, byte strings `x<hex>`,
  numbers decimal, booleans `T`/`F`.
-/
import ImapVerif.Types

open Bytes

namespace Ser

def sx (name : String) (args : List String) : String :=
  "(" ++ " ".intercalate (name :: args) ++ ")"

def lst (xs : List String) : String := "[" ++ " ".intercalate xs ++ "]"

def opt (f : α → String) : Option α → String
  | none => "_"
  | some v => sx "S" [f v]

def bs (b : Bytes) : String := "x" ++ toHex b
def nat (n : Nat) : String := toString n
def bool (b : Bool) : String := if b then "T" else "F"

def status : Status → String
  | .ok => "Ok" | .no => "No" | .bad => "Bad" | .preAuth => "PreAuth" | .bye => "Bye"

def capability : Capability → String
  | .imap4rev1 => "Imap4rev1"
  | .auth s => sx "Auth" [bs s]
  | .atom s => sx "Atom" [bs s]

def uidSetMember : UidSetMember → String
  | .uidRange a b => sx "UidRange" [nat a, nat b]
  | .uid n => sx "Uid" [nat n]

def responseCode : ResponseCode → String
  | .alert => "Alert"
  | .badCharset v => sx "BadCharset" [opt (fun l => lst (l.map bs)) v]
  | .capabilities v => sx "Capabilities" [lst (v.map capability)]
  | .highestModSeq n => sx "HighestModSeq" [nat n]
  | .parse => "Parse"
  | .permanentFlags v => sx "PermanentFlags" [lst (v.map bs)]
  | .readOnly => "ReadOnly"
  | .readWrite => "ReadWrite"
  | .tryCreate => "TryCreate"
  | .uidNext n => sx "UidNext" [nat n]
  | .uidValidity n => sx "UidValidity" [nat n]
  | .unseen n => sx "Unseen" [nat n]
  | .appendUid n u => sx "AppendUid" [nat n, lst (u.map uidSetMember)]
  | .copyUid n a b => sx "CopyUid" [nat n, lst (a.map uidSetMember), lst (b.map uidSetMember)]
  | .uidNotSticky => "UidNotSticky"
  | .metadataLongEntries n => sx "MetadataLongEntries" [nat n]
  | .metadataMaxSize n => sx "MetadataMaxSize" [nat n]
  | .metadataTooMany => "MetadataTooMany"
  | .metadataNoPrivate => "MetadataNoPrivate"

def statusAttribute : StatusAttribute → String
  | .highestModSeq n => sx "HighestModSeq" [nat n]
  | .messages n => sx "Messages" [nat n]
  | .recent n => sx "Recent" [nat n]
  | .uidNext n => sx "UidNext" [nat n]
  | .uidValidity n => sx "UidValidity" [nat n]
  | .unseen n => sx "Unseen" [nat n]

def metadata (m : Metadata) : String := sx "Metadata" [bs m.entry, opt bs m.value]

def nameAttribute : NameAttribute → String
  | .noInferiors => "NoInferiors" | .noSelect => "NoSelect" | .marked => "Marked"
  | .unmarked => "Unmarked" | .all => "All" | .archive => "Archive" | .drafts => "Drafts"
  | .flagged => "Flagged" | .junk => "Junk" | .sent => "Sent" | .trash => "Trash"
  | .extension s => sx "Extension" [bs s]

def mailboxDatum : MailboxDatum → String
  | .exists_ n => sx "Exists" [nat n]
  | .flags v => sx "Flags" [lst (v.map bs)]
  | .list a d n => sx "List" [lst (a.map nameAttribute), opt bs d, bs n]
  | .search v => sx "Search" [lst (v.map nat)]
  | .sort v => sx "Sort" [lst (v.map nat)]
  | .status m s => sx "Status" [bs m, lst (s.map statusAttribute)]
  | .recent n => sx "Recent" [nat n]
  | .metadataSolicited m v => sx "MetadataSolicited" [bs m, lst (v.map metadata)]
  | .metadataUnsolicited m v => sx "MetadataUnsolicited" [bs m, lst (v.map bs)]
  | .gmailLabels v => sx "GmailLabels" [lst (v.map bs)]
  | .gmailMsgId n => sx "GmailMsgId" [nat n]

def messageSection : MessageSection → String
  | .header => "Header" | .mime => "Mime" | .text => "Text"

def sectionPath : SectionPath → String
  | .full s => sx "Full" [messageSection s]
  | .part p s => sx "Part" [lst (p.map nat), opt messageSection s]

def address (a : Address) : String :=
  sx "Address" [opt bs a.name, opt bs a.adl, opt bs a.mailbox, opt bs a.host]

def addresses (v : Option (List Address)) : String := opt (fun l => lst (l.map address)) v

def envelope (e : Envelope) : String :=
  sx "Envelope" [opt bs e.date, opt bs e.subject, addresses e.from_, addresses e.sender,
    addresses e.replyTo, addresses e.to, addresses e.cc, addresses e.bcc, opt bs e.inReplyTo,
    opt bs e.messageId]

def bodyParams (p : BodyParams) : String :=
  opt (fun l => lst (l.map fun kv => sx "P" [bs kv.1, bs kv.2])) p

def contentType (t : ContentType) : String := sx "ContentType" [bs t.ty, bs t.subtype, bodyParams t.params]

def contentDisposition (d : ContentDisposition) : String := sx "Disposition" [bs d.ty, bodyParams d.params]

def contentEncoding : ContentEncoding → String
  | .sevenBit => "SevenBit" | .eightBit => "EightBit" | .binary => "Binary" | .base64 => "Base64"
  | .quotedPrintable => "QuotedPrintable"
  | .other s => sx "Other" [bs s]

def common (c : BodyContentCommon) : String :=
  sx "Common" [contentType c.ty, opt contentDisposition c.disposition,
    opt (fun l => lst (l.map bs)) c.language, opt bs c.location]

def single (o : BodyContentSinglePart) : String :=
  sx "Single" [opt bs o.id, opt bs o.md5, opt bs o.description, contentEncoding o.transferEncoding,
    nat o.octets]

mutual
  def bodyExtension : BodyExtension → String
    | .num n => sx "Num" [nat n]
    | .str s => sx "Str" [opt bs s]
    | .list v => sx "List" [lst (bodyExtensions v)]
  def bodyExtensions : List BodyExtension → List String
    | [] => []
    | x :: xs => bodyExtension x :: bodyExtensions xs
end

mutual
  def bodyStructure : BodyStructure → String
    | .basic c o e => sx "Basic" [common c, single o, opt bodyExtension e]
    | .text c o l e => sx "Text" [common c, single o, nat l, opt bodyExtension e]
    | .message c o env b l e =>
      sx "Message" [common c, single o, envelope env, bodyStructure b, nat l, opt bodyExtension e]
    | .multipart c bs e => sx "Multipart" [common c, lst (bodyStructures bs), opt bodyExtension e]
  def bodyStructures : List BodyStructure → List String
    | [] => []
    | x :: xs => bodyStructure x :: bodyStructures xs
end

def attributeValue : AttributeValue → String
  | .bodySection s i d => sx "BodySection" [opt sectionPath s, opt nat i, opt bs d]
  | .bodyStructure b => sx "BodyStructure" [bodyStructure b]
  | .envelope e => envelope e
  | .flags v => sx "Flags" [lst (v.map bs)]
  | .internalDate s => sx "InternalDate" [bs s]
  | .modSeq n => sx "ModSeq" [nat n]
  | .rfc822 v => sx "Rfc822" [opt bs v]
  | .rfc822Header v => sx "Rfc822Header" [opt bs v]
  | .rfc822Size n => sx "Rfc822Size" [nat n]
  | .rfc822Text v => sx "Rfc822Text" [opt bs v]
  | .uid n => sx "Uid" [nat n]
  | .gmailLabels v => sx "GmailLabels" [lst (v.map bs)]
  | .gmailMsgId n => sx "GmailMsgId" [nat n]

def aclRight : AclRight → String
  | .lookup => "l" | .read => "r" | .seen => "s" | .write => "w" | .insert => "i" | .post => "p"
  | .createMailbox => "k" | .deleteMailbox => "x" | .deleteMessage => "t" | .expunge => "e"
  | .administer => "a" | .annotation => "n" | .oldCreate => "c" | .oldDelete => "d"
  | .custom c => sx "Custom" [nat c]

def aclEntry (e : AclEntry) : String := sx "AclEntry" [bs e.identifier, lst (e.rights.map aclRight)]

def quotaResourceName : QuotaResourceName → String
  | .storage => "Storage" | .message => "Message"
  | .atom s => sx "Atom" [bs s]

def quotaResource (r : QuotaResource) : String :=
  sx "Resource" [quotaResourceName r.name, nat r.usage, nat r.limit]

/-! ID map: `HashMap` semantics = last write wins per key; printed sorted by key -/

def bytesLt : Bytes → Bytes → Bool
  | [], [] => false
  | [], _ :: _ => true
  | _ :: _, [] => false
  | a :: as, b :: bs => if a < b then true else if b < a then false else bytesLt as bs

def insertSorted (kv : Bytes × Bytes) : List (Bytes × Bytes) → List (Bytes × Bytes)
  | [] => [kv]
  | x :: xs =>
    if x.1 == kv.1 then kv :: xs
    else if bytesLt kv.1 x.1 then kv :: x :: xs
    else x :: insertSorted kv xs

/-- fold the pairs in wire order into a sorted association list, later keys overwriting earlier -/
def idCanon (m : List (Bytes × Bytes)) : List (Bytes × Bytes) :=
  m.foldl (fun acc kv => insertSorted kv acc) []

def idMap (m : List (Bytes × Bytes)) : String :=
  lst ((idCanon m).map fun kv => sx "KV" [bs kv.1, bs kv.2])

def response : Response → String
  | .capabilities v => sx "Capabilities" [lst (v.map capability)]
  | .continue_ c i => sx "Continue" [opt responseCode c, opt bs i]
  | .done t s c i => sx "Done" [bs t, status s, opt responseCode c, opt bs i]
  | .data s c i => sx "Data" [status s, opt responseCode c, opt bs i]
  | .expunge n => sx "Expunge" [nat n]
  | .vanished e u => sx "Vanished" [bool e, lst (u.map fun r => sx "R" [nat r.1, nat r.2])]
  | .fetch n a => sx "Fetch" [nat n, lst (a.map attributeValue)]
  | .mailboxData d => sx "MailboxData" [mailboxDatum d]
  | .quota q => sx "Quota" [bs q.rootName, lst (q.resources.map quotaResource)]
  | .quotaRoot q => sx "QuotaRoot" [bs q.mailboxName, lst (q.quotaRootNames.map bs)]
  | .id m => sx "Id" [opt idMap m]
  | .acl a => sx "Acl" [bs a.mailbox, lst (a.acls.map aclEntry)]
  | .listRights r =>
    sx "ListRights" [bs r.mailbox, bs r.identifier, lst (r.required.map aclRight),
      lst (r.optional.map aclRight)]
  | .myRights r => sx "MyRights" [bs r.mailbox, lst (r.rights.map aclRight)]

end Ser
