/-
  Model of the three `into_owned` functions of types.rs that `Response::into_owned` does not reach:
  `BodyFields`, `BodyExt1Part`, `BodyExtMPart` (public building blocks used by the body-structure
  parser), written field by field in the order of the Rust source.
-/
import ImapVerif.Owned
import ImapVerif.Grammar.Body

namespace Owned

open Grammar

def bodyFields (f : BodyFields) : BodyFields :=
  { param := bodyParams f.param, id := f.id.map cow, description := f.description.map cow,
    transferEncoding := contentEncoding f.transferEncoding, octets := f.octets }

def bodyExt1Part (x : BodyExt1Part) : BodyExt1Part :=
  { md5 := x.md5.map cow, disposition := x.disposition.map contentDisposition,
    language := x.language.map fun v => v.map cow, location := x.location.map cow,
    extension := optExt x.extension }

def bodyExtMPart (x : BodyExtMPart) : BodyExtMPart :=
  { param := bodyParams x.param, disposition := x.disposition.map contentDisposition,
    language := x.language.map fun v => v.map cow, location := x.location.map cow,
    extension := optExt x.extension }

end Owned
