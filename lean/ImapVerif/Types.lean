/-
  Model of imap-proto's response type tree (types.rs, types/acls.rs).
  `Cow<str>` / `String` are UTF-8-valid `Bytes` (validity is established where the parser converts),
  `Cow<[u8]>` is `Bytes`, `u32`/`u64` are `Nat` (range established by `number`), `RangeInclusive<u32>`
  is a pair, the ID `HashMap` is the association list in wire order (compared after last-write-wins
  dedup and sort), `char` is its scalar value.
-/
import ImapVerif.Bytes

inductive Status | ok | no | bad | preAuth | bye
deriving Repr, DecidableEq

inductive Capability
  | imap4rev1
  | auth (s : Bytes)
  | atom (s : Bytes)
deriving Repr, DecidableEq

inductive UidSetMember
  | uidRange (lo hi : Nat)
  | uid (n : Nat)
deriving Repr, DecidableEq

inductive ResponseCode
  | alert
  | badCharset (v : Option (List Bytes))
  | capabilities (v : List Capability)
  | highestModSeq (n : Nat)
  | parse
  | permanentFlags (v : List Bytes)
  | readOnly
  | readWrite
  | tryCreate
  | uidNext (n : Nat)
  | uidValidity (n : Nat)
  | unseen (n : Nat)
  | appendUid (n : Nat) (uids : List UidSetMember)
  | copyUid (n : Nat) (src dst : List UidSetMember)
  | uidNotSticky
  | metadataLongEntries (n : Nat)
  | metadataMaxSize (n : Nat)
  | metadataTooMany
  | metadataNoPrivate
deriving Repr, DecidableEq

inductive StatusAttribute
  | highestModSeq (n : Nat)
  | messages (n : Nat)
  | recent (n : Nat)
  | uidNext (n : Nat)
  | uidValidity (n : Nat)
  | unseen (n : Nat)
deriving Repr, DecidableEq

structure Metadata where
  entry : Bytes
  value : Option Bytes
deriving Repr, DecidableEq

inductive NameAttribute
  | noInferiors | noSelect | marked | unmarked
  | all | archive | drafts | flagged | junk | sent | trash
  | extension (s : Bytes)
deriving Repr, DecidableEq

inductive MailboxDatum
  | exists_ (n : Nat)
  | flags (v : List Bytes)
  | list (nameAttributes : List NameAttribute) (delimiter : Option Bytes) (name : Bytes)
  | search (v : List Nat)
  | sort (v : List Nat)
  | status (mailbox : Bytes) (status : List StatusAttribute)
  | recent (n : Nat)
  | metadataSolicited (mailbox : Bytes) (values : List Metadata)
  | metadataUnsolicited (mailbox : Bytes) (values : List Bytes)
  | gmailLabels (v : List Bytes)
  | gmailMsgId (n : Nat)
deriving Repr, DecidableEq

inductive MessageSection | header | mime | text
deriving Repr, DecidableEq

inductive SectionPath
  | full (s : MessageSection)
  | part (path : List Nat) (s : Option MessageSection)
deriving Repr, DecidableEq

structure Address where
  name : Option Bytes
  adl : Option Bytes
  mailbox : Option Bytes
  host : Option Bytes
deriving Repr, DecidableEq

structure Envelope where
  date : Option Bytes
  subject : Option Bytes
  from_ : Option (List Address)
  sender : Option (List Address)
  replyTo : Option (List Address)
  to : Option (List Address)
  cc : Option (List Address)
  bcc : Option (List Address)
  inReplyTo : Option Bytes
  messageId : Option Bytes
deriving Repr, DecidableEq

abbrev BodyParams := Option (List (Bytes × Bytes))

structure ContentType where
  ty : Bytes
  subtype : Bytes
  params : BodyParams
deriving Repr, DecidableEq

structure ContentDisposition where
  ty : Bytes
  params : BodyParams
deriving Repr, DecidableEq

inductive ContentEncoding
  | sevenBit | eightBit | binary | base64 | quotedPrintable
  | other (s : Bytes)
deriving Repr, DecidableEq

structure BodyContentCommon where
  ty : ContentType
  disposition : Option ContentDisposition
  language : Option (List Bytes)
  location : Option Bytes
deriving Repr, DecidableEq

structure BodyContentSinglePart where
  id : Option Bytes
  md5 : Option Bytes
  description : Option Bytes
  transferEncoding : ContentEncoding
  octets : Nat
deriving Repr, DecidableEq

inductive BodyExtension
  | num (n : Nat)
  | str (s : Option Bytes)
  | list (v : List BodyExtension)
deriving Repr

inductive BodyStructure
  | basic (common : BodyContentCommon) (other : BodyContentSinglePart) (extension : Option BodyExtension)
  | text (common : BodyContentCommon) (other : BodyContentSinglePart) (lines : Nat)
      (extension : Option BodyExtension)
  | message (common : BodyContentCommon) (other : BodyContentSinglePart) (envelope : Envelope)
      (body : BodyStructure) (lines : Nat) (extension : Option BodyExtension)
  | multipart (common : BodyContentCommon) (bodies : List BodyStructure)
      (extension : Option BodyExtension)
deriving Repr

inductive AttributeValue
  | bodySection (sect : Option SectionPath) (index : Option Nat) (data : Option Bytes)
  | bodyStructure (b : BodyStructure)
  | envelope (e : Envelope)
  | flags (v : List Bytes)
  | internalDate (s : Bytes)
  | modSeq (n : Nat)
  | rfc822 (v : Option Bytes)
  | rfc822Header (v : Option Bytes)
  | rfc822Size (n : Nat)
  | rfc822Text (v : Option Bytes)
  | uid (n : Nat)
  | gmailLabels (v : List Bytes)
  | gmailMsgId (n : Nat)
deriving Repr

inductive AclRight
  | lookup | read | seen | write | insert | post | createMailbox | deleteMailbox | deleteMessage
  | expunge | administer | annotation | oldCreate | oldDelete
  | custom (c : Nat)
deriving Repr, DecidableEq

structure AclEntry where
  identifier : Bytes
  rights : List AclRight
deriving Repr, DecidableEq

structure Acl where
  mailbox : Bytes
  acls : List AclEntry
deriving Repr, DecidableEq

structure ListRights where
  mailbox : Bytes
  identifier : Bytes
  required : List AclRight
  optional : List AclRight
deriving Repr, DecidableEq

structure MyRights where
  mailbox : Bytes
  rights : List AclRight
deriving Repr, DecidableEq

inductive QuotaResourceName
  | storage | message
  | atom (s : Bytes)
deriving Repr, DecidableEq

structure QuotaResource where
  name : QuotaResourceName
  usage : Nat
  limit : Nat
deriving Repr, DecidableEq

structure Quota where
  rootName : Bytes
  resources : List QuotaResource
deriving Repr, DecidableEq

structure QuotaRoot where
  mailboxName : Bytes
  quotaRootNames : List Bytes
deriving Repr, DecidableEq

inductive Response
  | capabilities (v : List Capability)
  | continue_ (code : Option ResponseCode) (information : Option Bytes)
  | done (tag : Bytes) (status : Status) (code : Option ResponseCode) (information : Option Bytes)
  | data (status : Status) (code : Option ResponseCode) (information : Option Bytes)
  | expunge (n : Nat)
  | vanished (earlier : Bool) (uids : List (Nat × Nat))
  | fetch (n : Nat) (attrs : List AttributeValue)
  | mailboxData (d : MailboxDatum)
  | quota (q : Quota)
  | quotaRoot (q : QuotaRoot)
  | id (m : Option (List (Bytes × Bytes)))
  | acl (a : Acl)
  | listRights (r : ListRights)
  | myRights (r : MyRights)
deriving Repr

/-- `impl From<char> for AclRight` -/
def AclRight.ofChar (c : Nat) : AclRight :=
  if c = 108 then .lookup else if c = 114 then .read else if c = 115 then .seen
  else if c = 119 then .write else if c = 105 then .insert else if c = 112 then .post
  else if c = 107 then .createMailbox else if c = 120 then .deleteMailbox
  else if c = 116 then .deleteMessage else if c = 101 then .expunge
  else if c = 97 then .administer else if c = 110 then .annotation
  else if c = 99 then .oldCreate else if c = 100 then .oldDelete
  else .custom c
