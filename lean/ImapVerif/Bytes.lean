/-
  Bytes: the common byte-string representation of the model (core Lean only).
-/
abbrev Bytes := List UInt8

/- `b!"FETCH "` expands, at elaboration time, to the list of byte numerals of the UTF-8 encoding of
    the literal.  (`String.toUTF8` does not reduce in the kernel; a list of numerals does.) -/
open Lean in
macro "b!" s:str : term => do
  let bytes := s.getString.toUTF8.toList
  let elems : Array (TSyntax `term) :=
    (bytes.map fun c => (Syntax.mkNumLit (toString c.toNat) : TSyntax `term)).toArray
  `(([ $elems,* ] : List UInt8))

namespace Bytes

def lower (c : UInt8) : UInt8 := if 65 ≤ c ∧ c ≤ 90 then c + 32 else c

def isDigit (c : UInt8) : Bool := 48 ≤ c && c ≤ 57
def digitVal (c : UInt8) : Nat := c.toNat - 48
def decVal (ds : Bytes) : Nat := ds.foldl (fun acc d => acc * 10 + digitVal d) 0

def digitOf (k : Nat) : UInt8 := UInt8.ofNat (48 + k)

/-- canonical decimal digits of `n` (what Rust's `to_string` prints for an unsigned integer) -/
def decDigits (n : Nat) : Bytes :=
  if _h : n < 10 then [digitOf n] else decDigits (n / 10) ++ [digitOf (n % 10)]
termination_by n
decreasing_by omega

/-- `a` is a prefix of `b` (Rust `starts_with`) -/
def startsWith : Bytes → Bytes → Bool
  | _, [] => true
  | [], _ :: _ => false
  | x :: xs, p :: ps => x == p && startsWith xs ps

def eqIgnoreAsciiCase : Bytes → Bytes → Bool
  | [], [] => true
  | a :: as, b :: bs => lower a == lower b && eqIgnoreAsciiCase as bs
  | _, _ => false

/-! ### UTF-8 (model of `std::str::from_utf8` and `str::chars`), Unicode Table 3-7 -/

def isCont (c : UInt8) : Bool := 0x80 ≤ c && c ≤ 0xBF

/-- second byte of a 3-byte sequence (no overlongs, no surrogates) -/
def second3 (a b : UInt8) : Bool :=
  if a == 0xE0 then 0xA0 ≤ b && b ≤ 0xBF
  else if a == 0xED then 0x80 ≤ b && b ≤ 0x9F
  else isCont b

/-- second byte of a 4-byte sequence (no overlongs, at most U+10FFFF) -/
def second4 (a b : UInt8) : Bool :=
  if a == 0xF0 then 0x90 ≤ b && b ≤ 0xBF
  else if a == 0xF4 then 0x80 ≤ b && b ≤ 0x8F
  else isCont b

def ok2 (a b : UInt8) : Bool := 0xC2 ≤ a && a ≤ 0xDF && isCont b
def ok3 (a b c : UInt8) : Bool := 0xE0 ≤ a && a ≤ 0xEF && second3 a b && isCont c
def ok4 (a b c d : UInt8) : Bool := 0xF0 ≤ a && a ≤ 0xF4 && second4 a b && isCont c && isCont d

def cp2 (a b : UInt8) : Nat := (a.toNat - 0xC0) * 64 + (b.toNat - 0x80)
def cp3 (a b c : UInt8) : Nat := (a.toNat - 0xE0) * 4096 + (b.toNat - 0x80) * 64 + (c.toNat - 0x80)
def cp4 (a b c d : UInt8) : Nat :=
  (a.toNat - 0xF0) * 262144 + (b.toNat - 0x80) * 4096 + (c.toNat - 0x80) * 64 + (d.toNat - 0x80)

/-- decode one scalar value from the front: `some (codepoint, rest)` or `none` if ill-formed.
    (The lead-byte ranges of the three multi-byte forms are disjoint, so the order of the tests does
    not matter.) -/
def decodeOne : Bytes → Option (Nat × Bytes)
  | [] => none
  | a :: r =>
    if a < 0x80 then some (a.toNat, r)
    else
      match r with
      | [] => none
      | b :: r1 =>
        if ok2 a b then some (cp2 a b, r1)
        else
          match r1 with
          | [] => none
          | c :: r2 =>
            if ok3 a b c then some (cp3 a b c, r2)
            else
              match r2 with
              | [] => none
              | d :: r3 => if ok4 a b c d then some (cp4 a b c d, r3) else none

/-- all scalar values of a byte string, or `none` if it is not well-formed UTF-8 -/
def decodeUtf8Go : Nat → Bytes → List Nat → Option (List Nat)
  | _, [], acc => some acc.reverse
  | 0, _ :: _, _ => none
  | fuel + 1, b, acc =>
    match decodeOne b with
    | some (cp, r) => decodeUtf8Go fuel r (cp :: acc)
    | none => none

def decodeUtf8 (b : Bytes) : Option (List Nat) := decodeUtf8Go b.length b []

def validUtf8 (b : Bytes) : Bool := (decodeUtf8 b).isSome

/-! ### hex (driver protocol) -/

def hexDigit (n : Nat) : Char := if n < 10 then Char.ofNat (48 + n) else Char.ofNat (87 + n)

def toHex (b : Bytes) : String :=
  String.ofList (b.flatMap fun c => [hexDigit (c.toNat / 16), hexDigit (c.toNat % 16)])

def hexVal (c : Char) : Nat :=
  if '0' ≤ c ∧ c ≤ '9' then c.toNat - 48
  else if 'a' ≤ c ∧ c ≤ 'f' then c.toNat - 87
  else if 'A' ≤ c ∧ c ≤ 'F' then c.toNat - 55
  else 0

def ofHexGo : List Char → Bytes → Bytes
  | a :: c :: r, acc => ofHexGo r (UInt8.ofNat (hexVal a * 16 + hexVal c) :: acc)
  | _, acc => acc.reverse

def ofHex (s : String) : Bytes := ofHexGo s.toList []

end Bytes
