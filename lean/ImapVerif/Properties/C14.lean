/-
  C14 - Typed builders emit exactly the command requested, and only grammatical ones.

  `CmdGrammar` is the `fetch` production of RFC 3501 section 9 with `sequence-set`, the
  `fetch-modifiers` of RFC 4466 and `CHANGEDSINCE` of RFC 4551 (plus the two Gmail items), written as
  derivation relations from the RFCs, independently of the builder model.  The theorem: every call
  sequence the typestates admit (`Builders.run` = the transitions of the `impl` blocks) yields a line
  derivable from the grammar whose message set, items or macro and modifier are precisely the calls
  made, in order.
-/
import ImapVerif.Builders

open Bytes Builders

namespace CmdGrammar

/-- fetch-att keywords (RFC 3501 section 9, RFC 4551 section 4, Gmail IMAP extensions) -/
def rfcAtt : Attribute → Bytes
  | .body => b!"BODY"
  | .envelope => b!"ENVELOPE"
  | .flags => b!"FLAGS"
  | .internalDate => b!"INTERNALDATE"
  | .modSeq => b!"MODSEQ"
  | .rfc822 => b!"RFC822"
  | .rfc822Size => b!"RFC822.SIZE"
  | .rfc822Text => b!"RFC822.TEXT"
  | .uid => b!"UID"
  | .gmailLabels => b!"X-GM-LABELS"
  | .gmailMsgId => b!"X-GM-MSGID"

def rfcMacro : AttrMacro → Bytes
  | .all => b!"ALL"
  | .fast => b!"FAST"
  | .full => b!"FULL"

/-- seq-number / seq-range (nz-number, `*` as the upper end) -/
inductive SeqItem : Call → Bytes → Prop
  | num (n : Nat) : 0 < n → SeqItem (.num n) (decDigits n)
  | range (a b : Nat) : 0 < a → 0 < b → SeqItem (.range a b) (decDigits a ++ b!":" ++ decDigits b)
  | rangeFrom (a : Nat) : 0 < a → SeqItem (.rangeFrom a) (decDigits a ++ b!":*")

/-- sequence-set = (seq-number / seq-range) *("," sequence-set) -/
inductive SeqSet : List Call → Bytes → Prop
  | one (c : Call) (e : Bytes) : SeqItem c e → SeqSet [c] e
  | snoc (cs : List Call) (es : Bytes) (c : Call) (e : Bytes) :
      SeqSet cs es → SeqItem c e → SeqSet (cs ++ [c]) (es ++ b!"," ++ e)

/-- fetch-att *(SP fetch-att) -/
inductive AttList : List Attribute → Bytes → Prop
  | one (a : Attribute) : AttList [a] (rfcAtt a)
  | snoc (as : List Attribute) (e : Bytes) (a : Attribute) :
      AttList as e → AttList (as ++ [a]) (e ++ b!" " ++ rfcAtt a)

inductive Items
  | macro (m : AttrMacro)
  | atts (as : List Attribute)

/-- "ALL" / "FULL" / "FAST" / "(" fetch-att *(SP fetch-att) ")" -/
inductive ItemsEnc : Items → Bytes → Prop
  | macro (m : AttrMacro) : ItemsEnc (.macro m) (rfcMacro m)
  | atts (as : List Attribute) (e : Bytes) : AttList as e → ItemsEnc (.atts as) (b!"(" ++ e ++ b!")")

/-- [SP "(" "CHANGEDSINCE" SP mod-sequence-value ")"] : at most one modifier list -/
inductive ModEnc : Option Nat → Bytes → Prop
  | none : ModEnc none []
  | changedSince (n : Nat) : 0 < n → ModEnc (some n) (b!" (CHANGEDSINCE " ++ decDigits n ++ b!")")

structure FetchAst where
  uid : Bool
  set : List Call
  items : Items
  changedSince : Option Nat

/-- fetch = ["UID" SP] "FETCH" SP sequence-set SP items [fetch-modifiers] -/
inductive Fetch : FetchAst → Bytes → Prop
  | mk (uid : Bool) (set : List Call) (items : Items) (cs : Option Nat) (e1 e2 e3 : Bytes) :
      SeqSet set e1 → ItemsEnc items e2 → ModEnc cs e3 →
      Fetch ⟨uid, set, items, cs⟩ ((if uid then b!"UID FETCH " else b!"FETCH ") ++ e1 ++ b!" " ++ e2 ++ e3)

/-- the calls an AST stands for, in order -/
def callsOf (a : FetchAst) : List Call :=
  a.set ++
  (match a.items with
   | .macro m => [Call.attrMacro m]
   | .atts as => as.map Call.attr) ++
  (match a.changedSince with
   | none => []
   | some n => [Call.changedSince n])

end CmdGrammar

namespace C14

open CmdGrammar

/-- the arguments are non-zero message numbers / mod-sequence values -/
def NonZero : Call → Prop
  | .num n => 0 < n
  | .range a b => 0 < a ∧ 0 < b
  | .rangeFrom a => 0 < a
  | .changedSince n => 0 < n
  | _ => True

theorem attrName_rfc (a : Attribute) : attrName a = rfcAtt a := by cases a <;> rfl
theorem macroName_rfc (m : AttrMacro) : macroName m = rfcMacro m := by cases m <;> rfl

/-- what the builder holds after a history of calls -/
inductive Reach (pfx : Bytes) : FState → Bytes → List Call → Prop
  | empty : Reach pfx .empty pfx []
  | messages (set : List Call) (e : Bytes) : SeqSet set e → Reach pfx .messages (pfx ++ e) set
  | attributes (set : List Call) (e : Bytes) (as : List Attribute) (e2 : Bytes) :
      SeqSet set e → AttList as e2 →
      Reach pfx .attributes (pfx ++ e ++ b!" (" ++ e2) (set ++ as.map Call.attr)
  | modifiers (set : List Call) (e : Bytes) (m : AttrMacro) :
      SeqSet set e → Reach pfx .modifiers (pfx ++ e ++ b!" " ++ rfcMacro m) (set ++ [Call.attrMacro m])
  | complete (a : FetchAst) (e1 e2 e3 : Bytes) :
      SeqSet a.set e1 → ItemsEnc a.items e2 → ModEnc a.changedSince e3 → a.changedSince ≠ none →
      Reach pfx .complete (pfx ++ e1 ++ b!" " ++ e2 ++ e3) (callsOf a)

theorem seqItem_enc (c : Call) (s : Bytes) (h : seqItem c = some s) (hz : NonZero c) : SeqItem c s := by
  cases c <;> simp [seqItem] at h
  · subst h; exact SeqItem.num _ hz
  · subst h; have := SeqItem.range _ _ hz.1 hz.2; simpa using this
  · subst h; have := SeqItem.rangeFrom _ hz; simpa using this

theorem step_reach (pfx : Bytes) (st : FState) (args : Bytes) (hist : List Call) (c : Call)
    (st' : FState) (args' : Bytes) (hr : Reach pfx st args hist) (hs : step st args c = some (st', args'))
    (hz : NonZero c) : Reach pfx st' args' (hist ++ [c]) := by
  cases hr with
  | empty =>
    cases c <;> simp [step] at hs
    all_goals
      obtain ⟨s, hs1, rfl, rfl⟩ := hs
      exact Reach.messages _ _ (SeqSet.one _ _ (seqItem_enc _ _ hs1 hz))
  | messages ms e hset =>
    cases c with
    | num n =>
      simp [step] at hs
      obtain ⟨s, hs1, rfl, rfl⟩ := hs
      have := Reach.messages (pfx := pfx) _ _ (SeqSet.snoc _ e _ s hset (seqItem_enc _ _ hs1 hz))
      simpa [List.append_assoc] using this
    | range a b =>
      simp [step] at hs
      obtain ⟨s, hs1, rfl, rfl⟩ := hs
      have := Reach.messages (pfx := pfx) _ _ (SeqSet.snoc _ e _ s hset (seqItem_enc _ _ hs1 hz))
      simpa [List.append_assoc] using this
    | rangeFrom a =>
      simp [step] at hs
      obtain ⟨s, hs1, rfl, rfl⟩ := hs
      have := Reach.messages (pfx := pfx) _ _ (SeqSet.snoc _ e _ s hset (seqItem_enc _ _ hs1 hz))
      simpa [List.append_assoc] using this
    | attr a =>
      simp [step] at hs
      obtain ⟨rfl, rfl⟩ := hs
      have := Reach.attributes (pfx := pfx) _ e [a] _ hset (AttList.one a)
      simpa [attrName_rfc, List.append_assoc] using this
    | attrMacro m =>
      simp [step] at hs
      obtain ⟨rfl, rfl⟩ := hs
      have := Reach.modifiers (pfx := pfx) _ e m hset
      simpa [macroName_rfc, List.append_assoc] using this
    | changedSince n => simp [step] at hs
  | attributes ms e as e2 hset hatt =>
    cases c with
    | attr a =>
      simp [step] at hs
      obtain ⟨rfl, rfl⟩ := hs
      have := Reach.attributes (pfx := pfx) ms e (as ++ [a]) _ hset (AttList.snoc as e2 a hatt)
      simpa [attrName_rfc, List.append_assoc] using this
    | changedSince n =>
      simp [step] at hs
      obtain ⟨rfl, rfl⟩ := hs
      have := Reach.complete (pfx := pfx) ⟨false, ms, .atts as, some n⟩ e _ _ hset
        (ItemsEnc.atts as e2 hatt) (ModEnc.changedSince n hz) (by simp)
      simpa [callsOf, changedSinceBytes, List.append_assoc] using this
    | num n => simp [step] at hs
    | range a b => simp [step] at hs
    | rangeFrom a => simp [step] at hs
    | attrMacro m => simp [step] at hs
  | modifiers ms e m hset =>
    cases c with
    | changedSince n =>
      simp [step] at hs
      obtain ⟨rfl, rfl⟩ := hs
      have := Reach.complete (pfx := pfx) ⟨false, ms, .macro m, some n⟩ e _ _ hset
        (ItemsEnc.macro m) (ModEnc.changedSince n hz) (by simp)
      simpa [callsOf, changedSinceBytes, List.append_assoc] using this
    | num n => simp [step] at hs
    | range a b => simp [step] at hs
    | rangeFrom a => simp [step] at hs
    | attr a => simp [step] at hs
    | attrMacro m => simp [step] at hs
  | complete a e1 e2 e3 _ _ _ _ =>
    cases c <;> simp [step] at hs

theorem run_reach (pfx : Bytes) : ∀ (calls : List Call) (st : FState) (args : Bytes) (hist : List Call)
    (st' : FState) (args' : Bytes), Reach pfx st args hist → run st args calls = some (st', args') →
    (∀ c ∈ calls, NonZero c) → Reach pfx st' args' (hist ++ calls) := by
  intro calls
  induction calls with
  | nil =>
    intro st args hist st' args' hr h _
    simp [run] at h
    obtain ⟨rfl, rfl⟩ := h
    simpa using hr
  | cons c cs ih =>
    intro st args hist st' args' hr h hz
    simp only [run] at h
    split at h
    · rename_i st1 args1 hs
      have := step_reach pfx st args hist c st1 args1 hr hs (hz c (by simp))
      have := ih st1 args1 (hist ++ [c]) st' args' this h (fun x hx => hz x (by simp [hx]))
      simpa using this
    · cases h

/-- **C14**: every call sequence the typestates admit, with non-zero numbers, converts into a line
    derivable from the `fetch` grammar whose set, items / macro and modifier are precisely the calls
    made, in order -/
theorem fetch_grammatical (uid : Bool) (calls : List Call) (line : Bytes)
    (h : fetchCommand uid calls = some line) (hz : ∀ c ∈ calls, NonZero c) :
    ∃ a : FetchAst, a.uid = uid ∧ callsOf a = calls ∧ Fetch a line := by
  unfold fetchCommand at h
  split at h <;> try cases h
  rename_i st args hrun
  have hr := run_reach (if uid then b!"UID FETCH " else b!"FETCH ") calls .empty _ [] st args
    Reach.empty hrun hz
  simp only [List.nil_append] at hr
  cases hr with
  | empty => simp [finish] at h
  | messages ms e hset => simp [finish] at h
  | attributes ms e as e2 hset hatt =>
    simp [finish] at h
    subst h
    refine ⟨⟨uid, ms, .atts as, none⟩, rfl, by simp [callsOf], ?_⟩
    have := Fetch.mk uid ms (.atts as) none e _ _ hset (ItemsEnc.atts as e2 hatt) ModEnc.none
    simpa [List.append_assoc] using this
  | modifiers ms e m hset =>
    simp [finish] at h
    subst h
    refine ⟨⟨uid, ms, .macro m, none⟩, rfl, by simp [callsOf], ?_⟩
    have := Fetch.mk uid ms (.macro m) none e _ _ hset (ItemsEnc.macro m) ModEnc.none
    simpa [List.append_assoc] using this
  | complete a e1 e2 e3 hset hit hmod hne =>
    simp [finish] at h
    subst h
    refine ⟨⟨uid, a.set, a.items, a.changedSince⟩, rfl, by simp [callsOf], ?_⟩
    have := Fetch.mk uid a.set a.items a.changedSince e1 e2 e3 hset hit hmod
    simpa [List.append_assoc] using this

/-- after the repair the typestates admit no second modifier list -/
theorem no_second_changed_since (uid : Bool) (pre : List Call) (a b : Nat) :
    fetchCommand uid (pre ++ [Call.changedSince a, Call.changedSince b]) = none := by
  unfold fetchCommand
  suffices ∀ st args, run st args (pre ++ [Call.changedSince a, Call.changedSince b]) = none by
    rw [this]
  induction pre with
  | nil =>
    intro st args
    cases st <;> simp [run, step]
  | cons c cs ih =>
    intro st args
    simp only [List.cons_append, run]
    split
    · exact ih _ _
    · rfl

/-! non-vacuity -/
example : fetchCommand true [.num 1, .range 2 4294967295, .attr .envelope, .attr .uid, .changedSince 7]
    = some (b!"UID FETCH 1,2:4294967295 (ENVELOPE UID) (CHANGEDSINCE 7)") := by
  simp [fetchCommand, run, step, seqItem, finish, changedSinceBytes, attrName, decDigits, digitOf]
example : fetchCommand false [.rangeFrom 3, .attrMacro .full] = some (b!"FETCH 3:* FULL") := by
  simp [fetchCommand, run, step, seqItem, finish, macroName, decDigits, digitOf]

end C14
