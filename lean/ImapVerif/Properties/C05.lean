/-
  C05 - A command's response stream is delimited by its own tagged completion.
  Theorems about one poll of `ResponseStream::poll_next` (model `Client.Stream.pollNext`) in any state,
  under any transport script, and - at the end of the file - about the whole life of a command's
  stream from `call` to its completion (`command_stream_is_delimited`, composing the per-poll facts
  with C04's one-poll specification of the framed transport).
  Not provable here (observed with the mock transport): that the waker registered is the transport's.
-/
import ImapVerif.Proofs.ClientInv
import ImapVerif.Proofs.Framed
import ImapVerif.Proofs.Session

open Bytes Client ClientInv Framed Session

namespace C05

/-- the stream ends (`None`) only in `Done`, and in `Done` it ends forever without touching the
    connection: every later byte is left for the next command -/
theorem done_is_final (s : RStream) (c : Conn) (rs : List REv) (ws : List WEv) (h : s.st = .done) :
    (Stream.pollNext s c rs ws).res = .done ∧ (Stream.pollNext s c rs ws).s = s ∧
    (Stream.pollNext s c rs ws).c = c :=
  (pollNext_facts s c rs ws).2.2.2.2.2.1 h

/-- it never ends silently: before its completion a poll yields an item, an error or Pending, never
    `None` - in particular end of file or a malformed response before the completion is an error item -/
theorem no_silent_end (s : RStream) (c : Conn) (rs : List REv) (ws : List WEv) (h : s.st ≠ .done) :
    (Stream.pollNext s c rs ws).res ≠ .done :=
  (pollNext_facts s c rs ws).2.2.2.2.2.2.1 h

/-- the stream enters `Done` exactly when it delivers a tagged completion carrying its own tag;
    that completion is delivered (it is the last item) -/
theorem ends_at_own_completion (s : RStream) (c : Conn) (rs : List REv) (ws : List WEv) (h : s.st ≠ .done) :
    (Stream.pollNext s c rs ws).s.st = .done ↔
      ∃ f, (Stream.pollNext s c rs ws).res = .item (.frame f) ∧ requestId f.value = some s.tag :=
  (pollNext_facts s c rs ws).2.2.2.2.2.2.2.1 h

/-- in `Receiving`, what the stream delivers is what the framed transport delivers at that moment
    (frame for frame), end of the transport stream becomes an error item, and the bytes the
    transport has not consumed stay where they are -/
theorem receiving_forwards_transport (s : RStream) (c : Conn) (rs : List REv) (ws : List WEv)
    (h : s.st = .receiving) :
    ∃ r rd' rs' n, pollNext c.rd rs = (r, rd', rs', n) ∧
      (Stream.pollNext s c rs ws).c.rd = rd' ∧ (Stream.pollNext s c rs ws).rs = rs' ∧
      (match r with
       | .pending => (Stream.pollNext s c rs ws).res = .pending
       | .item (.frame f) => (Stream.pollNext s c rs ws).res = .item (.frame f)
       | .item .error => (Stream.pollNext s c rs ws).res = .item .error
       | .done => (Stream.pollNext s c rs ws).res = .item .error) := by
  rw [pollNext_receiving s c rs ws h]
  obtain ⟨r, rd', rs', n, hp, hc, hrs, _, _, _, _, hm⟩ := recvStep_spec s c rs ws []
  refine ⟨r, rd', rs', n, hp, by rw [hc], hrs, ?_⟩
  cases r with
  | pending => exact hm.1
  | done => exact hm.1
  | item it => cases it with
    | error => exact hm.1
    | frame f => exact hm.1

/-- Pending is only ever propagated from the transport: in `Receiving`, a Pending poll means the
    framed transport reported Pending, which (C04) it does only when a read was not ready or the
    script (the peer) has nothing more -/
theorem pending_only_from_transport (s : RStream) (c : Conn) (rs : List REv) (ws : List WEv)
    (h : s.st = .receiving) (hp : (Stream.pollNext s c rs ws).res = .pending) :
    ∃ rd' n, pollNext c.rd rs = (.pending, rd', (Stream.pollNext s c rs ws).rs, n) := by
  rw [pollNext_receiving s c rs ws h] at hp ⊢
  exact recvStep_pending s c rs ws [] hp

/-- while flushing (`Start` / `Sending`), a Pending poll means a transport write or flush was not
    ready (or the script is exhausted) -/
theorem pending_while_sending (c : Wr) (ws : List WEv) (h : (pollFlush c ws).1 = .pending) :
    (pollFlush c ws).2.2.1 = [] ∨ ∃ pre, ws = pre ++ WEv.pending :: (pollFlush c ws).2.2.1 :=
  (pollFlush_spec c ws).2.2 h

/-! ### the whole life of a command -/

/-- **a command's stream, from `call` to its completion**: poll the stream returned by `call` any
    number of times, under any read / write / flush schedule, on a connection whose read half is
    healthy.  As long as no poll reports an error:
    * the frames delivered, followed by the one-shot framing of what the connection has not yet
      delivered, are the one-shot framing of the connection's byte stream: every response once, in
      order, none withheld past a Pending (C04 `nothing_withheld` applies to the same read half);
    * a frame carrying the command's own tag puts the stream in `Done`;
    * in `Done`, that completion is the last frame delivered and no earlier frame carried the tag:
      the stream stops exactly there, and everything after it is still in the connection (buffer
      or transport) for the next command. -/
theorem command_stream_is_delimited (k : Nat) (c : Conn) (args : Bytes) (rs : List REv) (ws : List WEv)
    (res : List PollR) (s' : RStream) (c' : Conn) (rs' : List REv) (ws' : List WEv)
    (he : c.rd.errored = false) (hs : Settled c.rd)
    (h : spolls k (c.call args).2 (c.call args).1 rs ws = (res, s', c', rs', ws'))
    (hne : ∀ r ∈ res, r ≠ .item .error) :
    framesOf res ++ ideal (c'.rd.rbuf ++ dataOf rs') = ideal (c.rd.rbuf ++ dataOf rs) ∧
    c'.rd.errored = false ∧ Settled c'.rd ∧
    (∀ f ∈ framesOf res, requestId f.value = some (Builders.tagOf (c.issued + 1)) → s'.st = .done) ∧
    (s'.st = .done → ∃ pre f, framesOf res = pre ++ [f] ∧ requestId f.value = some (Builders.tagOf (c.issued + 1)) ∧
      ∀ g ∈ pre, requestId g.value ≠ some (Builders.tagOf (c.issued + 1))) := by
  have := session_invariant k (c.call args).2 (c.call args).1 rs ws res s' c' rs' ws'
    (by simp [Conn.call]) (by simpa [Conn.call] using he) (by simpa [Conn.call] using hs) h hne
  obtain ⟨h1, h2, h3, _, h5, h6⟩ := this
  exact ⟨by simpa [Conn.call] using h1, h2, h3, by simpa [Conn.call] using h5, by simpa [Conn.call] using h6⟩

/-- the same from any live state of the stream (e.g. for the polls after an abandoned wait) -/
theorem live_stream_is_delimited (k : Nat) (s : RStream) (c : Conn) (rs : List REv) (ws : List WEv)
    (res : List PollR) (s' : RStream) (c' : Conn) (rs' : List REv) (ws' : List WEv)
    (hnd : s.st ≠ .done) (he : c.rd.errored = false) (hs : Settled c.rd)
    (h : spolls k s c rs ws = (res, s', c', rs', ws')) (hne : ∀ r ∈ res, r ≠ .item .error) :
    framesOf res ++ ideal (c'.rd.rbuf ++ dataOf rs') = ideal (c.rd.rbuf ++ dataOf rs) ∧
    (∀ f ∈ framesOf res, requestId f.value = some s.tag → s'.st = .done) ∧
    (s'.st = .done → ∃ pre f, framesOf res = pre ++ [f] ∧ requestId f.value = some s.tag ∧
      ∀ g ∈ pre, requestId g.value ≠ some s.tag) := by
  obtain ⟨h1, _, _, _, h5, h6⟩ := session_invariant k s c rs ws res s' c' rs' ws' hnd he hs h hne
  exact ⟨h1, h5, h6⟩

/-- once `Done`, any number of further polls deliver nothing and leave connection and scripts alone -/
theorem done_polls_touch_nothing (k : Nat) (s : RStream) (c : Conn) (rs : List REv) (ws : List WEv)
    (h : s.st = .done) : ∃ l, spolls k s c rs ws = (l, s, c, rs, ws) ∧ ∀ r ∈ l, r = .done := by
  obtain ⟨l, h1, _, h3⟩ := spolls_done k s c rs ws h
  exact ⟨l, h1, h3⟩

end C05
