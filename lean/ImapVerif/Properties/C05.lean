/-
  C05 - A command's response stream is delimited by its own tagged completion.
  Theorems about one poll of `ResponseStream::poll_next` (model `Client.Stream.pollNext`) in any state,
  under any transport script; items are the frames of the framed transport, whose order and
  completeness are C04's theorems.
  Not provable here (observed with the mock transport): that the waker registered is the transport's.
-/
import ImapVerif.Proofs.ClientInv
import ImapVerif.Proofs.Framed

open Bytes Client ClientInv

namespace C05

/-- the stream ends (`None`) only in `Done`, and in `Done` it ends forever without touching the
    connection: every later byte is left for the next command -/
theorem done_is_final (s : RStream) (c : Conn) (rs : List REv) (ws : List WEv) (h : s.st = .done) :
    (Stream.pollNext s c rs ws).res = .done ∧ (Stream.pollNext s c rs ws).s = s ∧
    (Stream.pollNext s c rs ws).c = c :=
  (pollNext_facts s c rs ws).2.2.2.2.2.1 h

/-- it never ends silently: before its completion a poll yields an item, an error or Pending, never
    `None` - in particular end of file or a malformed response before the completion is an error item -/
theorem no_silent_end (s : RStream) (c : Conn) (rs : List REv) (ws : List WEv) (h : s.st ≠ .done) :
    (Stream.pollNext s c rs ws).res ≠ .done :=
  (pollNext_facts s c rs ws).2.2.2.2.2.2.1 h

/-- the stream enters `Done` exactly when it delivers a tagged completion carrying its own tag;
    that completion is delivered (it is the last item) -/
theorem ends_at_own_completion (s : RStream) (c : Conn) (rs : List REv) (ws : List WEv) (h : s.st ≠ .done) :
    (Stream.pollNext s c rs ws).s.st = .done ↔
      ∃ f, (Stream.pollNext s c rs ws).res = .item (.frame f) ∧ requestId f.value = some s.tag :=
  (pollNext_facts s c rs ws).2.2.2.2.2.2.2.1 h

/-- in `Receiving`, what the stream delivers is what the framed transport delivers at that moment
    (frame for frame), end of the transport stream becomes an error item, and the bytes the
    transport has not consumed stay where they are -/
theorem receiving_forwards_transport (s : RStream) (c : Conn) (rs : List REv) (ws : List WEv)
    (h : s.st = .receiving) :
    ∃ r rd' rs' n, pollNext c.rd rs = (r, rd', rs', n) ∧
      (Stream.pollNext s c rs ws).c.rd = rd' ∧ (Stream.pollNext s c rs ws).rs = rs' ∧
      (match r with
       | .pending => (Stream.pollNext s c rs ws).res = .pending
       | .item (.frame f) => (Stream.pollNext s c rs ws).res = .item (.frame f)
       | .item .error => (Stream.pollNext s c rs ws).res = .item .error
       | .done => (Stream.pollNext s c rs ws).res = .item .error) := by
  rw [pollNext_receiving s c rs ws h]
  obtain ⟨r, rd', rs', n, hp, hc, hrs, _, _, _, _, hm⟩ := recvStep_spec s c rs ws []
  refine ⟨r, rd', rs', n, hp, by rw [hc], hrs, ?_⟩
  cases r with
  | pending => exact hm.1
  | done => exact hm.1
  | item it => cases it with
    | error => exact hm.1
    | frame f => exact hm.1

/-- Pending is only ever propagated from the transport: in `Receiving`, a Pending poll means the
    framed transport reported Pending, which (C04) it does only when a read was not ready or the
    script (the peer) has nothing more -/
theorem pending_only_from_transport (s : RStream) (c : Conn) (rs : List REv) (ws : List WEv)
    (h : s.st = .receiving) (hp : (Stream.pollNext s c rs ws).res = .pending) :
    ∃ rd' n, pollNext c.rd rs = (.pending, rd', (Stream.pollNext s c rs ws).rs, n) := by
  rw [pollNext_receiving s c rs ws h] at hp ⊢
  exact recvStep_pending s c rs ws [] hp

/-- while flushing (`Start` / `Sending`), a Pending poll means a transport write or flush was not
    ready (or the script is exhausted) -/
theorem pending_while_sending (c : Wr) (ws : List WEv) (h : (pollFlush c ws).1 = .pending) :
    (pollFlush c ws).2.2.1 = [] ∨ ∃ pre, ws = pre ++ WEv.pending :: (pollFlush c ws).2.2.1 :=
  (pollFlush_spec c ws).2.2 h

end C05
