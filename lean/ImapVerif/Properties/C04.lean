/-
  C04 - Framing is independent of how the byte stream is chunked; nothing is withheld.
  `Client.pollNext` models `Framed<_, ImapCodec>::poll_next` (tokio-util read loop + `ImapCodec::decode`),
  driven by an arbitrary script of transport read outcomes (data chunks of any size, Pending, EOF).
  `Framed.ideal` is the one-shot parse of a whole byte stream.
  The run invariant is stated for runs in which no poll reports an error (after an error the
  connection is unusable); the terminal behaviour (end of file, malformed bytes, the poll after an
  error) is covered by the one-poll theorems at the end of the file.
-/
import ImapVerif.Proofs.Framed

open Bytes Client Framed

namespace C04

theorem settled_fresh : Settled ({} : Rd) := by
  intro _; exact decodeC_nil

/-- the frames delivered, followed by the one-shot parse of what has not been delivered yet, are the
    one-shot parse of the whole stream: no frame is lost, duplicated, merged or torn, whatever the
    chunking and wherever Pending is injected -/
theorem frames_are_one_shot_prefix (k : Nat) (rs : List REv) (res : List PollR) (s' : Rd) (rs' : List REv)
    (h : polls k {} rs = (res, s', rs')) (hne : ∀ r ∈ res, r ≠ .item .error) :
    framesOf res ++ ideal (s'.rbuf ++ dataOf rs') = ideal (dataOf rs) := by
  have := (polls_ideal k {} rs res s' rs' h rfl settled_fresh hne).1
  simpa using this

/-- two schedules that deliver the same bytes - however differently they cut them - yield the same
    frames, up to what each has not yet delivered -/
theorem chunking_independent (k1 k2 : Nat) (rs1 rs2 : List REv) (hdata : dataOf rs1 = dataOf rs2)
    (res1 res2 : List PollR) (s1 s2 : Rd) (r1 r2 : List REv)
    (h1 : polls k1 {} rs1 = (res1, s1, r1)) (h2 : polls k2 {} rs2 = (res2, s2, r2))
    (n1 : ∀ r ∈ res1, r ≠ .item .error) (n2 : ∀ r ∈ res2, r ≠ .item .error) :
    framesOf res1 ++ ideal (s1.rbuf ++ dataOf r1) = framesOf res2 ++ ideal (s2.rbuf ++ dataOf r2) := by
  rw [frames_are_one_shot_prefix k1 rs1 res1 s1 r1 h1 n1, frames_are_one_shot_prefix k2 rs2 res2 s2 r2 h2 n2,
    hdata]

/-- a Pending means that nothing decodable is left in the buffer -/
theorem pending_nothing_decodable (s : Rd) (rs : List REv) (s' : Rd) (rs' : List REv) (n : Nat)
    (he : s.errored = false) (hs : Settled s) (h : pollNext s rs = (.pending, s', rs', n)) :
    decodeC s'.rbuf = .none :=
  (pollNextGo_spec rs s 0 .pending s' rs' n h).2.2.1 rfl he hs

/-- **nothing is withheld**: at any moment at which the transport has nothing more to give (the
    script is exhausted and the stream reports Pending), every response contained in the bytes
    received so far has been delivered: the frames delivered are the one-shot parse of all bytes
    received.  In particular, if those bytes end exactly at the end of a response, all responses
    received have been delivered and the buffer is empty of frames. -/
theorem nothing_withheld (k : Nat) (rs : List REv) (res : List PollR) (s1 : Rd) (rs1 : List REv)
    (h : polls k {} rs = (res, s1, rs1)) (hne : ∀ r ∈ res, r ≠ .item .error)
    (s2 : Rd) (n : Nat) (hp : pollNext s1 rs1 = (.pending, s2, [], n)) :
    framesOf res = ideal (dataOf rs) := by
  obtain ⟨hi, hs1, he1⟩ := polls_ideal k {} rs res s1 rs1 h rfl settled_fresh hne
  obtain ⟨⟨used, hu1, hu2, _⟩, _, hpend, _⟩ := pollNextGo_spec rs1 s1 0 .pending s2 [] n hp
  have hnone := hpend rfl he1 hs1
  -- the whole remainder s1.rbuf ++ dataOf rs1 = s2.rbuf, which holds no frame
  have : s1.rbuf ++ dataOf rs1 = s2.rbuf := by
    rw [hu1]; simpa [rawOf] using hu2
  rw [this, ideal_none _ hnone] at hi
  simpa using hi

/-- a delivered frame is a function of its own bytes and what follows them: it is what `decode` yields
    on any buffer that starts with the frame's bytes followed by the rest of the stream -/
theorem frame_is_decode (s : Rd) (rs : List REv) (f : Frame) (s' : Rd) (rs' : List REv) (n : Nat)
    (h : pollNext s rs = (.item (.frame f), s', rs', n)) :
    ∃ b, decodeC b = .frame f s'.rbuf ∧ b = f.raw ++ s'.rbuf := by
  obtain ⟨b, hd⟩ := (pollNextGo_spec rs s 0 _ s' rs' n h).2.2.2 f rfl
  exact ⟨b, hd, (decodeC_frame b f s'.rbuf hd).1⟩

/-- bytes are conserved by every poll: buffer + bytes read = bytes of the frame delivered + new buffer -/
theorem poll_conserves_bytes (s : Rd) (rs : List REv) (r : PollR) (s' : Rd) (rs' : List REv) (n : Nat)
    (h : pollNext s rs = (r, s', rs', n)) :
    ∃ used, rs = used ++ rs' ∧ s.rbuf ++ dataOf used = rawOf r ++ s'.rbuf ∧ n = used.length := by
  obtain ⟨⟨used, h1, h2, h3⟩, _⟩ := pollNextGo_spec rs s 0 r s' rs' n h
  exact ⟨used, h1, h2, by simpa using h3⟩

/-! non-vacuity: the formerly withheld frame, cut inside `[M`, peer silent afterwards -/
example : (polls 1 {} [.data (b!"* OK [M"), .data (b!"ail] x\r\n")]).1.length = 1 := by rfl
example : framesOf (polls 2 {} [.data (b!"* OK [M"), .data (b!"ail] x\r\n")]).1
    = ideal (b!"* OK [Mail] x\r\n") := by rfl
example : (ideal (b!"* OK [Mail] x\r\n* 1 EXISTS\r\n* 2 EXI")).length = 2 := by rfl

/-! ### the terminal item: what the stream yields when the peer closes -/

/-- **end of stream after a quiet moment**: the stream has reported Pending-worthy state (nothing
    decodable left, `Settled`), then the transport reports end of file.  The stream ends cleanly
    (`None`) exactly when the buffer is empty; left-over bytes (a partial response) yield an error
    item ("bytes remaining on stream"), never a silent end and never a made-up frame. -/
theorem eof_after_settled (s : Rd) (rs : List REv) (hr : s.readable = false) (he : s.errored = false)
    (hf : s.eof = false) (hs : Settled s) :
    pollNext s (.eof :: rs) =
      if s.rbuf.isEmpty then (.done, { s with eof := true, readable := false }, rs, 1)
      else (.item .error, { s with eof := true, readable := true, errored := true }, rs, 1) := by
  have hnone : decodeC s.rbuf = .none := hs hr
  unfold pollNext
  rw [pollNextGo]
  simp only [decodePhase, he, hr, hf]
  simp only [Bool.false_eq_true, if_false]
  rw [pollNextGo]
  by_cases hb : s.rbuf = [] <;> simp [decodePhase, he, hf, hnone, hb, decodeC_nil]

/-- **at end of file, complete responses still come first**: with the end-of-file flag set and bytes
    in the buffer, every poll delivers the next frame while the buffer starts with a complete
    response; only then the verdict of `eof_after_settled` applies -/
theorem eof_delivers_frames_first (s : Rd) (rs : List REv) (f : Frame) (rest : Bytes)
    (he : s.errored = false) (hr : s.readable = true) (hf : s.eof = true)
    (hd : decodeC s.rbuf = .frame f rest) :
    pollNext s rs = (.item (.frame f), { s with rbuf := rest }, rs, 0) := by
  unfold pollNext
  rw [pollNextGo]
  simp [decodePhase, he, hr, hf, hd]

/-- at end of file with nothing decodable: clean end iff the buffer is empty -/
theorem eof_verdict (s : Rd) (rs : List REv) (he : s.errored = false) (hr : s.readable = true) (hf : s.eof = true)
    (hd : decodeC s.rbuf = .none) :
    pollNext s rs =
      if s.rbuf.isEmpty then (.done, { s with readable := false }, rs, 0)
      else (.item .error, { s with errored := true }, rs, 0) := by
  unfold pollNext
  rw [pollNextGo]
  by_cases hb : s.rbuf = [] <;> simp [decodePhase, he, hr, hf, hd, hb, decodeC_nil]

/-- malformed bytes are an error item, at end of file or before it -/
theorem malformed_is_error (s : Rd) (rs : List REv) (he : s.errored = false) (hr : s.readable = true)
    (hd : decodeC s.rbuf = .error) :
    pollNext s rs = (.item .error, { s with errored := true }, rs, 0) := by
  unfold pollNext
  rw [pollNextGo]
  cases hf : s.eof <;> simp [decodePhase, he, hr, hf, hd]

/-- after an error item the next poll ends the stream (`None`); nothing is read or decoded -/
theorem after_error_ends (s : Rd) (rs : List REv) (he : s.errored = true) :
    pollNext s rs = (.done, { s with readable := false, errored := false }, rs, 0) := by
  unfold pollNext
  rw [pollNextGo]
  simp [decodePhase, he]

end C04
