/-
  C12 - Equivalent wire encodings parse to equal values.

  Full statement: if `e1` and `e2` are two spellings of the same response (differing in keyword
  case, NIL case, atom / quoted / literal form where the grammar allows more than one, leading
  zeros, and the tolerated deviations), then both parse, to equal values.

  The spelling choices are the parameters of the printer relation `RT.EncResponse`:
    * `spell kw mask`      - every keyword (and NIL) in any mixture of upper and lower case;
    * `EncString`          - quoted or literal; `EncAString` - atom, quoted or literal;
      `EncNString`         - NIL (any case) or a string;
    * `EncNumber.mk z`     - `z` leading zeros;
    * deviations           - trailing spaces before CRLF (`k`), a doubled space after RFC822.HEADER,
                             adjacent addresses with or without a space.
  Two encodings related to the same value by the relation are "equivalent spellings".

  Proved: `spellings_agree` for all responses covered by the relation - every response kind of the
  grammar (see C03 for the list).  The tolerated deviations are constructor parameters too: trailing
  spaces before CRLF, the trailing space after SEARCH / SORT, white-space runs (SP / HTAB, any length)
  in QUOTA, QUOTAROOT, ID, ACL, LISTRIGHTS, MYRIGHTS, VANISHED, white space before the closing
  parenthesis of ID, `+` with or without the space, the doubled space after RFC822.HEADER, adjacent
  addresses with or without a space, `\*` in flag lists, the empty STATUS list.
-/
import ImapVerif.Proofs.RTResp

open Bytes Parser Grammar RT

namespace C12

/-- two spellings of one value parse to the same value (each consuming exactly its own bytes) -/
theorem spellings_agree (r : Response) (e1 e2 : Bytes) (h1 : EncResponse r e1) (h2 : EncResponse r e2)
    (rest1 rest2 : Bytes) :
    ∃ v, parseResponse (e1 ++ rest1) = .ok v rest1 ∧ parseResponse (e2 ++ rest2) = .ok v rest2 :=
  ⟨r, parseResponse_enc r e1 h1 rest1, parseResponse_enc r e2 h2 rest2⟩

/-- keyword case: a keyword parser accepts every case mixture of its keyword -/
theorem keyword_any_case (kw : Bytes) (mask : List Bool) (rest : Bytes) :
    tagNoCase kw (spell kw mask ++ rest) = .ok () rest := tagNoCase_spell kw mask rest trivial

/-- NIL in any case is the absent string -/
theorem nil_any_case (mask : List Bool) (rest : Bytes) :
    nstring (spell (b!"NIL") mask ++ rest) = .ok none rest :=
  nstring_enc none _ (EncNString.nil mask) rest trivial

/-- quoted and literal forms of one string give one value -/
theorem string_forms_agree (s e1 e2 : Bytes) (h1 : EncString s e1) (h2 : EncString s e2) (r1 r2 : Bytes) :
    string (e1 ++ r1) = .ok s r1 ∧ string (e2 ++ r2) = .ok s r2 :=
  ⟨string_enc s e1 h1 r1 trivial, string_enc s e2 h2 r2 trivial⟩

/-- atom, quoted and literal forms of one astring give one value -/
theorem astring_forms_agree (s e1 e2 : Bytes) (h1 : EncAString s e1) (h2 : EncAString s e2)
    (r1 r2 : Bytes) (hr1 : Starts notAstringChar r1) (hr2 : Starts notAstringChar r2) :
    astring (e1 ++ r1) = .ok s r1 ∧ astring (e2 ++ r2) = .ok s r2 :=
  ⟨astring_enc s e1 h1 r1 hr1, astring_enc s e2 h2 r2 hr2⟩

/-- leading zeros do not change a number -/
theorem zero_padding_irrelevant (n : Nat) (hn : n < 2 ^ 32) (z1 z2 : Nat) (c : UInt8) (rest : Bytes)
    (hc : isDigit c = false) :
    number (List.replicate z1 48 ++ decDigits n ++ c :: rest) = number (List.replicate z2 48 ++ decDigits n ++ c :: rest) := by
  have h1 := number_enc (2 ^ 32) n _ (EncNumber.mk z1) hn (c :: rest) ⟨c, rest, rfl, by simp [notDigit, hc]⟩
  have h2 := number_enc (2 ^ 32) n _ (EncNumber.mk z2) hn (c :: rest) ⟨c, rest, rfl, by simp [notDigit, hc]⟩
  unfold number
  rw [h1, h2]

theorem eqIgnore_spell (t : Bytes) (m : List Bool) : eqIgnoreAsciiCase (spell t m) t = true := by
  induction t generalizing m with
  | nil => cases m <;> rfl
  | cons c cs ih =>
    cases m with
    | nil =>
      have := ih []
      have hs : spell cs [] = cs := by cases cs <;> rfl
      simp [spell, eqIgnoreAsciiCase, hs ▸ this]
    | cons b bs => cases b <;> simp [spell, eqIgnoreAsciiCase, ih, lower_flip]

/-- flipping the case of an astring character that is a letter or not gives an astring character -/
theorem astringChar_flip (c : UInt8) (h : isAstringChar c = true) : isAstringChar (flipCase c) = true := by
  have key : ∀ n : Fin 256, isAstringChar (UInt8.ofNat n.val) = true →
      isAstringChar (flipCase (UInt8.ofNat n.val)) = true := by decide +kernel
  have := key ⟨c.toNat, c.toNat_lt⟩
  simp only [UInt8.ofNat_toNat] at this
  exact this h

theorem astring_spell (t : Bytes) (m : List Bool) (h : ∀ c ∈ t, isAstringChar c = true) :
    ∀ c ∈ spell t m, isAstringChar c = true := by
  induction t generalizing m with
  | nil => cases m <;> simp [spell]
  | cons a as ih =>
    cases m with
    | nil => simpa [spell] using h
    | cons b bs =>
      intro c hc
      simp only [spell, List.mem_cons] at hc
      rcases hc with rfl | hc
      · cases b
        · simpa using h a (by simp)
        · simpa using astringChar_flip a (h a (by simp))
      · exact ih bs (fun x hx => h x (by simp [hx])) c hc

/-- INBOX in any case is INBOX; other mailbox names are case-preserved -/
theorem inbox_case_folded (mask : List Bool) (rest : Bytes) (hr : Starts notAstringChar rest) :
    mailbox (spell (b!"INBOX") mask ++ rest) = .ok (b!"INBOX") rest := by
  have hall : ∀ c ∈ spell (b!"INBOX") mask, isAstringChar c = true :=
    astring_spell _ mask (by decide)
  have hne : spell (b!"INBOX") mask ≠ [] := by
    intro h; have := congrArg List.length h; simp [spell_length] at this
  have hlow : eqIgnoreAsciiCase (spell (b!"INBOX") mask) (b!"INBOX") = true := eqIgnore_spell _ mask
  have hutf : validUtf8 (spell (b!"INBOX") mask) = true := by
    apply ascii_utf8
    intro c hc
    have key : ∀ n : Fin 256, isAstringChar (UInt8.ofNat n.val) = true → (UInt8.ofNat n.val) < 0x80 := by
      decide +kernel
    have := key ⟨c.toNat, c.toNat_lt⟩
    simp only [UInt8.ofNat_toNat] at this
    exact this (hall c hc)
  have := mailbox_enc _ _ (EncAString.atom hne hall) hutf rest hr
  simpa [canonMailbox, hlow] using this

/-! ### non-vacuity: two different spellings of one response, and their common value -/

example : parseResponse (b!"* 12 FETCH (UID 7 RFC822 NIL)\r\n") = .ok (.fetch 12 [.uid 7, .rfc822 none]) [] := by rfl
example : parseResponse (b!"* 0012 fetch (uid 007 rfc822 nil)   \r\n") = .ok (.fetch 12 [.uid 7, .rfc822 none]) [] := by rfl
example : parseResponse (b!"* 1 FETCH (RFC822.TEXT \"ab\")\r\n") = parseResponse (b!"* 1 FETCH (RFC822.TEXT {2}\r\nab)\r\n") := by rfl

end C12
