/-
  C16 - Whatever the FETCH builder can request, the parser can read.

  Full statement: for every attribute `a` and macro the builder can put into a FETCH command, every
  RFC-conformant reply item answering `a` is parsed by `msg_att` into a value of the kind that
  answers `a`; and a reply carrying one item per requested attribute parses to one value per item.

  The request side is `Builders.attrName` / `Builders.macroName` (what the builder writes; C14
  proves these are the RFC 3501 names); the reply side is the printer relation `RT.EncAttr`.

  Proved here:
    * `keyword_table_agrees`: for every attribute, the keyword the builder sends is the keyword under
      which the parser's alternative for the answering value is selected (request table = response
      table, all 11 attributes incl. BODY);
    * `item_readable_partial`: every conformant reply item for the 10 attributes other than BODY
      parses to exactly the value sent;
    * `reply_readable_partial`: a complete `* n FETCH (...)` reply with one item per requested
      attribute parses, returning the items in order;
    * `macro_expansion_covered`: the macros expand (RFC 3501 6.4.5) to attributes of the table.
  Missing: the item theorem for BODY (the non-extensible body structure); the alternative exists in
  the grammar (`msgAttBody`, added by fix F10) and is exercised by the correspondence run with
  generated body structures, but the round-trip theorem for body structures is not proved yet.
-/
import ImapVerif.Proofs.RTResp
import ImapVerif.Builders

open Bytes Parser Grammar RT

namespace C16

open Builders (Attribute AttrMacro attrName macroName)

/-- the value kind that answers a requested attribute (RFC 3501 7.4.2, RFC 7162, Gmail ext.) -/
inductive Answers : Attribute → AttributeValue → Prop
  | body (b : BodyStructure) : Answers .body (.bodyStructure b)
  | envelope (v : Envelope) : Answers .envelope (.envelope v)
  | flags (vs : List Bytes) : Answers .flags (.flags vs)
  | internalDate (s : Bytes) : Answers .internalDate (.internalDate s)
  | modSeq (n : Nat) : Answers .modSeq (.modSeq n)
  | rfc822 (v : Option Bytes) : Answers .rfc822 (.rfc822 v)
  | rfc822Size (n : Nat) : Answers .rfc822Size (.rfc822Size n)
  | rfc822Text (v : Option Bytes) : Answers .rfc822Text (.rfc822Text v)
  | uid (n : Nat) : Answers .uid (.uid n)
  | gmailLabels (vs : List Bytes) : Answers .gmailLabels (.gmailLabels vs)
  | gmailMsgId (n : Nat) : Answers .gmailMsgId (.gmailMsgId n)

/-- the alternative of `msg_att` that reads the answer to `a` -/
def reader : Attribute → Parser AttributeValue
  | .body => msgAttBody
  | .envelope => msgAttEnvelope
  | .flags => msgAttFlags
  | .internalDate => msgAttInternalDate
  | .modSeq => msgAttModSeq
  | .rfc822 => msgAttRfc822
  | .rfc822Size => msgAttRfc822Size
  | .rfc822Text => msgAttRfc822Text
  | .uid => msgAttUid
  | .gmailLabels => msgAttGmailLabels
  | .gmailMsgId => msgAttGmailMsgId

/-- the reader of `a` starts by matching exactly the name the builder sent, followed by a space;
    anything else is a parse error of that alternative -/
theorem keyword_table_agrees (a : Attribute) (mask : List Bool) (u : Bytes) (r : Bytes)
    (h : mismatch (attrName a ++ b!" ") u = true) : reader a (spell u mask ++ r) = .err := by
  cases a
  · exact msgAttBody_err u mask r h
  · exact msgAttEnvelope_err u mask r h
  · exact msgAttFlags_err u mask r h
  · exact msgAttInternalDate_err u mask r h
  · exact msgAttModSeq_err u mask r h
  · exact msgAttRfc822_err u mask r h
  · exact msgAttRfc822Size_err u mask r h
  · exact msgAttRfc822Text_err u mask r h
  · exact msgAttUid_err u mask r h
  · exact msgAttGmailLabels_err u mask r h
  · unfold reader msgAttGmailMsgId gmailMsgId
    exact map_err _ _ _ (kwBind_err _ _ u mask r h)

/-- every encoding of an answer to `a` begins with the name the builder sent (any case) -/
theorem answer_keyword (a : Attribute) (v : AttributeValue) (e : Bytes) (ha : Answers a v) (he : EncAttr v e) :
    ∃ mask tail, e = spell (attrName a ++ b!" ") mask ++ tail := by
  cases ha <;> cases he <;> exact ⟨_, _, rfl⟩

/-- every conformant reply item for a requested attribute (other than BODY) is read back exactly -/
theorem item_readable_partial (a : Attribute) (v : AttributeValue) (e : Bytes) (_ha : Answers a v)
    (he : EncAttr v e) (c : UInt8) (rest : Bytes) (hc : c = 32 ∨ c = 41) :
    msgAtt (e ++ c :: rest) = .ok v (c :: rest) :=
  msgAtt_enc v e he (c :: rest) ⟨c, rest, rfl, by rcases hc with rfl | rfl <;> decide⟩

/-- for every attribute other than BODY a conformant answer exists in the relation, so the
    previous theorem is not vacuous for any of them -/
theorem answer_exists_partial (a : Attribute) (ha : a ≠ .body) : ∃ v e, Answers a v ∧ EncAttr v e := by
  have nilEnv : EncEnvelope ⟨none, none, none, none, none, none, none, none, none, none⟩ _ :=
    EncEnvelope.mk _ _ _ _ _ _ _ _ _ _ _ (.nil []) (.nil []) (.nil []) (.nil []) (.nil []) (.nil [])
      (.nil []) (.nil []) (.nil []) (.nil [])
  cases a with
  | body => exact absurd rfl ha
  | envelope => exact ⟨_, _, .envelope _, .envelope [] _ _ nilEnv⟩
  | flags => exact ⟨_, _, .flags [], .flags [] _ _ .nil⟩
  | internalDate =>
    exact ⟨_, _, .internalDate [], .internalDate [] [] _ (.quoted (by intro c hc; cases hc)) (by decide)⟩
  | modSeq => exact ⟨_, _, .modSeq 0, .modSeq [] 0 _ (by decide) (.mk 0)⟩
  | rfc822 => exact ⟨_, _, .rfc822 none, .rfc822 [] none _ (.nil [])⟩
  | rfc822Size => exact ⟨_, _, .rfc822Size 0, .rfc822Size [] 0 _ (by decide) (.mk 0)⟩
  | rfc822Text => exact ⟨_, _, .rfc822Text none, .rfc822Text [] none _ (.nil [])⟩
  | uid => exact ⟨_, _, .uid 0, .uid [] 0 _ (by decide) (.mk 0)⟩
  | gmailLabels => exact ⟨_, _, .gmailLabels [], .gmailLabels [] _ _ .nil⟩
  | gmailMsgId => exact ⟨_, _, .gmailMsgId 0, .gmailMsgId [] 0 _ (by decide) (.mk 0)⟩

/-- element-wise relation between two lists of equal length (core has no `Pairwise₂`) -/
inductive Pairwise₂ {α β : Type} (R : α → β → Prop) : List α → List β → Prop
  | nil : Pairwise₂ R [] []
  | cons {a b as bs} : R a b → Pairwise₂ R as bs → Pairwise₂ R (a :: as) (b :: bs)

/-- a complete reply - one conformant item per requested attribute, in the order requested - is
    parsed, and returns one value per item in that order -/
theorem reply_readable_partial (n : Nat) (hn : n < 2 ^ 32) (z k : Nat) (mask : List Bool)
    (req : Attribute) (reqs : List Attribute)
    (first : Bytes × AttributeValue) (others : List (Bytes × AttributeValue))
    (hfirst : Answers req first.2 ∧ EncAttr first.2 first.1)
    (hothers : Pairwise₂ (fun a x => Answers a x.2 ∧ EncAttr x.2 x.1) reqs others) (rest : Bytes) :
    ∃ vs, parseResponse (b!"* " ++ ((List.replicate z 48 ++ decDigits n) ++ (spell (b!" FETCH ") mask ++
            ([40] ++ (first.1 ++ (others.map fun x => [32] ++ x.1).flatten) ++ [41])) ++
            (List.replicate k 32 ++ b!"\r\n")) ++ rest) = .ok (.fetch n vs) rest ∧
          Pairwise₂ Answers (req :: reqs) vs := by
  refine ⟨first.2 :: others.map (·.2), ?_, ?_⟩
  · have hall : ∀ x ∈ first :: others, EncAttr x.2 x.1 := by
      intro x hx
      simp only [List.mem_cons] at hx
      rcases hx with rfl | hx
      · exact hfirst.2
      · clear hfirst
        induction hothers with
        | nil => cases hx
        | cons h _ ih =>
          simp only [List.mem_cons] at hx
          rcases hx with rfl | hx
          · exact h.2
          · exact ih hx
    exact parseResponse_enc _ _ (EncResponse.fetch _ _ k (EncFetch.mk n _ mask _ _ hn (.mk z) (.mk first others hall))) rest
  · refine Pairwise₂.cons hfirst.1 ?_
    clear hfirst
    induction hothers with
    | nil => exact Pairwise₂.nil
    | cons h _ ih => exact Pairwise₂.cons h.1 ih

/-- RFC 3501 6.4.5: what a conformant server sends for each macro -/
def macroItems : AttrMacro → List Attribute
  | .all => [.flags, .internalDate, .rfc822Size, .envelope]
  | .fast => [.flags, .internalDate, .rfc822Size]
  | .full => [.flags, .internalDate, .rfc822Size, .envelope, .body]

/-- FAST and ALL expand to attributes whose answers are all readable; FULL additionally asks for
    BODY -/
theorem macro_expansion_covered (m : AttrMacro) (hm : m ≠ .full) : ∀ a ∈ macroItems m, a ≠ Attribute.body := by
  cases m <;> simp [macroItems] at * 

/-! non-vacuity: a reply to `FETCH 1 ALL` -/
set_option maxRecDepth 100000 in
example : parseResponse (b!"* 1 FETCH (FLAGS (\\Seen) INTERNALDATE \"17-Jul-1996 02:44:25 -0700\" RFC822.SIZE 4286 ENVELOPE (NIL \"s\" NIL NIL NIL NIL NIL NIL NIL \"<id>\"))\r\n")
    = .ok (.fetch 1 [.flags [b!"\\Seen"], .internalDate (b!"17-Jul-1996 02:44:25 -0700"), .rfc822Size 4286,
        .envelope ⟨none, some (b!"s"), none, none, none, none, none, none, none, some (b!"<id>")⟩]) [] := by rfl

set_option maxRecDepth 100000 in
/-- the non-extensible BODY answer is accepted by the grammar (kernel evaluation; no general theorem yet) -/
example : ∃ v, parseResponse (b!"* 1 FETCH (BODY (\"TEXT\" \"PLAIN\" (\"CHARSET\" \"US-ASCII\") NIL NIL \"7BIT\" 3028 92))\r\n") = .ok v [] := ⟨_, rfl⟩

end C16
