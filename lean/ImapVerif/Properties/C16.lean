/-
  C16 - Whatever the FETCH builder can request, the parser can read.

  Full statement: for every attribute `a` and macro the builder can put into a FETCH command, every
  RFC-conformant reply item answering `a` is parsed by `msg_att` into a value of the kind that
  answers `a`; and a reply carrying one item per requested attribute parses to one value per item.

  The request side is `Builders.attrName` / `Builders.macroName` (what the builder writes; C14
  proves these are the RFC 3501 names); the reply side is the printer relation `RT.EncAttr`.

  Proved here (no part of the statement is left to the correspondence run):
    * `keyword_table_agrees` / `answer_keyword`: for every attribute, the keyword the builder sends is
      the keyword under which the parser's alternative for the answer is selected, and every
      conformant answer begins with it;
    * `item_readable`: every conformant reply item, for each of the 11 attributes (BODY included: the
      non-extensible body structure of any shape within the nesting budget), parses to exactly the
      value sent;
    * `reply_readable`: a complete `* n FETCH (...)` reply with one item per requested attribute
      parses, returning one value per item in order;
    * `macro_expansion_covered`: ALL, FAST and FULL expand (RFC 3501 6.4.5) to attributes of the table.
  Restriction inherited from the code (fix F3): a body structure nested deeper than MAX_NESTING = 32
  is refused by design; `EncBody 33` is the set of structures within that budget.
-/
import ImapVerif.Proofs.RTResp
import ImapVerif.Builders

open Bytes Parser Grammar RT

namespace C16

open Builders (Attribute AttrMacro attrName macroName)

/-- `Reply a v e`: `e` is a conformant reply item (RFC 3501 7.4.2, RFC 7162, Gmail ext.) answering
    the requested attribute `a`, carrying the value `v`.  `BODY` is answered in the non-extensible
    form `BODY (...)`. -/
inductive Reply : Attribute → AttributeValue → Bytes → Prop
  | body (m : List Bool) (b : BodyStructure) (e : Bytes) : EncBody 33 b e →
      Reply .body (.bodyStructure b) (spell (b!"BODY ") m ++ e)
  | envelope (m : List Bool) (v : Envelope) (e : Bytes) : EncEnvelope v e →
      Reply .envelope (.envelope v) (spell (b!"ENVELOPE ") m ++ e)
  | flags (m : List Bool) (vs : List Bytes) (e : Bytes) : EncList EncFlagPerm vs e →
      Reply .flags (.flags vs) (spell (b!"FLAGS ") m ++ e)
  | internalDate (m : List Bool) (s e : Bytes) : EncString s e → validUtf8 s = true →
      Reply .internalDate (.internalDate s) (spell (b!"INTERNALDATE ") m ++ e)
  | modSeq (m : List Bool) (n : Nat) (e : Bytes) : n < 2 ^ 64 → EncNumber n e →
      Reply .modSeq (.modSeq n) (spell (b!"MODSEQ ") m ++ ([40] ++ e ++ [41]))
  | rfc822 (m : List Bool) (v : Option Bytes) (e : Bytes) : EncNString v e →
      Reply .rfc822 (.rfc822 v) (spell (b!"RFC822 ") m ++ e)
  | rfc822Size (m : List Bool) (n : Nat) (e : Bytes) : n < 2 ^ 32 → EncNumber n e →
      Reply .rfc822Size (.rfc822Size n) (spell (b!"RFC822.SIZE ") m ++ e)
  | rfc822Text (m : List Bool) (v : Option Bytes) (e : Bytes) : EncNString v e →
      Reply .rfc822Text (.rfc822Text v) (spell (b!"RFC822.TEXT ") m ++ e)
  | uid (m : List Bool) (n : Nat) (e : Bytes) : n < 2 ^ 32 → EncNumber n e →
      Reply .uid (.uid n) (spell (b!"UID ") m ++ e)
  | gmailLabels (m : List Bool) (vs : List Bytes) (e : Bytes) : EncList EncLabel vs e →
      Reply .gmailLabels (.gmailLabels vs) (spell (b!"X-GM-LABELS ") m ++ e)
  | gmailMsgId (m : List Bool) (n : Nat) (e : Bytes) : n < 2 ^ 64 → EncNumber n e →
      Reply .gmailMsgId (.gmailMsgId n) (spell (b!"X-GM-MSGID ") m ++ e)

/-- a reply item is one of the encodings of its value -/
theorem Reply.enc {a : Attribute} {v : AttributeValue} {e : Bytes} (h : Reply a v e) : EncAttr v e := by
  cases h with
  | body m b e h => exact .body m b e h
  | envelope m v e h => exact .envelope m v e h
  | flags m vs e h => exact .flags m vs e h
  | internalDate m s e h hu => exact .internalDate m s e h hu
  | modSeq m n e hn h => exact .modSeq m n e hn h
  | rfc822 m v e h => exact .rfc822 m v e h
  | rfc822Size m n e hn h => exact .rfc822Size m n e hn h
  | rfc822Text m v e h => exact .rfc822Text m v e h
  | uid m n e hn h => exact .uid m n e hn h
  | gmailLabels m vs e h => exact .gmailLabels m vs e h
  | gmailMsgId m n e hn h => exact .gmailMsgId m n e hn h

/-- the alternative of `msg_att` that reads the answer to `a` -/
def reader : Attribute → Parser AttributeValue
  | .body => msgAttBody
  | .envelope => msgAttEnvelope
  | .flags => msgAttFlags
  | .internalDate => msgAttInternalDate
  | .modSeq => msgAttModSeq
  | .rfc822 => msgAttRfc822
  | .rfc822Size => msgAttRfc822Size
  | .rfc822Text => msgAttRfc822Text
  | .uid => msgAttUid
  | .gmailLabels => msgAttGmailLabels
  | .gmailMsgId => msgAttGmailMsgId

/-- the reader of `a` starts by matching exactly the name the builder sent, followed by a space;
    anything else is a parse error of that alternative -/
theorem keyword_table_agrees (a : Attribute) (mask : List Bool) (u : Bytes) (r : Bytes)
    (h : mismatch (attrName a ++ b!" ") u = true) : reader a (spell u mask ++ r) = .err := by
  cases a
  · exact msgAttBody_err u mask r h
  · exact msgAttEnvelope_err u mask r h
  · exact msgAttFlags_err u mask r h
  · exact msgAttInternalDate_err u mask r h
  · exact msgAttModSeq_err u mask r h
  · exact msgAttRfc822_err u mask r h
  · exact msgAttRfc822Size_err u mask r h
  · exact msgAttRfc822Text_err u mask r h
  · exact msgAttUid_err u mask r h
  · exact msgAttGmailLabels_err u mask r h
  · unfold reader msgAttGmailMsgId gmailMsgId
    exact map_err _ _ _ (kwBind_err _ _ u mask r h)

/-- every reply item answering `a` begins with the name the builder sent (in any case) and a space -/
theorem answer_keyword (a : Attribute) (v : AttributeValue) (e : Bytes) (h : Reply a v e) :
    ∃ mask tail, e = spell (attrName a ++ b!" ") mask ++ tail := by
  cases h <;> exact ⟨_, _, rfl⟩

/-- **every conformant reply item for every attribute the builder offers is read back exactly** -/
theorem item_readable (a : Attribute) (v : AttributeValue) (e : Bytes) (h : Reply a v e)
    (c : UInt8) (rest : Bytes) (hc : c = 32 ∨ c = 41) :
    msgAtt (e ++ c :: rest) = .ok v (c :: rest) :=
  msgAtt_enc v e h.enc (c :: rest) ⟨c, rest, rfl, by rcases hc with rfl | rfl <;> decide⟩

/-- for every attribute a conformant answer exists, so the previous theorem is not vacuous for any -/
theorem answer_exists (a : Attribute) : ∃ v e, Reply a v e := by
  have nilEnv : EncEnvelope ⟨none, none, none, none, none, none, none, none, none, none⟩ _ :=
    EncEnvelope.mk _ _ _ _ _ _ _ _ _ _ _ (.nil []) (.nil []) (.nil []) (.nil []) (.nil []) (.nil [])
      (.nil []) (.nil []) (.nil []) (.nil [])
  have q0 : EncString [] _ := .quoted (by intro c hc; cases hc)
  have flds : EncFields ⟨none, none, none, .sevenBit, 0⟩ _ :=
    EncFields.mk _ _ _ _ _ _ (.nil []) (.nil []) (by intro s hs; cases hs) (.nil []) (by intro s hs; cases hs)
      (.sevenBit []) (by decide) (.mk 0)
  cases a with
  | body => exact ⟨_, _, .body [] _ _ (.text 32 [] [] _ _ _ 0 _ _ _ q0 (by decide) flds (by decide) (.mk 0) .l0)⟩
  | envelope => exact ⟨_, _, .envelope [] _ _ nilEnv⟩
  | flags => exact ⟨_, _, .flags [] _ _ .nil⟩
  | internalDate => exact ⟨_, _, .internalDate [] [] _ q0 (by decide)⟩
  | modSeq => exact ⟨_, _, .modSeq [] 0 _ (by decide) (.mk 0)⟩
  | rfc822 => exact ⟨_, _, .rfc822 [] none _ (.nil [])⟩
  | rfc822Size => exact ⟨_, _, .rfc822Size [] 0 _ (by decide) (.mk 0)⟩
  | rfc822Text => exact ⟨_, _, .rfc822Text [] none _ (.nil [])⟩
  | uid => exact ⟨_, _, .uid [] 0 _ (by decide) (.mk 0)⟩
  | gmailLabels => exact ⟨_, _, .gmailLabels [] _ _ .nil⟩
  | gmailMsgId => exact ⟨_, _, .gmailMsgId [] 0 _ (by decide) (.mk 0)⟩

/-- element-wise relation between two lists of equal length (core has no `Pairwise₂`) -/
inductive Pairwise₂ {α β : Type} (R : α → β → Prop) : List α → List β → Prop
  | nil : Pairwise₂ R [] []
  | cons {a b as bs} : R a b → Pairwise₂ R as bs → Pairwise₂ R (a :: as) (b :: bs)

/-- a complete reply - one conformant item per requested attribute, in the order requested - is
    parsed, and returns one value per item in that order -/
theorem reply_readable (n : Nat) (hn : n < 2 ^ 32) (z k : Nat) (mask : List Bool)
    (req : Attribute) (reqs : List Attribute)
    (first : Bytes × AttributeValue) (others : List (Bytes × AttributeValue))
    (hfirst : Reply req first.2 first.1)
    (hothers : Pairwise₂ (fun a x => Reply a x.2 x.1) reqs others) (rest : Bytes) :
    ∃ vs, parseResponse (b!"* " ++ ((List.replicate z 48 ++ decDigits n) ++ (spell (b!" FETCH ") mask ++
            ([40] ++ (first.1 ++ (others.map fun x => [32] ++ x.1).flatten) ++ [41])) ++
            (List.replicate k 32 ++ b!"\r\n")) ++ rest) = .ok (.fetch n vs) rest ∧
          Pairwise₂ (fun a v => ∃ e, Reply a v e) (req :: reqs) vs := by
  refine ⟨first.2 :: others.map (·.2), ?_, ?_⟩
  · have hall : ∀ x ∈ first :: others, EncAttr x.2 x.1 := by
      intro x hx
      simp only [List.mem_cons] at hx
      rcases hx with rfl | hx
      · exact hfirst.enc
      · clear hfirst
        induction hothers with
        | nil => cases hx
        | cons h _ ih =>
          simp only [List.mem_cons] at hx
          rcases hx with rfl | hx
          · exact h.enc
          · exact ih hx
    exact parseResponse_enc _ _ (EncResponse.fetch _ _ k (EncFetch.mk n _ mask _ _ hn (.mk z) (.mk first others hall))) rest
  · refine Pairwise₂.cons ⟨_, hfirst⟩ ?_
    clear hfirst
    induction hothers with
    | nil => exact Pairwise₂.nil
    | cons h _ ih => exact Pairwise₂.cons ⟨_, h⟩ ih

/-- RFC 3501 6.4.5: what a conformant server sends for each macro -/
def macroItems : AttrMacro → List Attribute
  | .all => [.flags, .internalDate, .rfc822Size, .envelope]
  | .fast => [.flags, .internalDate, .rfc822Size]
  | .full => [.flags, .internalDate, .rfc822Size, .envelope, .body]

/-- every macro expands to attributes of the builder's table, each of which has a readable answer -/
theorem macro_expansion_covered (m : AttrMacro) : ∀ a ∈ macroItems m, ∃ v e, Reply a v e :=
  fun a _ => answer_exists a

/-! non-vacuity: a reply to `FETCH 1 ALL` -/
set_option maxRecDepth 100000 in
example : parseResponse (b!"* 1 FETCH (FLAGS (\\Seen) INTERNALDATE \"17-Jul-1996 02:44:25 -0700\" RFC822.SIZE 4286 ENVELOPE (NIL \"s\" NIL NIL NIL NIL NIL NIL NIL \"<id>\"))\r\n")
    = .ok (.fetch 1 [.flags [b!"\\Seen"], .internalDate (b!"17-Jul-1996 02:44:25 -0700"), .rfc822Size 4286,
        .envelope ⟨none, some (b!"s"), none, none, none, none, none, none, none, some (b!"<id>")⟩]) [] := by rfl

set_option maxRecDepth 100000 in
/-- the non-extensible BODY answer is accepted by the grammar (kernel evaluation; no general theorem yet) -/
example : ∃ v, parseResponse (b!"* 1 FETCH (BODY (\"TEXT\" \"PLAIN\" (\"CHARSET\" \"US-ASCII\") NIL NIL \"7BIT\" 3028 92))\r\n") = .ok v [] := ⟨_, rfl⟩

end C16
