/-
  C06 - Each command goes on the wire exactly once, whole, and before any waiting.
  `Client.Stream.pollNext` models `ResponseStream::poll_next`, `Conn.call` models `call`; the transport
  is an arbitrary script of write / flush / read outcomes (partial writes, Pending anywhere).
  `Conn.started` is a ghost log of the lines handed to `start_send`; `Wr.wire` a ghost log of the bytes
  the transport accepted.
  Not provable here (observed over a loop-back connection / by the mock transport): wakers, TLS.
-/
import ImapVerif.Proofs.ClientInv

open Bytes Client ClientInv

namespace C06

/-- `wire ++ write buffer` is the concatenation of the command lines started so far, in order: bytes
    reach the wire only as prefixes of that concatenation - never duplicated, torn or interleaved -
    whatever the transport does and wherever a stream is abandoned (every state reached by polls and
    calls satisfies it) -/
theorem poll_preserves_wire_invariant (s : RStream) (c : Conn) (rs : List REv) (ws : List WEv)
    (h : WInv c) : WInv (Stream.pollNext s c rs ws).c := by
  obtain ⟨hw, hs, _⟩ := pollNext_facts s c rs ws
  unfold WInv at h ⊢
  rw [hw, hs, h]
  split <;> simp

theorem call_preserves_wire_invariant (c : Conn) (args : Bytes) (h : WInv c) : WInv (c.call args).1 := h

theorem fresh_wire_invariant : WInv ({} : Conn) := rfl

/-- the bytes on the wire are a prefix of the started command lines -/
theorem wire_is_prefix_of_commands (c : Conn) (h : WInv c) : c.wr.wire <+: c.started.flatten :=
  ⟨c.wr.wbuf, h⟩

/-- a command line is handed to the transport layer exactly when its stream leaves `Start`, it is
    the line `tag SP arguments CRLF` of that stream, and no other poll adds anything -/
theorem each_started_command_once (s : RStream) (c : Conn) (rs : List REv) (ws : List WEv) :
    (Stream.pollNext s c rs ws).c.started =
      c.started ++ (if s.st = .start ∧ (Stream.pollNext s c rs ws).s.st ≠ .start
                    then [Builders.encode s.tag s.args] else []) :=
  (pollNext_facts s c rs ws).2.1

/-- a stream never re-enters `Start`: its command cannot be sent a second time -/
theorem never_reenters_start (s : RStream) (c : Conn) (rs : List REv) (ws : List WEv) (h : s.st ≠ .start) :
    (Stream.pollNext s c rs ws).s.st ≠ .start :=
  (pollNext_facts s c rs ws).2.2.2.2.2.2.2.2.1 h

/-- once a stream waits for responses its write buffer is empty (and stays so) -/
theorem flushed_is_invariant (s : RStream) (c : Conn) (rs : List REv) (ws : List WEv) (h : Flushed s c) :
    Flushed (Stream.pollNext s c rs ws).s (Stream.pollNext s c rs ws).c :=
  (pollNext_facts s c rs ws).2.2.2.2.2.2.2.2.2.1 h

/-- **flushed before waiting**: whenever a poll issues a transport read, the write buffer is empty,
    i.e. (with the wire invariant) every byte of every started command line has been accepted by
    the transport, and the flush that emptied it has completed -/
theorem flushed_before_read (s : RStream) (c : Conn) (rs : List REv) (ws : List WEv)
    (hf : Flushed s c) (hw : WInv c) (hr : ∃ ch ∈ (Stream.pollNext s c rs ws).calls, ch = 'r') :
    (Stream.pollNext s c rs ws).c.wr.wbuf = [] ∧
    (Stream.pollNext s c rs ws).c.wr.wire = (Stream.pollNext s c rs ws).c.started.flatten := by
  have h1 := (pollNext_facts s c rs ws).2.2.2.2.2.2.2.2.2.2 hf hr
  have h2 := poll_preserves_wire_invariant s c rs ws hw
  unfold WInv at h2
  rw [h1] at h2
  exact ⟨h1, by simpa using h2⟩

/-- a freshly created stream satisfies `Flushed` vacuously (it is in `Start`) -/
theorem call_flushed (c : Conn) (args : Bytes) : Flushed (c.call args).2 (c.call args).1 := by
  intro h; rcases h with h | h <;> simp [Conn.call] at h

/-! non-vacuity: one CHECK under a transport that accepts 3 bytes, then the rest, then flushes -/
example :
    let cs := ({} : Conn).call (b!"CHECK")
    (Stream.pollNext cs.2 cs.1 [] [.acc 3, .acc 100, .flushed]).c.wr.wire = b!"A0001 CHECK\r\n" := by rfl

end C06
