/-
  C10 - Command arguments are quoted injectively; no argument can inject protocol.
  `Builders.quotedString` / `login` / `list` / `select` model the builders of command.rs;
  `Quoted.lexQuoted` is an independent lexer of quoted strings.
-/
import ImapVerif.Proofs.Quoted

open Bytes Builders Quoted

namespace C10

/-- text containing CR or LF is refused, and nothing else is -/
theorem quoted_refuses_iff_crlf (s : Bytes) :
    quotedString s = .refused ↔ ∃ c ∈ s, c = 13 ∨ c = 10 := by
  unfold quotedString
  constructor
  · intro h
    split at h
    · rename_i hany
      obtain ⟨c, hc, hcc⟩ := List.any_eq_true.mp hany
      exact ⟨c, hc, by simpa using hcc⟩
    · split at h <;> cases h
  · intro ⟨c, hc, hcc⟩
    have : s.any (fun c => c == 13 || c == 10) = true :=
      List.any_eq_true.mpr ⟨c, hc, by simpa using hcc⟩
    simp [this]

/-- for UTF-8 text (every Rust `&str`) the builder never hits `String::from_utf8(..).unwrap()` -/
theorem quoted_never_panics (s : Bytes) (h : validUtf8 s = true) : quotedString s ≠ .panic := by
  unfold quotedString
  split
  · simp
  · simp [escape_utf8 s h]

/-- what is emitted is the escaped text, and it stays UTF-8 -/
theorem quoted_ok (s : Bytes) (h : validUtf8 s = true) (hc : ∀ c ∈ s, isCRLF c = false) :
    quotedString s = .ok (escape s) := by
  unfold quotedString
  have : s.any (fun c => c == 13 || c == 10) = false := by
    apply List.any_eq_false.mpr
    intro c hcs
    have := hc c hcs
    simpa [isCRLF] using this
  simp [this, escape_utf8 s h]

/-- undoing the two backslash escapes gives back exactly the text given, and the lexer stops at the
    builder's closing quote: no argument value can close its own quotes -/
theorem unescape_quoted (s q rest : Bytes) (h : quotedString s = .ok q) :
    lexQuoted (34 :: (q ++ 34 :: rest)) = some (s, rest) := by
  unfold quotedString at h
  split at h <;> try cases h
  rename_i hany
  split at h <;> try cases h
  have hfree := any_crlf_false s (by simpa using hany)
  exact lexQuoted_escape s rest hfree

/-- the emitted argument contains no CR or LF -/
theorem quoted_no_crlf (s q : Bytes) (h : quotedString s = .ok q) : ∀ c ∈ q, isCRLF c = false := by
  unfold quotedString at h
  split at h <;> try cases h
  rename_i hany
  split at h <;> try cases h
  exact escape_no_crlf s (any_crlf_false s (by simpa using hany))

/-- two-argument commands (LOGIN, LIST): the line is `VERB SP quoted SP quoted`, each argument lexes
    back to exactly the text given, nothing is left over -/
theorem two_args_lex (verb a b line : Bytes) (h : quote2 verb a b = .ok line) :
    ∃ r1 r2, line = verb ++ [32] ++ r1 ∧ lexQuoted r1 = some (a, 32 :: r2) ∧ lexQuoted r2 = some (b, []) := by
  unfold quote2 at h
  split at h <;> try cases h
  rename_i qa ha
  split at h <;> try cases h
  rename_i qb hb
  refine ⟨34 :: (qa ++ 34 :: 32 :: 34 :: (qb ++ [34])), 34 :: (qb ++ [34]), by simp, ?_, ?_⟩
  · exact unescape_quoted a qa _ ha
  · exact unescape_quoted b qb [] hb

theorem login_line_lexes (u p line : Bytes) (h : login u p = .ok line) :
    ∃ r1 r2, line = b!"LOGIN" ++ [32] ++ r1 ∧ lexQuoted r1 = some (u, 32 :: r2) ∧
      lexQuoted r2 = some (p, []) := two_args_lex _ u p line h

theorem list_line_lexes (r g line : Bytes) (h : list r g = .ok line) :
    ∃ r1 r2, line = b!"LIST" ++ [32] ++ r1 ∧ lexQuoted r1 = some (r, 32 :: r2) ∧
      lexQuoted r2 = some (g, []) := two_args_lex _ r g line h

/-- one-argument commands (SELECT, EXAMINE, with or without `(CONDSTORE)`) -/
theorem select_line_lexes (ex cs : Bool) (m line : Bytes) (h : select ex cs m = .ok line) :
    ∃ r1, line = (if ex then b!"EXAMINE" else b!"SELECT") ++ [32] ++ r1 ∧
      lexQuoted r1 = some (m, if cs then b!" (CONDSTORE)" else []) := by
  unfold select quote1 at h
  cases hq : quotedString m with
  | refused => simp [hq] at h
  | panic => simp [hq] at h
  | ok qa =>
    simp only [hq] at h
    cases cs
    · simp only [Bool.false_eq_true, if_false, QRes.ok.injEq] at h
      exact ⟨34 :: (qa ++ [34]), by simp [← h], unescape_quoted m qa [] hq⟩
    · simp only [if_true, QRes.ok.injEq] at h
      exact ⟨34 :: (qa ++ 34 :: b!" (CONDSTORE)"), by simp [← h], unescape_quoted m qa _ hq⟩

/-- refusal is all-or-nothing: a CR or LF in either argument refuses the whole command -/
theorem two_args_refused (verb a b : Bytes) (h : (∃ c ∈ a, c = 13 ∨ c = 10) ∨ (∃ c ∈ b, c = 13 ∨ c = 10))
    (ha : validUtf8 a = true) (hb : validUtf8 b = true) : quote2 verb a b = .refused := by
  unfold quote2
  cases hqa : quotedString a with
  | refused => rfl
  | panic => exact absurd hqa (quoted_never_panics a ha)
  | ok qa =>
    cases hqb : quotedString b with
    | refused => rfl
    | panic => exact absurd hqb (quoted_never_panics b hb)
    | ok qb =>
      rcases h with h | h
      · have := (quoted_refuses_iff_crlf a).mpr h
        rw [hqa] at this; cases this
      · have := (quoted_refuses_iff_crlf b).mpr h
        rw [hqb] at this; cases this

/-- the encoder adds exactly one CRLF, at the end: a command whose tag and arguments contain no CR/LF
    goes on the wire as a single line -/
theorem encode_single_line (tag args : Bytes) (ht : ∀ c ∈ tag, isCRLF c = false)
    (ha : ∀ c ∈ args, isCRLF c = false) :
    ∃ l, encode tag args = l ++ [13, 10] ∧ ∀ c ∈ l, isCRLF c = false := by
  refine ⟨tag ++ [32] ++ args, by simp [encode], ?_⟩
  intro c hc
  simp only [List.mem_append, List.mem_singleton] at hc
  rcases hc with (hc | hc) | hc
  · exact ht c hc
  · subst hc; decide
  · exact ha c hc

/-! non-vacuity -/
example : login (b!"a\"b") (b!"p\\") = .ok (b!"LOGIN \"a\\\"b\" \"p\\\\\"") := by decide
example : login (b!"a\r\nA2 LOGOUT") (b!"p") = .refused := by decide
example : lexQuoted (b!"\"a\\\"b\" rest") = some (b!"a\"b", b!" rest") := by decide

end C10
