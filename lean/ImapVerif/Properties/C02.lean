/-
  C02 - Streaming verdicts are final; prefixes of a response are 'incomplete'.
  Property theorems only (helper lemmas are in Proofs/).  `parseResponse` is the model of
  `imap_proto::Response::from_bytes`.
-/
import ImapVerif.Proofs.StableGrammar

open Bytes Parser Grammar

namespace C02

/-- an accept persists: same value, same consumed length, whatever bytes follow -/
theorem parse_stable_ok (b x : Bytes) (v : Response) (r : Bytes)
    (h : parseResponse b = .ok v r) : parseResponse (b ++ x) = .ok v (r ++ x) :=
  Stable.ok (p := parseResponse) b v r x h

/-- a reject persists (nom `Error` and `Failure`, both of which the codec turns into `io::Error`) -/
theorem parse_stable_err (b x : Bytes) :
    (parseResponse b = .err → parseResponse (b ++ x) = .err) ∧
    (parseResponse b = .fail → parseResponse (b ++ x) = .fail) :=
  ⟨Stable.err (p := parseResponse) b x, Stable.fail (p := parseResponse) b x⟩

/-- what is returned as remainder is a suffix of the buffer: "consumed length" is well defined -/
theorem parse_rest_is_suffix (b : Bytes) (v : Response) (r : Bytes)
    (h : parseResponse b = .ok v r) : ∃ c, b = c ++ r :=
  Stable.suffix (p := parseResponse) b v r h

/-- every proper prefix of the consumed part of an accepted response is reported 'incomplete':
    never an error, never a different response -/
theorem prefix_incomplete (c r : Bytes) (v : Response) (h : parseResponse (c ++ r) = .ok v r)
    (p y : Bytes) (hc : c = p ++ y) (hy : y ≠ []) : parseResponse p = .inc := by
  subst hc
  cases hp : parseResponse p with
  | inc => rfl
  | ok v' r' =>
    have := Stable.ok (p := parseResponse) p v' r' (y ++ r) hp
    rw [← List.append_assoc, h] at this
    simp only [Res.ok.injEq] at this
    have hl := congrArg List.length this.2
    simp at hl
    have : y.length = 0 := by omega
    exact absurd (List.eq_nil_of_length_eq_zero this) hy
  | err =>
    have := Stable.err (p := parseResponse) p (y ++ r) hp
    rw [← List.append_assoc, h] at this
    cases this
  | fail =>
    have := Stable.fail (p := parseResponse) p (y ++ r) hp
    rw [← List.append_assoc, h] at this
    cases this
  | panic => exact absurd hp (Stable.nopanic (p := parseResponse) p)

/-- where the network splits the stream cannot change what is parsed: if two buffers with a common
    prefix both reach a verdict, and the prefix itself already has one, they agree with it -/
theorem split_irrelevant (b x y : Bytes) (v : Response) (r : Bytes)
    (h : parseResponse b = .ok v r) :
    parseResponse (b ++ x) = .ok v (r ++ x) ∧ parseResponse (b ++ y) = .ok v (r ++ y) :=
  ⟨parse_stable_ok b x v r h, parse_stable_ok b y v r h⟩

/-! non-vacuity: a concrete accepted response and a concrete rejected buffer -/
example : parseResponse (b!"* 5 EXISTS\r\n") = .ok (.mailboxData (.exists_ 5)) [] := by rfl
example : parseResponse (b!"* 5 EXISTS\r\nA1") = .ok (.mailboxData (.exists_ 5)) (b!"A1") := by rfl
example : parseResponse (b!"* 5 EXI") = .inc := by rfl
example : parseResponse (b!"* 5 EXIT") = .err := by rfl

end C02
