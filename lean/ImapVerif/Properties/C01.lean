/-
  C01 - The response parser is total: no panic, abort, stack exhaustion or loop on any input.
  Property theorems only.  The model produces `Res.panic` at every place where the Rust source can
  panic (`unwrap`, slice / index expressions, the `panic!` arm), and every loop of the code is a
  fuel-bounded recursion whose fuel is shown never to run out.
  Not provable here (observed by the harness instead): bytes of native stack per recursion level,
  allocation failure.
-/
import ImapVerif.Proofs.StableGrammar

open Bytes Parser Grammar

namespace C01

/-- no input makes the parser panic -/
theorem parse_no_panic (b : Bytes) : parseResponse b ≠ .panic :=
  Stable.nopanic (p := parseResponse) b

/-- every input gets one of the three verdicts; an accept returns a suffix of the input as remainder -/
theorem parse_verdict (b : Bytes) :
    (∃ v r c, parseResponse b = .ok v r ∧ b = c ++ r) ∨ parseResponse b = .inc ∨
      parseResponse b = .err ∨ parseResponse b = .fail := by
  cases h : parseResponse b with
  | ok v r =>
    obtain ⟨c, hc⟩ := Stable.suffix (p := parseResponse) b v r h
    exact Or.inl ⟨v, r, c, rfl, hc⟩
  | inc => exact Or.inr (Or.inl rfl)
  | err => exact Or.inr (Or.inr (Or.inl rfl))
  | fail => exact Or.inr (Or.inr (Or.inr rfl))
  | panic => exact absurd h (parse_no_panic b)

/-- termination of `many0` / `many1` loops: any fuel above the input length gives the same result, so
    the `length + 1` the model supplies is never exhausted (each iteration consumes input) -/
theorem many0_fuel_irrelevant (p : Parser α) [Stable p] (n m : Nat) (i : Bytes) (acc : List α)
    (hn : i.length < n) (hm : i.length < m) : many0Go p n i acc = many0Go p m i acc :=
  Stable.many0Go_fuel p n m i acc hn hm

/-- termination of `separated_list0/1` loops -/
theorem sepList_fuel_irrelevant (sep : Parser Unit) (p : Parser α) [Stable sep] [Stable p]
    (n m : Nat) (i : Bytes) (acc : List α) (hn : i.length < n) (hm : i.length < m) :
    sepGo sep p n i acc = sepGo sep p m i acc :=
  Stable.sepGo_fuel sep p n m i acc hn hm

/-- the METADATA entry-name stage machine neither indexes out of range nor loops -/
theorem entryName_total (i : Bytes) : checkEntryName i = .ok ∨ checkEntryName i = .err :=
  EntryName.checkEntryName_total i

/-- recursion depth: `body` and `body_extension` recurse on a budget that starts at
    `MAX_NESTING + 1 = 33` and strictly decreases; at 0 they fail without recursing -/
theorem body_budget : body = bodyNested 33 ∧ bodyNested 0 = (failP : Parser BodyStructure) ∧
    bodyExtension 0 = (failP : Parser BodyExtension) := ⟨rfl, rfl, rfl⟩

set_option maxRecDepth 100000 in
/-- exceeding the budget is a parse failure, not a crash: 34 opening parentheses after
    BODYSTRUCTURE (one per level) -/
example : parseResponse (b!"* 1 FETCH (BODYSTRUCTURE " ++ List.replicate 34 40) = .fail := by rfl
set_option maxRecDepth 100000 in
example : parseResponse (b!"* 1 FETCH (BODYSTRUCTURE " ++ List.replicate 33 40) = .inc := by rfl

/-! the former crashing inputs are now ordinary parse errors -/
example : parseResponse (b!"* 1 FETCH (INTERNALDATE NIL)\r\n") = .err := by rfl
example : parseResponse (b!"* METADATA \"a\" (/shared/comment {2}\r\n" ++ [255, 254] ++ b!")\r\n") = .err := by rfl

end C01
