/-
  C08 - Literal content is opaque: message bytes cannot forge or break protocol framing.

  Full statement: for every response with a literal-capable position and every replacement
  content `s` of that literal (any bytes except NUL), the parser takes exactly `|s|` bytes as that
  field's value, and everything else about the parse - the other fields, where the response ends,
  what follows - is unchanged.

  Shape of the proof: the printer relation (`RT.EncString.literal`) admits *every* NUL-free content
  below 2^32 bytes in every string position (`literal_admissible`); the fidelity theorem of C03 then
  says the value is exactly that content and the continuation `rest` is exactly what followed - for
  every `rest`, including further responses and protocol look-alikes.  The content is never
  scanned: `literal_verbatim` has no hypothesis about CR, LF, quotes, parentheses or braces in `s`.

  Proved: `literal_verbatim` (the leaf, all contents), `literal_admissible`, and non-interference
  (`literal_noninterference`) for every response covered by `RT.EncResponse`, i.e. every response
  kind of the grammar and every literal-capable position in it (body sections, RFC822*, envelope
  and address strings, body-structure strings, mailbox names, metadata values and entries, ID keys
  and values, ACL identifiers, quota roots ...): wherever the relation uses `EncString`,
  `EncNString` or `EncAString`, the literal form with arbitrary NUL-free content is admitted.
  The NUL exclusion is the code's (`is_char8`), and is itself a theorem: `literal_refuses_nul`.
  Through the codec: `codec_cuts_at_encoding` and `codec_frames_are_the_responses` (any chunking).
-/
import ImapVerif.Proofs.RTResp
import ImapVerif.Proofs.CodecRT

open Bytes Parser Grammar RT

namespace C08

/-- the wire form of a literal with content `s` (zero padding `z` of the length) -/
def lit (z : Nat) (s : Bytes) : Bytes :=
  b!"{" ++ (List.replicate z 48 ++ decDigits s.length) ++ b!"}\r\n" ++ s

/-- the leaf: exactly `|s|` bytes are taken, whatever they are (no NUL), whatever follows -/
theorem literal_verbatim (s : Bytes) (z : Nat) (hs : ∀ c ∈ s, c ≠ 0) (hl : s.length < 2 ^ 32) (rest : Bytes) :
    literal (lit z s ++ rest) = .ok s rest :=
  literal_enc s (lit z s) (EncLiteral.mk z) ⟨hs, hl⟩ rest trivial

/-- every NUL-free content is admissible in every string / nstring / astring position -/
theorem literal_admissible (s : Bytes) (z : Nat) (hs : ∀ c ∈ s, c ≠ 0) (hl : s.length < 2 ^ 32) :
    EncString s (lit z s) ∧ EncNString (some s) (lit z s) ∧ EncAString s (lit z s) :=
  have h : EncString s (lit z s) := EncString.literal _ (EncLiteral.mk z) ⟨hs, hl⟩
  ⟨h, EncNString.some s _ h, EncAString.str _ h⟩

/-- non-interference at response level: two responses that differ only in the content of literals
    are both parsed to their own value with their own continuation untouched; in particular the
    response ends where its encoding ends and what follows is left exactly as sent -/
theorem literal_noninterference (r : Response) (e : Bytes) (h : EncResponse r e) (rest : Bytes) :
    parseResponse (e ++ rest) = .ok r rest := parseResponse_enc r e h rest

/-- an explicit instance of the above: the RFC822 attribute with arbitrary content -/
theorem rfc822_literal_opaque (n : Nat) (hn : n < 2 ^ 32) (s : Bytes) (z k : Nat)
    (hs : ∀ c ∈ s, c ≠ 0) (hl : s.length < 2 ^ 32) (rest : Bytes) :
    parseResponse (b!"* " ++ (decDigits n ++ (b!" FETCH " ++ (b!"(" ++ (b!"RFC822 " ++ lit z s) ++ b!")")) ++
        (List.replicate k 32 ++ b!"\r\n")) ++ rest)
      = .ok (.fetch n [.rfc822 (some s)]) rest := by
  have ha : EncAttr (.rfc822 (some s)) (spell (b!"RFC822 ") [] ++ lit z s) :=
    EncAttr.rfc822 [] _ _ (literal_admissible s z hs hl).2.1
  have hl' := EncAttrs.mk (spell (b!"RFC822 ") [] ++ lit z s, .rfc822 (some s)) []
    (by intro x hx; simp at hx; subst hx; exact ha)
  have hf := EncFetch.mk n (decDigits n) [] _ _ hn (by simpa using EncNumber.mk (n := n) 0) hl'
  have := parseResponse_enc _ _ (EncResponse.fetch _ _ k hf) rest
  simpa [spell] using this

/-- an envelope subject with arbitrary content: all ten fields still land in their slots -/
theorem envelope_subject_literal_opaque (v : Envelope) (s : Bytes) (z : Nat)
    (hs : ∀ c ∈ s, c ≠ 0) (hl : s.length < 2 ^ 32)
    (e1 e3 e4 e5 e6 e7 e8 e9 e10 : Bytes)
    (h1 : EncNString v.date e1) (hsub : v.subject = some s) (h3 : EncAddresses v.from_ e3)
    (h4 : EncAddresses v.sender e4) (h5 : EncAddresses v.replyTo e5) (h6 : EncAddresses v.to e6)
    (h7 : EncAddresses v.cc e7) (h8 : EncAddresses v.bcc e8) (h9 : EncNString v.inReplyTo e9)
    (h10 : EncNString v.messageId e10) (rest : Bytes) :
    envelope ([40] ++ (e1 ++ b!" " ++ lit z s ++ b!" " ++ e3 ++ b!" " ++ e4 ++ b!" " ++ e5 ++ b!" " ++ e6 ++
        b!" " ++ e7 ++ b!" " ++ e8 ++ b!" " ++ e9 ++ b!" " ++ e10) ++ [41] ++ rest) = .ok v rest := by
  have h2 : EncNString v.subject (lit z s) := hsub ▸ (literal_admissible s z hs hl).2.1
  exact envelope_enc v _ (EncEnvelope.mk v e1 (lit z s) e3 e4 e5 e6 e7 e8 e9 e10 h1 h2 h3 h4 h5 h6 h7 h8 h9 h10)
    Any rest trivial

/-- the only refusal: a NUL byte inside the announced length is a parse error of the field -/
theorem literal_refuses_nul (s : Bytes) (z : Nat) (hl : s.length < 2 ^ 32) (hs : 0 ∈ s) (rest : Bytes) :
    literal (lit z s ++ rest) = .err := by
  have hnum : number ((List.replicate z 48 ++ decDigits s.length) ++ (b!"}\r\n" ++ s ++ rest)) =
      .ok s.length (b!"}\r\n" ++ s ++ rest) :=
    number_enc (2 ^ 32) s.length _ (EncNumber.mk z) hl (b!"}\r\n" ++ s ++ rest)
      ⟨125, b!"\r\n" ++ s ++ rest, rfl, by decide⟩
  have hall : s.all isChar8 = false := by
    simp only [List.all_eq_false, isChar8]
    exact ⟨0, hs, by decide⟩
  simp only [lit, literal, Bind.bind, Parser.bindP, tag, tagGo, List.cons_append, List.nil_append,
    List.append_assoc, beq_self_eq_true, if_true] at hnum ⊢
  rw [hnum]
  simp only [tagGo, beq_self_eq_true, if_true, take_exact]
  simp [hall, errP]

/-! ### through the codec -/

/-- the codec cuts the frame at the length of the encoding, whatever its literals contain -/
theorem codec_cuts_at_encoding (r : Response) (e : Bytes) (h : EncResponse r e) (rest : Bytes) :
    Client.decodeC (e ++ rest) = .frame ⟨e, r⟩ rest := CodecRT.decodeC_enc r e h rest

/-- **message content cannot desynchronise the connection**: a transport that delivers the encodings
    of `items` - cut into reads in any way, with Pending anywhere - makes the framed codec deliver
    exactly those responses (value and bytes), in order; what follows them is framed as if it
    stood alone.  There is no hypothesis on the contents of literals beyond NUL-freeness. -/
theorem codec_frames_are_the_responses (k : Nat) (rs : List Client.REv) (res : List Client.PollR) (s' : Client.Rd)
    (rs' : List Client.REv) (items : List (Response × Bytes)) (hall : ∀ x ∈ items, EncResponse x.1 x.2)
    (tail : Bytes) (hdata : Framed.dataOf rs = (items.map (·.2)).flatten ++ tail)
    (h : Framed.polls k {} rs = (res, s', rs')) (hne : ∀ r ∈ res, r ≠ .item .error) :
    Framed.framesOf res ++ Framed.ideal (s'.rbuf ++ Framed.dataOf rs') =
      CodecRT.framesOfEncs items ++ Framed.ideal tail :=
  CodecRT.frames_of_encoded_stream k rs res s' rs' items hall tail hdata h hne

/-! ### non-vacuity: a protocol look-alike as content -/

/-- the content `)\r\nA0001 OK done\r\n` (a forged tagged completion) is just 18 bytes of value -/
example : parseResponse (b!"* 1 FETCH (RFC822 {18}\r\n)\r\nA0001 OK done\r\n)\r\nA0002 OK real\r\n") =
    .ok (.fetch 1 [.rfc822 (some (b!")\r\nA0001 OK done\r\n"))]) (b!"A0002 OK real\r\n") := by rfl

example : ∀ c ∈ (b!")\r\nA0001 OK done\r\n{5}\r\n\"(("), c ≠ 0 := by decide

end C08
