/-
  C07 - A delivered frame owns its bytes; its parsed view never dangles or changes.

  Full statement: the value seen through a delivered frame is identical from delivery until the
  frame is dropped, whatever happens meanwhile (further reads, growth or reuse of the receive
  buffer, decoding of later frames, closing or dropping the client; frames held in any number,
  moved across threads, dropped in any order); and safe code cannot obtain from a frame a
  reference that outlives it.

  What is a theorem here: the *ownership argument* the codec relies on (the comments in codec.rs),
  made precise as a model of allocations, byte ranges and reference counts (Frames.lean):
    * `frame_intact_from_delivery` / `frames_intact`: along every admissible history of receive,
      deliver, drop-frame and drop-buffer operations - any length, any interleaving, any contents
      written - the cells of every live frame are exactly those at its delivery;
    * `released_only_when_unreferenced`: an allocation is released only when no frame refers to it;
    * `frame_in_bounds`: a live frame always lies inside a live allocation;
    * `dropped_never_returns`: handles are not reused.
  The view is a function of the frame's cells only (`view`, definitional), so an unchanged range is
  an unchanged parsed value: in the implementation this is the oracle "every borrowed string of
  parsed() lies inside the frame's own bytes", checked on every delivered frame.

  What is modelled, not verified: the behaviour of `bytes::BytesMut` (`reserve` moves data inside
  the allocation only as the unique owner; otherwise it allocates; `split_to().freeze()` shares the
  allocation and bumps the reference count).  These are the admissibility conditions of `Own.step`;
  the correspondence run observes the real buffer's decision at every operation and the model must
  admit it and place the window and every live frame where the real pointers are.

  What is observed, not proved (runtime half, labelled partial): actual memory - re-reading every
  retained frame byte for byte and deeply (under AddressSanitizer in the thorough tier), from
  another thread, after allocator churn, after the transport / client is dropped; and the API half
  ("safe code cannot keep a borrowed view past its frame") is a set of must-not-compile programs
  checked with rustc (vh-probes/must_fail_c07_*).
-/
import ImapVerif.Proofs.FramesInv
import ImapVerif.Proofs.CodecRT

namespace C07

open Own

/-- every state reachable from the initial one by admissible operations satisfies the invariant -/
theorem reachable_inv (ops : List (Op × Nat)) (m : Mem) (s' : St) (m' : Mem)
    (hr : run {} m ops = some (s', m')) : Inv s' :=
  inv_run ops {} m s' m' inv_init hr

/-- frames live at both ends of any admissible history (from any reachable state) are unchanged -/
theorem frames_intact (pre ops : List (Op × Nat)) (m0 : Mem) (s : St) (m : Mem) (s' : St) (m' : Mem)
    (hpre : run {} m0 pre = some (s, m)) (hr : run s m ops = some (s', m'))
    (f : Frame) (hf : f ∈ s.frames) (hf' : f ∈ s'.frames) :
    ∀ i, i < f.len → view m' f i = view m f i :=
  run_intact ops s m s' m' (reachable_inv pre m0 s m hpre) hr f hf hf'

/-- **from delivery until drop**: the frame cut by a `deliver` shows, at the end of any admissible
    continuation in which it is still live, exactly the cells it showed when it was delivered -/
theorem frame_intact_from_delivery (pre ops : List (Op × Nat)) (m0 : Mem) (s : St) (m : Mem)
    (n : Nat) (s1 : St) (e : Eff) (v : Nat) (s' : St) (m' : Mem)
    (hpre : run {} m0 pre = some (s, m))
    (hd : step s (.deliver n) = some (s1, e))
    (hr : run s1 (applyEff m v e) ops = some (s', m'))
    (f : Frame) (hnew : f ∈ s1.frames) (hfresh : f.h = s.nextH) (hf' : f ∈ s'.frames) :
    ∀ i, i < f.len → view m' f i = view m f i := by
  have hinv : Inv s := reachable_inv pre m0 s m hpre
  have hinv1 : Inv s1 := inv_step s _ s1 e hinv hd
  intro i hi
  have h1 := run_intact ops s1 (applyEff m v e) s' m' hinv1 hr f hnew hf' i hi
  -- delivering writes nothing and releases nothing
  have he : e.writes = [] ∧ e.freed = [] := by
    simp only [step] at hd
    split at hd
    · cases hd
    · split at hd
      · cases hd; exact ⟨rfl, rfl⟩
      · cases hd
  have h2 : applyEff m v e f.a (f.off + i) = m f.a (f.off + i) := by
    apply applyEff_other
    · intro w hw; rw [he.1] at hw; cases hw
    · rw [he.2]; intro h; cases h
  have _ := hfresh
  show m' f.a (f.off + i) = m f.a (f.off + i)
  rw [h1, h2]

/-- an allocation is released only when no frame refers to it -/
theorem released_only_when_unreferenced (pre : List (Op × Nat)) (m0 : Mem) (s : St) (m : Mem)
    (op : Op) (s' : St) (e : Eff) (_hpre : run {} m0 pre = some (s, m)) (hs : step s op = some (s', e))
    (a : Nat) (ha : a ∈ e.freed) : ∀ f ∈ s'.frames, f.a ≠ a := by
  cases op with
  | recvInPlace n cap =>
    simp only [step] at hs
    split at hs
    · cases hs
    · split at hs
      · cases hs
      · split at hs
        · cases hs; cases ha
        · cases hs
  | recvShift n newOff cap =>
    simp only [step] at hs
    split at hs
    · cases hs
    · split at hs
      · cases hs
      · split at hs
        · cases hs; cases ha
        · cases hs
  | recvNew n cap =>
    simp only [step] at hs
    split at hs
    · cases hs
    · split at hs
      · simp only [Option.some.injEq, Prod.mk.injEq] at hs
        obtain ⟨rfl, rfl⟩ := hs
        rw [release_frames]
        exact release_freed _ _ _ ha
      · cases hs
  | deliver n =>
    simp only [step] at hs
    split at hs
    · cases hs
    · split at hs
      · cases hs; cases ha
      · cases hs
  | dropFrame hd =>
    simp only [step] at hs
    split at hs
    · cases hs
    · simp only [Option.some.injEq, Prod.mk.injEq] at hs
      obtain ⟨rfl, rfl⟩ := hs
      rw [release_frames]
      exact release_freed _ _ _ ha
  | dropBuf =>
    simp only [step] at hs
    split at hs
    · cases hs
    · simp only [Option.some.injEq, Prod.mk.injEq] at hs
      obtain ⟨rfl, rfl⟩ := hs
      rw [release_frames]
      exact release_freed _ _ _ ha

/-- a live frame lies inside a live allocation (the view never reads out of bounds) -/
theorem frame_in_bounds (ops : List (Op × Nat)) (m : Mem) (s' : St) (m' : Mem)
    (hr : run {} m ops = some (s', m')) (f : Frame) (hf : f ∈ s'.frames) :
    ∃ size, look s'.sizes f.a = some size ∧ f.off + f.len ≤ size :=
  (reachable_inv ops m s' m' hr).frameAlloc f hf

/-- frames that share the receive buffer's allocation end before the buffer's window begins, so
    nothing the connection receives later can land in them -/
theorem frames_before_window (ops : List (Op × Nat)) (m : Mem) (s' : St) (m' : Mem)
    (hr : run {} m ops = some (s', m')) (w : Win) (hw : s'.win = some w) (f : Frame) (hf : f ∈ s'.frames)
    (ha : f.a = w.a) : f.off + f.len ≤ w.off :=
  (reachable_inv ops m s' m' hr).before w hw f hf ha

/-- a dropped frame never reappears -/
theorem dropped_never_returns (ops : List (Op × Nat)) (s : St) (m : Mem) (s' : St) (m' : Mem) (f : Frame)
    (hh : f.h < s.nextH) (hf : f ∉ s.frames) (hr : run s m ops = some (s', m')) : f ∉ s'.frames :=
  run_absent ops s m s' m' f hh hf hr

/-- only a unique owner may move data inside the allocation: with a live frame in the buffer's
    allocation the model refuses the in-allocation shift (the real buffer must then allocate) -/
theorem shift_refused_while_shared (s : St) (n newOff cap : Nat) (w : Win) (hw : s.win = some w)
    (f : Frame) (hf : f ∈ s.frames) (ha : f.a = w.a) : step s (.recvShift n newOff cap) = none := by
  have hsh : shared s w.a = true := by
    simp only [shared, List.any_eq_true]
    exact ⟨f, hf, by simp [ha]⟩
  simp only [step, hw]
  split
  · rfl
  · simp [hsh]

/-! ### the view is a function of the frame's own bytes -/

/-- for a connection carrying conformant responses, every frame the codec cuts holds exactly the
    bytes of one response, and the parsed value is the parse of those bytes alone: nothing outside
    the frame's range takes part in what `parsed()` shows.  (Together with `frames_intact`: unchanged
    cells, hence an unchanged value.) -/
theorem view_is_parse_of_own_bytes (items : List (Response × Bytes)) (hall : ∀ x ∈ items, RT.EncResponse x.1 x.2)
    (f : Client.Frame) (hf : f ∈ CodecRT.framesOfEncs items) :
    Grammar.parseResponse f.raw = .ok f.value [] := by
  simp only [CodecRT.framesOfEncs, List.mem_map] at hf
  obtain ⟨x, hx, rfl⟩ := hf
  have := RT.parseResponse_enc x.1 x.2 (hall x hx) []
  simpa using this

/-! ### the hypotheses are satisfiable: a history with retained frames, reallocation while they
    are live, out-of-order drops and the buffer dropped first -/

def demo : List (Op × Nat) :=
  [(.recvNew 10 64, 1), (.deliver 4, 0), (.recvInPlace 5 60, 2), (.deliver 3, 0), (.recvNew 100 128, 3),
   (.dropFrame 0, 0), (.dropBuf, 0)]

example : ∃ s m, run {} (fun _ _ => 0) demo = some (s, m) ∧ s.frames = [⟨1, 1, 4, 3⟩] ∧ s.win = none := by
  refine ⟨_, _, rfl, rfl, rfl⟩

end C07
