/-
  C15 - Taking ownership of a response preserves its value.
  `Owned.*` are the models of the hand-written `into_owned` functions (field by field, in the field
  order of the source).  Each is the identity on the model's values; the correspondence check ties
  every one of them to the Rust function of the same name.
  Not provable here (observed by the harness): that the owned copy survives the source buffer being
  overwritten and freed - that is memory behaviour of `Cow::Owned`.
-/
import ImapVerif.Owned
import ImapVerif.OwnedParts

namespace C15

open Owned

theorem map_id' {α : Type} (f : α → α) (h : ∀ a, f a = a) (l : List α) : l.map f = l := by
  induction l with
  | nil => rfl
  | cons x xs ih => simp [h x, ih]

theorem omap_id' {α : Type} (f : α → α) (h : ∀ a, f a = a) (o : Option α) : o.map f = o := by
  cases o <;> simp [h]

theorem cow_id (b : Bytes) : cow b = b := rfl

@[simp] theorem map_cow (l : List Bytes) : l.map cow = l := map_id' cow cow_id l
@[simp] theorem omap_cow (o : Option Bytes) : o.map cow = o := by cases o <;> rfl

theorem capability_id (c : Capability) : capability c = c := by cases c <;> rfl

theorem responseCode_id (c : ResponseCode) : responseCode c = c := by
  cases c <;> simp [responseCode, map_id' capability capability_id]

theorem nameAttribute_id (a : NameAttribute) : nameAttribute a = a := by cases a <;> rfl

theorem mailboxDatum_id (d : MailboxDatum) : mailboxDatum d = d := by
  cases d <;> simp [mailboxDatum, cow_id, map_id' nameAttribute nameAttribute_id]

theorem address_id (a : Address) : address a = a := by
  cases a with
  | mk n ad m h => cases n <;> cases ad <;> cases m <;> cases h <;> rfl

theorem addrs_id (v : Option (List Address)) : (v.map fun l => l.map address) = v := by
  cases v with
  | none => rfl
  | some l => simp [map_id' address address_id]

theorem obytes_id (o : Option Bytes) : o.map cow = o := by cases o <;> rfl

theorem envelope_id (e : Envelope) : envelope e = e := by
  cases e
  simp [envelope, addrs_id, obytes_id]

theorem bodyParams_id (p : BodyParams) : bodyParams p = p := by
  cases p with
  | none => rfl
  | some l =>
    simp only [bodyParams, Option.map_some, Option.some.injEq]
    exact map_id' _ (fun kv => by cases kv; rfl) l

theorem contentType_id (t : ContentType) : contentType t = t := by
  cases t; simp [contentType, cow_id, bodyParams_id]

theorem contentDisposition_id (d : ContentDisposition) : contentDisposition d = d := by
  cases d; simp [contentDisposition, cow_id, bodyParams_id]

theorem contentEncoding_id (e : ContentEncoding) : contentEncoding e = e := by cases e <;> rfl

theorem common_id (c : BodyContentCommon) : common c = c := by
  cases c with
  | mk ty d l loc =>
    simp only [common, contentType_id, BodyContentCommon.mk.injEq, true_and]
    refine ⟨omap_id' _ contentDisposition_id d, ?_, obytes_id loc⟩
    cases l with
    | none => rfl
    | some v => simp [map_id' cow cow_id]

theorem single_id (o : BodyContentSinglePart) : single o = o := by
  cases o; simp [single, obytes_id, contentEncoding_id]

mutual
  theorem bodyExtension_id : ∀ e : BodyExtension, bodyExtension e = e
    | .num _ => rfl
    | .str s => by cases s <;> rfl
    | .list v => by simp [bodyExtension, bodyExtensions_id v]
  theorem bodyExtensions_id : ∀ v : List BodyExtension, bodyExtensions v = v
    | [] => rfl
    | x :: xs => by simp [bodyExtensions, bodyExtension_id x, bodyExtensions_id xs]
end

theorem optExt_id (e : Option BodyExtension) : optExt e = e := by
  cases e <;> simp [optExt, bodyExtension_id]

mutual
  theorem bodyStructure_id : ∀ b : BodyStructure, bodyStructure b = b
    | .basic c o e => by simp [bodyStructure, common_id, single_id, optExt_id]
    | .text c o l e => by simp [bodyStructure, common_id, single_id, optExt_id]
    | .message c o env b l e => by
      simp [bodyStructure, common_id, single_id, optExt_id, envelope_id, bodyStructure_id b]
    | .multipart c bs e => by simp [bodyStructure, common_id, optExt_id, bodyStructures_id bs]
  theorem bodyStructures_id : ∀ v : List BodyStructure, bodyStructures v = v
    | [] => rfl
    | x :: xs => by simp [bodyStructures, bodyStructure_id x, bodyStructures_id xs]
end

theorem attributeValue_id (a : AttributeValue) : attributeValue a = a := by
  cases a <;> simp [attributeValue, cow_id, bodyStructure_id, envelope_id]

theorem aclEntry_id (e : AclEntry) : aclEntry e = e := by cases e; rfl
theorem acl_id (a : Acl) : acl a = a := by cases a; simp [acl, cow_id, map_id' aclEntry aclEntry_id]
theorem listRights_id (r : ListRights) : listRights r = r := by cases r; rfl
theorem myRights_id (r : MyRights) : myRights r = r := by cases r; rfl
theorem quotaResourceName_id (n : QuotaResourceName) : quotaResourceName n = n := by cases n <;> rfl
theorem quotaResource_id (r : QuotaResource) : quotaResource r = r := by
  cases r; simp [quotaResource, quotaResourceName_id]
theorem quota_id (q : Quota) : quota q = q := by
  cases q; simp [quota, cow_id, map_id' quotaResource quotaResource_id]
theorem quotaRoot_id (q : QuotaRoot) : quotaRoot q = q := by
  cases q; simp [quotaRoot, cow_id]

/-- **C15**: `Response::into_owned` (and with it every `into_owned` below it) preserves the value:
    every field, every element, in place -/
theorem intoOwned_id (v : Response) : response v = v := by
  cases v <;> simp [response, cow_id, map_id' capability capability_id, omap_id' responseCode responseCode_id,
    map_id' attributeValue attributeValue_id, mailboxDatum_id, quota_id, quotaRoot_id, acl_id,
    listRights_id, myRights_id]

/-- the three public building blocks of a body structure that `Response::into_owned` does not reach -/
theorem bodyFields_id (f : Grammar.BodyFields) : bodyFields f = f := by
  cases f; simp [bodyFields, bodyParams_id, contentEncoding_id]

theorem bodyExt1Part_id (x : Grammar.BodyExt1Part) : bodyExt1Part x = x := by
  cases x; simp [bodyExt1Part, omap_id' contentDisposition contentDisposition_id, optExt_id]

theorem bodyExtMPart_id (x : Grammar.BodyExtMPart) : bodyExtMPart x = x := by
  cases x; simp [bodyExtMPart, bodyParams_id, omap_id' contentDisposition contentDisposition_id, optExt_id]

end C15
