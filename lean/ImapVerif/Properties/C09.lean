/-
  C09 - A complete line always gets a verdict; the parser cannot stall the connection.
  `Line.frameEnd` is the independent lexical framer of IMAP (scan to CRLF; if the line ends in `{n}`
  skip n bytes and continue), written from the framing rule and not from the parser.
-/
import ImapVerif.Proofs.LineSafeGrammar

open Bytes Parser Grammar Line

namespace C09

/-- whenever the buffer holds a lexically complete frame, the parser answers a response or an error,
    never 'incomplete' - whether or not the line is well formed, whatever follows the frame -/
theorem complete_line_verdict (b : Bytes) (n : Nat) (h : frameEnd b = some n) :
    parseResponse b ≠ .inc := by
  intro hinc
  have := frameEnd_none_of_segOpen b (LineOpen.inc (p := parseResponse) b hinc)
  rw [this] at h
  cases h

/-- Incomplete only ever means: the buffer ends inside a line or inside an announced literal -/
theorem incomplete_is_open (b : Bytes) (h : parseResponse b = .inc) : SegOpen b :=
  LineOpen.inc (p := parseResponse) b h

/-- an accepted response is a `Seg` (CR/LF-free bytes and whole literals) followed by one CRLF -/
theorem ok_ends_after_seg (b : Bytes) (v : Response) (r : Bytes) (h : parseResponse b = .ok v r) :
    ∃ c, b = c ++ [13, 10] ++ r ∧ Seg c :=
  LineEnd.ok (p := parseResponse) b v r h

/-- an accepted response without literals ends exactly at the first CRLF of the buffer -/
theorem no_literal_ends_at_first_crlf (b : Bytes) (v : Response) (r : Bytes)
    (h : parseResponse b = .ok v r) :
    ∃ c, b = c ++ [13, 10] ++ r ∧ Seg c ∧ (Free c → findCRLF b = some c.length) := by
  obtain ⟨c, hb, hs⟩ := ok_ends_after_seg b v r h
  refine ⟨c, hb, hs, ?_⟩
  intro hf
  rw [hb]
  have := findCRLF_prefix c r hf
  simpa using this

/-- no construct other than a literal can span CRLF: inside what the parser consumed, every CRLF
    belongs to a literal header or to literal content -/
theorem consumed_is_seg (b : Bytes) (v : Response) (r : Bytes) (h : parseResponse b = .ok v r) :
    ∃ c, b = c ++ [13, 10] ++ r ∧ Seg c := ok_ends_after_seg b v r h

/-! non-vacuity: the framer recognises complete frames (with and without literals), and the former
    stalling input is now an error -/
example : frameEnd (b!"* 5 EXISTS\r\n") = some 12 := by rfl
example : frameEnd (b!"* 1 FETCH (RFC822 {3}\r\nabc)\r\nA1 OK\r\n") = some 29 := by rfl
example : frameEnd (b!"* 1 FETCH (RFC822 {3}\r\nab") = none := by rfl
example : frameEnd (b!"* METADATA \"\" (/private/vendor \"x\")\r\n") = some 37 := by rfl
example : parseResponse (b!"* METADATA \"\" (/private/vendor \"x\")\r\n") = .err := by rfl

end C09
