/-
  C13 - Numbers are converted exactly or rejected, never wrapped.
  Every numeric field of the model is produced by `number` (32-bit) or `number64` (64-bit), both
  instances of `numberB`; the length of a literal goes through `number`.
-/
import ImapVerif.Proofs.Num
import ImapVerif.Proofs.StableGrammar
import ImapVerif.Proofs.CodeText
import ImapVerif.Proofs.RTResp
import ImapVerif.Proofs.NumReject

open Bytes Parser Grammar

namespace C13

/-- 32-bit fields: whatever `number` accepts is exactly the value of the digits it consumed, and it
    is below 2^32 (no wrap, no truncation, no saturation) -/
theorem number_sound (b : Bytes) (n : Nat) (r : Bytes) (h : number b = .ok n r) :
    ∃ ds, b = ds ++ r ∧ ds ≠ [] ∧ (∀ d ∈ ds, isDigit d = true) ∧ decVal ds = n ∧ n < 2 ^ 32 := by
  obtain ⟨ds, h1, h2, h3, h4, h5, _⟩ := Num.numberB_sound (2 ^ 32) b n r h
  exact ⟨ds, h1, h2, h3, h4, h5⟩

theorem number64_sound (b : Bytes) (n : Nat) (r : Bytes) (h : number64 b = .ok n r) :
    ∃ ds, b = ds ++ r ∧ ds ≠ [] ∧ (∀ d ∈ ds, isDigit d = true) ∧ decVal ds = n ∧ n < 2 ^ 64 := by
  obtain ⟨ds, h1, h2, h3, h4, h5, _⟩ := Num.numberB_sound (2 ^ 64) b n r h
  exact ⟨ds, h1, h2, h3, h4, h5⟩

/-- every numeral of a number below 2^32, with any number of leading zeros, followed by a non-digit,
    yields precisely that number -/
theorem number_complete (n z : Nat) (hn : n < 2 ^ 32) (c : UInt8) (r : Bytes) (hc : isDigit c = false) :
    number (List.replicate z 48 ++ decDigits n ++ c :: r) = .ok n (c :: r) :=
  Num.numberB_complete (2 ^ 32) n z hn c r hc

theorem number64_complete (n z : Nat) (hn : n < 2 ^ 64) (c : UInt8) (r : Bytes) (hc : isDigit c = false) :
    number64 (List.replicate z 48 ++ decDigits n ++ c :: r) = .ok n (c :: r) :=
  Num.numberB_complete (2 ^ 64) n z hn c r hc

/-- a numeral beyond the range is a parse error at the field, whatever follows -/
theorem number_rejects (ds : Bytes) (hne : ds ≠ []) (hall : ∀ d ∈ ds, isDigit d = true)
    (hbig : 2 ^ 32 ≤ decVal ds) (c : UInt8) (r : Bytes) (hc : isDigit c = false) :
    number (ds ++ c :: r) = .err :=
  Num.numberB_rejects (2 ^ 32) ds hne hall hbig c r hc

theorem number64_rejects (ds : Bytes) (hne : ds ≠ []) (hall : ∀ d ∈ ds, isDigit d = true)
    (hbig : 2 ^ 64 ≤ decVal ds) (c : UInt8) (r : Bytes) (hc : isDigit c = false) :
    number64 (ds ++ c :: r) = .err :=
  Num.numberB_rejects (2 ^ 64) ds hne hall hbig c r hc

/-- a field that does not start with a digit - a sign, a radix prefix, anything - is not a number:
    there is no second conversion behind `number` that could give `-1` a value -/
theorem number_needs_digit (bound : Nat) (c : UInt8) (r : Bytes) (hc : isDigit c = false) :
    numberB bound (c :: r) = .err := by
  cases h : numberB bound (c :: r) with
  | ok n rest =>
    obtain ⟨ds, h1, h2, h3, _⟩ := Num.numberB_sound bound (c :: r) n rest h
    cases ds with
    | nil => exact absurd rfl h2
    | cons d ds' =>
      have : d = c := by simpa using (List.cons.inj h1.symm).1
      have := h3 d (by simp)
      simp_all
  | inc => simp [numberB, mapRes, takeWhile1, hc] at h
  | err => rfl
  | fail => simp [numberB, mapRes, takeWhile1, hc] at h
  | panic => simp [numberB, mapRes, takeWhile1, hc] at h

example : number (b!"-1 ") = .err := number_needs_digit _ _ _ (by decide)

theorem take_exact (s rest : Bytes) : take s.length (s ++ rest) = .ok s rest := by
  simp [take]

/-- the length of a literal is exact: `{n}CRLF` (any zero padding) followed by n non-NUL bytes yields
    exactly those n bytes and leaves exactly what follows them -/
theorem literal_length_exact (s : Bytes) (z : Nat) (hs : ∀ c ∈ s, c ≠ 0) (hl : s.length < 2 ^ 32)
    (rest : Bytes) :
    literal (b!"{" ++ (List.replicate z 48 ++ decDigits s.length) ++ b!"}\r\n" ++ s ++ rest)
      = .ok s rest := by
  have hnum := number_complete s.length z hl 125 (b!"\r\n" ++ s ++ rest) (by decide)
  have hall : s.all isChar8 = true := by
    simp only [List.all_eq_true, isChar8, bne_iff_ne]; exact hs
  simp only [literal, Bind.bind, Parser.bindP, tag, tagGo, List.cons_append, List.nil_append,
    List.append_assoc, beq_self_eq_true, if_true] at hnum ⊢
  rw [hnum]
  simp only [tagGo, beq_self_eq_true, if_true, take_exact]
  simp only [hall, if_true]; rfl

/-- a literal whose announced length does not fit 32 bits is a parse error (it is never wrapped to
    a shorter length, which would mis-frame the stream) -/
theorem literal_length_overflow (ds : Bytes) (hne : ds ≠ []) (hall : ∀ d ∈ ds, isDigit d = true)
    (hbig : 2 ^ 32 ≤ decVal ds) (r : Bytes) :
    literal (b!"{" ++ ds ++ b!"}" ++ r) = .err := by
  have hnum := number_rejects ds hne hall hbig 125 r (by decide)
  simp only [literal, Bind.bind, Parser.bindP, tag, tagGo, List.cons_append, List.nil_append,
    List.append_assoc, beq_self_eq_true, if_true] at hnum ⊢
  rw [hnum]

/-! non-vacuity and boundary instances -/
example : number (b!"4294967295 ") = .ok 4294967295 (b!" ") := by rfl
example : number (b!"4294967296 ") = .err := by rfl
example : number (b!"0000000000000000000000000000004294967295 ") = .ok 4294967295 (b!" ") := by rfl
example : number64 (b!"18446744073709551615)") = .ok 18446744073709551615 (b!")") := by rfl
example : number64 (b!"18446744073709551616)") = .err := by rfl
/-- 2^32 + 5 is not 5 -/
example : parseResponse (b!"* 4294967301 EXISTS\r\n") = .err := by rfl
/-- inside a bracketed response code an out-of-range numeral leaves the code unparsed: the text is
    handed over verbatim -/
example : parseResponse (b!"* OK [UIDNEXT 4294967296] x\r\n")
    = .ok (.data .ok none (some (b!"[UIDNEXT 4294967296] x"))) [] := by rfl

/-! ### response level: an out-of-range numeral inside a bracketed code leaves the code as text -/

open RT in
/-- `* OK [UIDNEXT 4294967296] text` (any status, any of UIDVALIDITY / UIDNEXT / UNSEEN beyond 2^32-1 or
    HIGHESTMODSEQ beyond 2^64-1, any keyword case, any number of digits): the response is a status
    response *without* a code whose text is the complete bracketed string - the number is not
    wrapped, not truncated and not silently turned into another code -/
theorem status_line_code_overflow (st : Status) (ms : List Bool) (k : NumCode) (m : List Bool) (ds : Bytes)
    (hne : ds ≠ []) (hall : ∀ d ∈ ds, isDigit d = true) (hbig : k.bound ≤ decVal ds) (t : Bytes) (ht : IsText t)
    (rest : Bytes) :
    parseResponse (b!"* " ++ ((spell (statusKw st) ms ++ (b!" " ++ (b!"[" ++ (spell k.kw m ++ (ds ++ (b!"]" ++ t)))))) ++
        b!"\r\n") ++ rest)
      = .ok (.data st none (some (b!"[" ++ (spell k.kw m ++ (ds ++ (b!"]" ++ t)))))) rest := by
  have hrt : Parses respText (b!"[" ++ (spell k.kw m ++ (ds ++ (b!"]" ++ t))))
      (none, some (b!"[" ++ (spell k.kw m ++ (ds ++ (b!"]" ++ t))))) (Starts crlfStart) :=
    fun r hr => respText_overflow_is_text k m ds hne hall hbig t ht r hr
  have htr : Parses trailingRespText (b!" " ++ (b!"[" ++ (spell k.kw m ++ (ds ++ (b!"]" ++ t)))))
      (none, some (b!"[" ++ (spell k.kw m ++ (ds ++ (b!"]" ++ t))))) (Starts crlfStart) := by
    unfold trailingRespText
    exact Parses.map _ (v := some (none, some (b!"[" ++ (spell k.kw m ++ (ds ++ (b!"]" ++ t))))))
      (Parses.optSome (Parses.bind (tag_ok _) hrt (fun _ _ => trivial)))
  have hrc : Parses responseDataAlt (spell (statusKw st) ms ++ (b!" " ++ (b!"[" ++ (spell k.kw m ++ (ds ++ (b!"]" ++ t))))))
      (.data st none (some (b!"[" ++ (spell k.kw m ++ (ds ++ (b!"]" ++ t)))))) (Starts crlfStart) := by
    unfold responseDataAlt
    refine Parses.altL ?_
    unfold respCond
    refine Parses.bind (statusP_enc st ms) ?_ (fun _ _ => trivial)
    exact Parses.bind' htr (Parses.pure _ _) (fun _ h => h) (by simp)
  have := parseResponse_untaggedF _ _ 0 (Starts crlfStart) hrc (fun r => ⟨13, 10 :: r, by simp, by decide⟩) rest
  simpa using this

/-- non-vacuity of the hypotheses, and the concrete instance -/
example : RT.NumCode.uidNext.bound ≤ decVal (b!"4294967296") := by decide
example : parseResponse (b!"* OK [UIDNEXT 4294967296] x\r\n") =
    .ok (.data .ok none (some (b!"[UIDNEXT 4294967296] x"))) [] := by rfl

/-! ### response level: an out-of-range numeral in front of the response, or in a FETCH attribute -/

/-- `* <numeral beyond 32 bits> ...` - whatever follows the numeral (EXISTS, RECENT, EXPUNGE, FETCH (...),
    anything) - is a parse error of the whole response parser: no alternative gives it a value -/
theorem untagged_number_overflow (ds : Bytes) (hne : ds ≠ []) (hall : ∀ d ∈ ds, isDigit d = true)
    (hbig : 2 ^ 32 ≤ decVal ds) (c : UInt8) (r : Bytes) (hc : isDigit c = false) :
    parseResponse (b!"* " ++ (ds ++ c :: r)) = .err :=
  RT.parseResponse_err_big ⟨ds, c, r, rfl, hne, hall, hbig, hc⟩

/-- `* n FETCH (UID <too big>`, `(RFC822.SIZE <too big>` (32 bits), `(MODSEQ (<too big>`, `(X-GM-MSGID <too big>`
    (64 bits), in every spelling of the keywords and for every sequence number `n` with any leading
    zeros: a parse error of the whole response parser -/
theorem fetch_attribute_overflow (n : Nat) (hn : n < 2 ^ 32) (z : Nat) (mf : List Bool) (a : RT.NumAttr) (m : List Bool)
    (i : Bytes) (h : a.Big i) :
    parseResponse (b!"* " ++ ((List.replicate z 48 ++ decDigits n) ++ (RT.spell (b!" FETCH ") mf ++ 40 :: (RT.spell a.kw m ++ i))))
      = .err :=
  RT.parseResponse_fetch_err n hn _ (.mk z) mf _ (RT.msgAtt_err_big a m i h)

/-- non-vacuity: concrete instances of the two theorems, and what the parser says on them -/
example : parseResponse (b!"* 4294967296 EXISTS\r\n") = .err :=
  untagged_number_overflow (b!"4294967296") (by decide) (by decide) (by decide) 32 (b!"EXISTS\r\n") (by decide)
example : RT.NumAttr.uid.Big (b!"4294967296)\r\n") :=
  ⟨b!"4294967296", 41, b!"\r\n", rfl, by decide, by decide, by decide, by decide⟩
example : parseResponse (b!"* 1 FETCH (UID 4294967296)\r\n") = .err := by rfl
example : parseResponse (b!"* 1 FETCH (MODSEQ (18446744073709551616))\r\n") = .err := by rfl

/-- the same at any later position: after any number of well-formed attributes (every attribute form
    of the grammar, `RT.EncAttr`), `SP UID <too big>` etc. makes the whole response a parse error -
    the value parsed so far is not delivered with the offending attribute dropped or wrapped -/
theorem fetch_later_attribute_overflow (n : Nat) (hn : n < 2 ^ 32) (z : Nat) (mf : List Bool)
    (first : Bytes × AttributeValue) (others : List (Bytes × AttributeValue))
    (hall : ∀ x ∈ first :: others, RT.EncAttr x.2 x.1)
    (a : RT.NumAttr) (m : List Bool) (i : Bytes) (h : a.Big i) :
    parseResponse (b!"* " ++ ((List.replicate z 48 ++ decDigits n) ++ (RT.spell (b!" FETCH ") mf ++
      ([40] ++ ((first.1 ++ (others.map fun x => [32] ++ x.1).flatten) ++ 32 :: (RT.spell a.kw m ++ i))))))
      = .err :=
  RT.parseResponse_fetch_err_later n hn _ (.mk z) mf first others hall _ (RT.msgAtt_err_big a m i h)

example : parseResponse (b!"* 1 FETCH (FLAGS () UID 4294967296)\r\n") = .err := by rfl

end C13
