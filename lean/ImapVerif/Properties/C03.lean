/-
  C03 - Parse fidelity: the value returned is exactly what the server sent.

  Full statement (for the record):
      for every response value `r` of the response type tree and every RFC-conformant wire
      encoding `e` of it, for every continuation `rest`:
          parseResponse (e ++ rest) = ok r rest
      i.e. exactly that value (every field in its own slot, every list element present and in
      order, numbers and byte strings unchanged) and exactly that encoding consumed.

  "RFC-conformant wire encoding" is made precise by the relational printer `RT.EncResponse`
  (Proofs/RT*.lean): its constructors are the spelling choices of RFC 3501 section 9 and of the
  extensions, each parameterised by keyword case masks, string forms (quoted / literal / atom
  where allowed / NIL), zero padding of numerals and the tolerated deviations.

  What is proved (`fidelity`): the statement for every response the relation covers, which is every
  production of the response grammar the parser implements:
      * FETCH with every attribute: BODY[section]<origin>, BODYSTRUCTURE / BODY (text, message/rfc822,
        basic and multipart parts, body fields, parameters, encoding, disposition, language, location,
        extension data, nested to the depth budget), ENVELOPE (ten fields; address lists of any length),
        INTERNALDATE, FLAGS, MODSEQ, RFC822, RFC822.HEADER, RFC822.SIZE, RFC822.TEXT, UID, X-GM-LABELS,
        X-GM-MSGID, in any number and order;
      * mailbox data: EXISTS, RECENT, FLAGS, SEARCH, SORT, LIST, LSUB, STATUS, X-GM-LABELS, X-GM-MSGID,
        METADATA (solicited and unsolicited);
      * EXPUNGE, CAPABILITY, ENABLED, VANISHED, QUOTA, QUOTAROOT, ID, ACL, LISTRIGHTS, MYRIGHTS;
      * untagged status responses, tagged completions and continuation requests with all 19 response
        codes and the forms `[code] text`, `[code]`, `text`, nothing.
  Residual restrictions, all visible as hypotheses of the relation's constructors (they delimit
  "RFC-conformant encoding of a value of the crate's types", they are not gaps of the proof):
      * quoted strings hold no `"` or `\` (the property sends those in literal form); literals hold no
        NUL and are shorter than 2^32 (the code's own limits, C08 / C13);
      * body structures nest at most MAX_NESTING = 32 deep (fix F3);
      * a basic body part's media type, when quoted, is not TEXT or MESSAGE/RFC822 (those have forms of
        their own); a content transfer encoding given as `other` is not one of the five keywords;
      * human-readable text without a code does not begin with `[`;
      * values the crate's types cannot hold are identified as the types do: HEADER.FIELDS names and
        ID pairs with NIL value are dropped, LIST attributes / capabilities / quota resources are
        classified by their complete atom, INBOX is folded, a range high:low is the set low:high.
-/
import ImapVerif.Proofs.RTResp

open Bytes Parser Grammar RT

namespace C03

/-- fidelity for every covered response: the value and the consumed length are exactly those sent -/
theorem fidelity (r : Response) (e : Bytes) (h : EncResponse r e) (rest : Bytes) :
    parseResponse (e ++ rest) = .ok r rest :=
  parseResponse_enc r e h rest

/-- ... in particular a complete encoding standing alone is consumed entirely -/
theorem fidelity_alone (r : Response) (e : Bytes) (h : EncResponse r e) :
    parseResponse e = .ok r [] := by
  have := parseResponse_enc r e h []
  simpa using this

/-- every field of an address lands in its own slot -/
theorem address_fidelity (a : Address) (e : Bytes) (h : EncAddress a e) (rest : Bytes) :
    address (e ++ rest) = .ok a rest := address_enc a e h Any rest trivial

/-- address lists: every element present, in order -/
theorem addresses_fidelity (v : Option (List Address)) (e : Bytes) (h : EncAddresses v e) (rest : Bytes) :
    optAddresses (e ++ rest) = .ok v rest := optAddresses_enc v e h Any rest trivial

/-- the envelope's ten fields land in their own slots (date, subject, from, sender, reply-to, to,
    cc, bcc, in-reply-to, message-id), whatever the spelling of each -/
theorem envelope_fidelity (v : Envelope) (e : Bytes) (h : EncEnvelope v e) (rest : Bytes) :
    envelope (e ++ rest) = .ok v rest := envelope_enc v e h Any rest trivial

/-- a fetch attribute inside the list (followed by a space or the closing parenthesis) -/
theorem attribute_fidelity (v : AttributeValue) (e : Bytes) (h : EncAttr v e) (c : UInt8) (rest : Bytes)
    (hc : c = 32 ∨ c = 41) : msgAtt (e ++ c :: rest) = .ok v (c :: rest) :=
  msgAtt_enc v e h (c :: rest) ⟨c, rest, rfl, by rcases hc with rfl | rfl <;> decide⟩

/-- body structures: every field of every part in its own slot, children in order, to any depth
    within the nesting budget (33 = the outermost level plus MAX_NESTING) -/
theorem body_structure_fidelity (v : BodyStructure) (e : Bytes) (h : EncBody 33 v e) (rest : Bytes) :
    body (e ++ rest) = .ok v rest := body_enc v e h Any rest trivial

/-- numbers: any zero padding, value unchanged (32-bit and 64-bit fields) -/
theorem number_fidelity (n : Nat) (hn : n < 2 ^ 32) (e : Bytes) (h : EncNumber n e) (c : UInt8) (rest : Bytes)
    (hc : isDigit c = false) : number (e ++ c :: rest) = .ok n (c :: rest) :=
  number_enc (2 ^ 32) n e h hn (c :: rest) ⟨c, rest, rfl, by simp [notDigit, hc]⟩

theorem number64_fidelity (n : Nat) (hn : n < 2 ^ 64) (e : Bytes) (h : EncNumber n e) (c : UInt8) (rest : Bytes)
    (hc : isDigit c = false) : number64 (e ++ c :: rest) = .ok n (c :: rest) :=
  number_enc (2 ^ 64) n e h hn (c :: rest) ⟨c, rest, rfl, by simp [notDigit, hc]⟩

/-- byte strings: every form of an nstring returns the bytes unchanged -/
theorem nstring_fidelity (v : Option Bytes) (e : Bytes) (h : EncNString v e) (rest : Bytes) :
    nstring (e ++ rest) = .ok v rest := nstring_enc v e h rest trivial

/-! ### the hypotheses are satisfiable: a concrete response in a non-canonical spelling -/

theorem decDigits_small : decDigits 12 = b!"12" ∧ decDigits 7 = b!"7" ∧ decDigits 44827 = b!"44827" := by
  refine ⟨?_, ?_, ?_⟩ <;> simp [decDigits, digitOf]

example : EncResponse (.fetch 12 [.uid 7, .rfc822Size 44827, .rfc822 none])
    (b!"* 12 fetch (uid 007 RFC822.SIZE 44827 RFC822 nil) \r\n") := by
  have hu : EncAttr (.uid 7) (b!"uid 007") := by
    have := EncAttr.uid [true, true, true] 7 _ (by decide) (EncNumber.mk (n := 7) 2)
    simpa [spell, flipCase, decDigits_small] using this
  have hs : EncAttr (.rfc822Size 44827) (b!"RFC822.SIZE 44827") := by
    have := EncAttr.rfc822Size [] 44827 _ (by decide) (EncNumber.mk (n := 44827) 0)
    simpa [spell, decDigits_small] using this
  have hr : EncAttr (.rfc822 none) (b!"RFC822 nil") := by
    have := EncAttr.rfc822 [] none _ (EncNString.nil [true, true, true])
    simpa [spell, flipCase] using this
  have ha := EncAttrs.mk (b!"uid 007", .uid 7) [(b!"RFC822.SIZE 44827", .rfc822Size 44827), (b!"RFC822 nil", .rfc822 none)]
    (by intro x hx; simp at hx; rcases hx with rfl | rfl | rfl <;> assumption)
  have hf := EncFetch.mk 12 (b!"12") [false, true, true, true, true, true] _ _ (by decide)
    (by have := EncNumber.mk (n := 12) 0; simpa [decDigits_small] using this) ha
  have := EncResponse.fetch _ _ 1 hf
  simpa [spell, flipCase] using this

/-- and the parser indeed returns it (kernel evaluation of the model on the same bytes) -/
example : parseResponse (b!"* 12 fetch (uid 007 RFC822.SIZE 44827 RFC822 nil) \r\n") =
    .ok (.fetch 12 [.uid 7, .rfc822Size 44827, .rfc822 none]) [] := by rfl

end C03
