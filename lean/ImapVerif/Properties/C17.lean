/-
  C17 - Body-structure search returns the IMAP part specifier of the matching part.
  `BodyStruct.table` models `BodyStructParser::new`, `searchCandidates` the set of paths `search` may
  return (any iteration order of the `HashMap`); `nodeAt` is the specification: the node addressed by
  a part specifier (1-based child indices from the root multipart down).
-/
import ImapVerif.BodyStruct

open BodyStruct

namespace C17

/-! ### the walk inserts exactly the pre-order list of (specifier, node) pairs -/

theorem insert_fresh (t : Table) (k : List Nat) (v : Nat) (h : ∀ e ∈ t, e.1 ≠ k) :
    t.insert k v = t ++ [(k, v)] := by
  unfold Table.insert
  have : t.any (fun e => e.1 == k) = false := by
    apply List.any_eq_false.mpr
    intro e he
    simpa using h e he
  simp [this]

theorem prefix_snoc_ne (pre : List Nat) (j k : Nat) (hjk : j ≠ k) (p : List Nat)
    (h1 : (pre ++ [k]) <+: p) : ¬ (pre ++ [j]) <+: p := by
  intro h2
  obtain ⟨a, ha⟩ := h1
  obtain ⟨b, hb⟩ := h2
  have : pre ++ ([k] ++ a) = pre ++ ([j] ++ b) := by
    simp only [← List.append_assoc]; rw [ha, hb]
  have := List.append_cancel_left this
  simp at this
  exact hjk this.1.symm

mutual
  theorem parts_prefix : ∀ (t : Tree) (pre : List Nat), ∀ e ∈ parts pre t, pre <+: e.1
    | .leaf id, pre => by
      intro e he
      simp [parts] at he
      subst he
      exact List.prefix_refl _
    | .multi id cs, pre => by
      intro e he
      simp only [parts, List.mem_cons] at he
      rcases he with rfl | he
      · exact List.prefix_refl _
      · obtain ⟨j, _, hj⟩ := partsChildren_prefix cs pre 1 e he
        exact List.IsPrefix.trans (List.prefix_append _ _) hj
  theorem partsChildren_prefix : ∀ (cs : List Tree) (pre : List Nat) (k : Nat),
      ∀ e ∈ partsChildren pre k cs, ∃ j, k ≤ j ∧ (pre ++ [j]) <+: e.1
    | [], pre, k => by intro e he; simp [partsChildren] at he
    | c :: cs, pre, k => by
      intro e he
      simp only [partsChildren, List.mem_append] at he
      rcases he with he | he
      · exact ⟨k, Nat.le_refl _, parts_prefix c (pre ++ [k]) e he⟩
      · obtain ⟨j, hj, hp⟩ := partsChildren_prefix cs pre (k + 1) e he
        exact ⟨j, by omega, hp⟩
end

mutual
  theorem walk_eq : ∀ (t : Tree) (pre : List Nat) (tbl : Table),
      (∀ e ∈ tbl, ¬ pre <+: e.1) → walk pre t tbl = tbl ++ parts pre t
    | .leaf id, pre, tbl => by
      intro h
      simp only [walk, parts]
      exact insert_fresh tbl pre id (fun e he heq => h e he (heq ▸ List.prefix_refl _))
    | .multi id cs, pre, tbl => by
      intro h
      simp only [walk, parts]
      rw [insert_fresh tbl pre id (fun e he heq => h e he (heq ▸ List.prefix_refl _))]
      rw [walkChildren_eq cs pre 1 (tbl ++ [(pre, id)])]
      · simp
      · intro e he j _ hp
        simp only [List.mem_append, List.mem_singleton] at he
        rcases he with he | rfl
        · exact h e he (List.IsPrefix.trans (List.prefix_append _ _) hp)
        · have := List.IsPrefix.length_le hp
          simp at this
          omega
  theorem walkChildren_eq : ∀ (cs : List Tree) (pre : List Nat) (k : Nat) (tbl : Table),
      (∀ e ∈ tbl, ∀ j, k ≤ j → ¬ (pre ++ [j]) <+: e.1) →
      walkChildren pre k cs tbl = tbl ++ partsChildren pre k cs
    | [], pre, k, tbl => by intro _; simp [walkChildren, partsChildren]
    | c :: cs, pre, k, tbl => by
      intro h
      simp only [walkChildren, partsChildren]
      rw [walk_eq c (pre ++ [k]) tbl (fun e he => h e he k (Nat.le_refl _))]
      rw [walkChildren_eq cs pre (k + 1) (tbl ++ parts (pre ++ [k]) c)]
      · simp
      · intro e he j hj
        simp only [List.mem_append] at he
        rcases he with he | he
        · exact h e he j (by omega)
        · exact prefix_snoc_ne pre j k (by omega) e.1 (parts_prefix c (pre ++ [k]) e he)
end

/-- the table built by the walk is the pre-order list of (part specifier, node) pairs -/
theorem table_eq_parts (root : Tree) : table root = parts [] root := by
  unfold table
  rw [walk_eq root [] [] (by intro e he; simp at he)]
  simp

/-! ### the pre-order list is exactly the graph of `nodeAt` -/

mutual
  theorem parts_spec : ∀ (t : Tree) (pre p : List Nat) (n : Nat),
      (p, n) ∈ parts pre t ↔ ∃ q, p = pre ++ q ∧ nodeAt t q = some n
    | .leaf id, pre, p, n => by
      simp only [parts, List.mem_singleton, Prod.mk.injEq]
      constructor
      · rintro ⟨rfl, rfl⟩; exact ⟨[], by simp, by simp [nodeAt]⟩
      · rintro ⟨q, rfl, hq⟩
        cases q with
        | nil => simp [nodeAt] at hq; simp [hq]
        | cons a as => simp [nodeAt] at hq
    | .multi id cs, pre, p, n => by
      simp only [parts, List.mem_cons, Prod.mk.injEq]
      rw [partsChildren_spec cs pre 1 p n (Nat.le_refl _)]
      constructor
      · rintro (⟨rfl, rfl⟩ | ⟨j, q, rfl, hj, hc⟩)
        · exact ⟨[], by simp, by simp [nodeAt]⟩
        · refine ⟨j :: q, rfl, ?_⟩
          simp only [nodeAt]
          have : j - 1 + 1 = j := by omega
          rw [this] at hc; exact hc
      · rintro ⟨q, rfl, hq⟩
        cases q with
        | nil => simp [nodeAt] at hq; left; simp [hq]
        | cons j q =>
          simp only [nodeAt] at hq
          right
          by_cases hj : 1 ≤ j
          · refine ⟨j, q, rfl, hj, ?_⟩
            have : j - 1 + 1 = j := by omega
            rw [this]; exact hq
          · have : j = 0 := by omega
            subst this
            cases cs with
            | nil => simp [childAt] at hq
            | cons c cs' => simp [childAt] at hq
  theorem partsChildren_spec : ∀ (cs : List Tree) (pre : List Nat) (k : Nat) (p : List Nat) (n : Nat),
      1 ≤ k → ((p, n) ∈ partsChildren pre k cs ↔
        ∃ j q, p = pre ++ (j :: q) ∧ k ≤ j ∧ childAt cs (j - k + 1) q = some n)
    | [], pre, k, p, n => by
      intro _
      simp [partsChildren, childAt]
    | c :: cs, pre, k, p, n => by
      intro hk
      simp only [partsChildren, List.mem_append]
      rw [parts_spec c (pre ++ [k]) p n, partsChildren_spec cs pre (k + 1) p n (by omega)]
      constructor
      · rintro (⟨q, rfl, hq⟩ | ⟨j, q, rfl, hj, hc⟩)
        · refine ⟨k, q, by simp, Nat.le_refl _, ?_⟩
          have : k - k + 1 = 1 := by omega
          simp [this, childAt, hq]
        · refine ⟨j, q, rfl, by omega, ?_⟩
          have h1 : j - k + 1 ≠ 1 := by omega
          have h0 : j - k + 1 ≠ 0 := by omega
          have e : j - k + 1 - 1 = j - (k + 1) + 1 := by omega
          simp only [childAt, h1, h0, if_false, e]
          exact hc
      · rintro ⟨j, q, rfl, hj, hc⟩
        by_cases hjk : j = k
        · subst hjk
          left
          have : j - j + 1 = 1 := by omega
          simp only [this, childAt, if_true] at hc
          exact ⟨q, by simp, hc⟩
        · right
          refine ⟨j, q, rfl, by omega, ?_⟩
          have h1 : j - k + 1 ≠ 1 := by omega
          have h0 : j - k + 1 ≠ 0 := by omega
          have e : j - k + 1 - 1 = j - (k + 1) + 1 := by omega
          simp only [childAt, h1, h0, if_false, e] at hc
          exact hc
end

/-- **table correctness**: a pair is in the table iff the path is the part specifier of that node -/
theorem table_complete_and_correct (root : Tree) (p : List Nat) (n : Nat) :
    (p, n) ∈ table root ↔ nodeAt root p = some n := by
  rw [table_eq_parts, parts_spec root [] p n]
  constructor
  · rintro ⟨q, rfl, hq⟩; simpa using hq
  · intro h; exact ⟨p, by simp, h⟩

/-- every path `search` can return leads to a part that satisfies the predicate -/
theorem search_sound (root : Tree) (pred : Nat → Bool) (p : List Nat)
    (h : p ∈ searchCandidates root pred) : ∃ n, nodeAt root p = some n ∧ pred n = true := by
  unfold searchCandidates at h
  simp only [List.mem_map, List.mem_filter] at h
  obtain ⟨⟨q, n⟩, ⟨hmem, hp⟩, rfl⟩ := h
  exact ⟨n, (table_complete_and_correct root q n).mp hmem, hp⟩

/-- `search` returns a path if and only if some part satisfies the predicate -/
theorem search_some_iff (root : Tree) (pred : Nat → Bool) :
    searchCandidates root pred ≠ [] ↔ ∃ p n, nodeAt root p = some n ∧ pred n = true := by
  constructor
  · intro h
    cases hc : searchCandidates root pred with
    | nil => exact absurd hc h
    | cons p ps =>
      obtain ⟨n, hn, hp⟩ := search_sound root pred p (by rw [hc]; simp)
      exact ⟨p, n, hn, hp⟩
  · rintro ⟨p, n, hn, hp⟩ hnil
    have hmem := (table_complete_and_correct root p n).mpr hn
    have : p ∈ searchCandidates root pred := by
      unfold searchCandidates
      simp only [List.mem_map, List.mem_filter]
      exact ⟨(p, n), ⟨hmem, hp⟩, rfl⟩
    rw [hnil] at this
    simp at this

/-- a part specifier addresses at most one node, so a predicate that selects exactly one node yields
    exactly one candidate path per occurrence in the table; in particular paths are determined by
    the node they lead to -/
theorem specifier_unique (root : Tree) (p : List Nat) (n m : Nat)
    (h1 : (p, n) ∈ table root) (h2 : (p, m) ∈ table root) : n = m := by
  have a := (table_complete_and_correct root p n).mp h1
  have b := (table_complete_and_correct root p m).mp h2
  rw [a] at b
  exact Option.some.inj b

/-! non-vacuity: a multipart with four children, numbered 1, 2, 3, 4 (not 1, 2, 4, 7) -/
example : table (.multi 0 [.leaf 1, .leaf 2, .leaf 3, .leaf 4])
    = [([], 0), ([1], 1), ([2], 2), ([3], 3), ([4], 4)] := by decide
example : nodeAt (.multi 0 [.leaf 1, .multi 2 [.leaf 3, .leaf 4], .leaf 5]) [2, 2] = some 4 := by decide

end C17
