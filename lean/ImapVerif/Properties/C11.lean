/-
  C11 - Tags are valid, unique within a window, and matched exactly.
  Part 1 (this section): the generator.  Part 2 (exact matching by the response stream) is stated on
  the client model, see `C11.completion_iff_equal` below once `ImapVerif.Client` is imported.
-/
import ImapVerif.Proofs.Tags
import ImapVerif.Proofs.ClientInv

open Bytes Builders

namespace C11

/-- every tag is a syntactically valid IMAP tag: non-empty, only tag characters (what the crate's own
    response parser accepts as `tag`) -/
theorem tag_valid (k : Nat) : tagOf k ≠ [] ∧ ∀ c ∈ tagOf k, Grammar.isTagChar c = true := by
  constructor
  · simp [tagOf]
  · intro c hc
    simp only [tagOf, pad4, List.mem_cons, List.mem_nil_iff, or_false] at hc
    rcases hc with rfl | rfl | rfl | rfl | rfl
    · decide
    all_goals exact Tags.digitOf_tagChar _ (Nat.mod_lt _ (by omega))

/-- any 10 000 tags issued consecutively on one connection are pairwise distinct (the counter is
    unbounded here; the Rust counter is a u64, so this covers the first 2^64 commands) -/
theorem tag_window_injective (i j : Nat) (hij : i < j) (hw : j < i + 10000) : tagOf i ≠ tagOf j := by
  intro h
  have := Tags.tagOf_inj_mod i j h
  omega

/-- the tag is a function of the counter modulo 10 000 (the period of the generator) -/
theorem tag_period (k : Nat) : tagOf (k + 10000) = tagOf k := by
  simp [tagOf]

example : tagOf 1 = b!"A0001" := by decide
example : tagOf 10000 = b!"A0000" := by decide
example : tagOf 12345 = b!"A2345" := by decide

end C11

/-! ### Part 2: exact matching by the response stream -/

namespace C11

open Client ClientInv

/-- the k-th command of a connection (k = 1, 2, …) gets the tag `tagOf k` -/
theorem call_tag (c : Conn) (args : Bytes) :
    (c.call args).2.tag = tagOf (c.issued + 1) ∧ (c.call args).1.issued = c.issued + 1 := ⟨rfl, rfl⟩

/-- polling never changes the tag counter or the stream's own tag -/
theorem poll_keeps_tags (s : RStream) (c : Conn) (rs : List REv) (ws : List WEv) :
    (Stream.pollNext s c rs ws).c.issued = c.issued ∧ (Stream.pollNext s c rs ws).s.tag = s.tag :=
  ⟨(pollNext_facts s c rs ws).2.2.1, (pollNext_facts s c rs ws).2.2.2.1⟩

/-- a command is treated as complete only by a tagged response whose tag is byte-for-byte its own -/
theorem completion_iff_equal (s : RStream) (c : Conn) (rs : List REv) (ws : List WEv) (h : s.st ≠ .done) :
    (Stream.pollNext s c rs ws).s.st = .done ↔
      ∃ f, (Stream.pollNext s c rs ws).res = .item (.frame f) ∧ requestId f.value = some s.tag :=
  (pollNext_facts s c rs ws).2.2.2.2.2.2.2.1 h

/-- completions carrying any other tag - stale, differing in case, a prefix or an extension of the
    right one - and untagged responses are handed through as ordinary items: the stream stays open -/
theorem lookalike_passed_through (s : RStream) (c : Conn) (rs : List REv) (ws : List WEv) (h : s.st ≠ .done)
    (f : Frame) (hres : (Stream.pollNext s c rs ws).res = .item (.frame f))
    (hne : requestId f.value ≠ some s.tag) : (Stream.pollNext s c rs ws).s.st ≠ .done := by
  intro hd
  obtain ⟨f', hf', hq⟩ := (completion_iff_equal s c rs ws h).mp hd
  rw [hres] at hf'
  cases hf'
  exact hne hq

/-- `requestId` is the tag of a tagged response and nothing else; equality is equality of byte strings -/
theorem requestId_spec (v : Response) (t : Bytes) :
    requestId v = some t ↔ ∃ st code info, v = .done t st code info := by
  cases v <;> simp [requestId]

example : requestId (.done (b!"a0001") .ok none none) ≠ some (b!"A0001") := by decide

end C11
