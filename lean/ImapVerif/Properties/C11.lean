/-
  C11 - Tags are valid, unique within a window, and matched exactly.
  Part 1 (this section): the generator.  Part 2 (exact matching by the response stream) is stated on
  the client model, see `C11.completion_iff_equal` below once `ImapVerif.Client` is imported.
-/
import ImapVerif.Proofs.Tags

open Bytes Builders

namespace C11

/-- every tag is a syntactically valid IMAP tag: non-empty, only tag characters (what the crate's own
    response parser accepts as `tag`) -/
theorem tag_valid (k : Nat) : tagOf k ≠ [] ∧ ∀ c ∈ tagOf k, Grammar.isTagChar c = true := by
  constructor
  · simp [tagOf]
  · intro c hc
    simp only [tagOf, pad4, List.mem_cons, List.mem_nil_iff, or_false] at hc
    rcases hc with rfl | rfl | rfl | rfl | rfl
    · decide
    all_goals exact Tags.digitOf_tagChar _ (Nat.mod_lt _ (by omega))

/-- any 10 000 tags issued consecutively on one connection are pairwise distinct (the counter is
    unbounded here; the Rust counter is a u64, so this covers the first 2^64 commands) -/
theorem tag_window_injective (i j : Nat) (hij : i < j) (hw : j < i + 10000) : tagOf i ≠ tagOf j := by
  intro h
  have := Tags.tagOf_inj_mod i j h
  omega

/-- the tag is a function of the counter modulo 10 000 (the period of the generator) -/
theorem tag_period (k : Nat) : tagOf (k + 10000) = tagOf k := by
  simp [tagOf]

example : tagOf 1 = b!"A0001" := by decide
example : tagOf 10000 = b!"A0000" := by decide
example : tagOf 12345 = b!"A2345" := by decide

end C11
