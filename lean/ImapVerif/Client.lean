/-
  Model of tokio-imap's codec and client and of the part of tokio-util 0.7.19 they run on:

  * `decodeC`           - `ImapCodec::decode` (codec.rs): a function of the read buffer
  * `Framed.pollNext`   - `FramedImpl::poll_next` (tokio-util framed_impl.rs): decode until `None`,
                          then read; `decode_eof`; the paused-after-error protocol
  * `Framed.pollFlush` / `pollReady` / `startSend` - the `Sink` half (8 KiB back-pressure boundary)
  * `Stream.pollNext`   - `ResponseStream::poll_next` (client.rs): Start / Sending / Receiving / Done
  * `Conn.call`         - `TlsClient::call`: allocates the tag, starts in `Start`

  The transport is adversarial: every `poll_read` / `poll_write` / `poll_flush` consumes the next event
  of a script; an exhausted script is a transport that is not ready (Pending).  Wakers, the
  executor, TLS and sockets are not modelled.
-/
import ImapVerif.Grammar.Rfc3501
import ImapVerif.Builders

open Bytes Parser Grammar

namespace Client

/-! ### codec -/

structure Frame where
  raw : Bytes        -- the bytes the frame owns (`ResponseData::raw`)
  value : Response   -- the parsed view (`ResponseData::parsed()`)

inductive Dec
  | frame (f : Frame) (rest : Bytes)
  | none                      -- `Ok(None)`: need more bytes
  | error                     -- `Err(io::Error)`

/-- `ImapCodec::decode`: parse the buffer; on success split off exactly the consumed bytes -/
def decodeC (buf : Bytes) : Dec :=
  match parseResponse buf with
  | .ok v r => .frame ⟨buf.take (buf.length - r.length), v⟩ r
  | .inc => .none
  | .err => .error
  | .fail => .error
  | .panic => .error

/-- `Encoder::encode` -/
def encodeC (tag args : Bytes) : Bytes := Builders.encode tag args

/-! ### transport events -/

/-- outcome of one `poll_read` -/
inductive REv
  | data (bs : Bytes)     -- `bs` were read (an empty `bs` is end of file)
  | pending
  | eof
  | err
deriving Repr

/-- outcome of one `poll_write` or `poll_flush` -/
inductive WEv
  | acc (n : Nat)         -- `poll_write` accepted `n` bytes (0 = WriteZero)
  | pending               -- `poll_write` or `poll_flush` not ready
  | err
  | flushed               -- `poll_flush` of the transport completed
deriving Repr

inductive Item
  | frame (f : Frame)
  | error

/-- result of one poll of a stream -/
inductive PollR
  | pending
  | item (i : Item)
  | done                   -- `Ready(None)`

/-! ### Framed: read half -/

structure Rd where
  rbuf : Bytes := []
  eof : Bool := false
  readable : Bool := false
  errored : Bool := false

inductive Phase
  | ret (r : PollR) (s : Rd)
  | cont (s : Rd)

/-- the part of the `poll_next` loop before the read -/
def decodePhase (s : Rd) : Phase :=
  if s.errored then .ret .done { s with readable := false, errored := false }
  else if s.readable then
    if s.eof then
      -- `decode_eof`: a frame, or `None` on an empty buffer, or "bytes remaining on stream"
      match decodeC s.rbuf with
      | .frame f rest => .ret (.item (.frame f)) { s with rbuf := rest }
      | .none =>
        if s.rbuf.isEmpty then .ret .done { s with readable := false }
        else .ret (.item .error) { s with errored := true }
      | .error => .ret (.item .error) { s with errored := true }
    else
      match decodeC s.rbuf with
      | .frame f rest => .ret (.item (.frame f)) { s with rbuf := rest }
      | .error => .ret (.item .error) { s with errored := true }
      | .none => .cont { s with readable := false }
  else .cont s

/-- `FramedImpl::poll_next`: returns the result, the new state, the remaining read script and the
    number of `poll_read` calls made -/
def pollNextGo : List REv → Rd → Nat → PollR × Rd × List REv × Nat
  | rs, s, n =>
    match decodePhase s with
    | .ret r s' => (r, s', rs, n)
    | .cont s' =>
      match rs with
      | [] => (.pending, s', [], n)
      | .pending :: rs' => (.pending, s', rs', n + 1)
      | .err :: rs' => (.item .error, { s' with errored := true }, rs', n + 1)
      | .data bs :: rs' =>
        if bs.isEmpty then
          if s'.eof then (.done, s', rs', n + 1)
          else pollNextGo rs' { s' with eof := true, readable := true } (n + 1)
        else pollNextGo rs' { s' with rbuf := s'.rbuf ++ bs, eof := false, readable := true } (n + 1)
      | .eof :: rs' =>
        if s'.eof then (.done, s', rs', n + 1)
        else pollNextGo rs' { s' with eof := true, readable := true } (n + 1)

def pollNext (s : Rd) (rs : List REv) : PollR × Rd × List REv × Nat := pollNextGo rs s 0

/-! ### Framed: write half -/

structure Wr where
  wbuf : Bytes := []
  wire : Bytes := []      -- ghost: every byte the transport has accepted, in order

inductive PollU | ready | pending | err
deriving Repr, DecidableEq

/-- calls made: `w` for `poll_write`, `f` for `poll_flush` -/
def pollFlushGo : List WEv → Wr → List Char → PollU × Wr × List WEv × List Char
  | ws, w, calls =>
    match w.wbuf with
    | [] =>
      match ws with
      | [] => (.pending, w, [], calls)
      | .flushed :: ws' => (.ready, w, ws', 'f' :: calls)
      | .pending :: ws' => (.pending, w, ws', 'f' :: calls)
      | .err :: ws' => (.err, w, ws', 'f' :: calls)
      | .acc _ :: ws' => (.err, w, ws', 'f' :: calls)        -- script mismatch (flush expected)
    | _ :: _ =>
      match ws with
      | [] => (.pending, w, [], calls)
      | .pending :: ws' => (.pending, w, ws', 'w' :: calls)
      | .err :: ws' => (.err, w, ws', 'w' :: calls)
      | .flushed :: ws' => (.err, w, ws', 'w' :: calls)      -- script mismatch (write expected)
      | .acc n :: ws' =>
        if n = 0 then (.err, w, ws', 'w' :: calls)            -- WriteZero
        else
          let k := min n w.wbuf.length
          pollFlushGo ws' { wbuf := w.wbuf.drop k, wire := w.wire ++ w.wbuf.take k } ('w' :: calls)

def pollFlush (w : Wr) (ws : List WEv) : PollU × Wr × List WEv × List Char :=
  let r := pollFlushGo ws w []
  (r.1, r.2.1, r.2.2.1, r.2.2.2.reverse)

def BOUNDARY : Nat := 8192

/-- `Sink::poll_ready`: flush only at or above the back-pressure boundary -/
def pollReady (w : Wr) (ws : List WEv) : PollU × Wr × List WEv × List Char :=
  if w.wbuf.length ≥ BOUNDARY then pollFlush w ws else (.ready, w, ws, [])

/-- `Sink::start_send` -/
def startSend (w : Wr) (tag args : Bytes) : Wr := { w with wbuf := w.wbuf ++ encodeC tag args }

/-! ### client -/

structure Conn where
  rd : Rd := {}
  wr : Wr := {}
  issued : Nat := 0        -- `IdGenerator.next`
  started : List Bytes := []   -- ghost: the encoded command lines handed to `start_send`, in order

inductive SState | start | sending | receiving | done
deriving Repr, DecidableEq

structure RStream where
  st : SState
  tag : Bytes
  args : Bytes

/-- `call`: allocate the next tag, start in `Start` -/
def Conn.call (c : Conn) (args : Bytes) : Conn × RStream :=
  ({ c with issued := c.issued + 1 }, { st := .start, tag := Builders.tagOf (c.issued + 1), args })

/-- `request_id()` of a frame: the tag of a tagged response -/
def requestId : Response → Option Bytes
  | .done tag _ _ _ => some tag
  | _ => none

structure Step where
  res : PollR
  s : RStream
  c : Conn
  rs : List REv
  ws : List WEv
  calls : List Char      -- transport calls of this poll, in order: r / w / f

/-- the `Receiving` arm -/
def recvStep (s : RStream) (c : Conn) (rs : List REv) (ws : List WEv) (calls : List Char) : Step :=
  match pollNext c.rd rs with
  | (r, rd', rs', n) =>
    let calls' := calls ++ List.replicate n 'r'
    let c' := { c with rd := rd' }
    match r with
    | .pending => ⟨.pending, s, c', rs', ws, calls'⟩
    | .item (.frame f) =>
      if requestId f.value = some s.tag then ⟨.item (.frame f), { s with st := .done }, c', rs', ws, calls'⟩
      else ⟨.item (.frame f), s, c', rs', ws, calls'⟩
    | .item .error => ⟨.item .error, s, c', rs', ws, calls'⟩
    | .done => ⟨.item .error, s, c', rs', ws, calls'⟩     -- "stream ended before command completion"

/-- the `Sending` arm followed by `Receiving` -/
def sendStep (s : RStream) (c : Conn) (rs : List REv) (ws : List WEv) (calls : List Char) : Step :=
  match pollFlush c.wr ws with
  | (.ready, wr', ws', cl) => recvStep { s with st := .receiving } { c with wr := wr' } rs ws' (calls ++ cl)
  | (.pending, wr', ws', cl) => ⟨.pending, s, { c with wr := wr' }, rs, ws', calls ++ cl⟩
  | (.err, wr', ws', cl) => ⟨.item .error, s, { c with wr := wr' }, rs, ws', calls ++ cl⟩

/-- `ResponseStream::poll_next` -/
def Stream.pollNext (s : RStream) (c : Conn) (rs : List REv) (ws : List WEv) : Step :=
  match s.st with
  | .start =>
    match pollReady c.wr ws with
    | (.ready, wr', ws', cl) =>
      let wr'' := startSend wr' s.tag s.args
      let c' := { c with wr := wr'', started := c.started ++ [encodeC s.tag s.args] }
      sendStep { s with st := .sending } c' rs ws' cl
    | (.pending, wr', ws', cl) => ⟨.pending, s, { c with wr := wr' }, rs, ws', cl⟩
    | (.err, wr', ws', cl) => ⟨.item .error, s, { c with wr := wr' }, rs, ws', cl⟩
  | .sending => sendStep s c rs ws []
  | .receiving => recvStep s c rs ws []
  | .done => ⟨.done, s, c, rs, ws, []⟩

end Client
