/-
  The property theorems, restated for the parser that the translator *generated from /repo's current
  source* (`Gen.parser.parse_response`), by rewriting with the top-level tie theorem
  `Gen.Tie.parser_parse_response : Gen.parser.parse_response = Grammar.parseResponse`.

  This file is hand-written and static; `Gen/Parser.lean` and `Gen/Tie.lean` are regenerated on every
  run.  If a tie theorem of any function reachable from `parse_response` no longer checks, the top-level
  tie depends on `sorryAx` (Lean reports the failed proof as an error and continues), the build of this
  module fails and the axiom audit of the theorems below shows `sorryAx`.

  What these theorems rest on beyond the Lean kernel: the translator (syntax-directed, no search, no
  guessing: harness/vh-translate), the functions and closures it does not translate (listed with their
  fingerprints in tie/translate.cfg and in every evidence file), and nom's combinators as transcribed
  in Nom.lean.
-/
import ImapVerif.Gen.Tie
import ImapVerif.Properties.C01
import ImapVerif.Properties.C02
import ImapVerif.Properties.C03
import ImapVerif.Properties.C08
import ImapVerif.Properties.C09
import ImapVerif.Properties.C12
import ImapVerif.Properties.C13
import ImapVerif.Properties.C16

open Bytes Parser Grammar Line

namespace Gen.Transfer

/-- the parser generated from the source -/
abbrev P : Parser Response := Gen.parser.parse_response

theorem tie : P = Grammar.parseResponse := Gen.Tie.parser_parse_response

/-- C01: the generated parser never reaches a panic site, on any byte string -/
theorem C01_no_panic (b : Bytes) : P b ≠ .panic := by
  rw [tie]; exact C01.parse_no_panic b

/-- C02: accepts and rejects of the generated parser persist under any continuation -/
theorem C02_stable_ok (b x : Bytes) (v : Response) (r : Bytes) (h : P b = .ok v r) :
    P (b ++ x) = .ok v (r ++ x) := by
  rw [tie] at *; exact C02.parse_stable_ok b x v r h

theorem C02_stable_err (b x : Bytes) :
    (P b = .err → P (b ++ x) = .err) ∧ (P b = .fail → P (b ++ x) = .fail) := by
  rw [tie]; exact C02.parse_stable_err b x

theorem C02_prefix_incomplete (c r : Bytes) (v : Response) (h : P (c ++ r) = .ok v r)
    (p y : Bytes) (hc : c = p ++ y) (hy : y ≠ []) : P p = .inc := by
  rw [tie] at *; exact C02.prefix_incomplete c r v h p y hc hy

/-- C03 / C08: the generated parser inverts the relational RFC printer, with any continuation left
    untouched (arbitrary literal content included) -/
theorem C03_fidelity (r : Response) (e : Bytes) (h : RT.EncResponse r e) (rest : Bytes) :
    P (e ++ rest) = .ok r rest := by
  rw [tie]; exact C03.fidelity r e h rest

/-- C09: a lexically complete frame is never answered `Incomplete` by the generated parser -/
theorem C09_complete_line_verdict (b : Bytes) (n : Nat) (h : frameEnd b = some n) : P b ≠ .inc := by
  rw [tie]; exact C09.complete_line_verdict b n h

/-- C12: two spellings of one value are parsed to the same value by the generated parser -/
theorem C12_spellings_agree (r : Response) (e1 e2 : Bytes) (h1 : RT.EncResponse r e1) (h2 : RT.EncResponse r e2)
    (rest1 rest2 : Bytes) :
    ∃ v, P (e1 ++ rest1) = .ok v rest1 ∧ P (e2 ++ rest2) = .ok v rest2 := by
  rw [tie]; exact C12.spellings_agree r e1 e2 h1 h2 rest1 rest2

/-- C13: `* <numeral ≥ 2^32> ...` is a parse error of the generated parser, whatever follows -/
theorem C13_untagged_number_overflow (ds : Bytes) (hne : ds ≠ []) (hall : ∀ d ∈ ds, isDigit d = true)
    (hbig : 2 ^ 32 ≤ decVal ds) (c : UInt8) (r : Bytes) (hc : isDigit c = false) :
    P (b!"* " ++ (ds ++ c :: r)) = .err := by
  rw [tie]; exact C13.untagged_number_overflow ds hne hall hbig c r hc

end Gen.Transfer
