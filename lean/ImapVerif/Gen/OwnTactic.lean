/-
  Tactic of the generated identity theorems of `Gen/Owned.lean`.
-/
import ImapVerif.Types

/-- `own_id f, x, h`: unfold the generated conversion, split the value, rewrite every called conversion
    with `h` and close with the functor laws of `Option.map` / `List.map` -/
syntax "own_id " ident ", " ident ", " ident : tactic
macro_rules
  | `(tactic| own_id $f, $x, $h) => `(tactic|
      (unfold $f
       first
       | (cases $x:ident <;> simp [$h:ident])
       | (cases $x:ident <;> simp [$h:ident, List.map_id'', Option.map_id'])
       | simp [$h:ident]))
