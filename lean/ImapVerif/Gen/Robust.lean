/-
  C01 and C02 for the parser generated from /repo's current source, *without* the hand-written grammar:
  `Stable Gen.parser.parse_response` is found by instance search over the generated definitions
  (`Gen/StableGen.lean`), from the per-combinator instances of `Proofs/Stable.lean` and `Gen/StableComb.lean`.
  A rewrite of the source that stays within the combinators the translator knows (reordered alternatives,
  regrouped sequences, another helper) keeps these theorems even when the tie to the hand-written model is
  lost; a change that swallows `Incomplete`, imports a `complete` combinator or adds a panic site loses them.
  (Where a function has a hand-bound part - the `&text[1..]` closure, `opt_opt`, `number` - its instance
  comes through its tie theorem; if that tie is broken, `sorryAx` shows in the axiom audit.)
-/
import ImapVerif.Gen.StableGen

open Bytes Parser

namespace Gen.Robust

abbrev P : Parser Response := Gen.parser.parse_response

instance stableP : Stable P := inferInstance

/-- C01: no byte string makes the generated parser reach a panic site -/
theorem C01_no_panic (b : Bytes) : P b ≠ .panic := Stable.nopanic (p := P) b

/-- C02: an accept of the generated parser persists under every continuation -/
theorem C02_stable_ok (b x : Bytes) (v : Response) (r : Bytes) (h : P b = .ok v r) :
    P (b ++ x) = .ok v (r ++ x) := Stable.ok (p := P) b v r x h

/-- C02: a reject of the generated parser persists under every continuation -/
theorem C02_stable_err (b x : Bytes) :
    (P b = .err → P (b ++ x) = .err) ∧ (P b = .fail → P (b ++ x) = .fail) :=
  ⟨Stable.err (p := P) b x, Stable.fail (p := P) b x⟩

/-- C02: the remainder is a suffix of the buffer -/
theorem C02_rest_is_suffix (b : Bytes) (v : Response) (r : Bytes) (h : P b = .ok v r) : ∃ c, b = c ++ r :=
  Stable.suffix (p := P) b v r h

end Gen.Robust
