/-
  `Stable` instances for the combinators of the generated model (`Gen/Comb.lean`), so that `Stable` can be
  re-derived by instance search on the definitions the translator generates from the source - without
  going through the hand-written grammar.
-/
import ImapVerif.Gen.Comb
import ImapVerif.Gen.Fix
import ImapVerif.Proofs.StableGrammar

open Bytes Parser

set_option synthInstance.maxSize 100000

namespace Gen

instance (p : Parser α) (q : Parser β) [Stable p] [Stable q] : Stable (preceded p q) := by
  unfold preceded; infer_instance
instance (p : Parser α) (q : Parser β) [Stable p] [Stable q] : Stable (terminated p q) := by
  unfold terminated; infer_instance
instance (a : Parser α) (p : Parser β) (b : Parser γ) [Stable a] [Stable p] [Stable b] :
    Stable (delimited a p b) := by unfold delimited; infer_instance
instance (p : Parser α) (q : Parser β) [Stable p] [Stable q] : Stable (pair p q) := by
  unfold pair; infer_instance
instance (p : Parser α) (s : Parser σ) (q : Parser β) [Stable p] [Stable s] [Stable q] :
    Stable (separatedPair p s q) := by unfold separatedPair; infer_instance
instance [OfMatched α] (l : Bytes) : Stable (tag l : Parser α) := by unfold tag; infer_instance
instance (p : Parser α) [Stable p] : Stable (void p) := by unfold void; infer_instance
instance : Stable (failure : Parser α) := by unfold failure; infer_instance
instance : Stable (error : Parser α) := by unfold error; infer_instance
instance (d : Nat) : Stable (fixBody d) := by unfold fixBody; infer_instance
instance (d : Nat) : Stable (fixBodyExt d) := by unfold fixBodyExt; infer_instance

/-- `recognize p`: the consumed bytes of a stable parser are stable -/
instance (p : Parser α) [hp : Stable p] : Stable (recognize p) where
  suffix := by
    intro b v r h
    simp only [recognize] at h
    cases hpb : p b with
    | ok v' r' =>
      rw [hpb] at h
      simp only [Res.ok.injEq] at h
      obtain ⟨c, hc⟩ := hp.suffix b v' r' hpb
      exact ⟨c, by rw [← h.2]; exact hc⟩
    | inc => rw [hpb] at h; cases h
    | err => rw [hpb] at h; cases h
    | fail => rw [hpb] at h; cases h
    | panic => rw [hpb] at h; cases h
  ok := by
    intro b v r x h
    simp only [recognize] at h ⊢
    cases hpb : p b with
    | ok v' r' =>
      rw [hpb] at h
      simp only [Res.ok.injEq] at h
      obtain ⟨c, hc⟩ := hp.suffix b v' r' hpb
      rw [hp.ok b v' r' x hpb]
      simp only [Res.ok.injEq]
      refine ⟨?_, by rw [h.2]⟩
      rw [← h.1, hc]
      simp [List.take_append]
    | inc => rw [hpb] at h; cases h
    | err => rw [hpb] at h; cases h
    | fail => rw [hpb] at h; cases h
    | panic => rw [hpb] at h; cases h
  err := by
    intro b x h
    simp only [recognize] at h ⊢
    cases hpb : p b with
    | err => rw [hp.err b x hpb]
    | ok v' r' => rw [hpb] at h; cases h
    | inc => rw [hpb] at h; cases h
    | fail => rw [hpb] at h; cases h
    | panic => rw [hpb] at h; cases h
  fail := by
    intro b x h
    simp only [recognize] at h ⊢
    cases hpb : p b with
    | fail => rw [hp.fail b x hpb]
    | ok v' r' => rw [hpb] at h; cases h
    | inc => rw [hpb] at h; cases h
    | err => rw [hpb] at h; cases h
    | panic => rw [hpb] at h; cases h
  nopanic := by
    intro b h
    simp only [recognize] at h
    cases hpb : p b with
    | panic => exact hp.nopanic b hpb
    | ok v' r' => rw [hpb] at h; cases h
    | inc => rw [hpb] at h; cases h
    | err => rw [hpb] at h; cases h
    | fail => rw [hpb] at h; cases h

/-- the shape of `resp_text` for any stable code parser `q`: the `&text[1..]` slice of the closure cannot
    panic, because what `text` returns is 7-bit (`Stable.respTextFinish_some`) -/
def respTextInnerOf (q : Parser (Option ResponseCode)) : Parser (Option ResponseCode × Bytes) := do
  let code ← q
  let t ← Grammar.text
  pure (code, t)

theorem respTextInnerOf_text (q : Parser (Option ResponseCode)) (b v r)
    (h : respTextInnerOf q b = .ok v r) : ∀ c ∈ v.2, Grammar.isTextChar c = true := by
  simp only [respTextInnerOf, Bind.bind, Parser.bindP] at h
  split at h <;> try cases h
  rename_i code r1 _
  split at h <;> try cases h
  rename_i t r2 ht
  exact Stable.text_all _ _ _ ht

instance instRespTextShape (q : Parser (Option ResponseCode)) [Stable q] :
    Stable (Parser.mapPanic (do let code ← q; let t ← Grammar.text; pure (code, t))
      (fun ct => Grammar.respTextFinish ct.1 ct.2)) := by
  have hq : Stable (respTextInnerOf q) := by unfold respTextInnerOf; infer_instance
  exact Stable.mapPanic_stable (respTextInnerOf q) _ fun b v r h =>
    Stable.respTextFinish_some v.1 v.2 (respTextInnerOf_text q b v r h)

end Gen
