/-
  Alternatives headed by keywords that differ (ignoring case) at some position can be reordered:
  `alt (tagNoCase X >>= f) (alt (tagNoCase Y >>= g) R) = alt (tagNoCase Y >>= g) (alt (tagNoCase X >>= f) R)`.
  In a streaming parser this is not true of arbitrary alternatives (one may answer `Incomplete` where the
  other accepts); for keywords that differ at a position it is, because on every input at least one of the two
  is an `Error`, or both are `Incomplete`.  The tie tactic uses the lemma, oriented by the order of the
  keywords, to bring both sides to the same order (control H1: READ-ONLY / READ-WRITE swapped).
-/
import ImapVerif.Gen.Comb

open Bytes Parser

namespace Gen

/-- the keywords differ, ignoring case, at a position both have -/
def kwDiffer : Bytes → Bytes → Bool
  | x :: xs, y :: ys => if lower x == lower y then kwDiffer xs ys else true
  | _, _ => false

/-- lexicographic order on keywords (only used to orient the rewrite) -/
def kwLt : Bytes → Bytes → Bool
  | [], [] => false
  | [], _ :: _ => true
  | _ :: _, [] => false
  | x :: xs, y :: ys => if x < y then true else if y < x then false else kwLt xs ys

theorem tagNoCase_excl : ∀ (X Y : Bytes), kwDiffer X Y = true → ∀ i : Bytes,
    Parser.tagNoCase X i = .err ∨ Parser.tagNoCase Y i = .err ∨
      (Parser.tagNoCase X i = .inc ∧ Parser.tagNoCase Y i = .inc) := by
  intro X
  induction X with
  | nil => intro Y h; simp [kwDiffer] at h
  | cons x xs ih =>
    intro Y h i
    cases Y with
    | nil => simp [kwDiffer] at h
    | cons y ys =>
      cases i with
      | nil => right; right; simp [Parser.tagNoCase, tagGo]
      | cons c cs =>
        simp only [kwDiffer] at h
        simp only [Parser.tagNoCase, tagGo]
        by_cases hxy : (lower x == lower y) = true
        · simp only [hxy, if_true] at h
          have hxy' : lower x = lower y := by simpa using hxy
          by_cases hc : (lower x == lower c) = true
          · have hc2 : (lower y == lower c) = true := by rw [← hxy']; exact hc
            simp only [hc, hc2, if_true]
            exact ih ys h cs
          · have hc2 : ¬ (lower y == lower c) = true := by rw [← hxy']; exact hc
            left; simp [hc]
        · by_cases hc : (lower x == lower c) = true
          · have hc2 : ¬ (lower y == lower c) = true := by
              intro h2
              apply hxy
              have a : lower x = lower c := by simpa using hc
              have b : lower y = lower c := by simpa using h2
              simp [a, b]
            right; left; simp [hc2]
          · left; simp [hc]

theorem alt_swap_kw (X Y : Bytes) (f : Unit → Parser α) (g : Unit → Parser α) (R : Parser α)
    (h : kwDiffer X Y = true) :
    Parser.alt (Parser.tagNoCase X >>= f) (Parser.alt (Parser.tagNoCase Y >>= g) R) =
      Parser.alt (Parser.tagNoCase Y >>= g) (Parser.alt (Parser.tagNoCase X >>= f) R) := by
  funext i
  simp only [Parser.alt, bind_def, Parser.bindP]
  rcases tagNoCase_excl X Y h i with h1 | h1 | ⟨h1, h2⟩
  · rw [h1]
    all_goals (try (cases Parser.tagNoCase Y i <;> simp <;> (try (rename_i v r; cases g v r <;> simp))))
  · rw [h1]
    all_goals (try (cases Parser.tagNoCase X i <;> simp <;> (try (rename_i v r; cases f v r <;> simp))))
  · rw [h1, h2]

theorem alt_swap_kw_last (X Y : Bytes) (f : Unit → Parser α) (g : Unit → Parser α)
    (h : kwDiffer X Y = true) :
    Parser.alt (Parser.tagNoCase X >>= f) (Parser.tagNoCase Y >>= g) =
      Parser.alt (Parser.tagNoCase Y >>= g) (Parser.tagNoCase X >>= f) := by
  funext i
  simp only [Parser.alt, bind_def, Parser.bindP]
  rcases tagNoCase_excl X Y h i with h1 | h1 | ⟨h1, h2⟩
  · rw [h1]
    all_goals (try (cases Parser.tagNoCase Y i <;> simp <;> (try (rename_i v r; cases g v r <;> simp))))
  · rw [h1]
    all_goals (try (cases Parser.tagNoCase X i <;> simp <;> (try (rename_i v r; cases f v r <;> simp))))
  · rw [h1, h2]

/-- oriented versions: the rewrite fires only when the second keyword is smaller, so it terminates and both
    sides of a tie reach the same order -/
theorem alt_sort_kw (X Y : Bytes) (f g : Unit → Parser α) (R : Parser α)
    (h : (kwDiffer X Y && kwLt Y X) = true) :
    Parser.alt (Parser.tagNoCase X >>= f) (Parser.alt (Parser.tagNoCase Y >>= g) R) =
      Parser.alt (Parser.tagNoCase Y >>= g) (Parser.alt (Parser.tagNoCase X >>= f) R) :=
  alt_swap_kw X Y f g R (by simp only [Bool.and_eq_true] at h; exact h.1)

theorem alt_sort_kw_last (X Y : Bytes) (f g : Unit → Parser α)
    (h : (kwDiffer X Y && kwLt Y X) = true) :
    Parser.alt (Parser.tagNoCase X >>= f) (Parser.tagNoCase Y >>= g) =
      Parser.alt (Parser.tagNoCase Y >>= g) (Parser.tagNoCase X >>= f) :=
  alt_swap_kw_last X Y f g (by simp only [Bool.and_eq_true] at h; exact h.1)

end Gen
