/-
  The fixed points with which the generated recursive functionals are instantiated.
  The Rust code recurses with a depth counter that grows (`depth + 1`, refused above `MAX_NESTING`);
  the model recurses structurally on the remaining budget.  At depth `d` the model is the budget
  `MAX_NESTING + 1 - d`.  The tie theorems show that these functions satisfy the equations the
  translator reads off the source (`Gen.….body_nested Gen.fixBody d = Gen.fixBody d`).
-/
import ImapVerif.Grammar.Body

namespace Gen

def fixBody (d : Nat) : Parser BodyStructure := Grammar.bodyNested (Grammar.MAX_NESTING + 1 - d)
def fixBodyExt (d : Nat) : Parser BodyExtension := Grammar.bodyExtension (Grammar.MAX_NESTING + 1 - d)

end Gen
