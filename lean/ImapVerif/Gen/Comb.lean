/-
  Support library of the *generated* model (`ImapVerif/Gen/Parser.lean`, written by the translator
  `harness/vh-translate` from /repo's parser sources on every run).

  The translator maps every nom call of the Rust source to the combinator of the same name below; the
  definitions here are the nom 7.1.3 sequence combinators written in terms of the model's monad, plus the
  lemmas that bring a generated definition and a hand-written one to a common normal form (right-nested
  binds), so that the tie theorems `Gen.<module>.<fn> = Grammar.<fn>` are closed by `simp`.
-/
import ImapVerif.Nom
import ImapVerif.Types

open Bytes Parser

namespace Gen

/-! ### nom::sequence -/

def preceded (p : Parser α) (q : Parser β) : Parser β := do let _ ← p; q
def terminated (p : Parser α) (q : Parser β) : Parser α := do let v ← p; let _ ← q; pure v
def delimited (a : Parser α) (p : Parser β) (b : Parser γ) : Parser β := do
  let _ ← a; let v ← p; let _ ← b; pure v
def pair (p : Parser α) (q : Parser β) : Parser (α × β) := do let a ← p; let b ← q; pure (a, b)
def separatedPair (p : Parser α) (s : Parser σ) (q : Parser β) : Parser (α × β) := do
  let a ← p; let _ ← s; let b ← q; pure (a, b)

/-- `nom::combinator::recognize`: the consumed bytes -/
def recognize (p : Parser α) : Parser Bytes := fun i =>
  match p i with
  | .ok _ r => .ok (i.take (i.length - r.length)) r
  | .inc => .inc | .err => .err | .fail => .fail | .panic => .panic

/-- `Err(nom::Err::Failure(..))` -/
def failure : Parser α := failP
/-- `Err(nom::Err::Error(..))` -/
def error : Parser α := errP

/-! ### the monad laws of `Parser` -/

theorem bind_def (p : Parser α) (f : α → Parser β) : (p >>= f) = Parser.bindP p f := rfl
theorem pure_def (a : α) : (pure a : Parser α) = Parser.pureP a := rfl

@[simp] theorem pure_bind' (a : α) (f : α → Parser β) : (pure a >>= f) = f a := by
  funext i; simp [bind_def, pure_def, Parser.bindP, Parser.pureP]

@[simp] theorem bind_pure' (p : Parser α) : (p >>= fun a => pure a) = p := by
  funext i; simp only [bind_def, pure_def, Parser.bindP, Parser.pureP]; cases p i <;> simp

@[simp] theorem bind_assoc' (p : Parser α) (f : α → Parser β) (g : β → Parser γ) :
    ((p >>= f) >>= g) = (p >>= fun a => f a >>= g) := by
  funext i; simp only [bind_def, Parser.bindP]; cases p i <;> rfl

theorem map_eq (p : Parser α) (f : α → β) : Parser.map p f = (p >>= fun a => pure (f a)) := by
  funext i; simp only [Parser.map, bind_def, pure_def, Parser.bindP, Parser.pureP]

theorem seq_unit (p : Parser Unit) (q : Parser β) : (p >>= fun _ => q) = (do p; q) := rfl

end Gen

namespace Gen

/-! ### leaves whose nom value (the matched bytes) the model drops unless it is used -/

class OfMatched (α : Type) where
  of : Bytes → α
instance : OfMatched Bytes := ⟨id⟩
@[default_instance] instance : OfMatched Unit := ⟨fun _ => ()⟩

/-- `tag(lit)`: nom returns the matched bytes (= the literal); the model's `tag` returns `()` -/
def tag [OfMatched α] (l : Bytes) : Parser α := Parser.map (Parser.tag l) fun _ => OfMatched.of l

/-- a separator's value is never used -/
def void (p : Parser α) : Parser Unit := Parser.map p fun _ => ()

theorem tag_unit (l : Bytes) : (tag l : Parser Unit) = Parser.tag l := by
  funext i; simp only [tag, Parser.map]; cases Parser.tag l i <;> rfl

theorem tag_bytes (l : Bytes) : (tag l : Parser Bytes) = Parser.map (Parser.tag l) fun _ => l := rfl

theorem void_unit (p : Parser Unit) : void p = p := by
  funext i; simp only [void, Parser.map]; cases p i <;> rfl

theorem bind_pure_unit (p : Parser Unit) : (p >>= fun _ => pure ()) = p := by
  funext i; simp only [bind_def, pure_def, Parser.bindP, Parser.pureP]; cases p i <;> rfl

theorem map_id' (p : Parser α) : Parser.map p (fun a => a) = p := by
  funext i; simp only [Parser.map]; cases p i <;> rfl

/-- `RangeInclusive<u32>` (a pair in the model) `.into()` a `UidSetMember` -/
def rangeToUid (r : Nat × Nat) : UidSetMember := .uidRange r.1 r.2

theorem rangeToUid_ite (c : Prop) [Decidable c] (a b : Nat) :
    rangeToUid (if c then (a, b) else (b, a)) = if c then .uidRange a b else .uidRange b a := by
  split <;> rfl

end Gen
