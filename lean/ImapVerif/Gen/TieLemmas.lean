/-
  Lemmas and the tactic used by the generated tie theorems (`Gen/Tie.lean`).
-/
import ImapVerif.Gen.Comb
import ImapVerif.Gen.AltSwap
import ImapVerif.Gen.Fix
import ImapVerif.Grammar.Rfc3501

open Bytes Parser

namespace Gen

/-- `recognize(pair(tag([c]), take_while(f)))` returns the tag byte followed by the run -/
theorem recognize_tag1_takeWhile (c : UInt8) (f : UInt8 → Bool) :
    recognize (pair (tag [c] : Parser Unit) (Parser.takeWhile f)) =
      (do Parser.tag [c]; let s ← Parser.takeWhile f; pure (c :: s)) := by
  funext i
  simp only [recognize, pair, tag, bind_def, pure_def, Parser.map]
  cases i with
  | nil => simp [recognize, pair, tag, bind_def, pure_def, Parser.bindP, Parser.pureP, Parser.map, Parser.tag, tagGo]
  | cons x xs =>
    by_cases hx : (c == x) = true
    · have hcx : c = x := by simpa using hx
      subst hcx
      cases hd : xs.dropWhile f with
      | nil =>
        simp [recognize, pair, tag, bind_def, pure_def, Parser.bindP, Parser.pureP, Parser.map, Parser.tag,
          tagGo, Parser.takeWhile, hd]
      | cons d r =>
        have hsplit : xs = xs.takeWhile f ++ (d :: r) := by
          rw [← hd]; exact (List.takeWhile_append_dropWhile (p := f) (l := xs)).symm
        have hlen : xs.length = (xs.takeWhile f).length + (r.length + 1) := by
          conv => lhs; rw [hsplit]
          simp
        have htake : List.take (xs.length - r.length) (c :: xs) = c :: xs.takeWhile f := by
          have h1 : xs.length - r.length = (xs.takeWhile f).length + 1 := by omega
          have h2 : List.take (xs.takeWhile f).length xs = xs.takeWhile f := by
            conv => lhs; rhs; rw [hsplit]
            simp
          rw [h1, List.take_succ_cons, h2]
        simp [recognize, pair, tag, bind_def, pure_def, Parser.bindP, Parser.pureP, Parser.map, Parser.tag,
          tagGo, Parser.takeWhile, hd, htake]
    · simp [recognize, pair, tag, bind_def, pure_def, Parser.bindP, Parser.pureP, Parser.map, Parser.tag,
        tagGo, hx]

/-- the same with `pair` unfolded (the normal form of the tie tactic) -/
theorem recognize_tag1_takeWhile' (c : UInt8) (f : UInt8 → Bool) :
    recognize ((Parser.tag [c]) >>= fun a => Parser.takeWhile f >>= fun b => pure (a, b)) =
      (do Parser.tag [c]; let s ← Parser.takeWhile f; pure (c :: s)) := by
  have h := recognize_tag1_takeWhile c f
  simp only [pair, tag_unit] at h
  exact h

theorem ite_not_bool (c : Bool) (a b : α) : (if (!c) = true then a else b) = if c = true then b else a := by
  cases c <;> rfl

end Gen

/-- `gen_tie A, B with [lemmas]`: unfold the generated definition `A` and the model's `B`, bring both to the
    right-nested bind normal form, rewrite the callees with their own tie theorems -/
syntax "gen_tie " ident ", " ident " with " "[" Lean.Parser.Tactic.simpLemma,* "]" : tactic
macro_rules
  | `(tactic| gen_tie $a, $b with [$ts,*]) => `(tactic|
      first
      | rfl
      | (unfold $a $b
         first
         | rfl
         | (simp only [Gen.map_eq, Gen.preceded, Gen.terminated, Gen.delimited, Gen.pair, Gen.separatedPair,
              Gen.tag_unit, Gen.tag_bytes, Gen.void_unit, Gen.bind_assoc', Gen.pure_bind', Gen.bind_pure',
              Gen.bind_pure_unit, Gen.failure, Gen.error, Gen.ite_not_bool, Gen.recognize_tag1_takeWhile', Gen.rangeToUid_ite,
              id_eq, $ts,*]
            done)
         | (simp only [Gen.map_eq, Gen.preceded, Gen.terminated, Gen.delimited, Gen.pair, Gen.separatedPair,
              Gen.tag_unit, Gen.tag_bytes, Gen.void_unit, Gen.bind_assoc', Gen.pure_bind', Gen.bind_pure',
              Gen.bind_pure_unit, Gen.failure, Gen.error, Gen.ite_not_bool, Gen.recognize_tag1_takeWhile', Gen.rangeToUid_ite,
              id_eq, $ts,*]
            rfl))
      | (unfold $a $b
         funext i
         simp only [Gen.map_eq, Gen.preceded, Gen.terminated, Gen.delimited, Gen.pair, Gen.separatedPair,
              Gen.tag_unit, Gen.tag_bytes, Gen.void_unit, Gen.bind_assoc', Gen.pure_bind', Gen.bind_pure',
              Gen.bind_pure_unit, Gen.failure, Gen.error, Gen.ite_not_bool, Gen.recognize_tag1_takeWhile', Gen.rangeToUid_ite,
              id_eq, $ts,*,
              Gen.bind_def, Gen.pure_def, Parser.bindP, Parser.pureP, Parser.opt, Parser.map, Parser.alt]
         repeat' split
         all_goals simp_all
         done)
      | (funext c
         have key : ∀ n : Fin 256, $a (UInt8.ofNat n.val) = $b (UInt8.ofNat n.val) := by decide +kernel
         have := key ⟨c.toNat, c.toNat_lt⟩
         simpa using this
         done)
      | (unfold $a
         first
         | rfl
         | (simp only [Gen.map_eq, Gen.preceded, Gen.terminated, Gen.delimited, Gen.pair, Gen.separatedPair,
              Gen.tag_unit, Gen.tag_bytes, Gen.void_unit, Gen.bind_assoc', Gen.pure_bind', Gen.bind_pure',
              Gen.bind_pure_unit, Gen.failure, Gen.error, Gen.ite_not_bool, Gen.recognize_tag1_takeWhile', Gen.rangeToUid_ite,
              id_eq, $ts,*]
            done)))

/-- the normalisation step alone (for the hand-written tie proofs of the recursive functions) -/
syntax "gen_norm" " with " "[" Lean.Parser.Tactic.simpLemma,* "]" : tactic
macro_rules
  | `(tactic| gen_norm with [$ts,*]) => `(tactic|
      simp only [Gen.map_eq, Gen.preceded, Gen.terminated, Gen.delimited, Gen.pair, Gen.separatedPair,
        Gen.tag_unit, Gen.tag_bytes, Gen.void_unit, Gen.bind_assoc', Gen.pure_bind', Gen.bind_pure',
        Gen.bind_pure_unit, Gen.failure, Gen.error, Gen.ite_not_bool, Gen.recognize_tag1_takeWhile',
        Gen.rangeToUid_ite, id_eq, $ts,*])
