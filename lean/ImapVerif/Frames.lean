/-
  Ownership model of the receive path of tokio-imap/src/codec.rs (property C07).

  `ImapCodec::decode` parses a response out of the receive buffer (`BytesMut`), erases the lifetime
  of the parsed view and keeps the bytes alive with `buf.split_to(len).freeze()`.  Whether the view
  stays valid is a question about *regions of allocations*: which allocation and which byte range a
  frame refers to, which ranges later operations write, and when an allocation is released.

  This file is the executable bookkeeping of those regions.  The behaviour of the `bytes` crate is
  modelled by the *admissibility* conditions of the receive operations (what `BytesMut::reserve` may
  do in which sharing state); the harness observes the real decision of every operation (through
  pointers and capacities) and the model accepts or refuses it.  Contents are abstracted: memory is
  a function from (allocation, index) to an opaque cell value that is never evaluated.
-/

namespace Own

/-- a delivered frame: handle, allocation, byte range -/
structure Frame where
  h : Nat
  a : Nat
  off : Nat
  len : Nat
deriving Repr, DecidableEq

/-- the window of the receive buffer inside its allocation -/
structure Win where
  a : Nat
  off : Nat
  len : Nat
deriving Repr, DecidableEq

structure St where
  /-- next fresh allocation identifier -/
  next : Nat := 1
  /-- live allocations with their sizes -/
  sizes : List (Nat × Nat) := [(0, 0)]
  /-- the receive buffer; `none` once the connection has been dropped -/
  win : Option Win := some ⟨0, 0, 0⟩
  /-- live frames -/
  frames : List Frame := []
  /-- next fresh frame handle -/
  nextH : Nat := 0
deriving Repr

/-- an operation of the receive path, with the decision observed on the real buffer -/
inductive Op
  /-- `n` bytes appended, buffer pointer unchanged, capacity afterwards `cap` -/
  | recvInPlace (n cap : Nat)
  /-- `n` bytes appended after `reserve` moved the data inside the same allocation -/
  | recvShift (n newOff cap : Nat)
  /-- `n` bytes appended after `reserve` moved the data to a new allocation of capacity `cap` -/
  | recvNew (n cap : Nat)
  /-- `decode` returned a frame of `n` bytes: `split_to(n).freeze()` -/
  | deliver (n : Nat)
  /-- a frame is dropped -/
  | dropFrame (h : Nat)
  /-- the client / the framed transport is dropped -/
  | dropBuf
deriving Repr, DecidableEq

/-- what an operation does to memory -/
structure Eff where
  /-- byte ranges written: (allocation, from, to) -/
  writes : List (Nat × Nat × Nat) := []
  /-- allocations returned to the allocator -/
  freed : List Nat := []
deriving Repr

def shared (s : St) (a : Nat) : Bool := s.frames.any (·.a == a)

def winIn (s : St) (a : Nat) : Bool :=
  match s.win with
  | some w => w.a == a
  | none => false

/-- size of a live allocation -/
def look : List (Nat × Nat) → Nat → Option Nat
  | [], _ => none
  | (a, n) :: rest, x => if a = x then some n else look rest x

def setSize (sizes : List (Nat × Nat)) (a n : Nat) : List (Nat × Nat) :=
  (a, n) :: sizes.filter (·.1 != a)

/-- release allocation `a` if neither a frame nor the buffer refers to it (reference count zero) -/
def release (s : St) (a : Nat) : St × List Nat :=
  if shared s a || winIn s a then (s, [])
  else ({ s with sizes := s.sizes.filter (·.1 != a) }, [a])

/-- one operation; `none` = the observed decision is not one the model of `bytes` admits -/
def step (s : St) : Op → Option (St × Eff)
  | .recvInPlace n cap =>
    match s.win with
    | none => none
    | some w =>
      match look s.sizes w.a with
      | none => none
      | some size =>
        let size' := w.off + cap
        if (size' = size ∨ shared s w.a = false) ∧ w.off + w.len + n ≤ size' then
          some ({ s with sizes := setSize s.sizes w.a size', win := some { w with len := w.len + n } },
                { writes := [(w.a, w.off + w.len, w.off + w.len + n)] })
        else none
  | .recvShift n newOff cap =>
    match s.win with
    | none => none
    | some w =>
      match look s.sizes w.a with
      | none => none
      | some _ =>
        -- only a unique owner may move the data inside the allocation
        if shared s w.a = false ∧ w.len + n ≤ cap then
          some ({ s with sizes := setSize s.sizes w.a (newOff + cap),
                          win := some { w with off := newOff, len := w.len + n } },
                { writes := [(w.a, newOff, newOff + w.len + n)] })
        else none
  | .recvNew n cap =>
    match s.win with
    | none => none
    | some w =>
      if w.len + n ≤ cap then
        let s1 : St := { s with next := s.next + 1, sizes := (s.next, cap) :: s.sizes,
                                 win := some ⟨s.next, 0, w.len + n⟩ }
        let (s2, freed) := release s1 w.a
        some (s2, { writes := [(s.next, 0, w.len + n)], freed := freed })
      else none
  | .deliver n =>
    match s.win with
    | none => none
    | some w =>
      if 0 < n ∧ n ≤ w.len then
        some ({ s with frames := ⟨s.nextH, w.a, w.off, n⟩ :: s.frames, nextH := s.nextH + 1,
                        win := some { w with off := w.off + n, len := w.len - n } }, {})
      else none
  | .dropFrame h =>
    match s.frames.find? (·.h == h) with
    | none => none
    | some f =>
      let s1 : St := { s with frames := s.frames.filter (·.h != h) }
      let (s2, freed) := release s1 f.a
      some (s2, { freed := freed })
  | .dropBuf =>
    match s.win with
    | none => none
    | some w =>
      let s1 : St := { s with win := none }
      let (s2, freed) := release s1 w.a
      some (s2, { freed := freed })

/-! ### memory (never evaluated) -/

/-- allocation → index → cell content -/
abbrev Mem := Nat → Nat → Nat

def applyWrite (m : Mem) (v : Nat) (w : Nat × Nat × Nat) : Mem :=
  fun a i => if a = w.1 ∧ w.2.1 ≤ i ∧ i < w.2.2 then v else m a i

/-- a released allocation may be reused by the allocator: its content becomes arbitrary -/
def applyFree (m : Mem) (v : Nat) (a : Nat) : Mem :=
  fun a' i => if a' = a then v else m a' i

def applyEff (m : Mem) (v : Nat) (e : Eff) : Mem :=
  e.freed.foldl (fun m a => applyFree m v a) (e.writes.foldl (fun m w => applyWrite m v w) m)

/-- a history: each operation with the (arbitrary) content it writes -/
def run (s : St) (m : Mem) : List (Op × Nat) → Option (St × Mem)
  | [] => some (s, m)
  | (op, v) :: rest =>
    match step s op with
    | none => none
    | some (s', e) => run s' (applyEff m v e) rest

/-- what is seen through a frame: the cells of its range -/
def view (m : Mem) (f : Frame) : Nat → Nat := fun i => m f.a (f.off + i)

end Own
