/-
  Model of imap-proto/src/parser/bodystructure.rs (`BodyStructParser`): the depth-first walk that
  fills the path table, and `search`.  The walk only descends into multiparts, so a body structure is
  abstracted to its multipart skeleton: every node carries an identifier (the harness encodes it in a
  field of the real `BodyStructure`).
-/
import ImapVerif.Bytes

namespace BodyStruct

inductive Tree
  | leaf (id : Nat)
  | multi (id : Nat) (children : List Tree)
deriving Repr

/-- the `HashMap<Vec<u32>, &BodyStructure>`: association list, a later insert of the same key
    replaces the earlier one -/
abbrev Table := List (List Nat × Nat)

def Table.insert (t : Table) (k : List Nat) (v : Nat) : Table :=
  if t.any (fun e => e.1 == k) then t.map (fun e => if e.1 == k then (k, v) else e) else t ++ [(k, v)]

mutual
  /-- `BodyStructParser::parse` -/
  def walk (pre : List Nat) : Tree → Table → Table
    | .leaf id, t => t.insert pre id
    | .multi id cs, t => walkChildren pre 1 cs (t.insert pre id)
  /-- `for (i, n) in bodies.iter().enumerate() { push(i as u32 + 1); parse(n); pop() }`; `k` = i + 1 -/
  def walkChildren (pre : List Nat) (k : Nat) : List Tree → Table → Table
    | [], t => t
    | c :: cs, t => walkChildren pre (k + 1) cs (walk (pre ++ [k]) c t)
end

/-- `BodyStructParser::new(root)` -/
def table (root : Tree) : Table := walk [] root []

/-- the paths `search` may return for a predicate on node identifiers (any of them, the `HashMap`
    iteration order decides) -/
def searchCandidates (root : Tree) (p : Nat → Bool) : List (List Nat) :=
  ((table root).filter fun e => p e.2).map (·.1)

/-! the specification side: IMAP part specifiers = 1-based child indices from the root -/

mutual
  def nodeAt : Tree → List Nat → Option Nat
    | .leaf id, [] => some id
    | .leaf _, _ :: _ => none
    | .multi id _, [] => some id
    | .multi _ cs, k :: ks => childAt cs k ks
  def childAt : List Tree → Nat → List Nat → Option Nat
    | [], _, _ => none
    | c :: cs, k, ks => if k = 1 then nodeAt c ks else if k = 0 then none else childAt cs (k - 1) ks
end

mutual
  /-- all (specifier, id) pairs of a tree, in pre-order -/
  def parts (pre : List Nat) : Tree → List (List Nat × Nat)
    | .leaf id => [(pre, id)]
    | .multi id cs => (pre, id) :: partsChildren pre 1 cs
  def partsChildren (pre : List Nat) (k : Nat) : List Tree → List (List Nat × Nat)
    | [] => []
    | c :: cs => parts (pre ++ [k]) c ++ partsChildren pre (k + 1) cs
end

/-! driver syntax: `M<id>:<k>` followed by k subtrees, `L<id>` -/

def parseTok (s : String) : Option (Bool × Nat × Nat) :=
  if s.startsWith "L" then (s.drop 1).toString.toNat?.map fun id => (false, id, 0)
  else if s.startsWith "M" then
    match (s.drop 1).toString.splitOn ":" with
    | [a, b] => match a.toNat?, b.toNat? with
      | some id, some k => some (true, id, k)
      | _, _ => none
    | _ => none
  else none

/-- parse `n` trees from the token list (fuel = number of tokens) -/
def parseTrees : Nat → Nat → List String → Option (List Tree × List String)
  | _, 0, toks => some ([], toks)
  | 0, _ + 1, _ => none
  | _ + 1, _ + 1, [] => none
  | fuel + 1, n + 1, t :: toks =>
    match parseTok t with
    | none => none
    | some (false, id, _) =>
      match parseTrees fuel n toks with
      | some (rest, toks') => some (Tree.leaf id :: rest, toks')
      | none => none
    | some (true, id, k) =>
      match parseTrees fuel k toks with
      | none => none
      | some (cs, toks1) =>
        match parseTrees fuel n toks1 with
        | some (rest, toks') => some (Tree.multi id cs :: rest, toks')
        | none => none

def showPath (p : List Nat) : String := "[" ++ ".".intercalate (p.map toString) ++ "]"

/-- `id=path` for every id 0..n-1 in increasing order (`-` if the id is not in the table) -/
def showTable (root : Tree) (n : Nat) : String :=
  let t := table root
  " ".intercalate ((List.range n).map fun id =>
    match t.find? (fun e => e.2 == id) with
    | some e => s!"{id}={showPath e.1}"
    | none => s!"{id}=-")

end BodyStruct
