/-
  Model of the ~25 hand-written `into_owned` functions of types.rs / types/acls.rs: every one is
  written field by field, in the field order of the Rust source (so a swapped or dropped field in the
  code is a disagreement with this model).  `to_owned_cow` copies the bytes: the identity on `Bytes`.
-/
import ImapVerif.Types

namespace Owned

def cow (b : Bytes) : Bytes := b

def capability : Capability → Capability
  | .imap4rev1 => .imap4rev1
  | .auth v => .auth (cow v)
  | .atom v => .atom (cow v)

def responseCode : ResponseCode → ResponseCode
  | .alert => .alert
  | .badCharset v => .badCharset (v.map fun vs => vs.map cow)
  | .capabilities v => .capabilities (v.map capability)
  | .highestModSeq v => .highestModSeq v
  | .parse => .parse
  | .permanentFlags v => .permanentFlags (v.map cow)
  | .readOnly => .readOnly
  | .readWrite => .readWrite
  | .tryCreate => .tryCreate
  | .uidNext v => .uidNext v
  | .uidValidity v => .uidValidity v
  | .unseen v => .unseen v
  | .appendUid a b => .appendUid a b
  | .copyUid a b c => .copyUid a b c
  | .uidNotSticky => .uidNotSticky
  | .metadataLongEntries v => .metadataLongEntries v
  | .metadataMaxSize v => .metadataMaxSize v
  | .metadataTooMany => .metadataTooMany
  | .metadataNoPrivate => .metadataNoPrivate

def nameAttribute : NameAttribute → NameAttribute
  | .extension s => .extension (cow s)
  | a => a

def mailboxDatum : MailboxDatum → MailboxDatum
  | .exists_ n => .exists_ n
  | .flags v => .flags (v.map cow)
  | .list a d n => .list (a.map nameAttribute) (d.map cow) (cow n)
  | .search v => .search v
  | .sort v => .sort v
  | .status m s => .status (cow m) s
  | .recent n => .recent n
  | .metadataSolicited m v => .metadataSolicited (cow m) v
  | .metadataUnsolicited m v => .metadataUnsolicited (cow m) (v.map cow)
  | .gmailLabels v => .gmailLabels (v.map cow)
  | .gmailMsgId n => .gmailMsgId n

def address (a : Address) : Address :=
  { name := a.name.map cow, adl := a.adl.map cow, mailbox := a.mailbox.map cow, host := a.host.map cow }

def envelope (e : Envelope) : Envelope :=
  { date := e.date.map cow, subject := e.subject.map cow,
    from_ := e.from_.map fun v => v.map address,
    sender := e.sender.map fun v => v.map address,
    replyTo := e.replyTo.map fun v => v.map address,
    to := e.to.map fun v => v.map address,
    cc := e.cc.map fun v => v.map address,
    bcc := e.bcc.map fun v => v.map address,
    inReplyTo := e.inReplyTo.map cow, messageId := e.messageId.map cow }

def bodyParams (p : BodyParams) : BodyParams := p.map fun v => v.map fun kv => (cow kv.1, cow kv.2)

def contentType (t : ContentType) : ContentType :=
  { ty := cow t.ty, subtype := cow t.subtype, params := bodyParams t.params }

def contentDisposition (d : ContentDisposition) : ContentDisposition :=
  { ty := cow d.ty, params := bodyParams d.params }

def contentEncoding : ContentEncoding → ContentEncoding
  | .other v => .other (cow v)
  | e => e

def common (c : BodyContentCommon) : BodyContentCommon :=
  { ty := contentType c.ty, disposition := c.disposition.map contentDisposition,
    language := c.language.map fun v => v.map cow, location := c.location.map cow }

def single (o : BodyContentSinglePart) : BodyContentSinglePart :=
  { id := o.id.map cow, md5 := o.md5.map cow, description := o.description.map cow,
    transferEncoding := contentEncoding o.transferEncoding, octets := o.octets }

mutual
  def bodyExtension : BodyExtension → BodyExtension
    | .num v => .num v
    | .str v => .str (v.map cow)
    | .list v => .list (bodyExtensions v)
  def bodyExtensions : List BodyExtension → List BodyExtension
    | [] => []
    | x :: xs => bodyExtension x :: bodyExtensions xs
end

def optExt : Option BodyExtension → Option BodyExtension
  | none => none
  | some e => some (bodyExtension e)

mutual
  def bodyStructure : BodyStructure → BodyStructure
    | .basic c o e => .basic (common c) (single o) (optExt e)
    | .text c o l e => .text (common c) (single o) l (optExt e)
    | .message c o env b l e => .message (common c) (single o) (envelope env) (bodyStructure b) l (optExt e)
    | .multipart c bs e => .multipart (common c) (bodyStructures bs) (optExt e)
  def bodyStructures : List BodyStructure → List BodyStructure
    | [] => []
    | x :: xs => bodyStructure x :: bodyStructures xs
end

def attributeValue : AttributeValue → AttributeValue
  | .bodySection s i d => .bodySection s i (d.map cow)
  | .bodyStructure b => .bodyStructure (bodyStructure b)
  | .envelope e => .envelope (envelope e)
  | .flags v => .flags (v.map cow)
  | .internalDate v => .internalDate (cow v)
  | .modSeq v => .modSeq v
  | .rfc822 v => .rfc822 (v.map cow)
  | .rfc822Header v => .rfc822Header (v.map cow)
  | .rfc822Size v => .rfc822Size v
  | .rfc822Text v => .rfc822Text (v.map cow)
  | .uid v => .uid v
  | .gmailLabels v => .gmailLabels (v.map cow)
  | .gmailMsgId v => .gmailMsgId v

def aclEntry (e : AclEntry) : AclEntry := { identifier := cow e.identifier, rights := e.rights }
def acl (a : Acl) : Acl := { mailbox := cow a.mailbox, acls := a.acls.map aclEntry }
def listRights (r : ListRights) : ListRights :=
  { mailbox := cow r.mailbox, identifier := cow r.identifier, required := r.required, optional := r.optional }
def myRights (r : MyRights) : MyRights := { mailbox := cow r.mailbox, rights := r.rights }

def quotaResourceName : QuotaResourceName → QuotaResourceName
  | .message => .message
  | .storage => .storage
  | .atom v => .atom (cow v)

def quotaResource (r : QuotaResource) : QuotaResource :=
  { name := quotaResourceName r.name, usage := r.usage, limit := r.limit }
def quota (q : Quota) : Quota := { rootName := cow q.rootName, resources := q.resources.map quotaResource }
def quotaRoot (q : QuotaRoot) : QuotaRoot :=
  { mailboxName := cow q.mailboxName, quotaRootNames := q.quotaRootNames.map cow }

/-- `Response::into_owned` -/
def response : Response → Response
  | .capabilities v => .capabilities (v.map capability)
  | .continue_ c i => .continue_ (c.map responseCode) (i.map cow)
  | .done t s c i => .done t s (c.map responseCode) (i.map cow)
  | .data s c i => .data s (c.map responseCode) (i.map cow)
  | .expunge n => .expunge n
  | .vanished e u => .vanished e u
  | .fetch n a => .fetch n (a.map attributeValue)
  | .mailboxData d => .mailboxData (mailboxDatum d)
  | .quota q => .quota (quota q)
  | .quotaRoot q => .quotaRoot (quotaRoot q)
  | .id m => .id (m.map fun m => m.map fun kv => (cow kv.1, cow kv.2))
  | .acl a => .acl (acl a)
  | .listRights r => .listRights (listRights r)
  | .myRights r => .myRights (myRights r)

end Owned
