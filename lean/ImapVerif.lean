import ImapVerif.Bytes
import ImapVerif.Nom
import ImapVerif.Types
import ImapVerif.Show
import ImapVerif.Grammar.Core
import ImapVerif.Grammar.Ext
import ImapVerif.Grammar.Body
import ImapVerif.Grammar.Rfc3501
