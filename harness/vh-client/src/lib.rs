// shared pieces of the client-side harness binaries
