//! Shared pieces of the client-side harness: the scripted transport `MockIo` (partial reads and
//! writes, `Pending` with or without wake-up, EOF; records the effective outcome of every transport
//! call) and a hand poller with a counting waker (no tokio runtime is needed).

use std::collections::VecDeque;
use std::pin::Pin;
use std::sync::atomic::{AtomicUsize, Ordering};
use std::sync::Arc;
use std::task::{Context, Poll, Wake, Waker};
use tokio::io::{AsyncRead, AsyncWrite, ReadBuf};

#[derive(Clone, Debug)]
pub enum RDir {
    Go(usize),
    Pending,
    PendingWake,
}

#[derive(Clone, Debug)]
pub enum WDir {
    Acc(usize),
    Pending,
    PendingWake,
}

#[derive(Clone, Debug)]
pub enum FDir {
    Ok,
    Pending,
    PendingWake,
}

#[derive(Default)]
pub struct MockIo {
    /// bytes the server has sent and the transport has not yet delivered
    pub incoming: VecDeque<u8>,
    pub rscript: VecDeque<RDir>,
    pub wscript: VecDeque<WDir>,
    pub fscript: VecDeque<FDir>,
    /// when `incoming` is exhausted: EOF (true) or a silent peer (false)
    pub eof_at_end: bool,
    /// effective outcome of every poll_read, in order: `d<hex>` | `p` | `e`
    pub revents: Vec<String>,
    /// effective outcome of every poll_write / poll_flush, in order: `a<n>` | `p` | `f`
    pub wevents: Vec<String>,
    /// one char per transport call since the last `take_calls`: r / w / f
    pub calls: String,
    /// did any transport call since the last `take_calls` return Pending?
    pub pending_seen: bool,
    /// every byte accepted by poll_write, in order
    pub written: Vec<u8>,
    /// (length of `written`, was the last flush complete) at the moment of each poll_read
    pub read_marks: Vec<(usize, bool)>,
    pub flushed_upto: usize,
    pub wakes_requested: usize,
    /// replay mode: one script for poll_write and poll_flush together, in call order, as recorded in
    /// `wevents` (`a<n>` / `p` / `f`); takes precedence over `wscript` / `fscript`
    pub unified: Option<VecDeque<String>>,
    /// replay mode: the implementation made a write-side call that does not fit the recorded event
    pub diverged: bool,
    /// a server that answers only what it has received: (offset into the server's output, bytes the client
    /// must have written before the output from that offset on is sent).  Empty = the server's output
    /// does not depend on the client (the default).
    pub gates: Vec<(usize, usize)>,
    /// bytes of the server's output delivered so far
    pub drained: usize,
}

impl MockIo {
    pub fn take_calls(&mut self) -> (String, bool) {
        let c = std::mem::take(&mut self.calls);
        let p = self.pending_seen;
        self.pending_seen = false;
        (c, p)
    }
    /// nothing more will ever arrive and nothing is scripted: a Pending now is final
    pub fn read_side_silent(&self) -> bool {
        (self.incoming.is_empty() && !self.eof_at_end) || (!self.incoming.is_empty() && self.available() == 0)
    }
    /// bytes of the server's output the transport may deliver now (all of it unless a gate is closed)
    pub fn available(&self) -> usize {
        let limit = self.gates.iter().find(|(_, need)| *need > self.written.len()).map(|(off, _)| *off).unwrap_or(usize::MAX);
        std::cmp::min(self.incoming.len(), limit.saturating_sub(self.drained))
    }
}

fn hex(b: &[u8]) -> String {
    let mut s = String::with_capacity(b.len() * 2);
    for c in b {
        s.push(char::from_digit((c >> 4) as u32, 16).unwrap());
        s.push(char::from_digit((c & 15) as u32, 16).unwrap());
    }
    s
}

impl AsyncRead for MockIo {
    fn poll_read(mut self: Pin<&mut Self>, cx: &mut Context<'_>, buf: &mut ReadBuf<'_>) -> Poll<std::io::Result<()>> {
        let me = &mut *self;
        me.calls.push('r');
        let flushed = me.flushed_upto == me.written.len();
        me.read_marks.push((me.written.len(), flushed));
        let dir = me.rscript.pop_front().unwrap_or(RDir::Go(usize::MAX));
        match dir {
            RDir::Pending | RDir::PendingWake => {
                if let RDir::PendingWake = dir {
                    me.wakes_requested += 1;
                    cx.waker().wake_by_ref();
                }
                me.revents.push("p".to_string());
                me.pending_seen = true;
                Poll::Pending
            }
            RDir::Go(k) => {
                let n = std::cmp::min(std::cmp::min(std::cmp::max(k, 1), me.available()), buf.remaining());
                if n == 0 {
                    if me.incoming.is_empty() && me.eof_at_end {
                        me.revents.push("e".to_string());
                        Poll::Ready(Ok(()))
                    } else {
                        // silent peer (or no room): not ready, nobody will wake us
                        me.revents.push("p".to_string());
                        me.pending_seen = true;
                        Poll::Pending
                    }
                } else {
                    let chunk: Vec<u8> = me.incoming.drain(..n).collect();
                    me.drained += n;
                    buf.put_slice(&chunk);
                    me.revents.push(format!("d{}", hex(&chunk)));
                    Poll::Ready(Ok(()))
                }
            }
        }
    }
}

impl AsyncWrite for MockIo {
    fn poll_write(mut self: Pin<&mut Self>, cx: &mut Context<'_>, data: &[u8]) -> Poll<std::io::Result<usize>> {
        let me = &mut *self;
        me.calls.push('w');
        let dir = if let Some(u) = me.unified.as_mut() {
            match u.pop_front() {
                Some(ev) if ev.starts_with('a') => WDir::Acc(ev[1..].parse().unwrap_or(usize::MAX)),
                Some(ev) if ev == "p" => WDir::Pending,
                Some(_) => {
                    me.diverged = true;
                    WDir::Acc(usize::MAX)
                }
                None => WDir::Acc(usize::MAX),
            }
        } else {
            me.wscript.pop_front().unwrap_or(WDir::Acc(usize::MAX))
        };
        match dir {
            WDir::Pending | WDir::PendingWake => {
                if let WDir::PendingWake = dir {
                    me.wakes_requested += 1;
                    cx.waker().wake_by_ref();
                }
                me.wevents.push("p".to_string());
                me.pending_seen = true;
                Poll::Pending
            }
            WDir::Acc(k) => {
                let n = std::cmp::min(std::cmp::max(k, 1), data.len());
                me.written.extend_from_slice(&data[..n]);
                me.wevents.push(format!("a{}", n));
                Poll::Ready(Ok(n))
            }
        }
    }
    fn poll_flush(mut self: Pin<&mut Self>, cx: &mut Context<'_>) -> Poll<std::io::Result<()>> {
        let me = &mut *self;
        me.calls.push('f');
        let dir = if let Some(u) = me.unified.as_mut() {
            match u.pop_front() {
                Some(ev) if ev == "f" => FDir::Ok,
                Some(ev) if ev == "p" => FDir::Pending,
                Some(_) => {
                    me.diverged = true;
                    FDir::Ok
                }
                None => FDir::Ok,
            }
        } else {
            me.fscript.pop_front().unwrap_or(FDir::Ok)
        };
        match dir {
            FDir::Pending | FDir::PendingWake => {
                if let FDir::PendingWake = dir {
                    me.wakes_requested += 1;
                    cx.waker().wake_by_ref();
                }
                me.wevents.push("p".to_string());
                me.pending_seen = true;
                Poll::Pending
            }
            FDir::Ok => {
                me.flushed_upto = me.written.len();
                me.wevents.push("f".to_string());
                Poll::Ready(Ok(()))
            }
        }
    }
    fn poll_shutdown(self: Pin<&mut Self>, _cx: &mut Context<'_>) -> Poll<std::io::Result<()>> {
        Poll::Ready(Ok(()))
    }
}

pub struct CountWake(pub AtomicUsize);
impl Wake for CountWake {
    fn wake(self: Arc<Self>) {
        self.0.fetch_add(1, Ordering::SeqCst);
    }
    fn wake_by_ref(self: &Arc<Self>) {
        self.0.fetch_add(1, Ordering::SeqCst);
    }
}

pub fn counting_waker() -> (Arc<CountWake>, Waker) {
    let a = Arc::new(CountWake(AtomicUsize::new(0)));
    let w = Waker::from(a.clone());
    (a, w)
}
