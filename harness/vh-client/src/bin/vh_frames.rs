//! C07 - a delivered frame owns its bytes; its parsed view never dangles or changes.
//!
//! Two parts per history:
//!  * correspondence with the ownership model (Frames.lean): the codec is driven by hand on a
//!    `BytesMut`; for every operation the decision of the real buffer (in place / shifted / new
//!    allocation, observed through pointers and capacities) is sent to the model, which must admit
//!    it, and the placement of the window and of every live frame computed by the model must equal
//!    the placement observed through the real pointers;
//!  * the property oracle on the implementation: every retained frame is re-read (deep comparison
//!    of `parsed()` with an owned snapshot taken at delivery, raw bytes byte for byte, every borrowed
//!    string of the view inside the frame's own bytes) while the connection keeps receiving, after
//!    frames are dropped in any order, after the allocator has been churned, from another thread,
//!    and after the buffer / the framed transport / the client has been dropped.
//! The `framed` family runs the same oracle through `Framed<MockIo, ImapCodec>` and `Client`.

use bytes::{Bytes, BytesMut};
use futures_util::stream::Stream;
use std::pin::Pin;
use std::sync::Mutex;
use std::task::{Context, Poll};
use tokio_imap::verif::ImapCodec;
use tokio_imap::ResponseData;
use tokio_util::codec::{Decoder, Framed};
use vh_client::*;
use vh_proto::gen::{gen_response_kind, GenCfg, KINDS};
use vh_proto::print::{print_response, Style};
use vh_proto::prng::{hex, Rng};
use vh_proto::run::*;
use vh_proto::ser;

struct Held {
    h: usize,
    frame: ResponseData,
    snap_view: String,
    snap_raw: Vec<u8>,
    raw_ptr: usize,
}

/// address ranges of the file-backed mappings of this process (program image and libraries): a
/// borrowed string of a view may be a `&'static str` constant of the parser ("INBOX", "TEXT" ...)
fn static_ranges() -> &'static Vec<(usize, usize)> {
    static R: std::sync::OnceLock<Vec<(usize, usize)>> = std::sync::OnceLock::new();
    R.get_or_init(|| {
        let mut v = vec![];
        if let Ok(maps) = std::fs::read_to_string("/proc/self/maps") {
            for line in maps.lines() {
                let f: Vec<&str> = line.split_whitespace().collect();
                if f.len() >= 6 && f[5].starts_with('/') {
                    let mut it = f[0].split('-');
                    if let (Some(a), Some(b)) = (it.next(), it.next()) {
                        if let (Ok(a), Ok(b)) = (usize::from_str_radix(a, 16), usize::from_str_radix(b, 16)) {
                            v.push((a, b));
                        }
                    }
                }
            }
        }
        v
    })
}

fn is_static(p: usize, n: usize) -> bool {
    static_ranges().iter().any(|&(a, b)| p >= a && p + n <= b)
}

/// deep re-read of a retained frame; returns a description of the first difference
fn reread(hd: &Held) -> Option<String> {
    let raw: &Bytes = hd.frame.verif_raw();
    if raw.as_ptr() as usize != hd.raw_ptr || raw.len() != hd.snap_raw.len() {
        return Some(format!("frame {}: the raw handle moved ({:x},{} -> {:x},{})", hd.h, hd.raw_ptr, hd.snap_raw.len(), raw.as_ptr() as usize, raw.len()));
    }
    if &raw[..] != &hd.snap_raw[..] {
        let k = raw.iter().zip(hd.snap_raw.iter()).position(|(a, b)| a != b).unwrap_or(0);
        return Some(format!("frame {}: raw bytes changed at offset {} of {}", hd.h, k, raw.len()));
    }
    ser::record_start();
    let now = ser::response(hd.frame.parsed());
    let leaves = ser::record_take();
    if now != hd.snap_view {
        return Some(format!("frame {}: parsed() changed: {} -> {}", hd.h, clip(&hd.snap_view, 200), clip(&now, 200)));
    }
    let lo = raw.as_ptr() as usize;
    let hi = lo + raw.len();
    for (p, n, borrowed) in leaves {
        if borrowed && n > 0 && !(p >= lo && p + n <= hi) && !is_static(p, n) {
            return Some(format!("frame {}: a borrowed string of the view ({} bytes at {:x}) lies outside the frame's bytes [{:x},{:x})", hd.h, n, p, lo, hi));
        }
    }
    None
}

fn clip(s: &str, n: usize) -> String {
    if s.len() > n {
        let mut k = n;
        while !s.is_char_boundary(k) {
            k -= 1;
        }
        format!("{}...", &s[..k])
    } else {
        s.to_string()
    }
}

/// a stream of responses: generated kinds plus FETCH responses with big literals
fn gen_stream(rng: &mut Rng, n: usize, max_lit: usize) -> Vec<Vec<u8>> {
    let mut out = vec![];
    for _ in 0..n {
        if rng.chance(1, 4) {
            let len = match rng.range(0, 5) {
                0 => match vh_proto::srcdict::int_le(rng, max_lit as u64, 2) {
                    Some(c) => c as usize,
                    None => 0,
                },
                1 => rng.range(1, 64) as usize,
                2 => rng.range(64, 9000) as usize,
                3 => rng.range(8000, 70000) as usize % (max_lit + 1),
                _ => rng.range(0, max_lit as u64) as usize,
            };
            let mut r = format!("* {} FETCH (UID {} BODY[] {{{}}}\r\n", rng.range(1, 99999), rng.range(1, 99999), len).into_bytes();
            for i in 0..len {
                r.push(b'a' + ((i * 7 + len) % 23) as u8);
            }
            r.extend_from_slice(b" FLAGS (\\Seen))\r\n");
            out.push(r);
        } else {
            let cfg = GenCfg { max_depth: 2, adversarial: rng.chance(1, 3), max_str: 12, max_lit: 200 };
            let kind = rng.range(0, KINDS.len() as u64 - 1) as usize;
            let s = rng.next_u64();
            let ss = rng.next_u64();
            let w = std::panic::catch_unwind(|| {
                let mut r1 = Rng::new(s);
                let v = gen_response_kind(&mut r1, &cfg, kind);
                let mut r2 = Rng::new(ss);
                let st = Style { random_case: r2.bool(), string_forms: r2.range(0, 2) as u8, zero_pad: 0, deviations: false, lsub: false };
                print_response(&v, &mut r2, &st)
            });
            match w {
                Ok(w) => out.push(w),
                Err(_) => out.push(b"* 1 EXISTS\r\n".to_vec()),
            }
        }
    }
    out
}

struct Alloc {
    base: usize,
}

/// one history on a hand-driven buffer; returns (op line, observed placements)
fn manual_history(ctx: &mut Ctx, rng: &mut Rng, thorough: bool) {
    let n_resp = if rng.chance(1, 5) { rng.range(50, 200) } else { rng.range(1, 30) } as usize;
    let max_lit = if thorough { if rng.chance(1, 6) { 1 << 20 } else { 100_000 } } else { 66_000 };
    let stream: Vec<u8> = gen_stream(rng, n_resp, max_lit).concat();
    let retain_p = rng.range(0, 4); // 0: none .. 4: all
    let mut codec = ImapCodec::default();
    let mut buf = BytesMut::new();
    let mut allocs: Vec<Alloc> = vec![Alloc { base: buf.as_ptr() as usize }];
    let mut cur = 0usize;
    let mut cur_size = 0usize; // size of the current allocation as far as observed
    let mut held: Vec<Held> = vec![];
    let mut next_h = 0usize;
    let mut ops: Vec<String> = vec![];
    let mut obs: Vec<String> = vec![];
    let mut worker: Vec<Held> = vec![];
    let mut pos = 0usize;
    let mut failed = false;
    let placement = |win: (usize, usize), allocs: &Vec<Alloc>, cur: usize, held: &Vec<Held>, worker: &Vec<Held>, frame_place: &dyn Fn(&Held) -> String| -> String {
        let w = format!("{},{},{}", cur, win.0.wrapping_sub(allocs[cur].base), win.1);
        let mut fs: Vec<(usize, String)> = held.iter().chain(worker.iter()).map(|h| (h.h, frame_place(h))).collect();
        fs.sort();
        format!("W={}/F={}", w, fs.iter().map(|x| x.1.clone()).collect::<Vec<_>>().join("+"))
    };
    // placement of a frame = (alloc, offset) recorded at delivery from the window it was cut from
    let mut frame_alloc: std::collections::HashMap<usize, (usize, usize)> = std::collections::HashMap::new();
    macro_rules! observe {
        () => {
            observe!((buf.as_ptr() as usize, buf.len()))
        };
        ($win:expr) => {{
            let fa = &frame_alloc;
            let al = &allocs;
            let fp = |h: &Held| -> String {
                // placement from the real pointer of the frame's bytes, relative to the allocation
                // the buffer window was in when the frame was cut
                let (a, _) = fa[&h.h];
                let p = h.frame.verif_raw().as_ptr() as usize;
                if p >= al[a].base {
                    format!("{},{},{},{}", h.h, a, p - al[a].base, h.frame.verif_raw().len())
                } else {
                    format!("{},{},?,{}", h.h, a, h.frame.verif_raw().len())
                }
            };
            obs.push(placement($win, &allocs, cur, &held, &worker, &fp));
        }};
    }
    let mut steps = 0;
    while !failed && (pos < stream.len()) {
        steps += 1;
        // ---- receive a chunk
        let k = match rng.range(0, 6) {
            0 => 1,
            1 => rng.range(1, 16) as usize,
            2 => rng.range(1, 600) as usize,
            3 => rng.range(500, 9000) as usize,
            4 => match vh_proto::srcdict::int_le(rng, 1 << 20, 3) {
                Some(c) if c > 0 => c as usize,
                _ => 8192,
            },
            _ => rng.range(1, 70000) as usize,
        };
        let k = std::cmp::min(k, stream.len() - pos);
        let old_ptr = buf.as_ptr() as usize;
        let old_len = buf.len();
        let old_base = allocs[cur].base;
        if rng.chance(1, 3) {
            buf.reserve(if rng.bool() { 8192 } else { k });
        }
        buf.extend_from_slice(&stream[pos..pos + k]);
        pos += k;
        let new_ptr = buf.as_ptr() as usize;
        let cap = buf.capacity();
        if new_ptr == old_ptr {
            ops.push(format!("ri:{}:{}", k, cap));
            cur_size = (new_ptr - old_base) + cap;
            ctx.log.count("recv:in-place");
        } else if new_ptr >= old_base && new_ptr < old_base + std::cmp::max(cur_size, 1) {
            ops.push(format!("rs:{}:{}:{}", k, new_ptr - old_base, cap));
            cur_size = (new_ptr - old_base) + cap;
            ctx.log.count("recv:shifted-in-allocation");
        } else {
            allocs.push(Alloc { base: new_ptr });
            cur = allocs.len() - 1;
            cur_size = cap;
            ops.push(format!("rn:{}:{}", k, cap));
            ctx.log.count(if held.is_empty() && worker.is_empty() { "recv:new-allocation-unshared" } else { "recv:new-allocation-while-frames-live" });
        }
        let _ = old_len;
        observe!();
        // ---- decode everything that is complete
        loop {
            let before_ptr = buf.as_ptr() as usize;
            let before_cap = buf.capacity();
            let res = codec.decode(&mut buf);
            // a decoder may legitimately move the buffer before it parses (e.g. reserve room): such a
            // move is an operation of its own for the model, observed through the pointers
            let mut note_move = |ops: &mut Vec<String>, allocs: &mut Vec<Alloc>, cur: &mut usize, cur_size: &mut usize, win_ptr: usize, win_cap: usize, log: &mut Log| {
                let base = allocs[*cur].base;
                if win_ptr >= base && win_ptr < base + std::cmp::max(*cur_size, 1) {
                    ops.push(format!("rs:0:{}:{}", win_ptr - base, win_cap));
                    *cur_size = (win_ptr - base) + win_cap;
                    log.count("decode:moved-in-allocation");
                } else {
                    allocs.push(Alloc { base: win_ptr });
                    *cur = allocs.len() - 1;
                    *cur_size = win_cap;
                    ops.push(format!("rn:0:{}", win_cap));
                    log.count("decode:moved-to-new-allocation");
                }
            };
            match res {
                Ok(Some(frame)) => {
                    let raw = frame.verif_raw();
                    let n = raw.len();
                    let h = next_h;
                    next_h += 1;
                    let p = raw.as_ptr() as usize;
                    let q = buf.as_ptr() as usize;
                    if p != before_ptr && q == p + n {
                        // moved, then split: the window before the split was at p
                        note_move(&mut ops, &mut allocs, &mut cur, &mut cur_size, p, n + buf.capacity(), &mut ctx.log);
                        observe!((p, n + buf.len()));
                    } else if q == p + n && n + buf.capacity() != before_cap {
                        // capacity changed in place (the decoder reserved room without moving the data)
                        ops.push(format!("ri:0:{}", n + buf.capacity()));
                        cur_size = (p - allocs[cur].base) + n + buf.capacity();
                        ctx.log.count("decode:capacity-changed-in-place");
                        observe!((p, n + buf.len()));
                    }
                    ops.push(format!("d:{}", n));
                    let before_ptr = if q == p + n { p } else { before_ptr };
                    frame_alloc.insert(h, (cur, before_ptr - allocs[cur].base));
                    ser::record_start();
                    let snap_view = ser::response(frame.parsed());
                    let _ = ser::record_take();
                    let hd = Held { h, snap_raw: raw.to_vec(), raw_ptr: raw.as_ptr() as usize, snap_view, frame };
                    if let Some(d) = reread(&hd) {
                        ctx.fail("view-outside-frame", format!("at delivery: {}", d), &ops.join(","));
                        failed = true;
                    }
                    ctx.log.count("frames:delivered");
                    let keep = rng.range(0, 4) < retain_p;
                    held.push(hd);
                    observe!();
                    if !keep {
                        let hd = held.pop().unwrap();
                        ops.push(format!("df:{}", hd.h));
                        drop(hd);
                        observe!();
                    } else {
                        ctx.log.count("frames:retained");
                    }
                }
                Ok(None) => {
                    if buf.as_ptr() as usize != before_ptr {
                        note_move(&mut ops, &mut allocs, &mut cur, &mut cur_size, buf.as_ptr() as usize, buf.capacity(), &mut ctx.log);
                        observe!();
                    } else if buf.capacity() != before_cap {
                        ops.push(format!("ri:0:{}", buf.capacity()));
                        cur_size = (before_ptr - allocs[cur].base) + buf.capacity();
                        ctx.log.count("decode:capacity-changed-in-place");
                        observe!();
                    }
                    break;
                }
                Err(_) => {
                    // generated stream the parser refuses: stop this history here
                    pos = stream.len();
                    break;
                }
            }
        }
        // ---- drop some retained frames, in any order
        while !held.is_empty() && rng.chance(1, 4) {
            let i = rng.range(0, held.len() as u64 - 1) as usize;
            let hd = held.swap_remove(i);
            if let Some(d) = reread(&hd) {
                ctx.fail("frame-changed", d, &ops.join(","));
                failed = true;
            }
            ops.push(format!("df:{}", hd.h));
            drop(hd);
            observe!();
            ctx.log.count("frames:dropped-out-of-order");
        }
        // ---- move some to "another thread" (re-read there at the end)
        if !held.is_empty() && rng.chance(1, 8) {
            let i = rng.range(0, held.len() as u64 - 1) as usize;
            worker.push(held.swap_remove(i));
        }
        // ---- churn the allocator
        if rng.chance(1, 3) {
            churn(rng);
        }
        // ---- re-read everything now and then
        if steps % 7 == 0 {
            for hd in held.iter().chain(worker.iter()) {
                if let Some(d) = reread(hd) {
                    ctx.fail("frame-changed", d, &ops.join(","));
                    failed = true;
                    break;
                }
            }
        }
    }
    // ---- the connection goes away while frames are retained
    ops.push("db".to_string());
    drop(buf);
    {
        let mut fs: Vec<(usize, String)> = held
            .iter()
            .chain(worker.iter())
            .map(|h| {
                let (a, _) = frame_alloc[&h.h];
                let p = h.frame.verif_raw().as_ptr() as usize;
                (h.h, format!("{},{},{},{}", h.h, a, p.wrapping_sub(allocs[a].base), h.frame.verif_raw().len()))
            })
            .collect();
        fs.sort();
        obs.push(format!("W=-/F={}", fs.iter().map(|x| x.1.clone()).collect::<Vec<_>>().join("+")));
    }
    churn(rng);
    churn(rng);
    // pointer placement: every live frame's real address = base of its allocation + offset
    for hd in held.iter().chain(worker.iter()) {
        let (a, off) = frame_alloc[&hd.h];
        if hd.frame.verif_raw().as_ptr() as usize != allocs[a].base + off {
            ctx.fail("frame-moved", format!("frame {} is not at allocation {} + {}", hd.h, a, off), &ops.join(","));
        }
    }
    let n_worker = worker.len();
    if n_worker > 0 {
        // frames are Send: re-read and drop them on another thread
        let res = std::thread::spawn(move || {
            let mut bad = None;
            for hd in worker.iter() {
                if let Some(d) = reread(hd) {
                    bad = Some(d);
                    break;
                }
            }
            drop(worker);
            bad
        })
        .join()
        .unwrap_or(Some("the re-reading thread panicked".to_string()));
        if let Some(d) = res {
            ctx.fail("frame-changed", format!("on another thread: {}", d), &ops.join(","));
        }
        ctx.log.count_n("frames:reread-on-another-thread", n_worker as u64);
    }
    for hd in held.iter() {
        if let Some(d) = reread(hd) {
            ctx.fail("frame-changed", format!("after the buffer was dropped: {}", d), &ops.join(","));
            break;
        }
    }
    ctx.log.count_n("frames:reread-after-buffer-dropped", held.len() as u64);
    drop(held);
    // ---- model: admissibility and placement
    let op = format!("own {}", ops.join(","));
    let imp = obs.join("|");
    ctx.log.nontrivial(&op);
    ctx.queue_own(op, imp);
    ctx.log.count("histories:manual");
}

fn churn(rng: &mut Rng) {
    let mut v: Vec<Vec<u8>> = vec![];
    for _ in 0..rng.range(1, 12) {
        let n = match rng.range(0, 3) {
            0 => rng.range(1, 128) as usize,
            1 => rng.range(128, 9000) as usize,
            2 => 8192,
            _ => rng.range(9000, 140000) as usize,
        };
        v.push(vec![0xAAu8; n]);
    }
    std::hint::black_box(&v);
    while !v.is_empty() {
        let i = rng.range(0, v.len() as u64 - 1) as usize;
        v.swap_remove(i);
    }
}

/// the same oracle through `Framed<MockIo, ImapCodec>`: the real read loop reserves, reads and
/// decodes; frames are retained while the stream continues, then the transport is dropped
fn framed_history(ctx: &mut Ctx, rng: &mut Rng, thorough: bool) {
    let n_resp = rng.range(1, 40) as usize;
    let max_lit = if thorough { 300_000 } else { 40_000 };
    let stream: Vec<u8> = gen_stream(rng, n_resp, max_lit).concat();
    let mut io = MockIo::default();
    io.incoming.extend(stream.iter().copied());
    io.eof_at_end = true;
    for _ in 0..rng.range(0, 200) {
        io.rscript.push_back(match rng.range(0, 9) {
            0 => RDir::PendingWake,
            1 => RDir::Go(1),
            2 => RDir::Go(rng.range(1, 40) as usize),
            3 => RDir::Go(rng.range(1, 9000) as usize),
            _ => RDir::Go(usize::MAX),
        });
    }
    let mut framed = Framed::new(io, ImapCodec::default());
    let (_count, waker) = counting_waker();
    let mut cx = Context::from_waker(&waker);
    let mut held: Vec<Held> = vec![];
    let mut h = 0usize;
    let desc = format!("framed stream of {} bytes", stream.len());
    for _ in 0..100000 {
        match Pin::new(&mut framed).poll_next(&mut cx) {
            Poll::Ready(Some(Ok(frame))) => {
                let raw = frame.verif_raw();
                ser::record_start();
                let snap_view = ser::response(frame.parsed());
                let _ = ser::record_take();
                let hd = Held { h, snap_raw: raw.to_vec(), raw_ptr: raw.as_ptr() as usize, snap_view, frame };
                h += 1;
                if let Some(d) = reread(&hd) {
                    ctx.fail("view-outside-frame", format!("at delivery ({}): {}", desc, d), &format!("framed {}", hex(&stream[..std::cmp::min(stream.len(), 2000)])));
                    return;
                }
                if rng.chance(2, 3) {
                    held.push(hd);
                }
                if rng.chance(1, 5) && !held.is_empty() {
                    let i = rng.range(0, held.len() as u64 - 1) as usize;
                    held.swap_remove(i);
                }
                if rng.chance(1, 6) {
                    churn(rng);
                }
            }
            Poll::Ready(Some(Err(_))) | Poll::Ready(None) => break,
            Poll::Pending => {}
        }
        if h % 5 == 4 {
            for hd in held.iter() {
                if let Some(d) = reread(hd) {
                    ctx.fail("frame-changed", format!("while the connection keeps receiving ({}): {}", desc, d), &format!("framed {}", hex(&stream[..std::cmp::min(stream.len(), 2000)])));
                    return;
                }
            }
        }
    }
    drop(framed);
    churn(rng);
    churn(rng);
    for hd in held.iter() {
        if let Some(d) = reread(hd) {
            ctx.fail("frame-changed", format!("after the framed transport was dropped ({}): {}", desc, d), &format!("framed {}", hex(&stream[..std::cmp::min(stream.len(), 2000)])));
            return;
        }
    }
    ctx.log.count_n("frames:reread-after-transport-dropped", held.len() as u64);
    ctx.log.count("histories:framed");
    ctx.log.evaluations += 1;
}

struct Ctx {
    model: Model,
    log: Log,
    ops: Vec<String>,
    imps: Vec<String>,
}

impl Ctx {
    fn new(model: &str) -> Ctx {
        Ctx { model: Model::spawn(model).expect("spawn model"), log: Log::default(), ops: vec![], imps: vec![] }
    }
    fn queue_own(&mut self, op: String, imp: String) {
        self.log.evaluations += 1;
        self.ops.push(op);
        self.imps.push(imp);
        if self.ops.len() >= 50 {
            self.flush();
        }
    }
    fn flush(&mut self) {
        if self.ops.is_empty() {
            return;
        }
        let replies = self.model.eval_batch(&self.ops);
        for i in 0..self.ops.len() {
            self.log.compared += 1;
            // the model also reports released allocations (/X=..), which cannot be observed
            let m: Vec<String> = replies[i].split('|').map(|s| s.split("/X=").next().unwrap_or("").to_string()).collect();
            let m = m.join("|");
            if m != self.imps[i] {
                let note = if replies[i].contains("inadmissible") {
                    "the model of `bytes` does not admit the decision observed on the real buffer".to_string()
                } else {
                    "placement of the window / of a live frame differs".to_string()
                };
                self.log.disagree(Disagreement { op: clip(&self.ops[i], 3000), imp: clip(&self.imps[i], 1500), model: clip(&m, 1500), note });
            }
        }
        self.ops.clear();
        self.imps.clear();
    }
    fn fail(&mut self, class: &str, what: String, op: &str) {
        self.log.oracle_fail(OracleFailure { class: class.to_string(), what, ops: vec![format!("# history: {}", clip(op, 4000))], known: String::new() });
    }
}

fn main() {
    std::panic::set_hook(Box::new(|_| {}));
    let args = Args::from_env();
    let seed = args.num("seed", 1);
    let tier = args.get_or("tier", "quick");
    let thorough = tier == "thorough";
    let model = args.get_or("model", "/verif/lean/.lake/build/bin/imapmodel");
    let out = args.get_or("out", "/dev/stdout");
    let shards = args.num("shards", 12) as usize;
    if let Some(f) = args.get("replay") {
        // histories depend on the allocator; a replay re-runs the recorded seed and tier
        let text = std::fs::read_to_string(f).unwrap_or_default();
        let mut s = seed;
        let mut t = thorough;
        for line in text.lines() {
            if let Some(rest) = line.strip_prefix("# seed=") {
                let mut it = rest.split_whitespace();
                s = it.next().and_then(|x| x.parse().ok()).unwrap_or(seed);
                t = rest.contains("tier=thorough");
            }
        }
        let log = run_all(s, t, &model, shards);
        println!("replay of seed {}: disagreements={} oracle_failures={}", s, log.n_disagreements, log.n_oracle_failures);
        for f in log.oracle_failures.iter().take(5) {
            println!("ORACLE-FAIL {}: {}", f.class, f.what);
        }
        std::process::exit(if log.n_disagreements + log.n_oracle_failures > 0 { 1 } else { 0 });
    }
    let log = run_all(seed, thorough, &model, shards);
    std::fs::write(&out, log.to_json("C07", seed, &tier, "decode histories: streams of 1..200 generated responses (all kinds, literals 0..64 KiB quick / 1 MiB thorough), random chunking and reserve calls, any subset of frames retained, dropped in any order, moved to another thread, allocator churned, buffer / framed transport dropped while frames are retained; non-trivial = distinct operation history")).expect("write out");
    println!(
        "prop=C07 evaluations={} compared={} distinct_nontrivial={} disagreements={} oracle_failures={}",
        log.evaluations, log.compared, log.nontrivial.len(), log.n_disagreements, log.n_oracle_failures
    );
}

fn run_all(seed: u64, thorough: bool, model: &str, shards: usize) -> Log {
    let total = Mutex::new(Log::default());
    std::thread::scope(|s| {
        for shard in 0..shards {
            let total = &total;
            let model = model.to_string();
            s.spawn(move || {
                let mut ctx = Ctx::new(&model);
                let mut rng = Rng::new(seed.wrapping_mul(1000003).wrapping_add(shard as u64));
                let n = if thorough { 1500 } else { 150 };
                for _ in 0..n {
                    manual_history(&mut ctx, &mut rng, thorough);
                }
                for _ in 0..n / 2 {
                    framed_history(&mut ctx, &mut rng, thorough);
                }
                // directed passes: one per constant of /repo's sources that the baseline does not have
                for (fo, _name) in vh_proto::srcdict::foci() {
                    vh_proto::srcdict::with_focus(fo, || {
                        for _ in 0..std::cmp::max(n / 6, 10) {
                            manual_history(&mut ctx, &mut rng, thorough);
                        }
                        for _ in 0..std::cmp::max(n / 12, 5) {
                            framed_history(&mut ctx, &mut rng, thorough);
                        }
                    });
                    ctx.log.count("source-constant-pass");
                }
                ctx.flush();
                total.lock().unwrap().merge(ctx.log);
            });
        }
    });
    total.into_inner().unwrap()
}
