//! Client-side correspondence + oracles: C04 (framing independent of chunking, nothing withheld),
//! C05 (a command's stream is delimited by its own completion), C06 (each command on the wire once,
//! whole, before waiting), C11 (tags valid, unique in a window, matched exactly).
//! Implementation = tokio_imap (hook feature `djc_tokio_imap_verif`) over a scripted `MockIo`,
//! polled by hand; model = Client.lean through the driver, fed with the *effective* transport trace.

use bytes::Buf;
use futures_util::stream::Stream;
use imap_proto::builders::command::{Command, CommandBuilder};
use imap_proto::types::{AttrMacro, Attribute};
use imap_proto::Response;
use std::pin::Pin;
use std::sync::Mutex;
use std::task::{Context, Poll};
use tokio_imap::verif::ImapCodec;
use tokio_imap::Client;
use tokio_util::codec::{Decoder, Framed};
use vh_client::*;
use vh_proto::gen::{gen_response_kind, GenCfg, KINDS};
use vh_proto::parsecommon::SEEDS;
use vh_proto::print::{print_response, Style};
use vh_proto::prng::{hex, unhex, Rng};
use vh_proto::run::*;
use vh_proto::ser;

struct Ctx {
    model: Model,
    log: Log,
    ops: Vec<String>,
    imps: Vec<String>,
}

impl Ctx {
    fn new(model: &str) -> Ctx {
        Ctx {
            model: Model::spawn(model).expect("spawn model"),
            log: Log::default(),
            ops: vec![],
            imps: vec![],
        }
    }
    fn queue(&mut self, op: String, imp: String) {
        self.log.evaluations += 1;
        self.ops.push(op);
        self.imps.push(imp);
        if self.ops.len() >= 500 {
            self.flush();
        }
    }
    fn flush(&mut self) {
        if self.ops.is_empty() {
            return;
        }
        let replies = self.model.eval_batch(&self.ops);
        for i in 0..self.ops.len() {
            self.log.compared += 1;
            if replies[i] != self.imps[i] {
                self.log.disagree(Disagreement {
                    op: clip(&self.ops[i], 400_000),
                    imp: clip(&self.imps[i], 1500),
                    model: clip(&replies[i], 1500),
                    note: first_diff(&self.imps[i], &replies[i]),
                });
            }
        }
        self.ops.clear();
        self.imps.clear();
    }
    fn fail(&mut self, class: &str, what: String, op: &str) {
        self.log.oracle_fail(OracleFailure {
            class: class.to_string(),
            what,
            ops: vec![clip(op, 400_000)],
            known: String::new(),
        });
    }
}

fn clip(s: &str, n: usize) -> String {
    if s.len() > n {
        let mut k = n;
        while !s.is_char_boundary(k) {
            k -= 1;
        }
        format!("{}...", &s[..k])
    } else {
        s.to_string()
    }
}

fn first_diff(a: &str, b: &str) -> String {
    let n = a.bytes().zip(b.bytes()).take_while(|(x, y)| x == y).count();
    let lo = n.saturating_sub(40);
    format!(
        "first difference at {}: impl ..{} model ..{}",
        n,
        clip(&a[lo..std::cmp::min(a.len(), n + 60)], 120),
        clip(&b[lo..std::cmp::min(b.len(), n + 60)], 120)
    )
}

fn join_or_dash(v: &[String]) -> String {
    if v.is_empty() {
        "-".to_string()
    } else {
        v.join(",")
    }
}

// ------------------------------------------------------------------------------------------------
// server material

/// responses the real parser accepts completely (so they can be used to script a server)
fn valid_responses(seed: u64, per_kind: usize, max_lit: usize) -> Vec<Vec<u8>> {
    let mut v: Vec<Vec<u8>> = vec![];
    for s in SEEDS {
        v.push(s.to_vec());
    }
    for round in 0..per_kind {
        for k in 0..KINDS.len() {
            let cfg = GenCfg {
                max_depth: 2,
                adversarial: round % 2 == 1,
                max_str: 10,
                max_lit: if round % 3 == 2 { max_lit } else { 30 },
            };
            let r = std::panic::catch_unwind(|| {
                let mut rng = Rng::new(seed.wrapping_mul(7919).wrapping_add((round * 1000 + k) as u64));
                let val = gen_response_kind(&mut rng, &cfg, k);
                let st = Style {
                    random_case: rng.bool(),
                    string_forms: rng.below(3) as u8,
                    zero_pad: 0,
                    deviations: rng.bool(),
                    lsub: false,
                };
                print_response(&val, &mut rng, &st)
            });
            if let Ok(b) = r {
                v.push(b);
            }
        }
    }
    // responses with sizeable literals (message bodies), of several sizes
    for (i, n) in [100usize, 150, 300, 1000, 5000, 9000].iter().enumerate() {
        let body: Vec<u8> = (0..*n).map(|k| b"abcdefghij\r\n()\"{}"[(k + i) % 17]).collect();
        let mut r = format!("* {} FETCH (UID {} BODY[] {{{}}}\r\n", i + 1, i + 7, n).into_bytes();
        r.extend_from_slice(&body);
        r.extend_from_slice(b" FLAGS (\\Seen))\r\n");
        v.push(r);
        let mut r = format!("* {} FETCH (RFC822.HEADER {{{}}}\r\n", i + 1, n).into_bytes();
        r.extend_from_slice(&body);
        r.extend_from_slice(b")\r\n");
        v.push(r);
    }
    v.retain(|b| matches!(Response::from_bytes(b), Ok((rest, _)) if rest.is_empty()));
    v
}

fn is_tagged(b: &[u8]) -> bool {
    matches!(Response::from_bytes(b), Ok((_, Response::Done { .. })))
}

/// one-shot framing of a byte stream by the real parser: (raw length, serialised value) per frame, then
/// what stopped it
enum Stop {
    End,
    Incomplete,
    Error,
}

fn one_shot(stream: &[u8]) -> (Vec<(usize, String, Option<String>)>, Stop, usize) {
    let mut out = vec![];
    let mut off = 0;
    loop {
        if off == stream.len() {
            return (out, Stop::End, off);
        }
        match Response::from_bytes(&stream[off..]) {
            Ok((rest, v)) => {
                let n = stream.len() - off - rest.len();
                let tag = match &v {
                    Response::Done { tag, .. } => Some(tag.0.clone()),
                    _ => None,
                };
                out.push((n, ser::response(&v), tag));
                off += n;
            }
            Err(nom::Err::Incomplete(_)) => return (out, Stop::Incomplete, off),
            Err(_) => return (out, Stop::Error, off),
        }
    }
}

// ------------------------------------------------------------------------------------------------
// schedules

fn read_schedule(rng: &mut Rng, total: usize) -> Vec<RDir> {
    let mut v = vec![];
    match rng.below(6) {
        0 => {} // everything at once (script exhausted = deliver all)
        1 => {
            for _ in 0..total {
                v.push(RDir::Go(1));
            }
        }
        2 => {
            // two cut points
            let a = rng.usize(total + 1);
            let b = rng.usize(total + 1);
            let (a, b) = (std::cmp::min(a, b), std::cmp::max(a, b));
            if a > 0 {
                v.push(RDir::Go(a));
            }
            if b > a {
                v.push(RDir::Go(b - a));
            }
        }
        _ => {
            let mut left = total;
            while left > 0 {
                let k = match rng.below(4) {
                    0 => 1,
                    1 => 1 + rng.usize(4),
                    2 => 1 + rng.usize(40),
                    _ => match vh_proto::srcdict::int_le(rng, left as u64, 6) {
                        Some(c) if c > 0 => c as usize,
                        _ => 1 + rng.usize(left),
                    },
                };
                v.push(RDir::Go(k));
                left = left.saturating_sub(k);
            }
        }
    }
    // inject Pending
    let inj = rng.below(4);
    for _ in 0..inj {
        let p = rng.usize(v.len() + 1);
        v.insert(p, if rng.bool() { RDir::Pending } else { RDir::PendingWake });
    }
    // now and then a long run of 'not ready' in one place
    if rng.chance(1, 25) {
        let p = rng.usize(v.len() + 1);
        for _ in 0..*rng.pick(&[16usize, 17, 40]) {
            v.insert(p, RDir::Pending);
        }
    }
    v
}

fn write_schedule(rng: &mut Rng) -> (Vec<WDir>, Vec<FDir>) {
    let mut w = vec![];
    let mut f = vec![];
    let n = match rng.below(4) {
        0 => 0,
        1 => 3,
        _ => rng.usize(30),
    };
    for _ in 0..n {
        w.push(match rng.below(6) {
            0 => WDir::Pending,
            1 => WDir::PendingWake,
            2 => WDir::Acc(1),
            3 => WDir::Acc(1 + rng.usize(7)),
            _ => WDir::Acc(1 + rng.usize(9000)),
        });
    }
    let m = if rng.chance(1, 25) { *rng.pick(&[16usize, 17, 40]) } else { rng.usize(4) };
    for _ in 0..m {
        f.push(match rng.below(3) {
            0 => FDir::Pending,
            1 => FDir::PendingWake,
            _ => FDir::Ok,
        });
    }
    (w, f)
}

fn show_item(item: &Option<Result<tokio_imap::ResponseData, std::io::Error>>) -> String {
    match item {
        None => "N".to_string(),
        Some(Err(_)) => "E".to_string(),
        Some(Ok(rd)) => format!("F{},{}", rd.verif_raw().len(), ser::response(rd.parsed())),
    }
}

// ------------------------------------------------------------------------------------------------
// C04: Framed<MockIo, ImapCodec>

fn run_frames_case(ctx: &mut Ctx, stream: &[u8], rscript: Vec<RDir>, eof_at_end: bool, note: &str) {
    let mut io = MockIo::default();
    io.incoming = stream.iter().copied().collect();
    io.rscript = rscript.into();
    io.eof_at_end = eof_at_end;
    let mut framed: Framed<MockIo, ImapCodec> = ImapCodec::default().framed(io);
    let (_wk, waker) = counting_waker();
    let mut cx = Context::from_waker(&waker);
    let mut polls: Vec<String> = vec![];
    let mut delivered: Vec<(usize, String)> = vec![];
    let max_polls = stream.len() * 2 + 40;
    let mut ended = "limit";
    let mut after_err = false;
    for _ in 0..max_polls {
        let r = Pin::new(&mut framed).poll_next(&mut cx);
        let (calls, _) = framed.get_mut().take_calls();
        let nreads = calls.len();
        match r {
            Poll::Pending => {
                polls.push(format!("{}:P", nreads));
                let io = framed.get_ref();
                if io.rscript.is_empty() && io.read_side_silent() {
                    ended = "silent";
                    break;
                }
            }
            Poll::Ready(item) => {
                polls.push(format!("{}:{}", nreads, show_item(&item)));
                match item {
                    None => {
                        ended = if after_err { "error" } else { "end" };
                        break;
                    }
                    Some(Err(_)) => after_err = true,
                    Some(Ok(rd)) => delivered.push((rd.verif_raw().len(), ser::response(rd.parsed()))),
                }
            }
        }
    }
    let rbuf = framed.read_buffer().chunk().to_vec();
    let revents = framed.get_ref().revents.clone();
    let op = format!("frames {} {}", join_or_dash(&revents), polls.len());
    let imp = format!("{} RBUF={}", polls.join("|"), hex(&rbuf));
    ctx.log.count(&format!("c04:end:{}", ended));
    ctx.log.count(&format!("c04:sched:{}", note));
    ctx.log.nontrivial(&op);

    // ---- oracle: what the whole stream yields when parsed in one piece
    let (frames, stop, _off) = one_shot(stream);
    let expect: Vec<(usize, String)> = frames.iter().map(|f| (f.0, f.1.clone())).collect();
    let received: usize = revents
        .iter()
        .filter(|e| e.starts_with('d'))
        .map(|e| (e.len() - 1) / 2)
        .sum();
    // frames completely contained in the bytes received so far
    let mut acc = 0;
    let mut complete_so_far = 0;
    for f in &expect {
        if acc + f.0 <= received {
            acc += f.0;
            complete_so_far += 1;
        } else {
            break;
        }
    }
    let prefix_ok = delivered.len() <= expect.len() && delivered[..] == expect[..delivered.len()];
    if !prefix_ok {
        ctx.fail(
            "frames-differ",
            format!(
                "frames delivered under schedule [{}] differ from the one-shot parse of the same stream {}: delivered {:?}",
                note,
                show_bytes(stream),
                delivered.iter().map(|d| d.0).collect::<Vec<_>>()
            ),
            &op,
        );
    } else if ended == "silent" && delivered.len() < complete_so_far {
        ctx.fail(
            "withheld",
            format!(
                "the transport has nothing more to give, {} bytes were received holding {} complete responses, but only {} were delivered (stream {})",
                received,
                complete_so_far,
                delivered.len(),
                show_bytes(stream)
            ),
            &op,
        );
    } else if ended == "end" {
        // clean end: everything must have been delivered and nothing may be left
        let clean = matches!(stop, Stop::End);
        if !clean || delivered.len() != expect.len() || !rbuf.is_empty() {
            ctx.fail(
                "bad-end",
                format!("stream ended cleanly although the one-shot parse leaves a remainder or frames are missing: {}", show_bytes(stream)),
                &op,
            );
        }
    } else if ended == "error" {
        if matches!(stop, Stop::End) {
            ctx.fail("bad-end", format!("stream ended with an error although it parses completely: {}", show_bytes(stream)), &op);
        } else if delivered.len() != expect.len() {
            ctx.fail("frames-differ", format!("error before all complete frames were delivered: {}", show_bytes(stream)), &op);
        }
    }
    ctx.queue(op, imp);
}

/// does the response announce a literal of at least 100 bytes?
fn has_big_literal(r: &[u8]) -> bool {
    let mut i = 0;
    while i < r.len() {
        if r[i] == b'{' {
            let mut j = i + 1;
            let mut n: usize = 0;
            while j < r.len() && r[j].is_ascii_digit() && j - i < 9 {
                n = n * 10 + (r[j] - b'0') as usize;
                j += 1;
            }
            if j < r.len() && r[j] == b'}' && j > i + 1 && n >= 100 {
                return true;
            }
        }
        i += 1;
    }
    false
}

fn make_stream(rng: &mut Rng, resp: &[Vec<u8>]) -> (Vec<u8>, Vec<usize>) {
    vh_proto::srcdict::reset_large();
    let n = rng.len(1, 12);
    let mut s = vec![];
    let mut bounds = vec![];
    for _ in 0..n {
        { let e: &Vec<u8> = rng.pick(resp); s.extend_from_slice(e); }
        bounds.push(s.len());
    }
    match rng.below(8) {
        0 => {
            let k = rng.usize(s.len());
            s.truncate(k);
        }
        1 => s.extend_from_slice(b"* BOGUS line\r\n"),
        2 => s.extend_from_slice(b"garbage"),
        3 if rng.chance(1, 4) => {
            // nesting beyond the parser's budget: a parse Failure (not Error) reaches the codec
            s.extend_from_slice(b"* 1 FETCH (BODYSTRUCTURE ");
            for _ in 0..40 {
                s.push(b'(');
            }
            s.extend_from_slice(b"\r\n");
        }
        _ => {}
    }
    (s, bounds)
}

fn run_c04(ctx: &mut Ctx, rng: &mut Rng, resp: &[Vec<u8>], thorough: bool, shard: usize, shards: usize) {
    // (1) every response alone, as the last thing a peer sends before falling silent, cut at every byte
    let mut idx = 0;
    let per = if thorough { resp.len() } else { std::cmp::min(resp.len(), 160) };
    for r in resp.iter().take(per) {
        idx += 1;
        if idx % shards != shard || r.len() > 400 {
            continue;
        }
        for cut in 1..r.len() {
            run_frames_case(ctx, r, vec![RDir::Go(cut), RDir::Go(r.len())], false, "alone-silent-1cut");
        }
    }
    ctx.log.exhaustive.push("every seed response alone with a silent peer, every single cut".to_string());
    // (2) all chunkings with two cut points of short streams
    let n2 = if thorough { 60 } else { 6 };
    for _ in 0..n2 {
        let (s, _) = make_stream(rng, resp);
        if s.len() > (if thorough { 400 } else { 160 }) {
            continue;
        }
        let eof = rng.bool();
        for a in 0..=s.len() {
            for b in a..=s.len() {
                let mut sc = vec![];
                if a > 0 {
                    sc.push(RDir::Go(a));
                }
                if b > a {
                    sc.push(RDir::Go(b - a));
                }
                run_frames_case(ctx, &s, sc, eof, "2cut-exhaustive");
            }
        }
    }
    run_c04_random(ctx, rng, resp, thorough, shards);
}

fn run_c04_random(ctx: &mut Ctx, rng: &mut Rng, resp: &[Vec<u8>], thorough: bool, shards: usize) {
    // (2b) cuts aligned with response boundaries plus a few interior cuts (a read that ends exactly
    // at the end of a response is the shape in which per-frame bookkeeping goes stale)
    let n2b = vh_proto::srcdict::scaled(if thorough { 60_000 } else { 6_000 } / shards);
    for _ in 0..n2b {
        let (s, bounds) = make_stream(rng, resp);
        let mut cuts: Vec<usize> = bounds.iter().copied().filter(|b| *b <= s.len() && rng.chance(2, 3)).collect();
        let extra = rng.usize(3);
        for _ in 0..extra {
            cuts.push(rng.usize(s.len() + 1));
        }
        cuts.sort();
        cuts.dedup();
        let mut sc = vec![];
        let mut prev = 0;
        for c in cuts {
            if c > prev {
                sc.push(RDir::Go(c - prev));
                prev = c;
            }
            if rng.chance(1, 8) {
                sc.push(RDir::Pending);
            }
        }
        run_frames_case(ctx, &s, sc, rng.bool(), "boundary-aligned");
    }
    // (2c) a response carrying a sizeable literal, cut inside the literal and again exactly at its
    // end, followed by short responses: the shape in which a remembered "bytes needed" goes stale
    let big: Vec<&Vec<u8>> = resp.iter().filter(|r| has_big_literal(r)).collect();
    if !big.is_empty() {
        let n2c = vh_proto::srcdict::scaled(if thorough { 20_000 } else { 3_000 } / shards);
        for _ in 0..n2c {
            let first: &Vec<u8> = *rng.pick(&big);
            let mut s = first.clone();
            let k = rng.range(1, 3);
            for _ in 0..k {
                let e: &Vec<u8> = rng.pick(resp);
                if e.len() < 80 {
                    s.extend_from_slice(e);
                }
            }
            let end = first.len();
            let cut = rng.usize(end);
            let mut sc = vec![];
            if cut > 0 {
                sc.push(RDir::Go(cut));
            }
            if rng.chance(1, 4) {
                sc.push(RDir::Pending);
            }
            sc.push(RDir::Go(end - cut));
            if rng.chance(1, 2) {
                sc.push(RDir::Go(1 + rng.usize(40)));
            }
            run_frames_case(ctx, &s, sc, rng.bool(), "literal-then-short");
        }
    }
    // (2d) long runs and big responses under size-aligned reads: hundreds of frames on one connection
    // (counters, periodic compaction), reads of exactly 1 KiB / 4 KiB / 16 KiB / 64 KiB, responses whose
    // literal is 100 000 bytes, responses ending exactly at a multiple of 1024 bytes of stream offset
    let n2d = if thorough { 200 } else { 12 } / std::cmp::max(shards / 4, 1);
    for i in 0..n2d {
        let mut s: Vec<u8> = vec![];
        let frames = match i % 3 {
            0 => 300,
            1 => 1100,
            _ => 40,
        };
        // how often a response is padded to a 1 KiB boundary: never (hundreds of short responses inside
        // one read), rarely, often
        let pad_den = *rng.pick(&[0u64, 0, 40, 6]);
        let short_only = rng.chance(1, 3);
        for k in 0..frames {
            if i % 3 == 2 && k % 13 == 5 {
                let len = *rng.pick(&[4096usize, 16384, 65536, 100_000]);
                s.extend_from_slice(format!("* {} FETCH (BODY[] {{{}}}\r\n", k + 1, len).as_bytes());
                s.extend((0..len).map(|j| b'a' + (j % 26) as u8));
                s.extend_from_slice(b")\r\n");
            } else if pad_den > 0 && rng.chance(1, pad_den) {
                // pad the next response so that it ends exactly at a multiple of 1024
                let base = format!("* {} EXISTS\r\n", k + 1);
                let target = ((s.len() + base.len() + 20) / 1024 + 1) * 1024;
                let pad = target - s.len() - base.len() - 9;
                s.extend_from_slice(b"* OK ");
                s.extend((0..pad).map(|j| b'a' + (j % 26) as u8));
                s.extend_from_slice(b"\r\n");
                s.extend_from_slice(base.as_bytes());
            } else {
                let e: &Vec<u8> = rng.pick(resp);
                if e.len() < 120 && !short_only {
                    s.extend_from_slice(e);
                } else {
                    s.extend_from_slice(format!("* {} EXISTS\r\n", k + 1).as_bytes());
                }
            }
        }
        let unit = match vh_proto::srcdict::int_le(rng, 1 << 20, 4) {
            Some(c) if c > 0 => c as usize,
            _ => *rng.pick(&[1024usize, 4096, 16384, 65536, 1000, 8192]),
        };
        let mut sc = vec![];
        let mut left = s.len();
        while left > 0 {
            let c = std::cmp::min(unit, left);
            sc.push(RDir::Go(c));
            left -= c;
            if rng.chance(1, 10) {
                sc.push(RDir::Pending);
            }
            if rng.chance(1, 60) {
                // a long run of 'not ready'
                for _ in 0..*rng.pick(&[16usize, 17, 33, 70]) {
                    sc.push(RDir::Pending);
                }
            }
        }
        run_frames_case(ctx, &s, sc, rng.bool(), "long-run-aligned");
    }
    // (3) random schedules
    let n3 = vh_proto::srcdict::scaled(if thorough { 100_000 } else { 4_000 } / shards);
    for _ in 0..n3 {
        let (s, _) = make_stream(rng, resp);
        let sc = read_schedule(rng, s.len());
        run_frames_case(ctx, &s, sc, rng.bool(), "random");
    }
}

// ------------------------------------------------------------------------------------------------
// sessions (C05, C06, C11)

fn gen_command(rng: &mut Rng) -> Command {
    match rng.below(9) {
        0 => CommandBuilder::check(),
        1 => CommandBuilder::close(),
        2 => CommandBuilder::login("user", "p\"w\\d"),
        3 => CommandBuilder::select("INBOX").into(),
        4 => CommandBuilder::examine("a b").cond_store().into(),
        5 => CommandBuilder::fetch().num(1).attr(Attribute::Envelope).attr(Attribute::Uid).into(),
        6 => CommandBuilder::uid_fetch().range(1..=9).attr_macro(AttrMacro::Fast).changed_since(7).into(),
        7 => {
            // an argument beyond the 8 KiB write back-pressure boundary
            let n = match vh_proto::srcdict::int_le(rng, 600_000, 5) {
                Some(c) => c as usize,
                None => *rng.pick(&[100usize, 4096, 8000, 8180, 8192, 9000, 16384, 20000, 65536, 70000, 70000, 131_072, 140_000, 262_144, 300_000]),
            };
            let pat: String = (0..n).map(|i| (b'a' + (i % 26) as u8) as char).collect();
            CommandBuilder::list("", &pat)
        }
        _ => CommandBuilder::list("~/Mail/", "%"),
    }
}

fn expected_tag(k: u64) -> String {
    format!("A{:04}", k % 10_000)
}

struct CmdPlan {
    cmd: Command,
    abandon_after: Option<usize>,
}

fn lookalikes(rng: &mut Rng, tag: &str) -> Vec<u8> {
    let alt = match rng.below(7) {
        0 => tag.to_lowercase(),
        1 => tag[..tag.len() - 1].to_string(),
        2 => format!("{}0", tag),
        3 => expected_tag(rng.below(10000)),
        4 => format!("B{}", &tag[1..]),
        5 => format!("{}x", tag),
        _ => "*A".to_string(),
    };
    if alt == tag {
        return vec![];
    }
    format!("{} OK lookalike\r\n", alt).into_bytes()
}

fn run_session_case(ctx: &mut Ctx, rng: &mut Rng, resp: &[Vec<u8>], untagged: &[Vec<u8>], prop: &str) {
    // ---- generation
    let ncmd = rng.range(1, 6) as usize;
    let mut plans = vec![];
    let mut server = vec![];
    let first_issue = 1u64;
    // a server that answers a command only after it has received the whole command line (half of the
    // sessions in which no stream is abandoned): a client that waits with part of the command unsent
    // then waits forever
    let mut gates: Vec<(usize, usize)> = vec![];
    let mut need = 0usize;
    let mut any_abandon = false;
    let ending = rng.below(10); // 0: EOF before last completion, 1: garbage, 2: silent before completion
    for k in 0..ncmd {
        let cmd = gen_command(rng);
        let tag = expected_tag(first_issue + k as u64);
        let n_un = rng.usize(6);
        let mut part = vec![];
        for _ in 0..n_un {
            { let e: &Vec<u8> = rng.pick(untagged); part.extend_from_slice(e); }
        }
        if rng.chance(1, 3) {
            part.extend(lookalikes(rng, &tag));
        }
        if rng.chance(1, 8) {
            // a tagged completion for some other command, taken from the seed pool
            part.extend_from_slice(b"A9999 NO [TRYCREATE] other\r\n");
        }
        let last = k + 1 == ncmd;
        if last && ending == 0 {
            // connection ends before the completion
        } else if last && ending == 1 {
            part.extend_from_slice(b"* this is ( not a response\r\n");
        } else if last && ending == 2 {
        } else {
            let status = *rng.pick(&["OK", "NO", "BAD"]);
            let mut text = rng.pick(&["", " done", " [READ-WRITE] ok", " [UIDNEXT 7]", " [ALERT] x y"]).to_string();
            if rng.chance(1, 3) {
                // free-form text that resembles other syntax: a literal header at the end of the line or
                // inside it, brackets, quotes, a tag, a response start, digits, a long line
                text = match rng.below(16) {
                    0 => " CHECK completed, next checkpoint in {30}".to_string(),
                    1 => " {0}".to_string(),
                    2 => " x {3+}".to_string(),
                    3 => " {5} in the middle".to_string(),
                    4 => format!(" see {{{}}}", *rng.pick(&[1u32, 2, 7, 100, 4096, 65536, 4294967295])),
                    5 => " [ALERT] quota {12}".to_string(),
                    6 => " ends with backslash \\".to_string(),
                    7 => " \"unbalanced".to_string(),
                    8 => " (unbalanced".to_string(),
                    9 => " text ]".to_string(),
                    10 => format!(" {} OK nested", tag),
                    11 => " * OK fake".to_string(),
                    12 => " 12345".to_string(),
                    13 => format!(" {}", "long text ".repeat(*rng.pick(&[30usize, 120, 900]))),
                    14 => " trailing space ".to_string(),
                    _ => " + go ahead".to_string(),
                };
            }
            let mut line = format!("{} {}{}\r\n", tag, status, text).into_bytes();
            let fine = match imap_proto::Response::from_bytes(&line) {
                Ok((rest, imap_proto::Response::Done { tag: t, .. })) => rest.is_empty() && t.0 == tag,
                _ => false,
            };
            if !fine {
                line = format!("{} {} done\r\n", tag, status).into_bytes();
            }
            // buffer-aligned answers: one time in twenty the complete answer to this command ends exactly on a
            // multiple of a receive-buffer size (tokio-util starts with 8 KiB and doubles): a filler response in
            // front of the completion makes up the difference.  With a reactive server the peer is then silent
            // exactly when the receive buffer is full.
            let mut aligned = false;
            if rng.chance(1, 20) {
                let unit = *rng.pick(&[8192usize, 8192, 1024]);
                let so_far = server.len() + part.len() + line.len();
                let target = ((so_far + 8 + unit - 1) / unit) * unit;
                let f = target - so_far;
                if f >= 8 && f <= 9_000 && so_far < 9_000 {
                    let mut filler = b"* OK ".to_vec();
                    filler.extend(std::iter::repeat(b'x').take(f - 7));
                    filler.extend_from_slice(b"\r\n");
                    part.extend_from_slice(&filler);
                    aligned = true;
                }
            }
            part.extend_from_slice(&line);
            if !aligned && rng.chance(1, 5) {
                { let e: &Vec<u8> = rng.pick(untagged); part.extend_from_slice(e); } // unsolicited data after the completion
            }
        }
        need += tag.len() + 1 + cmd.args.len() + 2;
        gates.push((server.len(), need));
        server.extend(part);
        if last && (ending == 3 || ending == 4) {
            // the peer falls silent in the middle of a further line
            server.extend_from_slice(*rng.pick(&[&b"* 2 EXI"[..], &b"* 1 FETCH (BODY[] {5}\r\nab"[..], &b"*"[..], &b"* OK\r"[..]]));
        }
        let abandon_after = if rng.chance(1, 6) { Some(rng.usize(6)) } else { None };
        any_abandon |= abandon_after.is_some();
        plans.push(CmdPlan { cmd, abandon_after });
    }
    let _ = resp;
    let eof_at_end = ending == 0 || (ending != 3 && ending != 4 && rng.chance(1, 4));
    let mut io = MockIo::default();
    io.incoming = server.iter().copied().collect();
    io.rscript = read_schedule(rng, server.len()).into();
    let (w, f) = write_schedule(rng);
    io.wscript = w.into();
    io.fscript = f.into();
    io.eof_at_end = eof_at_end;
    if !any_abandon && rng.bool() {
        io.gates = gates;
        ctx.log.count("session:reactive-server");
    }

    exec_session(ctx, io, server, plans, prop);
}

/// run a prepared session (scripted transport, server output, command plans) on the implementation,
/// apply the oracles, queue the effective trace for the model
fn exec_session(ctx: &mut Ctx, io: MockIo, server: Vec<u8>, plans: Vec<CmdPlan>, prop: &str) {
    let ncmd = plans.len();
    let first_issue = 1u64;
    let mut client = Client::verif_new(io);
    let (_wk, waker) = counting_waker();
    let mut cx = Context::from_waker(&waker);

    let mut cmd_logs: Vec<String> = vec![];
    let mut cmd_ops: Vec<String> = vec![];
    // per command: items delivered (raw len, ser, tag), how it ended
    let mut delivered: Vec<Vec<(usize, String)>> = vec![];
    let mut ends: Vec<&'static str> = vec![];
    let mut lines: Vec<Vec<u8>> = vec![];
    let mut pending_without_cause = 0;
    let mut stalled_unsent: Option<(usize, usize)> = None;
    for (k, plan) in plans.into_iter().enumerate() {
        let tag = expected_tag(first_issue + k as u64);
        let mut line = tag.clone().into_bytes();
        line.push(b' ');
        line.extend_from_slice(&plan.cmd.args);
        line.extend_from_slice(b"\r\n");
        lines.push(line);
        let args_hex = hex(&plan.cmd.args);
        let mut polls: Vec<String> = vec![];
        let mut items = vec![];
        let mut end = "limit";
        let mut stuck_once = false;
        {
            let mut stream = client.verif_call(plan.cmd);
            let maxp = 400 + 4 * server.len();
            for p in 0..maxp {
                if let Some(a) = plan.abandon_after {
                    if p >= a {
                        end = "abandoned";
                        break;
                    }
                }
                let r = Pin::new(&mut stream).poll_next(&mut cx);
                // the stream borrows the client; reach the transport through a raw pointer-free path:
                // take_calls is done after the stream is dropped for this poll via a short reborrow
                polls.push(match &r {
                    Poll::Pending => "P".to_string(),
                    Poll::Ready(item) => show_item_ref(item),
                });
                let done = matches!(r, Poll::Ready(None));
                if let Poll::Ready(Some(Ok(rd))) = &r {
                    items.push((rd.verif_raw().len(), ser::response(rd.parsed())));
                }
                let errored = matches!(r, Poll::Ready(Some(Err(_))));
                let pending = matches!(r, Poll::Pending);
                drop(r);
                // calls of this poll
                let (calls, pend_seen, silent) = {
                    let io = stream_io(&mut stream);
                    let (c, p) = io.take_calls();
                    (c, p, io.rscript.is_empty() && io.read_side_silent() && io.wscript.is_empty() && io.fscript.is_empty() && io.unified.as_ref().map_or(true, |u| u.is_empty()))
                };
                let last = polls.pop().unwrap();
                polls.push(format!("{}:{}", calls, last));
                if pending && !pend_seen {
                    pending_without_cause += 1;
                }
                if done {
                    end = "done";
                    break;
                }
                if errored {
                    end = "error";
                    break;
                }
                // a Pending is final only when nothing is scripted any more and the previous poll was
                // already Pending in that situation (the first one may have consumed the last
                // scripted 'not ready' of a write or flush)
                if pending && silent {
                    if stuck_once {
                        end = "silent";
                        let unsent = stream.verif_unsent();
                        if unsent > 0 && stalled_unsent.is_none() {
                            stalled_unsent = Some((k, unsent));
                        }
                        break;
                    }
                    stuck_once = true;
                } else {
                    stuck_once = false;
                }
            }
        }
        cmd_logs.push(format!("{}={}", hex(tag.as_bytes()), polls.join("|")));
        cmd_ops.push(format!("{}:{}", if args_hex.is_empty() { "-".to_string() } else { args_hex }, polls.len()));
        delivered.push(items);
        ends.push(end);
    }
    let framed = client.verif_transport();
    let rbuf = framed.read_buffer().chunk().to_vec();
    let wbuf = framed.write_buffer().chunk().to_vec();
    let io = framed.get_ref();
    let op = format!(
        "session {} {} {}",
        join_or_dash(&io.revents),
        join_or_dash(&io.wevents),
        cmd_ops.join(",")
    );
    let imp = format!(
        "{} WIRE={} WBUF={} RBUF={}",
        cmd_logs.join(";"),
        hex(&io.written),
        hex(&wbuf),
        hex(&rbuf)
    );
    ctx.log.nontrivial(&op);
    ctx.log.count(&format!("session:commands{}", ncmd));
    for e in &ends {
        ctx.log.count(&format!("session:end:{}", e));
    }

    // ---------------- oracles on the implementation
    if let Some((k, unsent)) = stalled_unsent {
        // C05: never pending while the transport can progress; C06: flushed before it waits
        ctx.fail(
            "stalled-unsent",
            format!(
                "command {} stays Pending, poll after poll, with {} bytes of its line still unsent although the transport would take them (nothing scripted is left: every write and flush succeeds)",
                k + 1,
                unsent
            ),
            &op,
        );
    }
    // what the server's transport has handed over (all of it unless the server waits for a command)
    let received = io.drained;
    let (frames, _stop, _off) = one_shot(&server[..std::cmp::min(received, server.len())]);
    if prop == "C05" || prop == "C11" {
        // walk the server's responses: each stream gets them in wire order up to and including the
        // first tagged completion that carries exactly its own tag
        let mut q = 0usize;
        for k in 0..ncmd {
            let tag = expected_tag(first_issue + k as u64);
            let mut want: Vec<(usize, String)> = vec![];
            let mut completed = false;
            let got = &delivered[k];
            // the stream can only have consumed what it delivered; compare item by item
            for (i, g) in got.iter().enumerate() {
                if q + i >= frames.len() {
                    ctx.fail("extra-item", format!("command {} delivered more responses than the server sent", k + 1), &op);
                    break;
                }
                let f = &frames[q + i];
                want.push((f.0, f.1.clone()));
                if *g != (f.0, f.1.clone()) {
                    ctx.fail(
                        "wrong-item",
                        format!("command {} item {} is not the server's response number {} in wire order", k + 1, i + 1, q + i + 1),
                        &op,
                    );
                    break;
                }
                let own = f.2.as_deref() == Some(tag.as_str());
                if own {
                    completed = true;
                    if i + 1 != got.len() {
                        ctx.fail(
                            "ran-past-completion",
                            format!("command {} kept delivering after its own completion {}", k + 1, tag),
                            &op,
                        );
                    }
                } else if f.2.is_some() && i + 1 == got.len() && ends[k] == "done" {
                    ctx.fail(
                        "wrong-completion",
                        format!(
                            "command {} (tag {}) ended on a completion carrying the tag {:?}",
                            k + 1,
                            tag,
                            f.2
                        ),
                        &op,
                    );
                }
            }
            if ends[k] == "silent" && !completed && q + got.len() < frames.len() {
                ctx.fail(
                    "withheld",
                    format!(
                        "command {} (tag {}) is Pending with a silent peer although response number {} of the server's output has been received completely and not been delivered",
                        k + 1,
                        tag,
                        q + got.len() + 1
                    ),
                    &op,
                );
            }
            if ends[k] == "done" && !completed {
                ctx.fail(
                    "silent-end",
                    format!("the stream of command {} (tag {}) ended without having delivered its own completion", k + 1, tag),
                    &op,
                );
            }
            if completed && ends[k] != "done" && ends[k] != "abandoned" && ends[k] != "limit" {
                // delivered the completion, the next poll must be None
                ctx.fail("no-end", format!("command {} delivered its completion but the stream did not end ({})", k + 1, ends[k]), &op);
            }
            q += got.len();
        }
        if pending_without_cause > 0 {
            ctx.fail(
                "pending-without-cause",
                format!("{} polls returned Pending although no transport call of that poll was Pending", pending_without_cause),
                &op,
            );
        }
    }
    if prop == "C06" || prop == "C11" {
        // wire ++ write buffer = the command lines in issue order, each exactly once; a command that was
        // abandoned may be absent (never started), nothing else may be missing
        let mut all = io.written.clone();
        all.extend_from_slice(&wbuf);
        let mut off = 0;
        let mut ok = true;
        let mut boundaries = vec![0usize];
        for k in 0..ncmd {
            let l = &lines[k];
            if all[off..].starts_with(l) {
                off += l.len();
                boundaries.push(off);
            } else if ends[k] == "abandoned" || ends[k] == "silent" || ends[k] == "limit" || ends[k] == "error" {
                // may legitimately never have been handed to the transport
                continue;
            } else {
                ok = false;
                break;
            }
        }
        if !ok || off != all.len() {
            ctx.fail(
                "wire",
                format!(
                    "bytes on the wire + write buffer are not the command lines in issue order, each once: {}",
                    show_bytes(&all)
                ),
                &op,
            );
        }
        // every read happened with the whole command flushed
        for (written_len, flushed) in &io.read_marks {
            if !boundaries.contains(written_len) || !*flushed {
                ctx.fail(
                    "read-before-flush",
                    format!(
                        "a read was issued when {} bytes had been written (line boundaries {:?}, flushed = {})",
                        written_len, boundaries, flushed
                    ),
                    &op,
                );
                break;
            }
        }
    }
    ctx.queue(op, imp);
}

fn show_item_ref(item: &Option<Result<tokio_imap::ResponseData, std::io::Error>>) -> String {
    show_item(item)
}

/// the transport below a live response stream
fn stream_io<'a, 'b>(s: &'a mut tokio_imap::verif::ResponseStream<'b, MockIo>) -> &'a mut MockIo {
    s.verif_io()
}

fn run_tags(ctx: &mut Ctx, thorough: bool) {
    // 140 000 consecutive commands on one connection: fourteen periods of the generator, and past the
    // points where an 8-bit or a 16-bit counter would wrap (256, 65 536, 131 072)
    let io = MockIo::default();
    let mut client = Client::verif_new(io);
    let (_wk, waker) = counting_waker();
    let mut cx = Context::from_waker(&waker);
    let n = 140_000u64;
    for _ in 0..n {
        let mut stream = client.verif_call(CommandBuilder::check());
        let _ = Pin::new(&mut stream).poll_next(&mut cx);
    }
    let written = client.verif_transport().get_ref().written.clone();
    let lines: Vec<&[u8]> = written.split(|&c| c == b'\n').filter(|l| !l.is_empty()).collect();
    if lines.len() != n as usize {
        ctx.fail("tags", format!("{} command lines on the wire for {} commands", lines.len(), n), "tags");
    }
    let mut tags: Vec<Vec<u8>> = vec![];
    for l in &lines {
        let t: Vec<u8> = l.iter().copied().take_while(|&c| c != b' ').collect();
        tags.push(t);
    }
    let near = |i: usize, m: usize| -> bool { let r = (i + 1) % m; r <= 40 || m - r <= 40 };
    for (i, t) in tags.iter().enumerate() {
        let op = format!("tag {}", i + 1);
        // the model is asked about the first 30 000 tags, about every tag around a multiple of 256,
        // 10 000 or 65 536, and about every 97th one; the oracles below look at all of them
        if i < 30_000 || near(i, 10_000) || near(i, 65_536) || (near(i, 256) && i < 70_000) || i % 97 == 0 {
            ctx.queue(op.clone(), hex(t));
        }
        // valid tag: non-empty, ASTRING-CHARs except '+'
        let valid = !t.is_empty() && t.iter().all(|&c| c != b'+' && imap_proto::parser::core::is_astring_char(c));
        if !valid {
            ctx.fail("tags", format!("tag {:?} of command {} is not a valid IMAP tag", String::from_utf8_lossy(t), i + 1), &op);
        }
    }
    // pairwise distinct in every window of 10 000
    let mut last_seen: std::collections::HashMap<Vec<u8>, usize> = std::collections::HashMap::new();
    for (i, t) in tags.iter().enumerate() {
        if let Some(j) = last_seen.get(t) {
            if i - j < 10_000 {
                ctx.fail(
                    "tags",
                    format!("commands {} and {} (within 10 000 of each other) carry the same tag {:?}", j + 1, i + 1, String::from_utf8_lossy(t)),
                    &format!("tag {}", i + 1),
                );
                break;
            }
        }
        last_seen.insert(t.clone(), i);
    }
    ctx.log.exhaustive.push("140 000 consecutive tags of one connection (fourteen periods; past the wrap of an 8-bit and of a 16-bit counter)".to_string());
    ctx.log.count_n("c11:tags", n);
    if thorough {
        // the bare generator, 2^32 + 30 000 steps (past the wrap of a 32-bit counter): each tag against
        // the model's closed form A<4 digits of i mod 10 000> (the form the driver is asked about above),
        // which also gives distinctness in every window of 10 000
        let mut g = tokio_imap::verif::IdGenerator::new();
        let total: u64 = (1u64 << 32) + 30_000;
        let mut digits = [b'0'; 4];
        let mut bad = 0;
        for i in 1..=total {
            // increment the 4-digit counter
            let mut k = 3;
            loop {
                if digits[k] == b'9' {
                    digits[k] = b'0';
                    if k == 0 { break; }
                    k -= 1;
                } else {
                    digits[k] += 1;
                    break;
                }
            }
            let t = g.next().unwrap();
            let b = t.as_bytes();
            if !(b.len() == 5 && b[0] == b'A' && b[1..] == digits) {
                bad += 1;
                if bad <= 3 {
                    ctx.fail(
                        "tags",
                        format!("tag {:?} of command {} differs from A{} (model)", String::from_utf8_lossy(b), i, String::from_utf8_lossy(&digits)),
                        &format!("tag {}", i),
                    );
                }
                // resynchronise on what the generator said, so that one slip is one report
                if b.len() == 5 { digits.copy_from_slice(&b[1..]); }
            }
        }
        ctx.log.exhaustive.push("2^32 + 30 000 consecutive tags of the bare generator against the closed form (past the wrap of a 32-bit counter)".to_string());
        ctx.log.count_n("c11:tags-bare", total);
    }
}

/// C08 through the codec: a FETCH response whose literal holds protocol look-alikes, followed by
/// further responses, under chunkings that cut inside the literal after the look-alike
fn run_c08_codec(ctx: &mut Ctx, rng: &mut Rng, resp: &[Vec<u8>], thorough: bool, shards: usize) {
    const LOOKALIKES: &[&[u8]] = &[
        b"{5}\r\n",
        b"{100000}\r\n",
        b"{4294967295}\r\n",
        b"{0}\r\n",
        b")\r\nA0001 OK done\r\n",
        b"\r\n* BYE\r\n",
        b"\"",
        b"\\\"",
        b"((((",
        b"))))\r\n",
        b"{12",
        b"}\r\n",
        b"\r",
        b"\n",
        b"NIL",
        b" {7}\r\nabc",
    ];
    let n = vh_proto::srcdict::scaled(if thorough { 60_000 } else { 6_000 } / shards);
    for _ in 0..n {
        // content
        let mut content: Vec<u8> = vec![];
        let pre = rng.usize(40);
        for i in 0..pre {
            content.push(b'a' + (i % 26) as u8);
        }
        // a literal header announcing a constant of /repo's sources (thresholds of 'big literal' paths), or one
        // of the fixed look-alikes
        let dyn_la: Vec<u8> = match vh_proto::srcdict::int_le(rng, u32::MAX as u64, 4) {
            Some(c) => format!("{{{}}}\r\n", c).into_bytes(),
            None => format!("{{{}}}\r\n", *rng.pick(&[1u64, 63, 64, 255, 256, 1024, 4095, 4096, 8192, 16384, 65535, 65536, 1 << 20, 1 << 24, (1 << 31) - 1])).into_bytes(),
        };
        let la0: &[u8] = *rng.pick(LOOKALIKES);
        let la: &[u8] = if rng.chance(1, 3) { &dyn_la } else { la0 };
        let la_end = content.len() + la.len();
        content.extend_from_slice(la);
        let post = match rng.range(0, 3) {
            0 => 0,
            1 => rng.usize(20),
            2 => rng.usize(300),
            _ => rng.usize(9000),
        };
        for i in 0..post {
            content.push(b'k' + (i % 11) as u8);
        }
        if rng.chance(1, 4) {
            let la2: &&[u8] = rng.pick(LOOKALIKES);
            content.extend_from_slice(la2);
        }
        // position
        let head: &[u8] = match rng.range(0, 5) {
            0 => b"* 12 FETCH (RFC822 ",
            1 => b"* 12 FETCH (BODY[] ",
            2 => b"* 12 FETCH (RFC822.HEADER ",
            3 => b"* 12 FETCH (UID 5 BODY[1.2]<0> ",
            4 => b"* 12 FETCH (ENVELOPE (NIL ",
            _ => b"* 12 FETCH (RFC822.TEXT ",
        };
        let tail: &[u8] = if head.ends_with(b"(NIL ") { b" NIL NIL NIL NIL NIL NIL NIL NIL))\r\n" } else { b" FLAGS (\\Seen))\r\n" };
        let mut s: Vec<u8> = head.to_vec();
        s.extend_from_slice(format!("{{{}}}\r\n", content.len()).as_bytes());
        let lit_start = s.len();
        s.extend_from_slice(&content);
        s.extend_from_slice(tail);
        for _ in 0..rng.range(0, 3) {
            let e: &Vec<u8> = rng.pick(resp);
            if e.len() < 200 {
                s.extend_from_slice(e);
            }
        }
        if rng.bool() {
            s.extend_from_slice(b"A0007 OK FETCH completed\r\n");
        }
        // schedule: a cut inside the literal after the look-alike, plus random cuts
        let mut cuts: Vec<usize> = vec![];
        if rng.chance(3, 4) {
            let lo = lit_start + la_end;
            let hi = lit_start + content.len();
            cuts.push(if hi > lo { lo + rng.usize(hi - lo + 1) } else { lo });
        }
        for _ in 0..rng.usize(4) {
            cuts.push(rng.usize(s.len() + 1));
        }
        cuts.sort();
        cuts.dedup();
        let mut sc = vec![];
        let mut prev = 0;
        for c in cuts {
            if c > prev && c <= s.len() {
                sc.push(RDir::Go(c - prev));
                prev = c;
            }
            if rng.chance(1, 6) {
                sc.push(RDir::Pending);
            }
        }
        run_frames_case(ctx, &s, sc, rng.bool(), "lookalike-literal");
    }
}

fn rule_of(prop: &str) -> &'static str {
    match prop {
        "C08" => "through the codec: FETCH responses whose literal (RFC822, BODY[], RFC822.HEADER, BODY[1.2]<0>, envelope subject, RFC822.TEXT) holds protocol look-alikes ({n}CRLF with small / huge n, forged completions, quotes, parentheses, bare CR / LF), followed by further responses, under chunkings that cut inside the literal after the look-alike; frames compared with the one-shot parse and with the model's frames",
        "C04" => "byte streams of 1..12 generated responses (optionally truncated / followed by a malformed line) under: every response alone with a silent peer at every single cut (exhaustive), all two-cut chunkings of short streams (exhaustive), random chunkings down to single bytes with Pending injections; non-trivial = distinct (effective read trace, poll count)",
        "C05" | "C06" | "C11" => "sessions of 1..6 builder-produced commands (argument sizes across the 8 KiB boundary) against a scripted server (0..5 untagged responses, look-alike and foreign completions, matching completion, unsolicited data, EOF / garbage / silence), random read / write / flush schedules with partial transfers and Pending, streams abandoned at a random poll; non-trivial = distinct effective trace",
        _ => "",
    }
}

fn main() {
    std::panic::set_hook(Box::new(|_| {}));
    let args = Args::from_env();
    let prop = args.get_or("prop", "C04");
    let seed = args.num("seed", 1);
    let tier = args.get_or("tier", "quick");
    let thorough = tier == "thorough";
    let model = args.get_or("model", "/verif/lean/.lake/build/bin/imapmodel");
    let out = args.get_or("out", "/dev/stdout");
    let shards = args.num("shards", 8) as usize;
    let resp = valid_responses(seed, if thorough { 12 } else { 3 }, if thorough { 20000 } else { 600 });
    let untagged: Vec<Vec<u8>> = resp.iter().filter(|b| !is_tagged(b)).cloned().collect();

    if let Some(f) = args.get("replay") {
        // replay: a `frames` line carries the effective read trace, from which stream and schedule
        // are rebuilt and the case is re-run on implementation, oracle and model; `session` lines
        // (whose write-side schedule is not in the trace) are re-evaluated on the model and printed
        let mut ctx = Ctx::new(&model);
        let text = std::fs::read_to_string(f).expect("replay file");
        let mut model_only = 0;
        for line in text.lines() {
            if line.starts_with('#') || line.trim().is_empty() {
                continue;
            }
            let fields: Vec<&str> = line.split_whitespace().collect();
            if line.trim_end().ends_with("...") {
                println!("(a recorded case longer than the replay file keeps was cut; skipped)");
                continue;
            }
            if fields.len() >= 3 && fields[0] == "frames" {
                let mut stream: Vec<u8> = vec![];
                let mut script: Vec<RDir> = vec![];
                let mut eof = false;
                if fields[1] != "-" {
                    for ev in fields[1].split(',') {
                        if let Some(h) = ev.strip_prefix('d') {
                            let b = unhex(h);
                            script.push(RDir::Go(b.len()));
                            stream.extend_from_slice(&b);
                        } else if ev == "p" {
                            script.push(RDir::Pending);
                        } else if ev == "e" {
                            eof = true;
                            script.push(RDir::Go(usize::MAX));
                        }
                    }
                }
                println!("stream {}", show_bytes(&stream));
                run_frames_case(&mut ctx, &stream, script, eof, "replay");
            } else if fields.len() >= 4 && fields[0] == "session" {
                // session <read events> <write/flush events> <args:polls,...>
                let mut io = MockIo::default();
                let mut server: Vec<u8> = vec![];
                let mut script: Vec<RDir> = vec![];
                if fields[1] != "-" {
                    for ev in fields[1].split(',') {
                        if let Some(h) = ev.strip_prefix('d') {
                            let b = unhex(h);
                            script.push(RDir::Go(b.len()));
                            server.extend_from_slice(&b);
                        } else if ev == "p" {
                            script.push(RDir::Pending);
                        } else if ev == "e" {
                            io.eof_at_end = true;
                            script.push(RDir::Go(usize::MAX));
                        }
                    }
                }
                // 'not ready' results at the very end of the recorded reads came from a peer that had nothing more
                // to give (the server's output here is exactly what was delivered): they follow from the silence
                // itself and need no script entry - without them the run is recognised as stuck at the same poll
                // as when it was recorded
                while matches!(script.last(), Some(RDir::Pending)) {
                    script.pop();
                }
                io.incoming = server.iter().copied().collect();
                io.rscript = script.into();
                io.unified = Some(if fields[2] == "-" { Default::default() } else { fields[2].split(',').map(|x| x.to_string()).collect() });
                let mut plans = vec![];
                for c in fields[3].split(',') {
                    let mut it = c.split(':');
                    let a = it.next().unwrap_or("-");
                    let n: usize = it.next().and_then(|x| x.parse().ok()).unwrap_or(0);
                    let args = if a == "-" { vec![] } else { unhex(a) };
                    plans.push(CmdPlan { cmd: Command { args, next_state: None }, abandon_after: Some(n) });
                }
                println!("server {}", show_bytes(&server));
                exec_session(&mut ctx, io, server, plans, &prop);
            } else {
                let r = ctx.model.eval_batch(&[line.to_string()]);
                println!("op    {}", clip(line, 400));
                println!("model {}", clip(&r[0], 800));
                model_only += 1;
            }
        }
        ctx.flush();
        let mut bad = model_only;
        for d in &ctx.log.disagreements {
            println!("DISAGREE impl={} model={}", clip(&d.imp, 400), clip(&d.model, 400));
            bad += 1;
        }
        for f in &ctx.log.oracle_failures {
            println!("ORACLE-FAIL {}: {}", f.class, clip(&f.what, 400));
            bad += 1;
        }
        std::process::exit(if bad > 0 { 1 } else { 0 });
    }

    let total = Mutex::new(Log::default());
    std::thread::scope(|s| {
        for shard in 0..shards {
            let total = &total;
            let prop = prop.clone();
            let model = model.clone();
            let resp = &resp;
            let untagged = &untagged;
            s.spawn(move || {
                let mut ctx = Ctx::new(&model);
                let mut rng = Rng::new(seed.wrapping_mul(1000003).wrapping_add(shard as u64));
                match prop.as_str() {
                    "C04" => run_c04(&mut ctx, &mut rng, resp, thorough, shard, shards),
                    "C08" => run_c08_codec(&mut ctx, &mut rng, resp, thorough, shards),
                    "C05" | "C06" | "C11" => {
                        let n = vh_proto::srcdict::scaled(if thorough { 60_000 } else { 6_000 } / shards);
                        for _ in 0..n {
                            run_session_case(&mut ctx, &mut rng, resp, untagged, &prop);
                        }
                        if prop == "C11" && shard == 0 {
                            run_tags(&mut ctx, thorough);
                        }
                    }
                    _ => {}
                }
                // directed passes: one per constant of /repo's sources that the baseline does not have
                for (fo, _name) in vh_proto::srcdict::foci() {
                    vh_proto::srcdict::with_focus(fo, || match prop.as_str() {
                        "C04" => run_c04_random(&mut ctx, &mut rng, resp, thorough, shards),
                        "C08" => run_c08_codec(&mut ctx, &mut rng, resp, thorough, shards),
                        "C05" | "C06" | "C11" => {
                            let n = vh_proto::srcdict::scaled(if thorough { 60_000 } else { 6_000 } / shards);
                            for _ in 0..n {
                                run_session_case(&mut ctx, &mut rng, resp, untagged, &prop);
                            }
                        }
                        _ => {}
                    });
                    ctx.log.count("source-constant-pass");
                }
                ctx.flush();
                total.lock().unwrap().merge(ctx.log);
            });
        }
    });
    let mut log = total.into_inner().unwrap();
    log.count_n("server:valid-responses", resp.len() as u64);
    log.sample("frames d2a204f4b205b4d,d61696c5d20780d0a 3 -> 2:F15,(Data Ok _ (S x5b4d61696c5d2078))|1:P|0:P RBUF=".to_string());
    std::fs::write(&out, log.to_json(&prop, seed, &tier, rule_of(&prop))).expect("write out");
    println!(
        "prop={} evaluations={} compared={} distinct_nontrivial={} disagreements={} oracle_failures={}",
        prop, log.evaluations, log.compared, log.nontrivial.len(), log.n_disagreements, log.n_oracle_failures
    );
}
