//! One splitmix64 state for every random choice, so that a case replays exactly from its seed.

#[derive(Clone, Debug)]
pub struct Rng(pub u64);

impl Rng {
    pub fn new(seed: u64) -> Self {
        // a case regenerated from its seed must come out the same: the per-case size budgets start afresh
        crate::srcdict::reset_large();
        Rng(seed ^ 0x9E37_79B9_7F4A_7C15)
    }
    pub fn next_u64(&mut self) -> u64 {
        self.0 = self.0.wrapping_add(0x9E37_79B9_7F4A_7C15);
        let mut z = self.0;
        z = (z ^ (z >> 30)).wrapping_mul(0xBF58_476D_1CE4_E5B9);
        z = (z ^ (z >> 27)).wrapping_mul(0x94D0_49BB_1331_11EB);
        z ^ (z >> 31)
    }
    /// uniform in 0..n (n > 0)
    pub fn below(&mut self, n: u64) -> u64 {
        self.next_u64() % n
    }
    pub fn usize(&mut self, n: usize) -> usize {
        self.below(n as u64) as usize
    }
    /// inclusive range
    pub fn range(&mut self, lo: u64, hi: u64) -> u64 {
        lo + self.below(hi - lo + 1)
    }
    /// true with probability num/den
    pub fn chance(&mut self, num: u64, den: u64) -> bool {
        self.below(den) < num
    }
    pub fn bool(&mut self) -> bool {
        self.next_u64() & 1 == 1
    }
    /// a count (list length, repetition): usually uniform in lo..=hi, now and then a size beyond the
    /// usual range at which fixed-capacity buffers, 8/16-bit counters and 'small' fast paths change
    pub fn len(&mut self, lo: u64, hi: u64) -> usize {
        // a constant of /repo's sources as a count (srcdict.rs): capacities, thresholds, widths
        let cap = if crate::srcdict::focus() != crate::srcdict::Focus::None { 1100 } else { 300 };
        if let Some(c) = crate::srcdict::int_le(self, cap, 64) {
            // big counts do not nest: at most two lists beyond 32 elements per generated case
            if c >= lo && (c <= 32 || crate::srcdict::take_large()) {
                return c as usize;
            }
        }
        if self.chance(1, 40) {
            const B: &[u64] = &[7, 8, 9, 15, 16, 17, 31, 32, 33, 64, 65, 100, 128, 129, 255, 256, 257];
            let b = *self.pick(B);
            // the big ones less often
            if b > 40 && !self.chance(1, 4) {
                return (lo + self.below(hi - lo + 1)) as usize;
            }
            std::cmp::max(b, lo) as usize
        } else {
            (lo + self.below(hi - lo + 1)) as usize
        }
    }
    pub fn pick<'a, T>(&mut self, xs: &'a [T]) -> &'a T {
        &xs[self.usize(xs.len())]
    }
    /// derive an independent generator (for a sub-case) without disturbing this one's sequence much
    pub fn fork(&mut self) -> Rng {
        Rng(self.next_u64())
    }
}

pub fn hex(b: &[u8]) -> String {
    let mut s = String::with_capacity(b.len() * 2);
    for c in b {
        s.push(char::from_digit((c >> 4) as u32, 16).unwrap());
        s.push(char::from_digit((c & 15) as u32, 16).unwrap());
    }
    s
}

pub fn unhex(s: &str) -> Vec<u8> {
    let b = s.as_bytes();
    let mut out = Vec::with_capacity(b.len() / 2);
    let v = |c: u8| -> u8 {
        match c {
            b'0'..=b'9' => c - b'0',
            b'a'..=b'f' => c - b'a' + 10,
            b'A'..=b'F' => c - b'A' + 10,
            _ => 0,
        }
    };
    let mut i = 0;
    while i + 1 < b.len() {
        out.push(v(b[i]) * 16 + v(b[i + 1]));
        i += 2;
    }
    out
}
