pub mod gen;
pub mod parsecommon;
pub mod print;
pub mod prng;
pub mod run;
pub mod ser;
pub mod srcdict;
