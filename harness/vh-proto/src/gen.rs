//! Type-directed generator of `imap_proto::Response<'static>` values.
//!
//! Every value produced here is meant to be the parse result of SOME RFC-conformant wire encoding
//! (see `print.rs` for the encodings).  All randomness comes from `crate::prng::Rng`.

use std::borrow::Cow;
use std::collections::HashMap;

use imap_proto::types::*;

use crate::prng::Rng;

/// Keep generated values inside limits that RFCs impose beyond the grammar (RFC 2971 field / value
/// lengths).  On for the checks whose oracle presumes a conformant server (C03, C08, C12, C15, C16);
/// the robustness checks (C01, C02, C09), which quantify over all byte strings, switch it off.
pub static RFC_LIMITS: std::sync::atomic::AtomicBool = std::sync::atomic::AtomicBool::new(true);

thread_local! {
    /// When set, the generators draw from the whole value space of the types and not only from the values
    /// that have a wire form: empty strings where the grammar wants 1*CHAR, empty lists where it wants
    /// one element or more, a status text that starts like a response code.  For the checks that quantify
    /// over values (C15, C17) and never print them.
    pub static FREE_VALUES: std::cell::Cell<bool> = const { std::cell::Cell::new(false) };
}

pub fn free_values() -> bool {
    FREE_VALUES.with(|f| f.get())
}

/// run `f` with the value-space flag set (restored afterwards, also on unwind)
pub fn with_free_values<T>(f: impl FnOnce() -> T) -> T {
    struct Reset(bool);
    impl Drop for Reset {
        fn drop(&mut self) {
            FREE_VALUES.with(|f| f.set(self.0));
        }
    }
    let _r = Reset(free_values());
    FREE_VALUES.with(|f| f.set(true));
    f()
}

/// element count with lower bound `lo` as the wire form demands; 0 now and then in the free value space
fn glen(rng: &mut Rng, lo: u64, hi: u64) -> usize {
    if free_values() && lo > 0 && rng.chance(1, 6) {
        return 0;
    }
    rng.len(lo, hi)
}

/// string length 1..=max as the wire form demands; 0 now and then in the free value space
fn slen(rng: &mut Rng, max: usize) -> usize {
    if free_values() && rng.chance(1, 6) {
        return 0;
    }
    rng.range(1, max.max(1) as u64) as usize
}


pub struct GenCfg {
    /// max nesting depth of body structures (multipart/message) and of BodyExtension::List; 0 = leaves only
    pub max_depth: u32,
    /// byte/str typed string fields are often drawn from the protocol look-alike dictionary
    pub adversarial: bool,
    /// max length of ordinary random strings
    pub max_str: usize,
    /// max length of large byte strings
    pub max_lit: usize,
}

/// Names of the response kinds, stable order.  `gen_response_kind(.., i)` generates `KINDS[i]`.
pub const KINDS: &[&str] = &[
    "capabilities",
    "continue",
    "done",
    "data_code_none",
    "data_code_alert",
    "data_code_badcharset_none",
    "data_code_badcharset_list",
    "data_code_capabilities",
    "data_code_highestmodseq",
    "data_code_parse",
    "data_code_permanentflags",
    "data_code_readonly",
    "data_code_readwrite",
    "data_code_trycreate",
    "data_code_uidnext",
    "data_code_uidvalidity",
    "data_code_unseen",
    "data_code_appenduid",
    "data_code_copyuid",
    "data_code_uidnotsticky",
    "data_code_metadata_longentries",
    "data_code_metadata_maxsize",
    "data_code_metadata_toomany",
    "data_code_metadata_noprivate",
    "expunge",
    "vanished",
    "fetch_bodysection_none",
    "fetch_bodysection_full",
    "fetch_bodysection_part",
    "fetch_bodystructure",
    "fetch_envelope",
    "fetch_flags",
    "fetch_internaldate",
    "fetch_modseq",
    "fetch_rfc822",
    "fetch_rfc822header",
    "fetch_rfc822size",
    "fetch_rfc822text",
    "fetch_uid",
    "fetch_gmaillabels",
    "fetch_gmailmsgid",
    "fetch_mixed",
    "mailbox_exists",
    "mailbox_flags",
    "mailbox_list",
    "mailbox_search",
    "mailbox_sort",
    "mailbox_status",
    "mailbox_recent",
    "mailbox_metadata_solicited",
    "mailbox_metadata_unsolicited",
    "mailbox_gmaillabels",
    "mailbox_gmailmsgid",
    "quota",
    "quotaroot",
    "id_nil",
    "id_map",
    "acl",
    "listrights",
    "myrights",
];

/// Names of the response-code sub-kinds (index = argument of `gen_code`); the `data_code_*` kinds
/// above are in the same order.
pub const CODE_KINDS: &[&str] = &[
    "none",
    "alert",
    "badcharset_none",
    "badcharset_list",
    "capabilities",
    "highestmodseq",
    "parse",
    "permanentflags",
    "readonly",
    "readwrite",
    "trycreate",
    "uidnext",
    "uidvalidity",
    "unseen",
    "appenduid",
    "copyuid",
    "uidnotsticky",
    "metadata_longentries",
    "metadata_maxsize",
    "metadata_toomany",
    "metadata_noprivate",
];

/// Names of the fetch attribute sub-kinds (index = argument of `gen_attribute`).
pub const ATTR_KINDS: &[&str] = &[
    "bodysection_none",
    "bodysection_full",
    "bodysection_part",
    "bodystructure",
    "envelope",
    "flags",
    "internaldate",
    "modseq",
    "rfc822",
    "rfc822header",
    "rfc822size",
    "rfc822text",
    "uid",
    "gmaillabels",
    "gmailmsgid",
];

// ---------------------------------------------------------------------------------------------
// character classes (RFC 3501 section 9)

/// ATOM-CHAR per RFC 3501: any CHAR except atom-specials; CTL includes DEL.
pub fn is_atom_char(c: u8) -> bool {
    (0x21..=0x7e).contains(&c) && !matches!(c, b'(' | b')' | b'{' | b'%' | b'*' | b'"' | b'\\' | b']')
}

/// ASTRING-CHAR = ATOM-CHAR / resp-specials
pub fn is_astring_char(c: u8) -> bool {
    is_atom_char(c) || c == b']'
}

fn atom_chars() -> Vec<u8> {
    (0u8..=0x7f).filter(|c| is_atom_char(*c)).collect()
}

const ALNUM: &[u8] = b"abcdefghijklmnopqrstuvwxyzABCDEFGHIJKLMNOPQRSTUVWXYZ0123456789";
const ATOM_COMMON: &[u8] = b"abcdefghijklmnopqrstuvwxyzABCDEFGHIJKLMNOPQRSTUVWXYZ0123456789-_.=+$";
const NON_ASCII: &[&str] = &["é", "ü", "ß", "Ω", "€", "日", "本", "語", "𝄞", "😀", "\u{80}", "\u{7ff}", "\u{ffff}"];

fn eq_ci(a: &str, b: &str) -> bool {
    a.eq_ignore_ascii_case(b)
}

fn starts_with_ci(a: &str, prefix: &str) -> bool {
    a.len() >= prefix.len() && a.as_bytes()[..prefix.len()].eq_ignore_ascii_case(prefix.as_bytes())
}

// ---------------------------------------------------------------------------------------------
// numbers

pub fn gen_u32(rng: &mut Rng) -> u32 {
    const B: &[u32] = &[0, 1, 2, 9, 10, 0x7fff_ffff, 0x8000_0000, 0xffff_fffe, 0xffff_ffff];
    if let Some(c) = crate::srcdict::int_le(rng, u32::MAX as u64, 24) {
        return c as u32;
    }
    if rng.chance(1, 2) {
        *rng.pick(B)
    } else if rng.chance(1, 3) {
        // every power of two and of ten with its neighbours: where widths, digit counts and
        // fixed-size buffers change
        if rng.bool() {
            let k = rng.range(0, 31);
            ((1u64 << k) as i64 + rng.range(0, 2) as i64 - 1).clamp(0, u32::MAX as i64) as u32
        } else {
            let k = rng.range(0, 9) as u32;
            (10u64.pow(k) as i64 + rng.range(0, 2) as i64 - 1).clamp(0, u32::MAX as i64) as u32
        }
    } else {
        let bits = rng.range(1, 32);
        (rng.next_u64() & ((1u64 << bits) - 1)) as u32
    }
}

pub fn gen_u64(rng: &mut Rng) -> u64 {
    const B: &[u64] = &[0, 1, 1 << 32, 1 << 63, u64::MAX - 1, u64::MAX];
    if let Some(c) = crate::srcdict::int_le(rng, u64::MAX, 24) {
        return c;
    }
    if rng.chance(1, 2) {
        *rng.pick(B)
    } else if rng.chance(1, 3) {
        if rng.bool() {
            let k = rng.range(0, 63);
            (1u64 << k).wrapping_add(rng.range(0, 2)).wrapping_sub(1)
        } else {
            let k = rng.range(0, 19) as u32;
            10u64.pow(k).wrapping_add(rng.range(0, 2)).wrapping_sub(1)
        }
    } else {
        let bits = rng.range(1, 64);
        if bits == 64 {
            rng.next_u64()
        } else {
            rng.next_u64() & ((1u64 << bits) - 1)
        }
    }
}

// ---------------------------------------------------------------------------------------------
// strings

const DICT: &[&[u8]] = &[
    b")\r\nA0001 OK done\r\n",
    b"{5}\r\n",
    b"{5}\r\nabcde",
    b"\r\n",
    b"\r",
    b"\n",
    b"\"",
    b"\\",
    b"(",
    b")",
    b"((",
    b"\"unbalanced",
    b"* OK fake\r\n",
    b"+ go\r\n",
    b"]",
    b" ",
    b"NIL",
    b"nil",
];

/// contents that a text-processing step slipped into the parser would alter: trimming (ASCII and Unicode
/// white space, zero-width and BOM characters at either end), normalisation (decomposed / precomposed /
/// compatibility forms), case folding, entity / escape / encoded-word decoding, control characters
const TEXT_SPECIALS: &[&str] = &[
    "\u{feff}", "\u{feff}report.pdf", "x\u{feff}", "\u{feff}\u{feff}", " x", "x ", "  ", "\tx", "x\t", "\u{a0}x", "x\u{a0}",
    "\u{3000}", "\u{2028}", "a\u{2028}b", "\u{2029}", "\u{85}", "a\u{85}", "\u{200b}", "\u{200b}x", "x\u{200e}", "\u{ad}",
    "e\u{301}", "\u{e9}", "\u{212b}", "\u{c5}", "\u{fb01}", "\u{130}", "\u{df}", "SS", "\u{1c5}", "I", "\u{131}",
    "=?UTF-8?B?w6k=?=", "=?utf-8?q?=C3=A9?=", "&AOk-", "&-", "%41", "%00", "&amp;", "&#65;", "\\n", "\\r\\n", "\\\"",
    "\x7f", "\x1b[0m", "\x08", "\x0b", "\x0c", "\x01", "\u{1f600}", "\u{10ffff}", "\u{e000}", "\u{fffd}", "\u{ffff}",
];

/// byte strings that are not UTF-8: a lossy or validating conversion in a byte-valued position shows
const BYTE_SPECIALS: &[&[u8]] = &[
    b"\xc3", b"r\xc3\xa9sum\xc3", b"\xed\xa0\x80", b"\xf4\x90\x80\x80", b"\xc0\xaf", b"\xe0\x80\xaf", b"\xff\xfe", b"\xfe\xff",
    b"\xef\xbb", b"\xef\xbb\xbf\xff", b"\x80", b"\xbf", b"\xf8\x88\x80\x80\x80", b"a\xe2\x82", b"\xe2\x82\xac\xe2",
];

fn adv_piece(rng: &mut Rng, utf8: bool) -> Vec<u8> {
    if rng.chance(1, 4) {
        if !utf8 && rng.chance(1, 3) {
            return rng.pick(BYTE_SPECIALS).to_vec();
        }
        let sp = rng.pick(TEXT_SPECIALS).as_bytes().to_vec();
        return match rng.below(4) {
            0 => sp,
            1 => [sp, b"abc".to_vec()].concat(),
            2 => [b"abc".to_vec(), sp].concat(),
            _ => [sp.clone(), b"abc".to_vec(), rng.pick(TEXT_SPECIALS).as_bytes().to_vec()].concat(),
        };
    }
    if rng.chance(1, 5) {
        if utf8 {
            rng.pick(NON_ASCII).as_bytes().to_vec()
        } else {
            let n = rng.range(1, 4);
            (0..n).map(|_| rng.range(0x80, 0xff) as u8).collect()
        }
    } else {
        rng.pick(DICT).to_vec()
    }
}

/// A "protocol look-alike" string; valid UTF-8 if `utf8`; never contains NUL; length <= max_lit
/// (but at least one dictionary piece even if max_lit is tiny).
fn adversarial(rng: &mut Rng, cfg: &GenCfg, utf8: bool) -> Vec<u8> {
    match rng.below(4) {
        0 | 1 => adv_piece(rng, utf8),
        2 => {
            // long run of one unit
            let units: &[&[u8]] = if utf8 {
                &[b"a", b" ", b"(", b")", b"\"", b"\\", b"\r", b"\n", b"\r\n", "é".as_bytes(), "日".as_bytes()]
            } else {
                &[b"a", b" ", b"(", b")", b"\"", b"\\", b"\r", b"\n", b"\r\n", b"\xff", b"\x80"]
            };
            let unit = *rng.pick(units);
            let max = cfg.max_lit.max(1);
            let len = if rng.chance(1, 4) {
                rng.range(1, max as u64) as usize
            } else {
                rng.range(1, max.min(64) as u64) as usize
            };
            let reps = (len / unit.len()).max(1);
            let mut v = Vec::with_capacity(reps * unit.len());
            for _ in 0..reps {
                v.extend_from_slice(unit);
            }
            v
        }
        _ => {
            let n = rng.range(2, 5);
            let mut v = Vec::new();
            for _ in 0..n {
                let p = adv_piece(rng, utf8);
                if !v.is_empty() && v.len() + p.len() > cfg.max_lit {
                    break;
                }
                v.extend_from_slice(&p);
            }
            v
        }
    }
}

fn ordinary_len(rng: &mut Rng, cfg: &GenCfg) -> usize {
    // a constant of /repo's sources as a string length (srcdict.rs)
    let cap = if crate::srcdict::focus() != crate::srcdict::Focus::None { 70_000 } else { 5_000 };
    if let Some(c) = crate::srcdict::int_le(rng, cap, 48) {
        if crate::srcdict::take_bytes(c as usize) {
            return c as usize;
        }
    }
    if rng.chance(1, 50) {
        // lengths at which 8-bit / 16-bit lengths, stack buffers and 'short string' paths change
        const L: &[usize] = &[30, 31, 63, 64, 65, 127, 128, 255, 256, 257, 999, 1000, 1023, 1024, 1025, 4095, 4096, 4097];
        *rng.pick(L)
    } else if rng.chance(1, 8) {
        0
    } else if rng.chance(1, 40) && cfg.max_lit > cfg.max_str {
        rng.range(cfg.max_str as u64, cfg.max_lit as u64) as usize
    } else {
        slen(rng, cfg.max_str)
    }
}

/// Bytes for an `nstring` position: anything without NUL.
pub fn gen_bytes(rng: &mut Rng, cfg: &GenCfg) -> Vec<u8> {
    if let Some(v) = crate::srcdict::content(rng, 40, false) {
        return v;
    }
    if cfg.adversarial && rng.bool() {
        return adversarial(rng, cfg, false);
    }
    let len = ordinary_len(rng, cfg);
    let class = rng.below(4);
    (0..len)
        .map(|_| match class {
            0 => *rng.pick(ALNUM),
            1 => rng.range(0x20, 0x7e) as u8,
            2 => rng.range(0x01, 0x7f) as u8,
            _ => rng.range(0x01, 0xff) as u8,
        })
        .collect()
}

/// Valid UTF-8 without NUL for `string_utf8` / `nstring_utf8` / `astring_utf8` positions.
pub fn gen_utf8(rng: &mut Rng, cfg: &GenCfg) -> String {
    if let Some(v) = crate::srcdict::content(rng, 40, true) {
        if let Ok(s) = String::from_utf8(v) {
            return s;
        }
    }
    if cfg.adversarial && rng.bool() {
        return String::from_utf8(adversarial(rng, cfg, true)).expect("adversarial utf8");
    }
    let len = ordinary_len(rng, cfg);
    let class = rng.below(4);
    let mut s = String::new();
    for _ in 0..len {
        match class {
            0 => s.push(*rng.pick(ALNUM) as char),
            1 => s.push(rng.range(0x20, 0x7e) as u8 as char),
            2 => s.push(rng.range(0x01, 0x7f) as u8 as char),
            _ => {
                if rng.chance(1, 3) {
                    s.push_str(*rng.pick(NON_ASCII));
                } else {
                    s.push(rng.range(0x20, 0x7e) as u8 as char);
                }
            }
        }
    }
    s
}

fn cow_bytes(v: Vec<u8>) -> Cow<'static, [u8]> {
    Cow::Owned(v)
}

fn cow_str(s: String) -> Cow<'static, str> {
    Cow::Owned(s)
}

fn opt_bytes(rng: &mut Rng, cfg: &GenCfg) -> Option<Cow<'static, [u8]>> {
    if rng.chance(1, 4) {
        None
    } else {
        Some(cow_bytes(gen_bytes(rng, cfg)))
    }
}

fn opt_utf8(rng: &mut Rng, cfg: &GenCfg) -> Option<Cow<'static, str>> {
    if rng.chance(1, 3) {
        None
    } else {
        Some(cow_str(gen_utf8(rng, cfg)))
    }
}

/// Non-empty atom (ATOM-CHARs only).
pub fn gen_atom(rng: &mut Rng, cfg: &GenCfg) -> String {
    if let Some(v) = crate::srcdict::content(rng, 40, true) {
        let a: String = v.into_iter().filter(|c| is_atom_char(*c)).map(|c| c as char).collect();
        if !a.is_empty() {
            return a;
        }
    }
    let len = slen(rng, cfg.max_str);
    let all = atom_chars();
    let common = rng.chance(3, 4);
    (0..len)
        .map(|_| if common { *rng.pick(ATOM_COMMON) as char } else { *rng.pick(&all) as char })
        .collect()
}

/// Non-empty ASCII string that can be sent as a quoted string without escapes and that may need
/// quoting (spaces, parens, ...).
fn gen_quotable(rng: &mut Rng, cfg: &GenCfg, allow_empty: bool) -> String {
    let lo = if allow_empty { 0 } else { 1 };
    let len = rng.range(lo, cfg.max_str.max(1) as u64) as usize;
    let printable = rng.chance(4, 5);
    let mut s = String::new();
    while s.len() < len {
        let c = if printable { rng.range(0x20, 0x7e) as u8 } else { rng.range(0x01, 0x7f) as u8 };
        if c == b'"' || c == b'\\' || c == b'\r' || c == b'\n' {
            continue;
        }
        s.push(c as char);
    }
    s
}

/// `information` text of Continue/Done/Data.
fn gen_information(rng: &mut Rng, cfg: &GenCfg, for_continue: bool) -> Option<Cow<'static, str>> {
    if rng.chance(1, 3) {
        return None;
    }
    const COMMON: &[&str] = &[
        "completed",
        "LOGIN completed",
        "FETCH completed (0.001 + 0.000 secs).",
        "Ready for literal data",
        "x",
        "NIL",
        "{5}",
        "(unbalanced",
        "\"quoted\"",
        "trailing space ",
        "* OK fake",
        "]",
        "text [ALERT] inside",
        " leading space",
        "  two leading spaces",
        " ",
        "  ",
        " [ALERT] after a space",
        "\ttab first",
        "ends with bracket]",
    ];
    let mut s: String = if rng.bool() {
        rng.pick(COMMON).to_string()
    } else {
        let len = slen(rng, cfg.max_str * 2);
        let printable = rng.chance(3, 4);
        let mut s = String::new();
        while s.len() < len {
            let c = if printable { rng.range(0x20, 0x7e) as u8 } else { rng.range(0x01, 0x7f) as u8 };
            if c == b'\r' || c == b'\n' {
                continue;
            }
            s.push(c as char);
        }
        s
    };
    // must not look like the start of a response code; for Continue the optional space after "+"
    // would swallow a leading space
    if !free_values() {
        while s.starts_with('[') || (for_continue && s.starts_with(' ')) {
            s.remove(0);
        }
        if s.is_empty() {
            s.push('x');
        }
    }
    Some(cow_str(s))
}

fn gen_tag(rng: &mut Rng, cfg: &GenCfg) -> RequestId {
    const COMMON: &[&str] = &["A0001", "a1", "1", "OK", "tag]", "A.1", "NIL", "x-y_z"];
    if rng.bool() {
        return RequestId(rng.pick(COMMON).to_string());
    }
    let chars: Vec<u8> = (0u8..=0x7f).filter(|c| is_astring_char(*c) && *c != b'+').collect();
    let len = slen(rng, cfg.max_str);
    RequestId((0..len).map(|_| *rng.pick(&chars) as char).collect())
}

fn gen_status(rng: &mut Rng) -> Status {
    match rng.below(5) {
        0 => Status::Ok,
        1 => Status::No,
        2 => Status::Bad,
        3 => Status::PreAuth,
        _ => Status::Bye,
    }
}

/// Mailbox name: any UTF-8 without NUL; INBOX is normalised.
pub fn gen_mailbox(rng: &mut Rng, cfg: &GenCfg) -> Cow<'static, str> {
    const COMMON: &[&str] = &[
        "INBOX",
        "INBOX",
        "Sent",
        "INBOX/Sub",
        "INBOX.Sub",
        "INBOXX",
        "Lost & Found",
        "[Gmail]/All Mail",
        "Entw&APw-rfe",
        "~peter/mail/&U,BTFw-/&ZeVnLIqe-",
        "",
        "NIL",
        "inbo",
    ];
    let s = if rng.chance(1, 6) {
        return gen_inbox_relative(rng, cfg, None);
    } else if rng.chance(2, 5) {
        rng.pick(COMMON).to_string()
    } else {
        gen_utf8(rng, cfg)
    };
    if eq_ci(&s, "INBOX") {
        Cow::Borrowed("INBOX")
    } else {
        cow_str(s)
    }
}

/// names derived from the one special mailbox name: INBOX in any letter case followed by a hierarchy
/// separator (the response's own delimiter if there is one) and a child name, or preceded by a parent,
/// or extended without a separator.  Only `INBOX` itself is case-insensitive; all of these are ordinary
/// names that must come back byte for byte.
pub fn gen_inbox_relative(rng: &mut Rng, cfg: &GenCfg, delim: Option<&str>) -> Cow<'static, str> {
    let inbox: String = "inbox".chars().map(|c| if rng.bool() { c.to_ascii_uppercase() } else { c }).collect();
    let seps = ["/", ".", "", " ", "\\", "|", "//"];
    let sep: String = match delim {
        Some(d) if rng.chance(3, 4) => d.to_string(),
        _ => rng.pick(&seps).to_string(),
    };
    const CHILDREN: &[&str] = &["Sent", "Drafts", "sub", "x", "", "INBOX", "inbox", "Sent Items", "a.b", "ü"];
    let child = if rng.chance(3, 4) { rng.pick(CHILDREN).to_string() } else { gen_utf8(rng, cfg) };
    let s = match rng.below(6) {
        0 => format!("{}{}{}", child, sep, inbox),
        1 => format!("{}{}{}{}{}", inbox, sep, child, sep, inbox),
        _ => format!("{}{}{}", inbox, sep, child),
    };
    if eq_ci(&s, "INBOX") {
        Cow::Borrowed("INBOX")
    } else {
        cow_str(s)
    }
}

// ---------------------------------------------------------------------------------------------
// capabilities, flags

fn gen_capability(rng: &mut Rng, cfg: &GenCfg) -> Capability<'static> {
    const ATOMS: &[&str] = &[
        "STARTTLS", "IDLE", "LITERAL+", "UIDPLUS", "XPIG-LATIN", "LOGINDISABLED", "ENABLE", "CONDSTORE", "QRESYNC",
        "SASL-IR", "ID", "NAMESPACE", "IMAP4", "IMAP4rev", "IMAP4rev2", "AUTH", "AUT", "X-GM-EXT-1", "QUOTA",
        "METADATA", "ACL", "NIL", "OK",
    ];
    const PREFIXED: &[&str] = &["IMAP4rev1X", "imap4rev12", "IMAP4REV1-FOO", "IMAP4rev1=x"];
    const AUTHS: &[&str] = &["PLAIN", "GSSAPI", "LOGIN", "XOAUTH2", "CRAM-MD5", "plain"];
    match rng.below(12) {
        0..=2 => Capability::Imap4rev1,
        3..=5 => {
            let a = if rng.chance(2, 3) { rng.pick(AUTHS).to_string() } else { gen_atom(rng, cfg) };
            Capability::Auth(cow_str(a))
        }
        6 => Capability::Atom(Cow::Borrowed(*rng.pick(PREFIXED))),
        _ => {
            let mut a = if rng.chance(2, 3) { rng.pick(ATOMS).to_string() } else { gen_atom(rng, cfg) };
            if eq_ci(&a, "IMAP4rev1") || starts_with_ci(&a, "AUTH=") {
                a.insert(0, 'X');
            }
            Capability::Atom(cow_str(a))
        }
    }
}

fn gen_capabilities(rng: &mut Rng, cfg: &GenCfg) -> Vec<Capability<'static>> {
    let n = glen(rng, 1, 6);
    let mut v: Vec<Capability<'static>> = (0..n).map(|_| gen_capability(rng, cfg)).collect();
    if !v.contains(&Capability::Imap4rev1) {
        let at = rng.usize(v.len() + 1);
        v.insert(at, Capability::Imap4rev1);
    }
    v
}

/// One flag as the parser's `flag` returns it: `\` + atom, or an atom (which may contain `]`).
fn gen_flag(rng: &mut Rng, cfg: &GenCfg) -> String {
    const SYS: &[&str] =
        &["\\Answered", "\\Flagged", "\\Deleted", "\\Seen", "\\Draft", "\\Recent", "\\seen", "\\SEEN", "\\Inbox", "\\Important"];
    const KW: &[&str] =
        &["$Forwarded", "$MDNSent", "NonJunk", "OIB-Seen-[Gmail]/All", "Junk", "NIL", "a]b", "]", "$label1", "Important"];
    match rng.below(4) {
        0 => rng.pick(SYS).to_string(),
        1 => rng.pick(KW).to_string(),
        2 => format!("\\{}", gen_atom(rng, cfg)),
        _ => {
            let mut a = gen_atom(rng, cfg);
            if rng.chance(1, 6) {
                let at = rng.usize(a.len() + 1);
                a.insert(at, ']');
            }
            a
        }
    }
}

/// FLAGS / PERMANENTFLAGS list; may contain the special element `\*`.
fn gen_flag_list(rng: &mut Rng, cfg: &GenCfg) -> Vec<Cow<'static, str>> {
    let n = rng.len(0, 6);
    (0..n)
        .map(|_| if rng.chance(1, 8) { Cow::Borrowed("\\*") } else { cow_str(gen_flag(rng, cfg)) })
        .collect()
}

/// X-GM-LABELS list: each label is flag-shaped or a string that can be sent quoted.
fn gen_gmail_labels(rng: &mut Rng, cfg: &GenCfg) -> Vec<Cow<'static, str>> {
    const QUOTED: &[&str] = &["Muy Importante", "", " ", "(", ")", "((", "NIL", "nil", "]", "{5}", "a b", "* OK fake"];
    let n = rng.len(0, 6);
    (0..n)
        .map(|_| match rng.below(4) {
            0 | 1 => cow_str(gen_flag(rng, cfg)),
            2 => Cow::Borrowed(*rng.pick(QUOTED)),
            _ => cow_str(gen_quotable(rng, cfg, true)),
        })
        .collect()
}

// ---------------------------------------------------------------------------------------------
// response codes

fn gen_uid_set(rng: &mut Rng) -> Vec<UidSetMember> {
    let n = glen(rng, 1, 5);
    (0..n)
        .map(|_| {
            if rng.bool() {
                UidSetMember::Uid(gen_u32(rng))
            } else {
                let a = gen_u32(rng);
                let b = gen_u32(rng);
                // the parser normalises ranges to low..=high
                UidSetMember::UidRange(a.min(b)..=a.max(b))
            }
        })
        .collect()
}

/// `idx` indexes `CODE_KINDS`.
pub fn gen_code(rng: &mut Rng, cfg: &GenCfg, idx: usize) -> Option<ResponseCode<'static>> {
    Some(match CODE_KINDS[idx] {
        "none" => return None,
        "alert" => ResponseCode::Alert,
        "badcharset_none" => ResponseCode::BadCharset(None),
        "badcharset_list" => {
            const CS: &[&str] = &["UTF-8", "US-ASCII", "ISO-8859-1", "utf-8", "NIL", "x]"];
            let n = glen(rng, 1, 4);
            ResponseCode::BadCharset(Some(
                (0..n)
                    .map(|_| if rng.bool() { Cow::Borrowed(*rng.pick(CS)) } else { cow_str(gen_utf8(rng, cfg)) })
                    .collect(),
            ))
        }
        "capabilities" => ResponseCode::Capabilities(gen_capabilities(rng, cfg)),
        "highestmodseq" => ResponseCode::HighestModSeq(gen_u64(rng)),
        "parse" => ResponseCode::Parse,
        "permanentflags" => ResponseCode::PermanentFlags(gen_flag_list(rng, cfg)),
        "readonly" => ResponseCode::ReadOnly,
        "readwrite" => ResponseCode::ReadWrite,
        "trycreate" => ResponseCode::TryCreate,
        "uidnext" => ResponseCode::UidNext(gen_u32(rng)),
        "uidvalidity" => ResponseCode::UidValidity(gen_u32(rng)),
        "unseen" => ResponseCode::Unseen(gen_u32(rng)),
        "appenduid" => ResponseCode::AppendUid(gen_u32(rng), gen_uid_set(rng)),
        "copyuid" => ResponseCode::CopyUid(gen_u32(rng), gen_uid_set(rng), gen_uid_set(rng)),
        "uidnotsticky" => ResponseCode::UidNotSticky,
        "metadata_longentries" => ResponseCode::MetadataLongEntries(gen_u64(rng)),
        "metadata_maxsize" => ResponseCode::MetadataMaxSize(gen_u64(rng)),
        "metadata_toomany" => ResponseCode::MetadataTooMany,
        "metadata_noprivate" => ResponseCode::MetadataNoPrivate,
        other => panic!("unknown code kind {other}"),
    })
}

// ---------------------------------------------------------------------------------------------
// envelope, body structure

fn gen_address(rng: &mut Rng, cfg: &GenCfg) -> Address<'static> {
    if rng.chance(1, 3) {
        const NAMES: &[&[u8]] = &[b"Terry Gray", b"John Klensin", b"=?utf-8?Q?J=C3=BCrgen?=", b"Joh\xff Klensin"];
        const BOXES: &[&[u8]] = &[b"gray", b"imap", b"minutes", b"KLENSIN"];
        const HOSTS: &[&[u8]] = &[b"cac.washington.edu", b"CNRI.Reston.VA.US", b"MIT.EDU", b"example@example.com"];
        return Address {
            name: if rng.bool() { Some(Cow::Borrowed(*rng.pick(NAMES))) } else { None },
            adl: None,
            mailbox: Some(Cow::Borrowed(*rng.pick(BOXES))),
            host: Some(Cow::Borrowed(*rng.pick(HOSTS))),
        };
    }
    Address {
        name: opt_bytes(rng, cfg),
        adl: opt_bytes(rng, cfg),
        mailbox: opt_bytes(rng, cfg),
        host: opt_bytes(rng, cfg),
    }
}

fn gen_addresses(rng: &mut Rng, cfg: &GenCfg) -> Option<Vec<Address<'static>>> {
    if rng.chance(1, 3) {
        None
    } else {
        let n = glen(rng, 1, 3);
        Some((0..n).map(|_| gen_address(rng, cfg)).collect())
    }
}

pub fn gen_envelope(rng: &mut Rng, cfg: &GenCfg) -> Envelope<'static> {
    Envelope {
        date: if rng.chance(1, 3) {
            Some(Cow::Borrowed(&b"Wed, 17 Jul 1996 02:23:25 -0700 (PDT)"[..]))
        } else {
            opt_bytes(rng, cfg)
        },
        subject: opt_bytes(rng, cfg),
        from: gen_addresses(rng, cfg),
        sender: gen_addresses(rng, cfg),
        reply_to: gen_addresses(rng, cfg),
        to: gen_addresses(rng, cfg),
        cc: gen_addresses(rng, cfg),
        bcc: gen_addresses(rng, cfg),
        in_reply_to: opt_bytes(rng, cfg),
        message_id: if rng.chance(1, 3) {
            Some(Cow::Borrowed(&b"<B27397-0100000@cac.washington.edu>"[..]))
        } else {
            opt_bytes(rng, cfg)
        },
    }
}

fn gen_body_params(rng: &mut Rng, cfg: &GenCfg) -> BodyParams<'static> {
    if rng.chance(2, 5) {
        return None;
    }
    const KEYS: &[&str] = &["CHARSET", "charset", "NAME", "BOUNDARY", "FORMAT"];
    const VALS: &[&str] = &["US-ASCII", "utf-8", "flowed", "----=_Part_1", "file name.txt"];
    let n = glen(rng, 1, 3);
    Some(
        (0..n)
            .map(|_| {
                if rng.bool() {
                    (Cow::Borrowed(*rng.pick(KEYS)), Cow::Borrowed(*rng.pick(VALS)))
                } else {
                    (cow_str(gen_utf8(rng, cfg)), cow_str(gen_utf8(rng, cfg)))
                }
            })
            .collect(),
    )
}

fn gen_disposition(rng: &mut Rng, cfg: &GenCfg) -> ContentDisposition<'static> {
    const TYS: &[&str] = &["inline", "attachment", "INLINE", "NIL"];
    ContentDisposition {
        ty: if rng.bool() { Cow::Borrowed(*rng.pick(TYS)) } else { cow_str(gen_utf8(rng, cfg)) },
        params: gen_body_params(rng, cfg),
    }
}

fn gen_language(rng: &mut Rng, cfg: &GenCfg) -> Vec<Cow<'static, str>> {
    const LANGS: &[&str] = &["en", "de", "en-US", "NIL", "i-klingon"];
    let n = if rng.bool() { 1 } else { rng.range(1, 3) as usize };
    (0..n)
        .map(|_| if rng.bool() { Cow::Borrowed(*rng.pick(LANGS)) } else { cow_str(gen_utf8(rng, cfg)) })
        .collect()
}

fn gen_body_extension(rng: &mut Rng, cfg: &GenCfg, depth: u32) -> BodyExtension<'static> {
    let top = if depth < cfg.max_depth { 4 } else { 3 };
    match rng.below(top) {
        0 => BodyExtension::Num(gen_u32(rng)),
        1 => BodyExtension::Str(None),
        2 => BodyExtension::Str(Some(cow_str(gen_utf8(rng, cfg)))),
        _ => {
            let n = glen(rng, 1, 4);
            BodyExtension::List((0..n).map(|_| gen_body_extension(rng, cfg, depth + 1)).collect())
        }
    }
}

fn gen_encoding(rng: &mut Rng, cfg: &GenCfg) -> ContentEncoding<'static> {
    const KNOWN: &[&str] = &["7BIT", "8BIT", "BINARY", "BASE64", "QUOTED-PRINTABLE"];
    const OTHER: &[&str] = &["X-UUENCODE", "7BITX", "8BI", "BASE64 ", "base-64", "", "NIL"];
    match rng.below(7) {
        0 => ContentEncoding::SevenBit,
        1 => ContentEncoding::EightBit,
        2 => ContentEncoding::Binary,
        3 => ContentEncoding::Base64,
        4 => ContentEncoding::QuotedPrintable,
        5 => ContentEncoding::Other(Cow::Borrowed(*rng.pick(OTHER))),
        _ => {
            let mut s = gen_utf8(rng, cfg);
            if KNOWN.iter().any(|k| eq_ci(k, &s)) {
                s.insert_str(0, "X-");
            }
            ContentEncoding::Other(cow_str(s))
        }
    }
}

/// The positional, optional-from-the-right extension slots shared by single parts and multiparts:
/// (slot0 present?, disposition, language, location, extension).  Slot 0 is md5 for single parts
/// and the parameter list for multiparts; the caller fills it when the flag is true.
struct ExtSlots {
    slot0: bool,
    disposition: Option<ContentDisposition<'static>>,
    language: Option<Vec<Cow<'static, str>>>,
    location: Option<Cow<'static, str>>,
    extension: Option<BodyExtension<'static>>,
}

fn gen_ext_slots(rng: &mut Rng, cfg: &GenCfg, depth: u32) -> ExtSlots {
    // `level` = number of leading slots that may be non-None; biases towards the short wire forms
    let level = rng.below(6);
    ExtSlots {
        slot0: level > 0 && rng.chance(2, 3),
        disposition: if level > 1 && rng.chance(2, 3) { Some(gen_disposition(rng, cfg)) } else { None },
        language: if level > 2 && rng.chance(2, 3) { Some(gen_language(rng, cfg)) } else { None },
        location: if level > 3 && rng.chance(2, 3) { Some(cow_str(gen_utf8(rng, cfg))) } else { None },
        extension: if level > 4 && rng.chance(4, 5) { Some(gen_body_extension(rng, cfg, depth)) } else { None },
    }
}

fn gen_single_part(rng: &mut Rng, cfg: &GenCfg, md5: bool) -> BodyContentSinglePart<'static> {
    BodyContentSinglePart {
        id: opt_utf8(rng, cfg),
        md5: if md5 {
            Some(if rng.bool() { Cow::Borrowed("1B2M2Y8AsgTpgAmY7PhCfg==") } else { cow_str(gen_utf8(rng, cfg)) })
        } else {
            None
        },
        description: opt_utf8(rng, cfg),
        transfer_encoding: gen_encoding(rng, cfg),
        octets: gen_u32(rng),
    }
}

/// a dictionary word in another letter case (one time in three): values that equal a keyword of the
/// sources only up to case (`message`, `Rfc822`, `multipart`) are data and must come back as sent
fn vary_case(rng: &mut Rng, s: &str) -> String {
    if !rng.chance(1, 3) {
        return s.to_string();
    }
    match rng.below(3) {
        0 => s.to_ascii_lowercase(),
        1 => {
            let mut c = s.to_ascii_lowercase();
            if let Some(f) = c.get_mut(0..1) {
                f.make_ascii_uppercase();
            }
            c
        }
        _ => s.chars().map(|ch| if rng.bool() { ch.to_ascii_lowercase() } else { ch.to_ascii_uppercase() }).collect(),
    }
}

fn gen_subtype(rng: &mut Rng, cfg: &GenCfg) -> Cow<'static, str> {
    const SUB: &[&str] = &["PLAIN", "HTML", "plain", "OCTET-STREAM", "MIXED", "ALTERNATIVE", "RFC822", "JPEG", "NIL", ""];
    if rng.chance(2, 3) {
        let w = *rng.pick(SUB);
        cow_str(vary_case(rng, w))
    } else {
        cow_str(gen_utf8(rng, cfg))
    }
}

/// `depth` is the depth of this node; nodes at `depth >= cfg.max_depth` are leaves (Basic/Text).
pub fn gen_body_structure(rng: &mut Rng, cfg: &GenCfg, depth: u32) -> BodyStructure<'static> {
    let variant = if depth >= cfg.max_depth { rng.below(2) } else { rng.below(4) };
    let ext = gen_ext_slots(rng, cfg, depth);
    match variant {
        0 => {
            const TYS: &[&str] =
                &["APPLICATION", "IMAGE", "AUDIO", "VIDEO", "MESSAGE", "application", "X-foo", "TEXTX", "TEX", "MULTIPART", "NIL", ""];
            let mut ty = if rng.chance(2, 3) {
                let w = *rng.pick(TYS);
                vary_case(rng, w)
            } else {
                gen_utf8(rng, cfg)
            };
            if eq_ci(&ty, "TEXT") {
                ty.insert_str(0, "X-");
            }
            let mut subtype = gen_subtype(rng, cfg);
            if eq_ci(&ty, "MESSAGE") && eq_ci(&subtype, "RFC822") {
                subtype = Cow::Borrowed("DELIVERY-STATUS");
            }
            BodyStructure::Basic {
                common: BodyContentCommon {
                    ty: ContentType { ty: cow_str(ty), subtype, params: gen_body_params(rng, cfg) },
                    disposition: ext.disposition,
                    language: ext.language,
                    location: ext.location,
                },
                other: gen_single_part(rng, cfg, ext.slot0),
                extension: ext.extension,
            }
        }
        1 => BodyStructure::Text {
            common: BodyContentCommon {
                ty: ContentType { ty: Cow::Borrowed("TEXT"), subtype: gen_subtype(rng, cfg), params: gen_body_params(rng, cfg) },
                disposition: ext.disposition,
                language: ext.language,
                location: ext.location,
            },
            other: gen_single_part(rng, cfg, ext.slot0),
            lines: gen_u32(rng),
            extension: ext.extension,
        },
        2 => BodyStructure::Message {
            common: BodyContentCommon {
                ty: ContentType {
                    ty: Cow::Borrowed("MESSAGE"),
                    subtype: Cow::Borrowed("RFC822"),
                    params: gen_body_params(rng, cfg),
                },
                disposition: ext.disposition,
                language: ext.language,
                location: ext.location,
            },
            other: gen_single_part(rng, cfg, ext.slot0),
            envelope: gen_envelope(rng, cfg),
            body: Box::new(gen_body_structure(rng, cfg, depth + 1)),
            lines: gen_u32(rng),
            extension: ext.extension,
        },
        _ => {
            // 1..6 children, mostly few
            let n = if rng.chance(3, 4) { rng.range(1, 3) } else { rng.range(1, 6) } as usize;
            let bodies = (0..n).map(|_| gen_body_structure(rng, cfg, depth + 1)).collect();
            BodyStructure::Multipart {
                common: BodyContentCommon {
                    ty: ContentType {
                        ty: Cow::Borrowed("MULTIPART"),
                        subtype: gen_subtype(rng, cfg),
                        params: if ext.slot0 { gen_body_params(rng, cfg) } else { None },
                    },
                    disposition: ext.disposition,
                    language: ext.language,
                    location: ext.location,
                },
                bodies,
                extension: ext.extension,
            }
        }
    }
}

// ---------------------------------------------------------------------------------------------
// fetch attributes

fn gen_section_text(rng: &mut Rng, with_mime: bool) -> MessageSection {
    match rng.below(if with_mime { 3 } else { 2 }) {
        0 => MessageSection::Header,
        1 => MessageSection::Text,
        _ => MessageSection::Mime,
    }
}

fn gen_body_section(rng: &mut Rng, cfg: &GenCfg, section: Option<SectionPath>) -> AttributeValue<'static> {
    AttributeValue::BodySection {
        section,
        index: if rng.bool() { Some(gen_u32(rng)) } else { None },
        data: opt_bytes(rng, cfg),
    }
}

/// `idx` indexes `ATTR_KINDS`.
pub fn gen_attribute(rng: &mut Rng, cfg: &GenCfg, idx: usize) -> AttributeValue<'static> {
    match ATTR_KINDS[idx] {
        "bodysection_none" => gen_body_section(rng, cfg, None),
        "bodysection_full" => {
            let s = gen_section_text(rng, false);
            gen_body_section(rng, cfg, Some(SectionPath::Full(s)))
        }
        "bodysection_part" => {
            let n = glen(rng, 1, 4);
            let path: Vec<u32> = (0..n).map(|_| if rng.chance(3, 4) { rng.range(1, 9) as u32 } else { gen_u32(rng) }).collect();
            let text = if rng.chance(1, 3) { None } else { Some(gen_section_text(rng, true)) };
            gen_body_section(rng, cfg, Some(SectionPath::Part(path, text)))
        }
        "bodystructure" => AttributeValue::BodyStructure(gen_body_structure(rng, cfg, 0)),
        "envelope" => AttributeValue::Envelope(Box::new(gen_envelope(rng, cfg))),
        "flags" => AttributeValue::Flags(gen_flag_list(rng, cfg)),
        "internaldate" => {
            // RFC 3501 date-time: date-day-fixed "-" date-month "-" date-year SP time SP zone, where
            // date-day-fixed is (SP DIGIT) / 2DIGIT - a stricter parser than the crate's (which keeps
            // any string) must still accept everything this generator sends
            const MONTHS: &[&str] = &["Jan", "Feb", "Mar", "Apr", "May", "Jun", "Jul", "Aug", "Sep", "Oct", "Nov", "Dec"];
            let day = rng.range(1, 28);
            let day_s = if day < 10 { format!(" {}", day) } else { format!("{}", day) };
            let zone = format!("{}{:02}{:02}", if rng.bool() { '+' } else { '-' }, rng.range(0, 13), *rng.pick(&[0u64, 30, 45]));
            let d = format!(
                "{}-{}-{:04} {:02}:{:02}:{:02} {}",
                day_s,
                rng.pick(MONTHS),
                rng.range(1970, 2099),
                rng.range(0, 23),
                rng.range(0, 59),
                rng.range(0, 59),
                zone
            );
            AttributeValue::InternalDate(Cow::Owned(d))
        }
        "modseq" => AttributeValue::ModSeq(gen_u64(rng)),
        "rfc822" => AttributeValue::Rfc822(opt_bytes(rng, cfg)),
        "rfc822header" => AttributeValue::Rfc822Header(opt_bytes(rng, cfg)),
        "rfc822size" => AttributeValue::Rfc822Size(gen_u32(rng)),
        "rfc822text" => AttributeValue::Rfc822Text(opt_bytes(rng, cfg)),
        "uid" => AttributeValue::Uid(gen_u32(rng)),
        "gmaillabels" => AttributeValue::GmailLabels(gen_gmail_labels(rng, cfg)),
        "gmailmsgid" => AttributeValue::GmailMsgId(gen_u64(rng)),
        other => panic!("unknown attribute kind {other}"),
    }
}

// ---------------------------------------------------------------------------------------------
// mailbox data

fn gen_name_attribute(rng: &mut Rng, cfg: &GenCfg) -> NameAttribute<'static> {
    const KNOWN: &[&str] = &[
        "\\Noinferiors", "\\Noselect", "\\Marked", "\\Unmarked", "\\All", "\\Archive", "\\Drafts", "\\Flagged", "\\Junk",
        "\\Sent", "\\Trash",
    ];
    const EXT: &[&str] = &["\\HasChildren", "\\HasNoChildren", "\\Important", "\\Subscribed", "\\NonExistent", "\\X-foo", "\\Al"];
    const PREFIXED: &[&str] = &["\\AllMail", "\\NoselectX", "\\Sentinel", "\\junk2", "\\MARKEDX", "\\Trash-can"];
    match rng.below(16) {
        0 => NameAttribute::NoInferiors,
        1 => NameAttribute::NoSelect,
        2 => NameAttribute::Marked,
        3 => NameAttribute::Unmarked,
        4 => NameAttribute::All,
        5 => NameAttribute::Archive,
        6 => NameAttribute::Drafts,
        7 => NameAttribute::Flagged,
        8 => NameAttribute::Junk,
        9 => NameAttribute::Sent,
        10 => NameAttribute::Trash,
        11 => NameAttribute::Extension(Cow::Borrowed(*rng.pick(PREFIXED))),
        12 | 13 => NameAttribute::Extension(Cow::Borrowed(*rng.pick(EXT))),
        _ => {
            let mut s = format!("\\{}", gen_atom(rng, cfg));
            if KNOWN.iter().any(|k| eq_ci(k, &s)) {
                s.push('X');
            }
            NameAttribute::Extension(cow_str(s))
        }
    }
}

fn is_selectability_flag(a: &NameAttribute<'_>) -> bool {
    matches!(a, NameAttribute::NoSelect | NameAttribute::Marked | NameAttribute::Unmarked)
}

fn gen_status_attribute(rng: &mut Rng) -> StatusAttribute {
    match rng.below(6) {
        0 => StatusAttribute::HighestModSeq(gen_u64(rng)),
        1 => StatusAttribute::Messages(gen_u32(rng)),
        2 => StatusAttribute::Recent(gen_u32(rng)),
        3 => StatusAttribute::UidNext(gen_u32(rng)),
        4 => StatusAttribute::UidValidity(gen_u32(rng)),
        _ => StatusAttribute::Unseen(gen_u32(rng)),
    }
}

/// RFC 5464 entry name as accepted by the crate.
fn gen_entry_name(rng: &mut Rng, cfg: &GenCfg) -> String {
    const COMPONENT_ODD: &[u8] = b" !\"#$&'()+,-.:;<=>?@[\\]^_`{|}~";
    let mut s = String::new();
    let shared = rng.bool();
    s.push_str(if shared { "/shared" } else { "/private" });
    let atomish = rng.chance(4, 5);
    let component = |rng: &mut Rng| -> String {
        let len = slen(rng, cfg.max_str);
        (0..len)
            .map(|_| {
                if atomish || rng.chance(2, 3) {
                    *rng.pick(b"abcdefghijklmnopqrstuvwxyzABCDEFGHIJKLMNOPQRSTUVWXYZ0123456789-_.") as char
                } else {
                    *rng.pick(COMPONENT_ODD) as char
                }
            })
            .collect()
    };
    match rng.below(if shared { 3 } else { 2 }) {
        0 => s.push_str("/comment"),
        1 => {
            s.push_str("/vendor/");
            let name = if rng.bool() { "cmu".to_string() } else { component(rng) };
            s.push_str(&name);
        }
        _ => s.push_str("/admin"),
    }
    let extra = if rng.chance(1, 2) { 0 } else { rng.range(1, 3) };
    for _ in 0..extra {
        s.push('/');
        let c = component(rng);
        s.push_str(&c);
    }
    s
}

// ---------------------------------------------------------------------------------------------
// quota, acl

fn gen_quota_resource(rng: &mut Rng, cfg: &GenCfg) -> QuotaResource<'static> {
    const PREFIXED: &[&str] = &["MESSAGES", "STORAGEX", "storage2", "Message-count"];
    const OTHER: &[&str] = &["X-FILES", "MAILBOX", "ANNOTATION-STORAGE", "STORAG", "MESSAG", "NIL"];
    let name = match rng.below(10) {
        0..=2 => QuotaResourceName::Storage,
        3..=5 => QuotaResourceName::Message,
        6 => QuotaResourceName::Atom(Cow::Borrowed(*rng.pick(PREFIXED))),
        7 | 8 => QuotaResourceName::Atom(Cow::Borrowed(*rng.pick(OTHER))),
        _ => {
            let mut a = gen_atom(rng, cfg);
            if eq_ci(&a, "STORAGE") || eq_ci(&a, "MESSAGE") {
                a.insert(0, 'X');
            }
            QuotaResourceName::Atom(cow_str(a))
        }
    };
    QuotaResource { name, usage: gen_u64(rng), limit: gen_u64(rng) }
}

const KNOWN_RIGHTS: &[u8] = b"lrswipkxteancd";

fn gen_right(rng: &mut Rng) -> AclRight {
    if rng.chance(5, 6) {
        return AclRight::from(*rng.pick(KNOWN_RIGHTS) as char);
    }
    let c: char = match rng.below(20) {
        0 => *rng.pick(&['é', 'ü', '日', '😀']),
        1 => *rng.pick(&[' ', '(', ')', '{', '%', '*']),
        2 => *rng.pick(&['"', '\\', '\r', '\n']),
        _ => {
            let all: Vec<u8> = (0u8..=0x7f).filter(|c| is_astring_char(*c) && !KNOWN_RIGHTS.contains(c)).collect();
            *rng.pick(&all) as char
        }
    };
    AclRight::Custom(c)
}

/// A rights string; empty only rarely (it then needs the quoted or literal form).
fn gen_rights(rng: &mut Rng, may_be_empty: bool) -> Vec<AclRight> {
    if may_be_empty && rng.chance(1, 25) {
        return Vec::new();
    }
    let n = glen(rng, 1, 8);
    (0..n).map(|_| gen_right(rng)).collect()
}

fn gen_identifier(rng: &mut Rng, cfg: &GenCfg) -> Cow<'static, str> {
    const IDS: &[&str] = &["Fred", "-Fred", "anyone", "$group", "user@example.com", "John Doe"];
    if rng.bool() {
        Cow::Borrowed(*rng.pick(IDS))
    } else {
        cow_str(gen_utf8(rng, cfg))
    }
}

// ---------------------------------------------------------------------------------------------
// responses

fn kind_index(list: &[&str], name: &str) -> usize {
    list.iter().position(|k| *k == name).unwrap_or_else(|| panic!("no sub-kind {name}"))
}

pub fn gen_response_kind(rng: &mut Rng, cfg: &GenCfg, kind: usize) -> Response<'static> {
    crate::srcdict::reset_large();
    let name = KINDS[kind];
    if let Some(code) = name.strip_prefix("data_code_") {
        let idx = kind_index(CODE_KINDS, code);
        return Response::Data {
            status: gen_status(rng),
            code: gen_code(rng, cfg, idx),
            information: gen_information(rng, cfg, false),
        };
    }
    if name == "fetch_mixed" {
        let n = glen(rng, 1, 6);
        let attrs = (0..n)
            .map(|_| {
                let idx = rng.usize(ATTR_KINDS.len());
                gen_attribute(rng, cfg, idx)
            })
            .collect();
        return Response::Fetch(gen_u32(rng), attrs);
    }
    if let Some(attr) = name.strip_prefix("fetch_") {
        let idx = kind_index(ATTR_KINDS, attr);
        return Response::Fetch(gen_u32(rng), vec![gen_attribute(rng, cfg, idx)]);
    }
    match name {
        "capabilities" => Response::Capabilities(gen_capabilities(rng, cfg)),
        "continue" => {
            let idx = rng.usize(CODE_KINDS.len());
            Response::Continue { code: gen_code(rng, cfg, idx), information: gen_information(rng, cfg, true) }
        }
        "done" => {
            let idx = rng.usize(CODE_KINDS.len());
            Response::Done {
                tag: gen_tag(rng, cfg),
                status: gen_status(rng),
                code: gen_code(rng, cfg, idx),
                information: gen_information(rng, cfg, false),
            }
        }
        "expunge" => Response::Expunge(gen_u32(rng)),
        "vanished" => {
            let n = glen(rng, 1, 6);
            let uids = (0..n)
                .map(|_| {
                    // a range value is a set: it is kept normalised (low..=high); the printer may spell
                    // it in either order
                    let a = gen_u32(rng);
                    if rng.chance(1, 3) {
                        a..=a
                    } else {
                        let b = gen_u32(rng);
                        std::cmp::min(a, b)..=std::cmp::max(a, b)
                    }
                })
                .collect();
            Response::Vanished { earlier: rng.bool(), uids }
        }
        "mailbox_exists" => Response::MailboxData(MailboxDatum::Exists(gen_u32(rng))),
        "mailbox_recent" => Response::MailboxData(MailboxDatum::Recent(gen_u32(rng))),
        "mailbox_flags" => Response::MailboxData(MailboxDatum::Flags(gen_flag_list(rng, cfg))),
        "mailbox_list" => {
            let n = rng.len(0, 5);
            let mut name_attributes: Vec<NameAttribute<'static>> = Vec::new();
            for _ in 0..n {
                let a = gen_name_attribute(rng, cfg);
                // mbx-list-flags allows at most one of \Noselect / \Marked / \Unmarked
                if is_selectability_flag(&a) && name_attributes.iter().any(is_selectability_flag) {
                    continue;
                }
                name_attributes.push(a);
            }
            let delimiter = match rng.below(5) {
                0 => None,
                1 | 2 => Some(Cow::Borrowed("/")),
                3 => Some(Cow::Borrowed(".")),
                _ => {
                    // a single QUOTED-CHAR that needs no escape
                    let mut c = rng.range(0x01, 0x7f) as u8;
                    if matches!(c, b'"' | b'\\' | b'\r' | b'\n') {
                        c = b'|';
                    }
                    Some(cow_str((c as char).to_string()))
                }
            };
            let name = if rng.chance(1, 5) {
                let d: Option<String> = delimiter.as_ref().map(|d| d.to_string());
                gen_inbox_relative(rng, cfg, d.as_deref())
            } else {
                gen_mailbox(rng, cfg)
            };
            Response::MailboxData(MailboxDatum::List { name_attributes, delimiter, name })
        }
        "mailbox_search" | "mailbox_sort" => {
            let n = if rng.chance(1, 6) { 0 } else { rng.range(1, 8) as usize };
            let v: Vec<u32> = (0..n).map(|_| gen_u32(rng)).collect();
            Response::MailboxData(if name == "mailbox_search" { MailboxDatum::Search(v) } else { MailboxDatum::Sort(v) })
        }
        "mailbox_status" => {
            // the empty list is a tolerated deviation, keep it rare
            let n = if rng.chance(1, 20) { 0 } else { rng.range(1, 6) as usize };
            Response::MailboxData(MailboxDatum::Status {
                mailbox: gen_mailbox(rng, cfg),
                status: (0..n).map(|_| gen_status_attribute(rng)).collect(),
            })
        }
        "mailbox_metadata_solicited" => {
            let n = glen(rng, 1, 4);
            Response::MailboxData(MailboxDatum::MetadataSolicited {
                mailbox: gen_mailbox(rng, cfg),
                values: (0..n)
                    .map(|_| Metadata {
                        entry: gen_entry_name(rng, cfg),
                        value: if rng.chance(1, 4) { None } else { Some(gen_utf8(rng, cfg)) },
                    })
                    .collect(),
            })
        }
        "mailbox_metadata_unsolicited" => {
            let n = glen(rng, 1, 4);
            Response::MailboxData(MailboxDatum::MetadataUnsolicited {
                mailbox: gen_mailbox(rng, cfg),
                values: (0..n).map(|_| cow_str(gen_entry_name(rng, cfg))).collect(),
            })
        }
        "mailbox_gmaillabels" => Response::MailboxData(MailboxDatum::GmailLabels(gen_gmail_labels(rng, cfg))),
        "mailbox_gmailmsgid" => Response::MailboxData(MailboxDatum::GmailMsgId(gen_u64(rng))),
        "quota" => {
            let n = rng.len(0, 4);
            Response::Quota(Quota {
                root_name: if rng.chance(1, 3) { Cow::Borrowed("") } else { cow_str(gen_utf8(rng, cfg)) },
                resources: (0..n).map(|_| gen_quota_resource(rng, cfg)).collect(),
            })
        }
        "quotaroot" => {
            let n = rng.len(0, 3);
            Response::QuotaRoot(QuotaRoot {
                mailbox_name: gen_mailbox(rng, cfg),
                quota_root_names: (0..n)
                    .map(|_| if rng.chance(1, 3) { Cow::Borrowed("") } else { cow_str(gen_utf8(rng, cfg)) })
                    .collect(),
            })
        }
        "id_nil" => Response::Id(None),
        "id_map" => {
            const KEYS: &[&str] = &["name", "version", "os", "os-version", "vendor", "support-url", "NIL", ""];
            let n = glen(rng, 1, 5);
            let mut m: HashMap<Cow<'static, str>, Cow<'static, str>> = HashMap::new();
            let mut tries = 0;
            while m.len() < n && tries < 50 {
                tries += 1;
                // RFC 2971 section 3.3: field names are at most 30 octets, values at most 1024
                let clamp = |mut t: String, max: usize| {
                    while RFC_LIMITS.load(std::sync::atomic::Ordering::Relaxed) && t.len() > max {
                        t.pop();
                    }
                    t
                };
                let k = if rng.bool() { Cow::Borrowed(*rng.pick(KEYS)) } else { cow_str(clamp(gen_utf8(rng, cfg), 30)) };
                let v = cow_str(clamp(gen_utf8(rng, cfg), 1024));
                m.entry(k).or_insert(v);
            }
            Response::Id(Some(m))
        }
        "acl" => {
            let n = rng.len(0, 4);
            Response::Acl(Acl {
                mailbox: gen_mailbox(rng, cfg),
                acls: (0..n)
                    .map(|_| AclEntry { identifier: gen_identifier(rng, cfg), rights: gen_rights(rng, true) })
                    .collect(),
            })
        }
        "listrights" => {
            let n = rng.len(0, 8);
            Response::ListRights(ListRights {
                mailbox: gen_mailbox(rng, cfg),
                identifier: gen_identifier(rng, cfg),
                required: gen_rights(rng, true),
                optional: (0..n).map(|_| gen_right(rng)).collect(),
            })
        }
        "myrights" => Response::MyRights(MyRights { mailbox: gen_mailbox(rng, cfg), rights: gen_rights(rng, true) }),
        other => panic!("unknown kind {other}"),
    }
}

pub fn gen_response(rng: &mut Rng, cfg: &GenCfg) -> Response<'static> {
    let kind = rng.usize(KINDS.len());
    gen_response_kind(rng, cfg, kind)
}
