//! Canonical serialiser of the crate's response types for the line protocol.  Mirrors
//! lean/ImapVerif/Show.lean exactly (the two outputs are compared as strings).  Written field by field
//! with exhaustive destructuring, never `Debug`.
//!
//! Format: `(Ctor arg ...)`, lists `[a b ...]`, `_` = None, `(S v)` = Some, byte strings `x<hex>`,
//! numbers decimal, booleans `T`/`F`.

use crate::prng::hex;
use imap_proto::types::*;
use std::borrow::Cow;

fn sx(name: &str, args: &[String]) -> String {
    let mut s = String::from("(");
    s.push_str(name);
    for a in args {
        s.push(' ');
        s.push_str(a);
    }
    s.push(')');
    s
}

fn lst<T>(xs: &[T], f: impl Fn(&T) -> String) -> String {
    let v: Vec<String> = xs.iter().map(f).collect();
    format!("[{}]", v.join(" "))
}

fn opt<T>(o: &Option<T>, f: impl Fn(&T) -> String) -> String {
    match o {
        None => "_".to_string(),
        Some(v) => sx("S", &[f(v)]),
    }
}

pub fn bs(b: &[u8]) -> String {
    format!("x{}", hex(b))
}
thread_local! {
    /// when recording: (address, length, is `Cow::Borrowed`) of every string leaf serialised
    static LEAVES: std::cell::RefCell<Option<Vec<(usize, usize, bool)>>> = std::cell::RefCell::new(None);
}
/// start recording the string leaves visited by the serialiser on this thread (C07: where does the
/// parsed view point?)
pub fn record_start() {
    LEAVES.with(|l| *l.borrow_mut() = Some(vec![]));
}
pub fn record_take() -> Vec<(usize, usize, bool)> {
    LEAVES.with(|l| l.borrow_mut().take().unwrap_or_default())
}
fn leaf(ptr: *const u8, len: usize, borrowed: bool) {
    LEAVES.with(|l| {
        if let Some(v) = l.borrow_mut().as_mut() {
            v.push((ptr as usize, len, borrowed));
        }
    });
}
fn st(s: &Cow<str>) -> String {
    leaf(s.as_ptr(), s.len(), matches!(s, Cow::Borrowed(_)));
    bs(s.as_bytes())
}
fn by(s: &Cow<[u8]>) -> String {
    leaf(s.as_ptr(), s.len(), matches!(s, Cow::Borrowed(_)));
    bs(s)
}
fn nat<T: std::fmt::Display>(n: T) -> String {
    n.to_string()
}

pub fn status(s: &Status) -> String {
    match s {
        Status::Ok => "Ok",
        Status::No => "No",
        Status::Bad => "Bad",
        Status::PreAuth => "PreAuth",
        Status::Bye => "Bye",
    }
    .to_string()
}

pub fn capability(c: &Capability) -> String {
    match c {
        Capability::Imap4rev1 => "Imap4rev1".to_string(),
        Capability::Auth(s) => sx("Auth", &[st(s)]),
        Capability::Atom(s) => sx("Atom", &[st(s)]),
    }
}

pub fn uid_set_member(m: &UidSetMember) -> String {
    match m {
        UidSetMember::UidRange(r) => sx("UidRange", &[nat(r.start()), nat(r.end())]),
        UidSetMember::Uid(n) => sx("Uid", &[nat(n)]),
    }
}

pub fn response_code(c: &ResponseCode) -> String {
    match c {
        ResponseCode::Alert => "Alert".to_string(),
        ResponseCode::BadCharset(v) => sx("BadCharset", &[opt(v, |l| lst(l, st))]),
        ResponseCode::Capabilities(v) => sx("Capabilities", &[lst(v, capability)]),
        ResponseCode::HighestModSeq(n) => sx("HighestModSeq", &[nat(n)]),
        ResponseCode::Parse => "Parse".to_string(),
        ResponseCode::PermanentFlags(v) => sx("PermanentFlags", &[lst(v, st)]),
        ResponseCode::ReadOnly => "ReadOnly".to_string(),
        ResponseCode::ReadWrite => "ReadWrite".to_string(),
        ResponseCode::TryCreate => "TryCreate".to_string(),
        ResponseCode::UidNext(n) => sx("UidNext", &[nat(n)]),
        ResponseCode::UidValidity(n) => sx("UidValidity", &[nat(n)]),
        ResponseCode::Unseen(n) => sx("Unseen", &[nat(n)]),
        ResponseCode::AppendUid(n, u) => sx("AppendUid", &[nat(n), lst(u, uid_set_member)]),
        ResponseCode::CopyUid(n, a, b) => sx(
            "CopyUid",
            &[nat(n), lst(a, uid_set_member), lst(b, uid_set_member)],
        ),
        ResponseCode::UidNotSticky => "UidNotSticky".to_string(),
        ResponseCode::MetadataLongEntries(n) => sx("MetadataLongEntries", &[nat(n)]),
        ResponseCode::MetadataMaxSize(n) => sx("MetadataMaxSize", &[nat(n)]),
        ResponseCode::MetadataTooMany => "MetadataTooMany".to_string(),
        ResponseCode::MetadataNoPrivate => "MetadataNoPrivate".to_string(),
        _ => "UNKNOWN-ResponseCode".to_string(),
    }
}

pub fn status_attribute(a: &StatusAttribute) -> String {
    match a {
        StatusAttribute::HighestModSeq(n) => sx("HighestModSeq", &[nat(n)]),
        StatusAttribute::Messages(n) => sx("Messages", &[nat(n)]),
        StatusAttribute::Recent(n) => sx("Recent", &[nat(n)]),
        StatusAttribute::UidNext(n) => sx("UidNext", &[nat(n)]),
        StatusAttribute::UidValidity(n) => sx("UidValidity", &[nat(n)]),
        StatusAttribute::Unseen(n) => sx("Unseen", &[nat(n)]),
        _ => "UNKNOWN-StatusAttribute".to_string(),
    }
}

pub fn metadata(m: &Metadata) -> String {
    let Metadata { entry, value } = m;
    sx(
        "Metadata",
        &[bs(entry.as_bytes()), opt(value, |v| bs(v.as_bytes()))],
    )
}

pub fn name_attribute(a: &NameAttribute) -> String {
    match a {
        NameAttribute::NoInferiors => "NoInferiors".to_string(),
        NameAttribute::NoSelect => "NoSelect".to_string(),
        NameAttribute::Marked => "Marked".to_string(),
        NameAttribute::Unmarked => "Unmarked".to_string(),
        NameAttribute::All => "All".to_string(),
        NameAttribute::Archive => "Archive".to_string(),
        NameAttribute::Drafts => "Drafts".to_string(),
        NameAttribute::Flagged => "Flagged".to_string(),
        NameAttribute::Junk => "Junk".to_string(),
        NameAttribute::Sent => "Sent".to_string(),
        NameAttribute::Trash => "Trash".to_string(),
        NameAttribute::Extension(s) => sx("Extension", &[st(s)]),
        _ => "UNKNOWN-NameAttribute".to_string(),
    }
}

pub fn mailbox_datum(d: &MailboxDatum) -> String {
    match d {
        MailboxDatum::Exists(n) => sx("Exists", &[nat(n)]),
        MailboxDatum::Flags(v) => sx("Flags", &[lst(v, st)]),
        MailboxDatum::List {
            name_attributes,
            delimiter,
            name,
        } => sx(
            "List",
            &[lst(name_attributes, name_attribute), opt(delimiter, st), st(name)],
        ),
        MailboxDatum::Search(v) => sx("Search", &[lst(v, |n| nat(n))]),
        MailboxDatum::Sort(v) => sx("Sort", &[lst(v, |n| nat(n))]),
        MailboxDatum::Status { mailbox, status } => {
            sx("Status", &[st(mailbox), lst(status, status_attribute)])
        }
        MailboxDatum::Recent(n) => sx("Recent", &[nat(n)]),
        MailboxDatum::MetadataSolicited { mailbox, values } => {
            sx("MetadataSolicited", &[st(mailbox), lst(values, metadata)])
        }
        MailboxDatum::MetadataUnsolicited { mailbox, values } => {
            sx("MetadataUnsolicited", &[st(mailbox), lst(values, st)])
        }
        MailboxDatum::GmailLabels(v) => sx("GmailLabels", &[lst(v, st)]),
        MailboxDatum::GmailMsgId(n) => sx("GmailMsgId", &[nat(n)]),
        _ => "UNKNOWN-MailboxDatum".to_string(),
    }
}

pub fn message_section(s: &MessageSection) -> String {
    match s {
        MessageSection::Header => "Header",
        MessageSection::Mime => "Mime",
        MessageSection::Text => "Text",
    }
    .to_string()
}

pub fn section_path(p: &SectionPath) -> String {
    match p {
        SectionPath::Full(s) => sx("Full", &[message_section(s)]),
        SectionPath::Part(p, s) => sx("Part", &[lst(p, |n| nat(n)), opt(s, message_section)]),
    }
}

pub fn address(a: &Address) -> String {
    let Address {
        name,
        adl,
        mailbox,
        host,
    } = a;
    sx(
        "Address",
        &[opt(name, by), opt(adl, by), opt(mailbox, by), opt(host, by)],
    )
}

fn addresses(v: &Option<Vec<Address>>) -> String {
    opt(v, |l| lst(l, address))
}

pub fn envelope(e: &Envelope) -> String {
    let Envelope {
        date,
        subject,
        from,
        sender,
        reply_to,
        to,
        cc,
        bcc,
        in_reply_to,
        message_id,
    } = e;
    sx(
        "Envelope",
        &[
            opt(date, by),
            opt(subject, by),
            addresses(from),
            addresses(sender),
            addresses(reply_to),
            addresses(to),
            addresses(cc),
            addresses(bcc),
            opt(in_reply_to, by),
            opt(message_id, by),
        ],
    )
}

pub fn body_params(p: &BodyParams) -> String {
    opt(p, |l| lst(l, |kv| sx("P", &[st(&kv.0), st(&kv.1)])))
}

pub fn content_type(t: &ContentType) -> String {
    let ContentType {
        ty,
        subtype,
        params,
    } = t;
    sx("ContentType", &[st(ty), st(subtype), body_params(params)])
}

pub fn content_disposition(d: &ContentDisposition) -> String {
    let ContentDisposition { ty, params } = d;
    sx("Disposition", &[st(ty), body_params(params)])
}

pub fn content_encoding(e: &ContentEncoding) -> String {
    match e {
        ContentEncoding::SevenBit => "SevenBit".to_string(),
        ContentEncoding::EightBit => "EightBit".to_string(),
        ContentEncoding::Binary => "Binary".to_string(),
        ContentEncoding::Base64 => "Base64".to_string(),
        ContentEncoding::QuotedPrintable => "QuotedPrintable".to_string(),
        ContentEncoding::Other(s) => sx("Other", &[st(s)]),
    }
}

pub fn common(c: &BodyContentCommon) -> String {
    let BodyContentCommon {
        ty,
        disposition,
        language,
        location,
    } = c;
    sx(
        "Common",
        &[
            content_type(ty),
            opt(disposition, content_disposition),
            opt(language, |l| lst(l, st)),
            opt(location, st),
        ],
    )
}

pub fn single(o: &BodyContentSinglePart) -> String {
    let BodyContentSinglePart {
        id,
        md5,
        description,
        transfer_encoding,
        octets,
    } = o;
    sx(
        "Single",
        &[
            opt(id, st),
            opt(md5, st),
            opt(description, st),
            content_encoding(transfer_encoding),
            nat(octets),
        ],
    )
}

pub fn body_extension(e: &BodyExtension) -> String {
    match e {
        BodyExtension::Num(n) => sx("Num", &[nat(n)]),
        BodyExtension::Str(s) => sx("Str", &[opt(s, st)]),
        BodyExtension::List(v) => sx("List", &[lst(v, body_extension)]),
    }
}

pub fn body_structure(b: &BodyStructure) -> String {
    match b {
        BodyStructure::Basic {
            common: c,
            other,
            extension,
        } => sx(
            "Basic",
            &[common(c), single(other), opt(extension, body_extension)],
        ),
        BodyStructure::Text {
            common: c,
            other,
            lines,
            extension,
        } => sx(
            "Text",
            &[
                common(c),
                single(other),
                nat(lines),
                opt(extension, body_extension),
            ],
        ),
        BodyStructure::Message {
            common: c,
            other,
            envelope: env,
            body,
            lines,
            extension,
        } => sx(
            "Message",
            &[
                common(c),
                single(other),
                envelope(env),
                body_structure(body),
                nat(lines),
                opt(extension, body_extension),
            ],
        ),
        BodyStructure::Multipart {
            common: c,
            bodies,
            extension,
        } => sx(
            "Multipart",
            &[
                common(c),
                lst(bodies, body_structure),
                opt(extension, body_extension),
            ],
        ),
    }
}

pub fn attribute_value(a: &AttributeValue) -> String {
    match a {
        AttributeValue::BodySection {
            section,
            index,
            data,
        } => sx(
            "BodySection",
            &[opt(section, section_path), opt(index, |n| nat(n)), opt(data, by)],
        ),
        AttributeValue::BodyStructure(b) => sx("BodyStructure", &[body_structure(b)]),
        AttributeValue::Envelope(e) => envelope(e),
        AttributeValue::Flags(v) => sx("Flags", &[lst(v, st)]),
        AttributeValue::InternalDate(s) => sx("InternalDate", &[st(s)]),
        AttributeValue::ModSeq(n) => sx("ModSeq", &[nat(n)]),
        AttributeValue::Rfc822(v) => sx("Rfc822", &[opt(v, by)]),
        AttributeValue::Rfc822Header(v) => sx("Rfc822Header", &[opt(v, by)]),
        AttributeValue::Rfc822Size(n) => sx("Rfc822Size", &[nat(n)]),
        AttributeValue::Rfc822Text(v) => sx("Rfc822Text", &[opt(v, by)]),
        AttributeValue::Uid(n) => sx("Uid", &[nat(n)]),
        AttributeValue::GmailLabels(v) => sx("GmailLabels", &[lst(v, st)]),
        AttributeValue::GmailMsgId(n) => sx("GmailMsgId", &[nat(n)]),
        _ => "UNKNOWN-AttributeValue".to_string(),
    }
}

pub fn acl_right(r: &AclRight) -> String {
    match r {
        AclRight::Lookup => "l".to_string(),
        AclRight::Read => "r".to_string(),
        AclRight::Seen => "s".to_string(),
        AclRight::Write => "w".to_string(),
        AclRight::Insert => "i".to_string(),
        AclRight::Post => "p".to_string(),
        AclRight::CreateMailbox => "k".to_string(),
        AclRight::DeleteMailbox => "x".to_string(),
        AclRight::DeleteMessage => "t".to_string(),
        AclRight::Expunge => "e".to_string(),
        AclRight::Administer => "a".to_string(),
        AclRight::Annotation => "n".to_string(),
        AclRight::OldCreate => "c".to_string(),
        AclRight::OldDelete => "d".to_string(),
        AclRight::Custom(c) => sx("Custom", &[nat(*c as u32)]),
    }
}

pub fn acl_entry(e: &AclEntry) -> String {
    let AclEntry { identifier, rights } = e;
    sx("AclEntry", &[st(identifier), lst(rights, acl_right)])
}

pub fn quota_resource_name(n: &QuotaResourceName) -> String {
    match n {
        QuotaResourceName::Storage => "Storage".to_string(),
        QuotaResourceName::Message => "Message".to_string(),
        QuotaResourceName::Atom(s) => sx("Atom", &[st(s)]),
    }
}

pub fn quota_resource(r: &QuotaResource) -> String {
    let QuotaResource { name, usage, limit } = r;
    sx(
        "Resource",
        &[quota_resource_name(name), nat(usage), nat(limit)],
    )
}

pub fn response(r: &Response) -> String {
    match r {
        Response::Capabilities(v) => sx("Capabilities", &[lst(v, capability)]),
        Response::Continue { code, information } => sx(
            "Continue",
            &[opt(code, response_code), opt(information, st)],
        ),
        Response::Done {
            tag,
            status: s,
            code,
            information,
        } => sx(
            "Done",
            &[
                bs(tag.0.as_bytes()),
                status(s),
                opt(code, response_code),
                opt(information, st),
            ],
        ),
        Response::Data {
            status: s,
            code,
            information,
        } => sx(
            "Data",
            &[status(s), opt(code, response_code), opt(information, st)],
        ),
        Response::Expunge(n) => sx("Expunge", &[nat(n)]),
        Response::Vanished { earlier, uids } => sx(
            "Vanished",
            &[
                if *earlier { "T" } else { "F" }.to_string(),
                lst(uids, |r| sx("R", &[nat(r.start()), nat(r.end())])),
            ],
        ),
        Response::Fetch(n, a) => sx("Fetch", &[nat(n), lst(a, attribute_value)]),
        Response::MailboxData(d) => sx("MailboxData", &[mailbox_datum(d)]),
        Response::Quota(q) => {
            let Quota {
                root_name,
                resources,
            } = q;
            sx("Quota", &[st(root_name), lst(resources, quota_resource)])
        }
        Response::QuotaRoot(q) => {
            let QuotaRoot {
                mailbox_name,
                quota_root_names,
            } = q;
            sx("QuotaRoot", &[st(mailbox_name), lst(quota_root_names, st)])
        }
        Response::Id(m) => sx(
            "Id",
            &[opt(m, |m| {
                for (k, v) in m.iter() {
                    leaf(k.as_ptr(), k.len(), matches!(k, Cow::Borrowed(_)));
                    leaf(v.as_ptr(), v.len(), matches!(v, Cow::Borrowed(_)));
                }
                let mut kv: Vec<(&[u8], &[u8])> =
                    m.iter().map(|(k, v)| (k.as_bytes(), v.as_bytes())).collect();
                kv.sort();
                lst(&kv, |(k, v)| sx("KV", &[bs(k), bs(v)]))
            })],
        ),
        Response::Acl(a) => {
            let Acl { mailbox, acls } = a;
            sx("Acl", &[st(mailbox), lst(acls, acl_entry)])
        }
        Response::ListRights(r) => {
            let ListRights {
                mailbox,
                identifier,
                required,
                optional,
            } = r;
            sx(
                "ListRights",
                &[
                    st(mailbox),
                    st(identifier),
                    lst(required, acl_right),
                    lst(optional, acl_right),
                ],
            )
        }
        Response::MyRights(r) => {
            let MyRights { mailbox, rights } = r;
            sx("MyRights", &[st(mailbox), lst(rights, acl_right)])
        }
        _ => "UNKNOWN-Response".to_string(),
    }
}
