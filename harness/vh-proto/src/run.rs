//! Shared run-time pieces of the harness binaries: the model driver process, the case log
//! (correspondence + oracle bookkeeping, kept strictly apart), JSON output without external crates.

use std::collections::{BTreeMap, HashSet};
use std::io::{BufRead, BufReader, Write};
use std::process::{Child, ChildStdin, ChildStdout, Command, Stdio};

/// The compiled Lean driver (`imapmodel`), one request per line, one reply per line.
pub struct Model {
    child: Child,
    stdin: Option<ChildStdin>,
    stdout: BufReader<ChildStdout>,
}

impl Model {
    pub fn spawn(path: &str) -> std::io::Result<Model> {
        let mut child = Command::new(path)
            .stdin(Stdio::piped())
            .stdout(Stdio::piped())
            .stderr(Stdio::inherit())
            .spawn()?;
        let stdin = child.stdin.take();
        let stdout = BufReader::with_capacity(1 << 20, child.stdout.take().unwrap());
        Ok(Model {
            child,
            stdin,
            stdout,
        })
    }

    /// Send all `ops` and collect one reply line per op.  A writer thread feeds the driver while this
    /// thread reads, so neither pipe can fill up.
    pub fn eval_batch(&mut self, ops: &[String]) -> Vec<String> {
        let mut stdin = self.stdin.take().expect("model stdin");
        let mut replies = Vec::with_capacity(ops.len());
        std::thread::scope(|s| {
            let h = s.spawn(move || {
                for op in ops {
                    let _ = stdin.write_all(op.as_bytes());
                    let _ = stdin.write_all(b"\n");
                }
                let _ = stdin.flush();
                stdin
            });
            for _ in 0..ops.len() {
                let mut line = String::new();
                match self.stdout.read_line(&mut line) {
                    Ok(0) | Err(_) => {
                        replies.push("MODEL-DIED".to_string());
                    }
                    Ok(_) => {
                        while line.ends_with('\n') || line.ends_with('\r') {
                            line.pop();
                        }
                        replies.push(line);
                    }
                }
            }
            self.stdin = Some(h.join().unwrap());
        });
        replies
    }
}

impl Drop for Model {
    fn drop(&mut self) {
        drop(self.stdin.take());
        let _ = self.child.wait();
    }
}

pub fn json_str(s: &str) -> String {
    let mut o = String::with_capacity(s.len() + 2);
    o.push('"');
    for c in s.chars() {
        match c {
            '"' => o.push_str("\\\""),
            '\\' => o.push_str("\\\\"),
            '\n' => o.push_str("\\n"),
            '\r' => o.push_str("\\r"),
            '\t' => o.push_str("\\t"),
            c if (c as u32) < 0x20 => o.push_str(&format!("\\u{:04x}", c as u32)),
            c => o.push(c),
        }
    }
    o.push('"');
    o
}

/// printable rendering of a byte string for humans (evidence samples, replay files)
pub fn show_bytes(b: &[u8]) -> String {
    let mut s = String::new();
    for &c in b.iter().take(400) {
        match c {
            b'\r' => s.push_str("\\r"),
            b'\n' => s.push_str("\\n"),
            b'\\' => s.push_str("\\\\"),
            0x20..=0x7e => s.push(c as char),
            _ => s.push_str(&format!("\\x{:02x}", c)),
        }
    }
    if b.len() > 400 {
        s.push_str(&format!("...(+{} bytes)", b.len() - 400));
    }
    s
}

#[derive(Clone, Debug)]
pub struct Disagreement {
    pub op: String,
    pub imp: String,
    pub model: String,
    pub note: String,
}

#[derive(Clone, Debug)]
pub struct OracleFailure {
    /// short class, e.g. "panic", "verdict-changed", "stalled"
    pub class: String,
    /// human description
    pub what: String,
    /// replayable op line(s)
    pub ops: Vec<String>,
    /// known-finding id if attributed (repair-and-retest passed), else empty
    pub known: String,
}

/// Everything one run of one property check measured.
#[derive(Default)]
pub struct Log {
    pub evaluations: u64,
    pub nontrivial: HashSet<u64>,
    pub distribution: BTreeMap<String, u64>,
    pub samples: Vec<String>,
    pub disagreements: Vec<Disagreement>,
    pub n_disagreements: u64,
    pub oracle_failures: Vec<OracleFailure>,
    pub n_oracle_failures: u64,
    pub compared: u64,
    pub exhaustive: Vec<String>,
    pub notes: Vec<String>,
}

pub fn fnv(s: &[u8]) -> u64 {
    let mut h: u64 = 0xcbf29ce484222325;
    for &b in s {
        h ^= b as u64;
        h = h.wrapping_mul(0x100000001b3);
    }
    h
}

impl Log {
    pub fn count(&mut self, key: &str) {
        *self.distribution.entry(key.to_string()).or_insert(0) += 1;
    }
    pub fn count_n(&mut self, key: &str, n: u64) {
        *self.distribution.entry(key.to_string()).or_insert(0) += n;
    }
    pub fn nontrivial(&mut self, op: &str) {
        self.nontrivial.insert(fnv(op.as_bytes()));
    }
    pub fn sample(&mut self, s: String) {
        if self.samples.len() < 12 {
            self.samples.push(s);
        }
    }
    pub fn disagree(&mut self, d: Disagreement) {
        self.n_disagreements += 1;
        if self.disagreements.len() < 50 {
            self.disagreements.push(d);
        }
    }
    pub fn oracle_fail(&mut self, f: OracleFailure) {
        self.n_oracle_failures += 1;
        if self.oracle_failures.len() < 200 {
            self.oracle_failures.push(f);
        }
    }
    pub fn merge(&mut self, o: Log) {
        self.evaluations += o.evaluations;
        self.compared += o.compared;
        self.nontrivial.extend(o.nontrivial);
        for (k, v) in o.distribution {
            *self.distribution.entry(k).or_insert(0) += v;
        }
        for s in o.samples {
            self.sample(s);
        }
        self.n_disagreements += o.n_disagreements;
        for d in o.disagreements {
            if self.disagreements.len() < 50 {
                self.disagreements.push(d);
            }
        }
        self.n_oracle_failures += o.n_oracle_failures;
        for f in o.oracle_failures {
            if self.oracle_failures.len() < 200 {
                self.oracle_failures.push(f);
            }
        }
        self.exhaustive.extend(o.exhaustive);
        self.notes.extend(o.notes);
    }

    pub fn to_json(&self, prop: &str, seed: u64, tier: &str, rule: &str) -> String {
        let mut s = String::new();
        s.push_str("{\n");
        s.push_str(&format!(" \"property_id\": {},\n", json_str(prop)));
        s.push_str(&format!(" \"seed\": {},\n \"tier\": {},\n", seed, json_str(tier)));
        s.push_str(&format!(" \"evaluations\": {},\n", self.evaluations));
        s.push_str(&format!(" \"compared_with_model\": {},\n", self.compared));
        s.push_str(&format!(
            " \"distinct_nontrivial\": {},\n",
            self.nontrivial.len()
        ));
        s.push_str(&format!(" \"rule\": {},\n", json_str(rule)));
        s.push_str(" \"samples\": [");
        s.push_str(
            &self
                .samples
                .iter()
                .map(|x| json_str(x))
                .collect::<Vec<_>>()
                .join(", "),
        );
        s.push_str("],\n \"distribution\": {");
        s.push_str(
            &self
                .distribution
                .iter()
                .map(|(k, v)| format!("{}: {}", json_str(k), v))
                .collect::<Vec<_>>()
                .join(", "),
        );
        s.push_str("},\n");
        s.push_str(&format!(
            " \"model_disagreements\": {},\n",
            self.n_disagreements
        ));
        s.push_str(" \"disagreement_list\": [");
        s.push_str(
            &self
                .disagreements
                .iter()
                .map(|d| {
                    format!(
                        "{{\"op\": {}, \"impl\": {}, \"model\": {}, \"note\": {}}}",
                        json_str(&d.op),
                        json_str(&d.imp),
                        json_str(&d.model),
                        json_str(&d.note)
                    )
                })
                .collect::<Vec<_>>()
                .join(",\n  "),
        );
        s.push_str("],\n");
        s.push_str(&format!(
            " \"oracle_failures\": {},\n",
            self.n_oracle_failures
        ));
        s.push_str(" \"oracle_failure_list\": [");
        s.push_str(
            &self
                .oracle_failures
                .iter()
                .map(|f| {
                    format!(
                        "{{\"class\": {}, \"what\": {}, \"known\": {}, \"ops\": [{}]}}",
                        json_str(&f.class),
                        json_str(&f.what),
                        json_str(&f.known),
                        f.ops
                            .iter()
                            .map(|o| json_str(o))
                            .collect::<Vec<_>>()
                            .join(", ")
                    )
                })
                .collect::<Vec<_>>()
                .join(",\n  "),
        );
        s.push_str("],\n \"exhaustive\": [");
        s.push_str(
            &self
                .exhaustive
                .iter()
                .map(|x| json_str(x))
                .collect::<Vec<_>>()
                .join(", "),
        );
        s.push_str("],\n \"notes\": [");
        s.push_str(
            &self
                .notes
                .iter()
                .map(|x| json_str(x))
                .collect::<Vec<_>>()
                .join(", "),
        );
        s.push_str("]\n}\n");
        s
    }
}

/// Simple `--key value` argument access.
pub struct Args(pub Vec<String>);
impl Args {
    pub fn from_env() -> Args {
        Args(std::env::args().skip(1).collect())
    }
    pub fn get(&self, key: &str) -> Option<&str> {
        let k = format!("--{}", key);
        self.0
            .iter()
            .position(|a| *a == k)
            .and_then(|i| self.0.get(i + 1))
            .map(|s| s.as_str())
    }
    pub fn get_or(&self, key: &str, d: &str) -> String {
        self.get(key).unwrap_or(d).to_string()
    }
    pub fn num(&self, key: &str, d: u64) -> u64 {
        self.get(key).and_then(|s| s.parse().ok()).unwrap_or(d)
    }
    pub fn flag(&self, key: &str) -> bool {
        let k = format!("--{}", key);
        self.0.iter().any(|a| *a == k)
    }
}
